(* Proofs about Model/RateLimit.v (C19). *)
From Coq Require Import QArith Qminmax List NArith ZArith Bool Lqa Lia.
From Kyro Require Import Model.RateLimit.
Import ListNotations.
Open Scope Q_scope.

Definition qn (n : nat) : Q := inject_Z (Z.of_nat n).

Lemma qn_S n : qn (S n) == qn n + 1.
Proof.
  unfold qn. rewrite Nat2Z.inj_succ. unfold Z.succ. rewrite inject_Z_plus. reflexivity.
Qed.

Lemma qn_0 : qn 0 == 0.
Proof. reflexivity. Qed.

Lemma qn_nonneg n : 0 <= qn n.
Proof.
  unfold qn. change 0 with (inject_Z 0). rewrite <- Zle_Qle. lia.
Qed.

Lemma qn_le n m : (n <= m)%nat -> qn n <= qn m.
Proof. intro H. unfold qn. rewrite <- Zle_Qle. lia. Qed.

Definition b2n (b : bool) : nat := if b then 1%nat else 0%nat.

(* ---------- association lists ---------- *)

Lemma t_get_set ts t b t' :
  t_get (t_set ts t b) t' = if N.eqb t t' then Some b else t_get ts t'.
Proof.
  induction ts as [|[k b0] r IH]; cbn [t_set t_get].
  - reflexivity.
  - destruct (N.eqb k t) eqn:Hkt; cbn [t_get].
    + apply N.eqb_eq in Hkt. subst k. destruct (N.eqb t t'); reflexivity.
    + rewrite IH. destruct (N.eqb k t') eqn:Hkt'; [|reflexivity].
      apply N.eqb_eq in Hkt'. subst k. rewrite N.eqb_sym, Hkt. reflexivity.
Qed.

Lemma count_set_fresh p cs c st :
  call_get cs c = None ->
  count_calls p (call_set cs c st) = (count_calls p cs + b2n (p st))%nat.
Proof.
  induction cs as [|[k s0] r IH]; cbn [call_get call_set count_calls]; intro H.
  - destruct (p st); reflexivity.
  - destruct (Nat.eqb k c); [discriminate|]. cbn [count_calls].
    rewrite (IH H). destruct (p s0); lia.
Qed.

Lemma count_set_existing p cs c old st :
  call_get cs c = Some old ->
  (count_calls p (call_set cs c st) + b2n (p old) = count_calls p cs + b2n (p st))%nat.
Proof.
  induction cs as [|[k s0] r IH]; cbn [call_get call_set count_calls]; intro H.
  - discriminate.
  - destruct (Nat.eqb k c) eqn:E.
    + inversion H; subst s0. cbn [count_calls]. destruct (p old), (p st); cbn [b2n]; lia.
    + cbn [count_calls]. specialize (IH H). destruct (p s0); lia.
Qed.

(* ---------- single-bucket facts ---------- *)

Definition bucket_ok (b : bucket) (now : Q) : Prop :=
  0 <= b_tokens b /\ b_tokens b <= b_cap b /\ 0 <= b_rate b /\ 0 <= b_last b /\ b_last b <= now.

(* "held" tokens h: tokens + h <= cap + rate * last *)
Definition bucket_bound (b : bucket) (h : Q) : Prop :=
  b_tokens b + h <= b_cap b + b_rate b * b_last b.

Lemma refill_ok b now : bucket_ok b now -> bucket_ok (refill b now) now.
Proof.
  unfold bucket_ok, refill. intros (H0 & H1 & H2 & H3 & H4).
  destruct (Qlt_le_dec 0 (now - b_last b)) as [Hlt|Hle]; cbn [b_tokens b_cap b_rate b_last c_lim c_calls l_now l_tenants l_global].
  - destruct (Q.min_spec (b_tokens b + (now - b_last b) * b_rate b) (b_cap b)) as [[Ha Hb]|[Ha Hb]];
      rewrite Hb; repeat split; try lra.
    assert (0 <= (now - b_last b) * b_rate b) by (apply Qmult_le_0_compat; lra). lra.
  - repeat split; lra.
Qed.

Lemma refill_bound b now h :
  bucket_ok b now -> bucket_bound b h -> bucket_bound (refill b now) h.
Proof.
  unfold bucket_ok, bucket_bound, refill. intros (H0 & H1 & H2 & H3 & H4) Hb.
  destruct (Qlt_le_dec 0 (now - b_last b)) as [Hlt|Hle]; cbn [b_tokens b_cap b_rate b_last]; [|exact Hb].
  assert (Hm : Qmin (b_tokens b + (now - b_last b) * b_rate b) (b_cap b)
               <= b_tokens b + (now - b_last b) * b_rate b) by apply Q.le_min_l.
  lra.
Qed.

Lemma refill_cap b now : b_cap (refill b now) = b_cap b /\ b_rate (refill b now) = b_rate b.
Proof. unfold refill. destruct (Qlt_le_dec 0 (now - b_last b)); cbn [b_tokens b_cap b_rate b_last]; auto. Qed.

Lemma try_consume_ok b now b1 r :
  bucket_ok b now -> try_consume b now = (b1, r) -> bucket_ok b1 now.
Proof.
  intros Hok. unfold try_consume.
  pose proof (refill_ok b now Hok) as Hr.
  destruct (Qle_bool 1 (b_tokens (refill b now))) eqn:E; intro H; inversion H; subst; clear H.
  - apply Qle_bool_iff in E. unfold bucket_ok in *. cbn [b_tokens b_cap b_rate b_last c_lim c_calls l_now l_tenants l_global]. destruct Hr as (A & B & C & D & F).
    repeat split; lra.
  - exact Hr.
Qed.

Lemma try_consume_bound b now b1 r h :
  bucket_ok b now -> bucket_bound b h -> try_consume b now = (b1, r) ->
  bucket_bound b1 (h + qn (b2n r)).
Proof.
  intros Hok Hb. unfold try_consume.
  pose proof (refill_bound b now h Hok Hb) as Hr.
  destruct (Qle_bool 1 (b_tokens (refill b now))) eqn:E; intro H; inversion H; subst; clear H.
  - unfold bucket_bound in *. cbn [b_tokens b_cap b_rate b_last].
    assert (qn (b2n true) == 1) by reflexivity. lra.
  - unfold bucket_bound in *. cbn [b_tokens b_cap b_rate b_last].
    assert (qn (b2n false) == 0) by reflexivity. lra.
Qed.

Lemma try_consume_cap b now b1 r :
  try_consume b now = (b1, r) -> b_cap b1 = b_cap b /\ b_rate b1 = b_rate b.
Proof.
  unfold try_consume. pose proof (refill_cap b now) as [A B].
  destruct (Qle_bool 1 (b_tokens (refill b now))); intro H; inversion H; subst; cbn [b_tokens b_cap b_rate b_last]; auto.
Qed.

Lemma refund_ok b now : bucket_ok b now -> bucket_ok (refund_one b) now.
Proof.
  unfold bucket_ok, refund_one. intros (H0 & H1 & H2 & H3 & H4). cbn [b_tokens b_cap b_rate b_last c_lim c_calls l_now l_tenants l_global].
  destruct (Q.min_spec (b_tokens b + 1) (b_cap b)) as [[Ha Hb]|[Ha Hb]]; rewrite Hb;
    repeat split; lra.
Qed.

Lemma refund_bound b h :
  bucket_bound b (h + 1) -> bucket_bound (refund_one b) h.
Proof.
  unfold bucket_bound, refund_one. cbn [b_tokens b_cap b_rate b_last c_lim c_calls l_now l_tenants l_global]. intro H.
  assert (Qmin (b_tokens b + 1) (b_cap b) <= b_tokens b + 1) by apply Q.le_min_l. lra.
Qed.

Lemma bucket_new_ok qps now : 0 <= now -> bucket_ok (bucket_new qps now) now.
Proof.
  intro H. unfold bucket_ok, bucket_new. cbn [b_tokens b_cap b_rate b_last c_lim c_calls l_now l_tenants l_global].
  assert (0 <= inject_Z (Z.of_N qps)).
  { change 0 with (inject_Z 0). rewrite <- Zle_Qle. lia. }
  repeat split; lra.
Qed.

Lemma bucket_new_bound qps now : 0 <= now -> bucket_bound (bucket_new qps now) 0.
Proof.
  intro H. unfold bucket_bound, bucket_new. cbn [b_tokens b_cap b_rate b_last c_lim c_calls l_now l_tenants l_global].
  assert (0 <= inject_Z (Z.of_N qps)).
  { change 0 with (inject_Z 0). rewrite <- Zle_Qle. lia. }
  assert (0 <= inject_Z (Z.of_N qps) * now) by (apply Qmult_le_0_compat; lra). lra.
Qed.

Lemma bucket_ok_later b now now' : bucket_ok b now -> now <= now' -> bucket_ok b now'.
Proof. unfold bucket_ok. intros (A & B & C & D & E) H. repeat split; lra. Qed.

(* ---------- the invariant of the interleaving semantics ---------- *)

(* calls currently holding a token of tenant t: taken, and not refunded / refused *)
Definition holds_t (t : N) (st : cstatus) : bool :=
  match st with
  | CTenantOk t' | CNeedRefund t' => N.eqb t' t
  | CDone t' r => r && N.eqb t' t
  end.

Definition needs_refund_t (t : N) (st : cstatus) : bool :=
  match st with CNeedRefund t' => N.eqb t' t | _ => false end.

Definition Inv (s : cstate) : Prop :=
  let l := c_lim s in
  0 <= l_now l /\
  (forall t b, t_get (l_tenants l) t = Some b ->
     bucket_ok b (l_now l) /\ bucket_bound b (qn (count_calls (holds_t t) (c_calls s)))) /\
  (forall t, t_get (l_tenants l) t = None -> count_calls (holds_t t) (c_calls s) = 0%nat) /\
  (forall g, l_global l = Some g ->
     bucket_ok g (l_now l) /\ bucket_bound g (qn (count_calls is_admitted_any (c_calls s)))) /\
  (l_global l = None ->
     forall c st, call_get (c_calls s) c = Some st -> exists t r, st = CDone t r).

Lemma inv_init g : Inv (cinit g).
Proof.
  unfold Inv, cinit, limiter_new. cbn [c_lim c_calls l_now l_tenants l_global].
  split; [lra|]. split; [intros t b H; discriminate|]. split; [reflexivity|].
  split; [|intros _ c st H; discriminate].
  intros g0 H. destruct g as [q|]; [|discriminate]. inversion H; subst.
  split; [apply bucket_new_ok; lra|]. change (qn (count_calls is_admitted_any [])) with 0.
  apply bucket_new_bound. lra.
Qed.

Lemma holds_admitted_le t cs :
  (count_calls (is_admitted t) cs <= count_calls (holds_t t) cs)%nat.
Proof.
  induction cs as [|[k st] r IH]; cbn [count_calls]; [lia|].
  destruct st as [t'|t'|t' [|]]; cbn [is_admitted holds_t andb]; try destruct (N.eqb t' t); lia.
Qed.

Lemma call_get_set cs c st c' :
  call_get (call_set cs c st) c' = if Nat.eqb c c' then Some st else call_get cs c'.
Proof.
  induction cs as [|[k s0] r IH]; cbn [call_set call_get].
  - reflexivity.
  - destruct (Nat.eqb k c) eqn:E; cbn [call_get].
    + apply Nat.eqb_eq in E. subst k. destruct (Nat.eqb c c'); reflexivity.
    + rewrite IH. destruct (Nat.eqb k c') eqn:E'; [|reflexivity].
      apply Nat.eqb_eq in E'. subst k. rewrite Nat.eqb_sym, E. reflexivity.
Qed.

Ltac inv_some :=
  match goal with
  | H : Some ?a = Some ?b |- _ => injection H as H; try subst b
  end.

Lemma inv_step s e s' : Inv s -> cstep s e = Some s' -> Inv s'.
Proof.
  intros (Hnow & Hten & Hnone & Hglob & Hnog) Hstep.
  destruct s as [l calls]. destruct l as [now ts g]. cbn [c_lim c_calls l_now l_tenants l_global] in *.
  destruct e as [dt | c t qps | c | c]; cbn [cstep c_lim c_calls l_now l_tenants l_global] in Hstep.
  - (* Tick *)
    destruct (Qle_bool 0 dt) eqn:Edt; [|discriminate]. inv_some.
    apply Qle_bool_iff in Edt.
    unfold Inv; cbn [c_lim c_calls l_now l_tenants l_global].
    split; [lra|]. split; [|split; [exact Hnone|split; [|exact Hnog]]].
    + intros t b H. destruct (Hten t b H) as [A B]. split; [|exact B].
      eapply bucket_ok_later; [exact A|lra].
    + intros g0 H. destruct (Hglob g0 H) as [A B]. split; [|exact B].
      eapply bucket_ok_later; [exact A|lra].
  - (* TTry *)
    destruct (call_get calls c) eqn:Ecall; [discriminate|].
    set (b0 := match t_get ts t with Some b => b | None => bucket_new qps now end) in *.
    destruct (try_consume b0 now) as [b1 ok] eqn:Etry. inv_some.
    assert (Hb0 : bucket_ok b0 now /\ bucket_bound b0 (qn (count_calls (holds_t t) calls))).
    { unfold b0. destruct (t_get ts t) as [b|] eqn:Eg.
      - apply Hten. exact Eg.
      - rewrite (Hnone t Eg). split; [apply bucket_new_ok; exact Hnow|apply bucket_new_bound; exact Hnow]. }
    destruct Hb0 as [Hok0 Hbd0].
    pose proof (try_consume_ok _ _ _ _ Hok0 Etry) as Hok1.
    pose proof (try_consume_bound _ _ _ _ _ Hok0 Hbd0 Etry) as Hbd1.
    set (st := if ok then match g with None => CDone t true | Some _ => CTenantOk t end
               else CDone t false) in *.
    assert (Hst_t : holds_t t st = ok).
    { unfold st. destruct ok; [destruct g|]; cbn [holds_t andb]; rewrite ?N.eqb_refl; reflexivity. }
    assert (Hst_o : forall t', N.eqb t t' = false -> holds_t t' st = false).
    { intros t' Hne. unfold st. destruct ok; [destruct g|]; cbn [holds_t andb]; rewrite ?Hne; reflexivity. }
    unfold Inv; cbn [c_lim c_calls l_now l_tenants l_global].
    split; [exact Hnow|]. split; [|split; [|split]].
    + intros t' b H. rewrite t_get_set in H. destruct (N.eqb t t') eqn:Ett; rewrite ?Ett in H.
      * apply N.eqb_eq in Ett. subst t'. inv_some. split; [exact Hok1|].
        rewrite (count_set_fresh _ _ _ _ Ecall), Hst_t.
        unfold bucket_bound in *.
        assert (qn (count_calls (holds_t t) calls + b2n ok) == qn (count_calls (holds_t t) calls) + qn (b2n ok)).
        { unfold qn. rewrite Nat2Z.inj_add, inject_Z_plus. reflexivity. }
        lra.
      * rewrite (count_set_fresh _ _ _ _ Ecall), (Hst_o t' Ett). cbn [b2n].
        rewrite Nat.add_0_r. apply Hten. exact H.
    + intros t' H. rewrite t_get_set in H. destruct (N.eqb t t') eqn:Ett; rewrite ?Ett in H; [discriminate|].
      rewrite (count_set_fresh _ _ _ _ Ecall), (Hst_o t' Ett). cbn [b2n].
      rewrite Nat.add_0_r. apply Hnone. exact H.
    + intros g0 H. destruct (Hglob g0 H) as [A B]. split; [exact A|].
      rewrite (count_set_fresh _ _ _ _ Ecall).
      assert (is_admitted_any st = false).
      { unfold st. rewrite H. destruct ok; reflexivity. }
      rewrite H0. cbn [b2n]. rewrite Nat.add_0_r. exact B.
    + intros Hg c' st' H. rewrite call_get_set in H. destruct (Nat.eqb c c') eqn:Ecc; rewrite ?Ecc in H.
      * inv_some. unfold st. rewrite Hg. destruct ok; eauto.
      * eapply Hnog; eauto.
  - (* GTry *)
    destruct (call_get calls c) as [[t| |]|] eqn:Ecall; try discriminate.
    destruct g as [g|]; [|discriminate].
    destruct (try_consume g now) as [g1 gok] eqn:Etry. inv_some.
    destruct (Hglob g eq_refl) as [Hokg Hbdg].
    pose proof (try_consume_ok _ _ _ _ Hokg Etry) as Hok1.
    pose proof (try_consume_bound _ _ _ _ _ Hokg Hbdg Etry) as Hbd1.
    unfold Inv; cbn [c_lim c_calls l_now l_tenants l_global].
    split; [exact Hnow|]. split; [|split; [|split]].
    + intros t' b H. destruct (Hten t' b H) as [A B]. split; [exact A|].
      pose proof (count_set_existing (holds_t t') _ _ _ (if gok then CDone t true else CNeedRefund t) Ecall) as Hc.
      assert (holds_t t' (if gok then CDone t true else CNeedRefund t) = holds_t t' (CTenantOk t)).
      { destruct gok; cbn [holds_t andb]; reflexivity. }
      rewrite H0 in Hc.
      replace (count_calls (holds_t t') (call_set calls c (if gok then CDone t true else CNeedRefund t)))
        with (count_calls (holds_t t') calls) by lia.
      exact B.
    + intros t' H.
      pose proof (count_set_existing (holds_t t') _ _ _ (if gok then CDone t true else CNeedRefund t) Ecall) as Hc.
      assert (holds_t t' (if gok then CDone t true else CNeedRefund t) = holds_t t' (CTenantOk t)).
      { destruct gok; cbn [holds_t andb]; reflexivity. }
      rewrite H0 in Hc. pose proof (Hnone t' H). lia.
    + intros g0 H. inv_some. split; [exact Hok1|].
      pose proof (count_set_existing is_admitted_any _ _ _ (if gok then CDone t true else CNeedRefund t) Ecall) as Hc.
      cbn [is_admitted_any b2n] in Hc.
      unfold bucket_bound in *.
      assert (qn (count_calls is_admitted_any (call_set calls c (if gok then CDone t true else CNeedRefund t)))
              == qn (count_calls is_admitted_any calls) + qn (b2n gok)).
      { destruct gok; cbn [is_admitted_any b2n] in *.
        - replace (count_calls is_admitted_any (call_set calls c (CDone t true)))
            with (S (count_calls is_admitted_any calls)) by lia.
          rewrite qn_S. reflexivity.
        - replace (count_calls is_admitted_any (call_set calls c (CNeedRefund t)))
            with (count_calls is_admitted_any calls) by lia.
          rewrite qn_0. lra. }
      lra.
    + intro H; discriminate.
  - (* Refund *)
    destruct (call_get calls c) as [[|t|]|] eqn:Ecall; try discriminate.
    destruct (t_get ts t) as [b|] eqn:Eg; [|discriminate]. inv_some.
    destruct (Hten t b Eg) as [Hokb Hbdb].
    unfold Inv; cbn [c_lim c_calls l_now l_tenants l_global].
    split; [exact Hnow|]. split; [|split; [|split]].
    + intros t' b' H. rewrite t_get_set in H.
      pose proof (count_set_existing (holds_t t') _ _ _ (CDone t false) Ecall) as Hc.
      cbn [holds_t andb b2n] in Hc.
      destruct (N.eqb t t') eqn:Ett.
      * apply N.eqb_eq in Ett. subst t'. inv_some. rewrite ?N.eqb_refl in Hc. cbn [b2n] in Hc.
        split; [apply refund_ok; exact Hokb|]. apply refund_bound.
        replace (count_calls (holds_t t) calls)
          with (S (count_calls (holds_t t) (call_set calls c (CDone t false)))) in Hbdb by lia.
        unfold bucket_bound in *. rewrite qn_S in Hbdb. lra.
      * rewrite ?Ett in Hc. cbn [b2n] in Hc.
        replace (count_calls (holds_t t') (call_set calls c (CDone t false)))
          with (count_calls (holds_t t') calls) by lia.
        apply Hten. exact H.
    + intros t' H. rewrite t_get_set in H. destruct (N.eqb t t') eqn:Ett; rewrite ?Ett in H; [discriminate|].
      pose proof (count_set_existing (holds_t t') _ _ _ (CDone t false) Ecall) as Hc.
      cbn [holds_t andb b2n] in Hc. rewrite ?Ett in Hc. cbn [b2n] in Hc.
      pose proof (Hnone t' H). lia.
    + intros g0 H. destruct (Hglob g0 H) as [A B]. split; [exact A|].
      pose proof (count_set_existing is_admitted_any _ _ _ (CDone t false) Ecall) as Hc.
      cbn [is_admitted_any b2n] in Hc.
      replace (count_calls is_admitted_any (call_set calls c (CDone t false)))
        with (count_calls is_admitted_any calls) by lia.
      exact B.
    + intros Hg c' st' H. destruct (Hnog Hg c _ Ecall) as (t0 & r0 & Habs). discriminate.
Qed.

Lemma now_step s e s' : cstep s e = Some s' ->
  l_now (c_lim s') == l_now (c_lim s) + elapsed [e].
Proof.
  destruct s as [[now ts g] calls]. destruct e as [dt|c t qps|c|c];
    cbn [cstep c_lim c_calls l_now l_tenants l_global elapsed]; intro H.
  - destruct (Qle_bool 0 dt); [|discriminate]. inv_some. cbn [b_tokens b_cap b_rate b_last c_lim c_calls l_now l_tenants l_global]. lra.
  - destruct (call_get calls c); [discriminate|].
    destruct (try_consume _ now). inv_some. cbn [b_tokens b_cap b_rate b_last c_lim c_calls l_now l_tenants l_global]. lra.
  - destruct (call_get calls c) as [[| |]|]; try discriminate.
    destruct g; [|discriminate]. destruct (try_consume b now). inv_some. cbn [b_tokens b_cap b_rate b_last c_lim c_calls l_now l_tenants l_global]. lra.
  - destruct (call_get calls c) as [[| |]|]; try discriminate.
    destruct (t_get ts t); [|discriminate]. inv_some. cbn [b_tokens b_cap b_rate b_last c_lim c_calls l_now l_tenants l_global]. lra.
Qed.

Lemma crun_inv evs : forall s s', Inv s -> crun s evs = Some s' ->
  Inv s' /\ l_now (c_lim s') == l_now (c_lim s) + elapsed evs.
Proof.
  induction evs as [|e r IH]; cbn [crun]; intros s s' Hinv H.
  - inv_some. split; [exact Hinv|]. cbn [elapsed]. lra.
  - destruct (cstep s e) as [s1|] eqn:E; [|discriminate].
    destruct (IH s1 s' (inv_step _ _ _ Hinv E) H) as [A B]. split; [exact A|].
    pose proof (now_step _ _ _ E) as Hn. cbn [elapsed] in *.
    destruct e; cbn [elapsed] in *; lra.
Qed.

(* ---------- the bounds ---------- *)

Lemma tenant_bound_from_inv s t b :
  Inv s -> t_get (l_tenants (c_lim s)) t = Some b ->
  qn (admitted_t (c_calls s) t) <= b_cap b + b_rate b * l_now (c_lim s).
Proof.
  intros (Hnow & Hten & _) H. destruct (Hten t b H) as [(A & B & C & D & E) Hb].
  unfold bucket_bound in Hb.
  pose proof (qn_le _ _ (holds_admitted_le t (c_calls s))) as Hle. unfold admitted_t.
  assert (b_rate b * b_last b <= b_rate b * l_now (c_lim s)).
  { rewrite (Qmult_comm (b_rate b) (b_last b)), (Qmult_comm (b_rate b) (l_now (c_lim s))).
    apply Qmult_le_compat_r; lra. }
  lra.
Qed.

Theorem tenant_bound : forall g evs s t b,
  crun (cinit g) evs = Some s ->
  t_get (l_tenants (c_lim s)) t = Some b ->
  qn (admitted_t (c_calls s) t) <= b_cap b + b_rate b * elapsed evs.
Proof.
  intros g evs s t b Hrun Hb.
  destruct (crun_inv evs _ _ (inv_init g) Hrun) as [Hinv Hnow].
  pose proof (tenant_bound_from_inv s t b Hinv Hb) as H.
  assert (l_now (c_lim (cinit g)) == 0) by reflexivity.
  assert (b_rate b * l_now (c_lim s) == b_rate b * elapsed evs).
  { rewrite Hnow, H0. ring. }
  lra.
Qed.

Theorem tenant_none_admitted : forall g evs s t,
  crun (cinit g) evs = Some s ->
  t_get (l_tenants (c_lim s)) t = None -> admitted_t (c_calls s) t = 0%nat.
Proof.
  intros g evs s t Hrun Hn.
  destruct (crun_inv evs _ _ (inv_init g) Hrun) as [(_ & _ & Hnone & _) _].
  pose proof (Hnone t Hn). pose proof (holds_admitted_le t (c_calls s)). unfold admitted_t. lia.
Qed.

Theorem global_bound : forall q evs s g,
  crun (cinit (Some q)) evs = Some s ->
  l_global (c_lim s) = Some g ->
  qn (admitted_all (c_calls s)) <= b_cap g + b_rate g * elapsed evs.
Proof.
  intros q evs s g Hrun Hg.
  destruct (crun_inv evs _ _ (inv_init (Some q)) Hrun) as [(Hnow & _ & _ & Hglob & _) Hn].
  destruct (Hglob g Hg) as [(A & B & C & D & E) Hb]. unfold bucket_bound in Hb. unfold admitted_all.
  assert (l_now (c_lim (cinit (Some q))) == 0) by reflexivity.
  assert (b_rate g * b_last g <= b_rate g * elapsed evs).
  { rewrite (Qmult_comm (b_rate g) (b_last g)), (Qmult_comm (b_rate g) (elapsed evs)).
    apply Qmult_le_compat_r; lra. }
  lra.
Qed.

(* capacity and rate of a bucket never change: they are max_qps of the call that created it *)
Definition caps_fixed (s : cstate) : Prop :=
  (forall t b, t_get (l_tenants (c_lim s)) t = Some b -> exists q, b_cap b = inject_Z (Z.of_N q) /\ b_rate b = b_cap b).

Lemma caps_step s e s' : caps_fixed s -> cstep s e = Some s' -> caps_fixed s'.
Proof.
  unfold caps_fixed. intros Hc Hstep.
  destruct s as [[now ts g] calls]. cbn [c_lim c_calls l_now l_tenants l_global] in *.
  destruct e as [dt|c t qps|c|c]; cbn [cstep c_lim c_calls l_now l_tenants l_global] in Hstep.
  - destruct (Qle_bool 0 dt); [|discriminate]. inv_some. exact Hc.
  - destruct (call_get calls c); [discriminate|].
    destruct (try_consume _ now) as [b1 ok] eqn:Etry. inv_some.
    cbn [c_lim l_tenants]. intros t' b H. rewrite t_get_set in H.
    destruct (N.eqb t t') eqn:Ett; rewrite ?Ett in H; [|eapply Hc; eauto]. inv_some.
    destruct (try_consume_cap _ _ _ _ Etry) as [A B]. rewrite A, B.
    destruct (t_get ts t) as [b0|] eqn:Eg.
    + apply (Hc t b0 Eg).
    + exists qps. split; reflexivity.
  - destruct (call_get calls c) as [[| |]|]; try discriminate.
    destruct g; [|discriminate]. destruct (try_consume b now). inv_some. exact Hc.
  - destruct (call_get calls c) as [[| |]|]; try discriminate.
    destruct (t_get ts t) as [b|] eqn:Eg; [|discriminate]. inv_some.
    cbn [c_lim l_tenants]. intros t' b' H. rewrite t_get_set in H.
    destruct (N.eqb t t') eqn:Ett; rewrite ?Ett in H; [|eapply Hc; eauto]. inv_some. cbn [b_tokens b_cap b_rate b_last c_lim c_calls l_now l_tenants l_global]. apply (Hc t b Eg).
Qed.

(* ---------- sequential corollaries: refund neutrality and no starvation ---------- *)

(* A check refused by the GLOBAL bucket leaves the tenant bucket exactly as a plain refill would. *)
Theorem refund_neutral : forall l t qps b g l',
  t_get (l_tenants l) t = Some b -> l_global l = Some g ->
  bucket_ok b (l_now l) ->
  Qle_bool 1 (b_tokens (refill b (l_now l))) = true ->      (* tenant has budget *)
  Qle_bool 1 (b_tokens (refill g (l_now l))) = false ->     (* global has none   *)
  check_limit l t qps = (l', false) ->
  exists b', t_get (l_tenants l') t = Some b' /\
             b_tokens b' == b_tokens (refill b (l_now l)) /\ b_cap b' = b_cap b.
Proof.
  intros l t qps b g l' Hb Hg Hok Ht Hgl. unfold check_limit. rewrite Hb, Hg.
  unfold try_consume. rewrite Ht, Hgl. cbn [negb]. intro H. inversion H; subst; clear H.
  cbn [l_tenants]. rewrite t_get_set, N.eqb_refl. eexists. split; [reflexivity|].
  pose proof (refill_ok b (l_now l) Hok) as (A & B & _).
  destruct (refill_cap b (l_now l)) as [Hc _].
  unfold refund_one. cbn [b_tokens b_cap b_rate b_last c_lim c_calls l_now l_tenants l_global]. split; [|exact Hc].
  apply Qle_bool_iff in Ht.
  destruct (Q.min_spec (b_tokens (refill b (l_now l)) - 1 + 1) (b_cap (refill b (l_now l)))) as [[X Y]|[X Y]];
    rewrite Y; lra.
Qed.

(* A tenant with budget is admitted whenever the global bucket (if any) has room. *)
Theorem no_starvation : forall l t qps b,
  t_get (l_tenants l) t = Some b ->
  Qle_bool 1 (b_tokens (refill b (l_now l))) = true ->
  (forall g, l_global l = Some g -> Qle_bool 1 (b_tokens (refill g (l_now l))) = true) ->
  snd (check_limit l t qps) = true.
Proof.
  intros l t qps b Hb Ht Hg. unfold check_limit. rewrite Hb. unfold try_consume. rewrite Ht.
  cbn [negb]. destruct (l_global l) as [g|]; [|reflexivity].
  rewrite (Hg g eq_refl). reflexivity.
Qed.

(* first use of a tenant: bucket starts full, so it is admitted iff qps >= 1 and global has room *)
Theorem fresh_tenant_full : forall l t qps,
  t_get (l_tenants l) t = None -> (1 <= qps)%N ->
  (forall g, l_global l = Some g -> Qle_bool 1 (b_tokens (refill g (l_now l))) = true) ->
  snd (check_limit l t qps) = true.
Proof.
  intros l t qps Hn Hq Hg. unfold check_limit. rewrite Hn. unfold try_consume, refill, bucket_new.
  cbn [b_last b_tokens b_cap b_rate].
  destruct (Qlt_le_dec 0 (l_now l - l_now l)) as [Hlt|Hle]; [exfalso; lra|].
  cbn [b_tokens].
  assert (Qle_bool 1 (inject_Z (Z.of_N qps)) = true).
  { apply Qle_bool_iff. change 1 with (inject_Z 1). rewrite <- Zle_Qle. lia. }
  rewrite H. cbn [negb]. destruct (l_global l) as [g|]; [|reflexivity].
  unfold refill in Hg. specialize (Hg g eq_refl).
  destruct (Qlt_le_dec 0 (l_now l - b_last g)); cbn [b_tokens] in *; rewrite Hg; reflexivity.
Qed.
