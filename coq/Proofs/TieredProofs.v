(* Proofs about Model/Tiered.v (C04, C20). *)
From Coq Require Import List NArith ZArith Bool Arith Lia.
From Kyro Require Import Model.TMap Model.Tiered.
Import ListNotations.

(* ------------------------------------------------------------------------------------------ *)
(* association lists                                                                            *)
(* ------------------------------------------------------------------------------------------ *)
Section MapLemmas.
  Context {A : Type}.
  Implicit Types l : list (N * A).

  Lemma lookup_remove_eq : forall k l, lookup k (remove k l) = None.
  Proof.
    induction l as [|[k0 a] r IH]; cbn; auto.
    destruct (N.eqb k0 k) eqn:E; cbn; auto. rewrite E. auto.
  Qed.

  Lemma lookup_remove_neq : forall k k' l, k <> k' -> lookup k' (remove k l) = lookup k' l.
  Proof.
    induction l as [|[k0 a] r IH]; cbn; intros Hn; auto.
    destruct (N.eqb k0 k) eqn:E; cbn.
    - apply N.eqb_eq in E. subst k0. destruct (N.eqb k k') eqn:E2; auto.
      apply N.eqb_eq in E2. congruence.
    - destruct (N.eqb k0 k'); auto.
  Qed.

  Lemma lookup_put_eq : forall k a l, lookup k (put k a l) = Some a.
  Proof. intros. unfold put. cbn. rewrite N.eqb_refl. auto. Qed.

  Lemma lookup_put_neq : forall k k' a l, k <> k' -> lookup k' (put k a l) = lookup k' l.
  Proof.
    intros. unfold put. cbn. destruct (N.eqb k k') eqn:E.
    - apply N.eqb_eq in E. congruence.
    - apply lookup_remove_neq; auto.
  Qed.

  Lemma lookup_put : forall k k' a l, lookup k' (put k a l) = if N.eqb k k' then Some a else lookup k' l.
  Proof.
    intros. destruct (N.eqb k k') eqn:E.
    - apply N.eqb_eq in E. subst. apply lookup_put_eq.
    - apply N.eqb_neq in E. apply lookup_put_neq; auto.
  Qed.

  Lemma lookup_remove : forall k k' l, lookup k' (remove k l) = if N.eqb k k' then None else lookup k' l.
  Proof.
    intros. destruct (N.eqb k k') eqn:E.
    - apply N.eqb_eq in E. subst. apply lookup_remove_eq.
    - apply N.eqb_neq in E. apply lookup_remove_neq; auto.
  Qed.

  Lemma length_remove_le : forall k l, length (remove k l) <= length l.
  Proof.
    induction l as [|[k0 a] r IH]; cbn; auto. destruct (N.eqb k0 k); cbn; lia.
  Qed.

  Lemma length_remove_lt : forall k l, lookup k l <> None -> length (remove k l) < length l.
  Proof.
    induction l as [|[k0 a] r IH]; cbn; intros H; [congruence|].
    destruct (N.eqb k0 k); cbn.
    - pose proof (length_remove_le k r). lia.
    - apply IH in H. lia.
  Qed.

  Lemma remove_absent : forall k l, lookup k l = None -> remove k l = l.
  Proof.
    induction l as [|[k0 a] r IH]; cbn; intros H; auto.
    destruct (N.eqb k0 k); [congruence|]. rewrite IH; auto.
  Qed.

  Lemma mem_lookup : forall k l, mem k l = true <-> lookup k l <> None.
  Proof. intros. unfold mem. destruct (lookup k l); split; intros; congruence. Qed.

  Lemma lookup_remove_all : forall ks k l,
    lookup k (remove_all ks l) = if existsb (N.eqb k) ks then None else lookup k l.
  Proof.
    unfold remove_all. induction ks as [|k0 ks IH]; cbn; intros; auto.
    rewrite IH. rewrite lookup_remove. rewrite (N.eqb_sym k k0).
    destruct (N.eqb k0 k); cbn; auto. destruct (existsb (N.eqb k) ks); auto.
  Qed.

  Lemma length_remove_all_le : forall ks l, length (remove_all ks l) <= length l.
  Proof.
    unfold remove_all. induction ks as [|k0 ks IH]; cbn; intros; auto.
    etransitivity; [apply IH|]. apply length_remove_le.
  Qed.
End MapLemmas.

Lemma lookup_map : forall {A B} (f : A -> B) k (l : list (N * A)),
  lookup k (map (fun p => (fst p, f (snd p))) l) = option_map f (lookup k l).
Proof.
  induction l as [|[k0 a] r IH]; cbn; auto. destruct (N.eqb k0 k); auto.
Qed.

Lemma in_sort_dedup : forall k l, existsb (N.eqb k) (sort_dedup l) = existsb (N.eqb k) l.
Proof.
  assert (Hins : forall k x l, existsb (N.eqb k) (ins_id x l) = N.eqb k x || existsb (N.eqb k) l).
  { induction l as [|q r IH]; cbn; auto.
    destruct (N.eqb x q) eqn:E; cbn.
    - apply N.eqb_eq in E. subst. destruct (N.eqb k q); auto.
    - destruct (N.ltb x q); cbn; auto. rewrite IH.
      destruct (N.eqb k x), (N.eqb k q); auto. }
  unfold sort_dedup. induction l as [|x r IH]; cbn; auto. rewrite Hins, IH. auto.
Qed.

(* ------------------------------------------------------------------------------------------ *)
(* decidable equalities                                                                        *)
(* ------------------------------------------------------------------------------------------ *)
Lemma vec_eqb_eq : forall a b : vec, vec_eqb a b = true <-> a = b.
Proof.
  unfold vec_eqb. induction a as [|x r IH]; destruct b as [|y q]; cbn; split; intros H; try congruence; auto.
  - apply andb_true_iff in H. destruct H as [H1 H2]. apply Z.eqb_eq in H1. apply IH in H2. congruence.
  - inversion H; subst. rewrite Z.eqb_refl. cbn. apply IH. auto.
Qed.

Lemma tok_eqb_eq : forall a b : token, tok_eqb a b = true <-> a = b.
Proof.
  intros [v1 d1] [v2 d2]. unfold tok_eqb. cbn. rewrite andb_true_iff, N.eqb_eq, vec_eqb_eq.
  split; [intros [-> ->]; auto | intros H; inversion H; auto].
Qed.

(* ------------------------------------------------------------------------------------------ *)
(* LRU cache                                                                                    *)
(* ------------------------------------------------------------------------------------------ *)
Lemma Forall2_imp : forall {A B} (P Q : A -> B -> Prop) l l',
  (forall a b, P a b -> Q a b) -> Forall2 P l l' -> Forall2 Q l l'.
Proof. intros A B P Q l l' H F. induction F; constructor; auto. Qed.

Lemma removelast_len : forall {A} (l : list A), length (removelast l) = pred (length l).
Proof.
  induction l as [|x r IH]; cbn; auto. destruct r as [|y q]; cbn in *; auto.
Qed.

Lemma lru_get_length : forall k l, length (fst (lru_get k l)) <= length l.
Proof.
  intros. unfold lru_get. destruct (lookup k l) eqn:E; cbn; auto.
  assert (lookup k l <> None) by congruence. apply length_remove_lt in H. lia.
Qed.

Lemma lru_insert_length : forall cap k e l, 1 <= cap -> length l <= cap -> length (lru_insert cap k e l) <= cap.
Proof.
  intros cap k e l Hc Hl. unfold lru_insert. destruct (mem k l) eqn:M; cbn.
  - apply mem_lookup in M. apply length_remove_lt in M. lia.
  - destruct (cap <=? length l) eqn:E.
    + apply Nat.leb_le in E. destruct l as [|p r]; [cbn in *; lia|].
      rewrite removelast_len. cbn in *. lia.
    + apply Nat.leb_gt in E. lia.
Qed.

Ltac sproj :=
  unfold bump_ins, bump_emerg, bump_fail, bump_flush, set_ctr, set_hot, set_cold, set_l1a, set_l1b;
  cbn [cold hot l1a l1b ctr fst snd].

Section Theorems.
  Variable digest : vec -> dgst.
  Variable valid : vec -> bool.
  (* 128-bit digest collision-freeness (coherence.rs digest_embedding) — the named assumption *)
  Hypothesis digest_inj : forall a b : vec, digest a = digest b -> a = b.

  Notation l1_get := (l1_get).
  Notation canon_state := (canon_state digest).
  Notation hot_probe := (hot_probe digest).
  Notation query := (query digest).
  Notation get_doc := (get_doc digest).
  Notation get_emb := (get_emb digest).
  Notation exists_ := (exists_ digest).
  Notation bulk := (bulk digest).
  Notation step := (step digest valid).
  Notation run := (run digest valid).
  Notation cold_insert := (cold_insert valid).

  (* the canonical answer for an id, and the abstract map the engine refines *)
  Definition canon (s : state) (id : N) : option (vec * meta) :=
    match lookup id (cold s) with Some r => Some (c_vec r, c_meta r) | None => None end.
  Definition cold_docs (s : state) : list (N * (vec * meta)) :=
    map (fun p => (fst p, (c_vec (snd p), c_meta (snd p)))) (cold s).

  Lemma lookup_cold_docs : forall s id, lookup id (cold_docs s) = canon s id.
  Proof.
    intros. unfold cold_docs, canon.
    rewrite (lookup_map (fun r => (c_vec r, c_meta r))). destruct (lookup id (cold s)); auto.
  Qed.

  (* ---------- helpers leave the cold tier alone ---------- *)
  Lemma cold_l1_invalidate : forall c s id, cold (l1_invalidate c s id) = cold s.
  Proof. intros. unfold l1_invalidate. destruct (ab c); reflexivity. Qed.
  Lemma hot_l1_invalidate : forall c s id, hot (l1_invalidate c s id) = hot s.
  Proof. intros. unfold l1_invalidate. destruct (ab c); reflexivity. Qed.
  Lemma cold_l1_insert : forall c s id e, cold (l1_insert c s id e) = cold s.
  Proof. intros. unfold l1_insert. destruct (route c id); reflexivity. Qed.
  Lemma hot_l1_insert : forall c s id e, hot (l1_insert c s id e) = hot s.
  Proof. intros. unfold l1_insert. destruct (route c id); reflexivity. Qed.
  Lemma cold_l1_get : forall c s id, cold (fst (l1_get c s id)) = cold s.
  Proof.
    intros. unfold Tiered.l1_get. destruct (route c id).
    - destruct (lru_get id (l1b s)); reflexivity.
    - destruct (lru_get id (l1a s)); reflexivity.
  Qed.
  Lemma hot_l1_get : forall c s id, hot (fst (l1_get c s id)) = hot s.
  Proof.
    intros. unfold Tiered.l1_get. destruct (route c id).
    - destruct (lru_get id (l1b s)); reflexivity.
    - destruct (lru_get id (l1a s)); reflexivity.
  Qed.
  Lemma cold_discard : forall c s id, cold (discard c s id) = cold s.
  Proof. intros. unfold discard. rewrite cold_l1_invalidate. reflexivity. Qed.
  Lemma hot_discard : forall c s id, hot (discard c s id) = remove id (hot s).
  Proof. intros. unfold discard. rewrite hot_l1_invalidate. reflexivity. Qed.

  Lemma canon_state_cold : forall s s' id v t, cold s' = cold s -> canon_state s' id v t = canon_state s id v t.
  Proof. intros. unfold Tiered.canon_state, cold_token. rewrite H. reflexivity. Qed.

  (* a Match verdict forces the served payload to be the canonical one *)
  Lemma canon_match : forall s id v t,
    canon_state s id v t = CMatch -> exists r, lookup id (cold s) = Some r /\ v = c_vec r.
  Proof.
    intros s id v t H. unfold Tiered.canon_state, cold_token in H.
    destruct (lookup id (cold s)) as [r|] eqn:E; [|discriminate].
    destruct (tok_eqb (c_ver r, digest (c_vec r)) t) eqn:T; cbn in H; [|discriminate].
    destruct (vec_eqb (digest v) (snd t)) eqn:V; cbn in H; [|discriminate].
    apply tok_eqb_eq in T. apply vec_eqb_eq in V. subst t. cbn in V.
    exists r. split; auto.
  Qed.

  Lemma canon_missing : forall s id v t, canon_state s id v t = CMissing -> lookup id (cold s) = None.
  Proof.
    intros s id v t H. unfold Tiered.canon_state, cold_token in H.
    destruct (lookup id (cold s)); auto.
    destruct (negb _); [discriminate|]. destruct (negb _); discriminate.
  Qed.

  Lemma hot_probe_spec : forall c s id s' r,
    hot_probe c s id = (s', r) ->
    cold s' = cold s /\
    (forall h, r = Some h -> exists rc, lookup id (cold s) = Some rc /\ h_vec h = c_vec rc).
  Proof.
    intros c s id s' r H. unfold Tiered.hot_probe in H.
    destruct (lookup id (hot s)) as [h|] eqn:E.
    - destruct (canon_state s id (h_vec h) (h_tok h)) eqn:C; inversion H; subst; clear H;
        (split; [try reflexivity; try apply cold_discard | intros h0 Hh; try discriminate]).
      inversion Hh; subst. apply canon_match in C. auto.
    - inversion H; subst. split; auto. intros; discriminate.
  Qed.

  (* ---------- C04: every read flavour answers from the canonical store, in EVERY state ---------- *)
  Lemma query_canonical : forall c s adm id,
    option_map fst (snd (query c s adm id)) = option_map fst (canon s id) /\
    cold (fst (query c s adm id)) = cold s.
  Proof.
    intros c s adm id. unfold Tiered.query.
    pose proof (cold_l1_get c s id) as Hg.
    destruct (l1_get c s id) as [s1 g]. cbn in Hg.
    assert (Hc : forall s2, cold s2 = cold s ->
      option_map fst (snd (let (s3, o) := hot_probe c s2 id in
         match o with
         | Some h => (if adm then l1_insert c s3 id (mkL (h_vec h) (h_tok h)) else s3, Some (h_vec h, THot))
         | None => match lookup id (cold s3) with
                   | Some r => (if adm then l1_insert c s3 id (mkL (c_vec r) (c_ver r, digest (c_vec r))) else s3, Some (c_vec r, TCold))
                   | None => (s3, None)
                   end
         end)) = option_map fst (canon s id) /\
      cold (fst (let (s3, o) := hot_probe c s2 id in
         match o with
         | Some h => (if adm then l1_insert c s3 id (mkL (h_vec h) (h_tok h)) else s3, Some (h_vec h, THot))
         | None => match lookup id (cold s3) with
                   | Some r => (if adm then l1_insert c s3 id (mkL (c_vec r) (c_ver r, digest (c_vec r))) else s3, Some (c_vec r, TCold))
                   | None => (s3, None)
                   end
         end)) = cold s).
    { intros s2 H2. destruct (hot_probe c s2 id) as [s3 o] eqn:P.
      apply hot_probe_spec in P. destruct P as [P1 P2]. rewrite H2 in P1, P2.
      destruct o as [h|].
      - destruct (P2 h eq_refl) as [rc [L1 L2]]. unfold canon. rewrite L1. cbn. rewrite L2.
        split; auto. destruct adm; [rewrite cold_l1_insert|]; auto.
      - unfold canon. rewrite P1. destruct (lookup id (cold s)) as [r|]; cbn; split; auto.
        destruct adm; [rewrite cold_l1_insert|]; auto. }
    destruct g as [e|].
    - destruct (canon_state s1 id (l_vec e) (l_tok e)) eqn:C.
      + cbn. apply canon_match in C. destruct C as [r [L1 L2]]. rewrite Hg in L1.
        unfold canon. rewrite L1. cbn. rewrite L2. auto.
      + apply Hc. rewrite cold_l1_invalidate. auto.
      + apply Hc. rewrite cold_l1_invalidate. auto.
      + apply Hc. rewrite cold_l1_invalidate. auto.
    - apply Hc. auto.
  Qed.

  Lemma get_doc_canonical : forall c s id,
    snd (get_doc c s id) = canon s id /\ cold (fst (get_doc c s id)) = cold s.
  Proof.
    intros. unfold Tiered.get_doc, canon. destruct (lookup id (cold s)) as [r0|] eqn:E; [|auto].
    destruct (hot_probe c s id) as [s1 o] eqn:P. apply hot_probe_spec in P. destruct P as [P1 P2].
    destruct o as [h|].
    - destruct (P2 h eq_refl) as [rc [L1 L2]]. rewrite E in L1. inversion L1; subst. cbn. rewrite L2. auto.
    - rewrite P1, E. cbn. auto.
  Qed.

  Lemma get_emb_canonical : forall c s id,
    snd (get_emb c s id) = option_map fst (canon s id) /\ cold (fst (get_emb c s id)) = cold s.
  Proof.
    intros. unfold Tiered.get_emb.
    assert (Hc : forall s1, cold s1 = cold s ->
      snd (let (s2, o) := hot_probe c s1 id in
           match o with
           | Some h => (s2, Some (h_vec h))
           | None => (s2, match lookup id (cold s2) with Some r => Some (c_vec r) | None => None end)
           end) = option_map fst (canon s id) /\
      cold (fst (let (s2, o) := hot_probe c s1 id in
           match o with
           | Some h => (s2, Some (h_vec h))
           | None => (s2, match lookup id (cold s2) with Some r => Some (c_vec r) | None => None end)
           end)) = cold s).
    { intros s1 H1. destruct (hot_probe c s1 id) as [s2 o] eqn:P. apply hot_probe_spec in P.
      destruct P as [P1 P2]. rewrite H1 in P1, P2. destruct o as [h|]; cbn.
      - destruct (P2 h eq_refl) as [rc [L1 L2]]. unfold canon. rewrite L1. cbn. rewrite L2. auto.
      - unfold canon. rewrite P1. destruct (lookup id (cold s)); auto. }
    destruct (l1_peek c s id) as [e|].
    - destruct (canon_state s id (l_vec e) (l_tok e)) eqn:C.
      + cbn. apply canon_match in C. destruct C as [r [L1 L2]]. unfold canon. rewrite L1. cbn. rewrite L2. auto.
      + apply Hc. apply cold_l1_invalidate.
      + apply Hc. apply cold_l1_invalidate.
      + apply Hc. apply cold_l1_invalidate.
    - apply Hc. auto.
  Qed.

  Lemma get_meta_canonical : forall s id, get_meta s id = option_map snd (canon s id).
  Proof. intros. unfold get_meta, canon. destruct (lookup id (cold s)); auto. Qed.

  Lemma exists_canonical : forall s id, exists_ s id = match canon s id with Some _ => true | None => false end.
  Proof. intros. unfold Tiered.exists_, cold_token, canon. destruct (lookup id (cold s)); auto. Qed.

  Definition strip (x : option (vec * meta * tier)) : option (vec * meta) :=
    match x with Some (v, m, _) => Some (v, m) | None => None end.

  Lemma bulk_one_spec : forall c s id oh s' x,
    bulk_one digest c s id oh = (s', x) ->
    cold s' = cold s /\ (x = None \/ strip x = canon s id).
  Proof.
    intros c s id oh s' x H. unfold bulk_one in H. destruct oh as [h|]; [|inversion H; auto].
    destruct (canon_state s id (h_vec h) (h_tok h)) eqn:C.
    - apply canon_match in C. destruct C as [r [L1 L2]]. rewrite L1 in H. inversion H; subst. split; auto.
      right. unfold canon. rewrite L1. cbn. rewrite L2. auto.
    - inversion H; subst. split; [apply cold_discard|auto].
    - inversion H; subst. split; [apply cold_discard|auto].
    - inversion H; subst. auto.
  Qed.

  Lemma bulk_hot_spec : forall c snap s s' xs,
    bulk_hot digest c s snap = (s', xs) ->
    cold s' = cold s /\ length xs = length snap /\
    Forall2 (fun p x => x = None \/ strip x = canon s (fst p)) snap xs.
  Proof.
    induction snap as [|[id oh] r IH]; cbn; intros s s' xs H.
    - inversion H; subst. auto.
    - destruct (bulk_one digest c s id oh) as [s1 x] eqn:B1.
      destruct (bulk_hot digest c s1 r) as [s2 ys] eqn:B2.
      inversion H; subst. apply bulk_one_spec in B1. destruct B1 as [C1 X1].
      apply IH in B2. destruct B2 as [C2 [L2 F2]].
      split; [congruence|]. split; [cbn; congruence|].
      constructor.
      + cbn. destruct X1 as [X1|X1]; auto.
      + eapply Forall2_imp; [|exact F2]. intros p y Hy. cbn in Hy.
        destruct Hy as [Hy|Hy]; auto. right. rewrite Hy. unfold canon. rewrite C1. auto.
  Qed.

  Lemma bulk_canonical : forall c s ids,
    map strip (snd (bulk c s true ids)) = map (canon s) ids /\ cold (fst (bulk c s true ids)) = cold s.
  Proof.
    intros c s ids. unfold Tiered.bulk.
    destruct (bulk_hot digest c s (map (fun id => (id, lookup id (hot s))) ids)) as [s1 part] eqn:B.
    apply bulk_hot_spec in B. destruct B as [C1 [L1 F1]]. cbn. split; auto.
    rewrite map_length in L1.
    revert part L1 F1. induction ids as [|id r IH]; intros part L1 F1; destruct part as [|x xs]; cbn in *; try lia; auto.
    inversion F1; subst. f_equal.
    - unfold bulk_fill. cbn. destruct H2 as [H2|H2].
      + subst x. unfold canon. rewrite C1. destruct (lookup id (cold s)); auto.
      + destruct x as [[[v m] t]|]; cbn in *; auto.
        unfold canon in *. rewrite C1. destruct (lookup id (cold s)); auto.
    - apply IH; auto.
  Qed.

  Theorem reads_canonical : forall (c : config) (s : state) (adm : bool) (id : N) (ids : list N),
    option_map fst (snd (query c s adm id)) = option_map fst (lookup id (cold_docs s)) /\
    snd (get_doc c s id) = lookup id (cold_docs s) /\
    snd (get_emb c s id) = option_map fst (lookup id (cold_docs s)) /\
    get_meta s id = option_map snd (lookup id (cold_docs s)) /\
    exists_ s id = (match lookup id (cold_docs s) with Some _ => true | None => false end) /\
    map strip (snd (bulk c s true ids)) = map (fun i => lookup i (cold_docs s)) ids.
  Proof.
    intros. rewrite lookup_cold_docs.
    split; [apply query_canonical|]. split; [apply get_doc_canonical|]. split; [apply get_emb_canonical|].
    split; [apply get_meta_canonical|]. split; [apply exists_canonical|].
    replace (map (fun i => lookup i (cold_docs s)) ids) with (map (canon s) ids).
    - apply bulk_canonical.
    - apply map_ext. intros. symmetry. apply lookup_cold_docs.
  Qed.

  (* ------------------------------------------------------------------------------------------ *)
  (* frames: what each helper does to the cold tier, the mirror and the cache sizes              *)
  (* ------------------------------------------------------------------------------------------ *)
  Definition no_orphan (s : state) : Prop :=
    forall id, lookup id (hot s) <> None -> lookup id (cold s) <> None.
  (* every mirror entry of s' is, unchanged, a mirror entry of s *)
  Definition hot_sub (s' s : state) : Prop :=
    forall k h, lookup k (hot s') = Some h -> lookup k (hot s) = Some h.
  Definition l1_ok (c : config) (s : state) : Prop :=
    length (l1a s) <= cap_a c /\ length (l1b s) <= cap_b c.
  Definition caps_ok (c : config) : Prop := 1 <= cap_a c /\ 1 <= cap_b c.

  Lemma hot_sub_refl : forall s, hot_sub s s.
  Proof. unfold hot_sub; auto. Qed.
  Lemma hot_sub_trans : forall a b d, hot_sub a b -> hot_sub b d -> hot_sub a d.
  Proof. unfold hot_sub; auto. Qed.
  Lemma hot_sub_eq : forall s' s, hot s' = hot s -> hot_sub s' s.
  Proof. unfold hot_sub; intros. rewrite <- H. auto. Qed.
  Lemma hot_sub_remove : forall s' s id, hot s' = remove id (hot s) -> hot_sub s' s.
  Proof.
    unfold hot_sub; intros s' s id H k h Hk. rewrite H, lookup_remove in Hk.
    destruct (N.eqb id k); congruence.
  Qed.
  Lemma hot_sub_remove_all : forall s' s ids, hot s' = remove_all ids (hot s) -> hot_sub s' s.
  Proof.
    unfold hot_sub; intros s' s ids H k h Hk. rewrite H, lookup_remove_all in Hk.
    destruct (existsb (N.eqb k) ids); congruence.
  Qed.
  Lemma no_orphan_sub : forall s' s, no_orphan s -> cold s' = cold s -> hot_sub s' s -> no_orphan s'.
  Proof.
    unfold no_orphan, hot_sub. intros s' s H C S id Hid. rewrite C.
    destruct (lookup id (hot s')) as [h|] eqn:E; [|congruence]. apply H. rewrite (S id h E). congruence.
  Qed.

  Lemma in_lookup : forall {A} k (a : A) l, In (k, a) l -> lookup k l <> None.
  Proof.
    induction l as [|[k0 a0] r IH]; cbn; intros H; [contradiction|].
    destruct (N.eqb k0 k) eqn:E; [congruence|]. destruct H as [H|H]; auto.
    inversion H; subst. rewrite N.eqb_refl in E. discriminate.
  Qed.

  (* l1 sizes *)
  Lemma l1_ok_get : forall c s id, l1_ok c s -> l1_ok c (fst (l1_get c s id)).
  Proof.
    unfold l1_ok, Tiered.l1_get. intros c s id [Ha Hb]. destruct (route c id).
    - pose proof (lru_get_length id (l1b s)). destruct (lru_get id (l1b s)); cbn in *. lia.
    - pose proof (lru_get_length id (l1a s)). destruct (lru_get id (l1a s)); cbn in *. lia.
  Qed.
  Lemma l1_ok_invalidate : forall c s id, l1_ok c s -> l1_ok c (l1_invalidate c s id).
  Proof.
    unfold l1_ok, l1_invalidate. intros c s id [Ha Hb].
    pose proof (length_remove_le id (l1a s)). pose proof (length_remove_le id (l1b s)).
    destruct (ab c); cbn; lia.
  Qed.
  Lemma l1_ok_insert : forall c s id e, caps_ok c -> l1_ok c s -> l1_ok c (l1_insert c s id e).
  Proof.
    unfold l1_ok, l1_insert, caps_ok. intros c s id e [Ca Cb] [Ha Hb]. destruct (route c id); cbn.
    - split; auto. apply lru_insert_length; auto.
    - split; auto. apply lru_insert_length; auto.
  Qed.
  Lemma l1_ok_frame : forall c s s', l1a s' = l1a s -> l1b s' = l1b s -> l1_ok c s -> l1_ok c s'.
  Proof. unfold l1_ok. intros c s s' -> ->. auto. Qed.
  Lemma l1_ok_discard : forall c s id, l1_ok c s -> l1_ok c (discard c s id).
  Proof. intros. unfold discard. apply l1_ok_invalidate. eapply l1_ok_frame; eauto. Qed.

  Lemma fold_invalidate_frame : forall c ids s,
    cold (fold_left (l1_invalidate c) ids s) = cold s /\
    hot (fold_left (l1_invalidate c) ids s) = hot s /\
    (l1_ok c s -> l1_ok c (fold_left (l1_invalidate c) ids s)).
  Proof.
    induction ids as [|i r IH]; cbn; intros s; auto.
    destruct (IH (l1_invalidate c s i)) as [A [B C]].
    rewrite A, B, cold_l1_invalidate, hot_l1_invalidate. split; [auto|split; [auto|]].
    intros H. apply C. apply l1_ok_invalidate; auto.
  Qed.

  (* hot_probe *)
  Lemma hot_probe_frame : forall c s id,
    hot_sub (fst (hot_probe c s id)) s /\ (l1_ok c s -> l1_ok c (fst (hot_probe c s id))).
  Proof.
    intros c s id. unfold Tiered.hot_probe. destruct (lookup id (hot s)) as [h|]; cbn.
    - destruct (canon_state s id (h_vec h) (h_tok h)); cbn;
        try (split; [apply hot_sub_refl|auto]);
        (split; [eapply hot_sub_remove; apply hot_discard | apply l1_ok_discard]).
    - split; [apply hot_sub_refl|auto].
  Qed.

  (* ---------- reads: frames ---------- *)
  Lemma query_frame : forall c s adm id,
    hot_sub (fst (query c s adm id)) s /\ (caps_ok c -> l1_ok c s -> l1_ok c (fst (query c s adm id))).
  Proof.
    intros c s adm id. unfold Tiered.query.
    pose proof (hot_l1_get c s id) as Hh. pose proof (l1_ok_get c s id) as Hl.
    destruct (l1_get c s id) as [s1 g]. cbn in Hh, Hl.
    assert (Hc : forall s2, hot_sub s2 s -> (l1_ok c s -> l1_ok c s2) ->
      hot_sub (fst (let (s3, o) := hot_probe c s2 id in
         match o with
         | Some h => (if adm then l1_insert c s3 id (mkL (h_vec h) (h_tok h)) else s3, Some (h_vec h, THot))
         | None => match lookup id (cold s3) with
                   | Some r => (if adm then l1_insert c s3 id (mkL (c_vec r) (c_ver r, digest (c_vec r))) else s3, Some (c_vec r, TCold))
                   | None => (s3, None)
                   end
         end)) s /\
      (caps_ok c -> l1_ok c s -> l1_ok c (fst (let (s3, o) := hot_probe c s2 id in
         match o with
         | Some h => (if adm then l1_insert c s3 id (mkL (h_vec h) (h_tok h)) else s3, Some (h_vec h, THot))
         | None => match lookup id (cold s3) with
                   | Some r => (if adm then l1_insert c s3 id (mkL (c_vec r) (c_ver r, digest (c_vec r))) else s3, Some (c_vec r, TCold))
                   | None => (s3, None)
                   end
         end)))).
    { intros s2 S2 L2. destruct (hot_probe_frame c s2 id) as [P1 P2].
      destruct (hot_probe c s2 id) as [s3 o]. cbn in P1, P2.
      assert (S3 : hot_sub s3 s) by (eapply hot_sub_trans; eauto).
      destruct o as [h|]; [|destruct (lookup id (cold s3))]; cbn; destruct adm; cbn;
        (split; [first [exact S3 | eapply hot_sub_trans; [apply hot_sub_eq; apply hot_l1_insert|exact S3]]
                | intros Cc Hs; try (apply l1_ok_insert; auto); auto]). }
    destruct g as [e|].
    - destruct (canon_state s1 id (l_vec e) (l_tok e)); cbn.
      + split; [apply hot_sub_eq; auto|auto].
      + apply Hc; [apply hot_sub_eq; rewrite hot_l1_invalidate; auto | intros; apply l1_ok_invalidate; auto].
      + apply Hc; [apply hot_sub_eq; rewrite hot_l1_invalidate; auto | intros; apply l1_ok_invalidate; auto].
      + apply Hc; [apply hot_sub_eq; rewrite hot_l1_invalidate; auto | intros; apply l1_ok_invalidate; auto].
    - apply Hc; [apply hot_sub_eq; auto | auto].
  Qed.

  Lemma get_doc_frame : forall c s id,
    hot_sub (fst (get_doc c s id)) s /\ (l1_ok c s -> l1_ok c (fst (get_doc c s id))).
  Proof.
    intros c s id. unfold Tiered.get_doc. destruct (lookup id (cold s)); [|split; [apply hot_sub_refl|auto]].
    destruct (hot_probe_frame c s id) as [P1 P2]. destruct (hot_probe c s id) as [s1 o]. cbn in *.
    destruct o; [|destruct (lookup id (cold s1))]; cbn; auto.
  Qed.

  Lemma get_emb_frame : forall c s id,
    hot_sub (fst (get_emb c s id)) s /\ (l1_ok c s -> l1_ok c (fst (get_emb c s id))).
  Proof.
    intros c s id. unfold Tiered.get_emb.
    assert (Hc : forall s1, hot_sub s1 s -> (l1_ok c s -> l1_ok c s1) ->
      hot_sub (fst (let (s2, o) := hot_probe c s1 id in
           match o with
           | Some h => (s2, Some (h_vec h))
           | None => (s2, match lookup id (cold s2) with Some r => Some (c_vec r) | None => None end)
           end)) s /\
      (l1_ok c s -> l1_ok c (fst (let (s2, o) := hot_probe c s1 id in
           match o with
           | Some h => (s2, Some (h_vec h))
           | None => (s2, match lookup id (cold s2) with Some r => Some (c_vec r) | None => None end)
           end)))).
    { intros s1 S1 L1. destruct (hot_probe_frame c s1 id) as [P1 P2].
      destruct (hot_probe c s1 id) as [s2 o]. cbn in *.
      destruct o; cbn; (split; [eapply hot_sub_trans; eauto | auto]). }
    destruct (l1_peek c s id) as [e|].
    - destruct (canon_state s id (l_vec e) (l_tok e)); cbn.
      + split; [apply hot_sub_refl|auto].
      + apply Hc; [apply hot_sub_eq; apply hot_l1_invalidate | apply l1_ok_invalidate].
      + apply Hc; [apply hot_sub_eq; apply hot_l1_invalidate | apply l1_ok_invalidate].
      + apply Hc; [apply hot_sub_eq; apply hot_l1_invalidate | apply l1_ok_invalidate].
    - apply Hc; [apply hot_sub_refl | auto].
  Qed.

  Lemma bulk_hot_frame : forall c snap s,
    hot_sub (fst (bulk_hot digest c s snap)) s /\ (l1_ok c s -> l1_ok c (fst (bulk_hot digest c s snap))).
  Proof.
    induction snap as [|[id oh] r IH]; cbn; intros s; [split; [apply hot_sub_refl|auto]|].
    assert (B1 : hot_sub (fst (bulk_one digest c s id oh)) s /\ (l1_ok c s -> l1_ok c (fst (bulk_one digest c s id oh)))).
    { unfold bulk_one. destruct oh as [h|]; [|split; [apply hot_sub_refl|auto]].
      destruct (canon_state s id (h_vec h) (h_tok h)); [destruct (lookup id (cold s))| | |]; cbn;
        try (split; [apply hot_sub_refl|auto]);
        (split; [eapply hot_sub_remove; apply hot_discard | apply l1_ok_discard]). }
    destruct (bulk_one digest c s id oh) as [s1 x]. cbn in B1.
    specialize (IH s1). destruct (bulk_hot digest c s1 r) as [s2 xs]. cbn in *.
    destruct B1, IH. split; [eapply hot_sub_trans; eauto | auto].
  Qed.

  Lemma bulk_frame : forall c s inc ids,
    cold (fst (bulk c s inc ids)) = cold s /\
    hot_sub (fst (bulk c s inc ids)) s /\ (l1_ok c s -> l1_ok c (fst (bulk c s inc ids))).
  Proof.
    intros c s inc ids. unfold Tiered.bulk.
    pose proof (bulk_hot_frame c (map (fun id => (id, lookup id (hot s))) ids) s) as F.
    destruct (bulk_hot digest c s (map (fun id => (id, lookup id (hot s))) ids)) as [s1 part] eqn:B.
    apply bulk_hot_spec in B. cbn in *. destruct F, B. auto.
  Qed.

  (* ---------- drain / reconcile ---------- *)
  Lemma reconcile_fold_l1 : forall c docs s n f,
    l1_ok c s -> l1_ok c (fst (fst (fold_left (reconcile_one valid c) docs (s, n, f)))).
  Proof.
    induction docs as [|d r IH]; cbn; intros s n f H; auto.
    destruct (lookup (fst d) (cold s)) as [rc|].
    - apply IH. destruct (negb _); auto. apply l1_ok_invalidate; auto.
    - destruct (cold_insert (cold s) (fst d) (h_vec (snd d)) (h_meta (snd d))); apply IH; auto.
  Qed.

  (* with every drained id present in the cold tier nothing is repaired and nothing fails *)
  Lemma reconcile_fold_present : forall c docs s n f,
    (forall d, In d docs -> lookup (fst d) (cold s) <> None) ->
    exists s', fold_left (reconcile_one valid c) docs (s, n, f) = (s', n + length docs, f) /\
               cold s' = cold s /\ hot s' = hot s.
  Proof.
    induction docs as [|d r IH]; cbn; intros s n f H.
    - exists s. rewrite Nat.add_0_r. auto.
    - destruct (lookup (fst d) (cold s)) as [rc|] eqn:E; [|exfalso; apply (H d); auto].
      set (s1 := if negb (vec_feqb (c_vec rc) (h_vec (snd d))) then l1_invalidate c s (fst d) else s).
      assert (C1 : cold s1 = cold s) by (unfold s1; destruct (negb _); [apply cold_l1_invalidate|auto]).
      assert (H1 : hot s1 = hot s) by (unfold s1; destruct (negb _); [apply hot_l1_invalidate|auto]).
      destruct (IH s1 (S n) f) as [s' [F [C2 H2]]].
      { intros d0 Hd. rewrite C1. apply H. auto. }
      exists s'. rewrite F. split; [f_equal; f_equal; lia|]. split; congruence.
  Qed.

  Lemma drain_no_orphan : forall c s, no_orphan s ->
    cold (fst (drain_reconcile valid c s)) = cold s /\ hot (fst (drain_reconcile valid c s)) = [] /\
    snd (drain_reconcile valid c s) = Some (length (hot s)).
  Proof.
    intros c s NO. unfold drain_reconcile. destruct (hot s) as [|d r] eqn:E; [cbn; auto|].
    unfold reconcile.
    destruct (reconcile_fold_present c (d :: r) (bump_flush (set_hot s [])) 0 []) as [s' [F [C H]]].
    { intros d0 Hd. cbn. destruct d0 as [k a]. apply NO. rewrite E. eapply in_lookup; eauto. }
    rewrite F. cbn. auto.
  Qed.

  Lemma drain_l1 : forall c s, l1_ok c s -> l1_ok c (fst (drain_reconcile valid c s)).
  Proof.
    intros c s H. unfold drain_reconcile. destruct (hot s) as [|d r]; [cbn; auto|].
    unfold reconcile.
    pose proof (reconcile_fold_l1 c (d :: r) (bump_flush (set_hot s [])) 0 [] H) as L.
    destruct (fold_left (reconcile_one valid c) (d :: r) (bump_flush (set_hot s []), 0, [])) as [[s1 n] f].
    cbn in L. destruct f; cbn; auto.
  Qed.

  Lemma flush_no_orphan : forall c s force, no_orphan s ->
    cold (fst (flush valid c s force)) = cold s /\ hot_sub (fst (flush valid c s force)) s.
  Proof.
    intros c s force NO. unfold flush. destruct (negb force && negb (needs_flush c s)); cbn.
    - split; [auto|apply hot_sub_refl].
    - destruct (drain_no_orphan c s NO) as [A [B _]]. split; auto.
      unfold hot_sub. rewrite B. cbn. congruence.
  Qed.

  Lemma flush_l1 : forall c s force, l1_ok c s -> l1_ok c (fst (flush valid c s force)).
  Proof.
    intros c s force H. unfold flush. destruct (negb force && negb (needs_flush c s)); cbn; auto.
    apply drain_l1; auto.
  Qed.

  Lemma audit_fold_frame : forall c L s,
    cold (fold_left (fun acc d => l1_invalidate c (set_hot acc (remove (fst d) (hot acc))) (fst d)) L s) = cold s /\
    hot_sub (fold_left (fun acc d => l1_invalidate c (set_hot acc (remove (fst d) (hot acc))) (fst d)) L s) s /\
    (l1_ok c s -> l1_ok c (fold_left (fun acc (d : N * hent) => l1_invalidate c (set_hot acc (remove (fst d) (hot acc))) (fst d)) L s)).
  Proof.
    induction L as [|d r IH]; cbn; intros s; [split; [auto|split; [apply hot_sub_refl|auto]]|].
    destruct (IH (l1_invalidate c (set_hot s (remove (fst d) (hot s))) (fst d))) as [A [B C]].
    rewrite A, cold_l1_invalidate. cbn. split; [auto|split].
    - eapply hot_sub_trans; [exact B|]. eapply hot_sub_remove. rewrite hot_l1_invalidate. reflexivity.
    - intros H. apply C. apply l1_ok_invalidate. eapply l1_ok_frame; eauto.
  Qed.

  Lemma audit_frame : forall c s,
    cold (audit digest c s) = cold s /\ hot_sub (audit digest c s) s /\ (l1_ok c s -> l1_ok c (audit digest c s)).
  Proof. intros. unfold audit. apply audit_fold_frame. Qed.

  Lemma tick_no_orphan : forall c s, no_orphan s ->
    cold (tick digest valid c s) = cold s /\ hot_sub (tick digest valid c s) s.
  Proof.
    intros c s NO. unfold tick. destruct (audit_frame c s) as [A [B _]].
    assert (NO1 : no_orphan (audit digest c s)) by (eapply no_orphan_sub; eauto).
    destruct (needs_flush c (audit digest c s)); [|auto].
    destruct (flush_no_orphan c (audit digest c s) false NO1) as [F1 F2].
    split; [congruence|eapply hot_sub_trans; eauto].
  Qed.

  Lemma tick_l1 : forall c s, l1_ok c s -> l1_ok c (tick digest valid c s).
  Proof.
    intros c s H. unfold tick. destruct (audit_frame c s) as [_ [_ L]].
    destruct (needs_flush c (audit digest c s)); auto. apply flush_l1; auto.
  Qed.

  (* ------------------------------------------------------------------------------------------ *)
  (* writes                                                                                      *)
  (* ------------------------------------------------------------------------------------------ *)
  Lemma canon_cold : forall s s' k, cold s' = cold s -> canon s' k = canon s k.
  Proof. intros. unfold canon. rewrite H. auto. Qed.

  Lemma canon_none_iff : forall s k, canon s k = None <-> lookup k (cold s) = None.
  Proof. intros. unfold canon. destruct (lookup k (cold s)); split; congruence. Qed.

  (* the emergency-drain prologue of insert *)
  Definition insert_pre (c : config) (s : state) : state * bool :=
    if hard c <=? length (hot s) then
      let '(s0, r) := drain_reconcile valid c s in
      (bump_emerg s0, match r with Some _ => true | None => false end)
    else (s, true).

  Lemma insert_unfold : forall c s id v m,
    insert digest valid c s id v m =
    let '(s1, ok) := insert_pre c s in
    if negb ok then (s1, false)
    else
      let s2 := l1_invalidate c s1 id in
      match cold_insert (cold s2) id v m with
      | None => (s2, false)
      | Some cd =>
          let s3 := set_cold s2 cd in
          let t := match cold_token digest s3 id with Some t => t | None => (0%N, []) end in
          (bump_ins (set_hot s3 (put id (mkH v (meta_canon m) t) (hot s3))), true)
      end.
  Proof. reflexivity. Qed.

  Lemma insert_pre_no_orphan : forall c s, no_orphan s ->
    exists s1, insert_pre c s = (s1, true) /\ cold s1 = cold s /\
               (hot s1 = [] \/ (hot s1 = hot s /\ length (hot s) < hard c)).
  Proof.
    intros c s NO. unfold insert_pre. destruct (hard c <=? length (hot s)) eqn:E.
    - destruct (drain_no_orphan c s NO) as [A [B C]].
      destruct (drain_reconcile valid c s) as [s0 r]. cbn in *. subst r.
      exists (bump_emerg s0). auto.
    - apply Nat.leb_gt in E. exists s. auto.
  Qed.

  Lemma insert_pre_l1 : forall c s, l1_ok c s -> l1_ok c (fst (insert_pre c s)).
  Proof.
    intros c s H. unfold insert_pre. destruct (hard c <=? length (hot s)); auto.
    pose proof (drain_l1 c s H) as L. destruct (drain_reconcile valid c s) as [s0 r]. cbn in *. auto.
  Qed.

  Lemma insert_l1 : forall c s id v m, l1_ok c s -> l1_ok c (fst (insert digest valid c s id v m)).
  Proof.
    intros c s id v m H. rewrite insert_unfold. pose proof (insert_pre_l1 c s H) as L.
    destruct (insert_pre c s) as [s1 ok]. cbn in L. destruct ok; cbn; auto.
    pose proof (l1_ok_invalidate c s1 id L) as L2.
    destruct (cold_insert (cold (l1_invalidate c s1 id)) id v m); cbn; auto.
  Qed.

  (* the abstract specification: a map from id to (vector, metadata); latest successful write wins *)
  Definition spec_insert (d : list (N * (vec * meta))) (id : N) (v : vec) (m : meta) :=
    if valid v then put id (v, meta_canon m) d else d.
  Definition spec_step (d : list (N * (vec * meta))) (o : op) : list (N * (vec * meta)) :=
    match o with
    | OInsert id v m => spec_insert d id v m
    | ODelete id => remove id d
    | OBatchDelete ids => remove_all ids d
    | OUpdMeta id m merge =>
        match lookup id d with
        | Some (v, m0) => put id (v, apply_meta m0 m merge) d
        | None => d
        end
    | OBulkLoad docs => fold_left (fun acc x => spec_insert acc (fst (fst x)) (snd (fst x)) (snd x)) docs d
    | _ => d
    end.

  Lemma insert_no_orphan_char : forall c s id v m, no_orphan s ->
    let r := insert digest valid c s id v m in
    snd r = valid v /\
    (forall k, canon (fst r) k = if valid v && N.eqb id k then Some (v, meta_canon m) else canon s k) /\
    no_orphan (fst r) /\
    (1 <= hard c -> length (hot (fst r)) <= hard c).
  Proof.
    intros c s id v m NO. cbv zeta. rewrite insert_unfold.
    destruct (insert_pre_no_orphan c s NO) as [s1 [P [C1 H1]]]. rewrite P. cbn [negb].
    cbv zeta. unfold Tiered.cold_insert. rewrite cold_l1_invalidate.
    destruct (valid v) eqn:V; cbn [fst snd andb].
    - split; [auto|]. split; [|split].
      + intros k. unfold canon. sproj. rewrite lookup_put. destruct (N.eqb id k); auto. rewrite C1. auto.
      + unfold no_orphan, bump_ins, set_ctr, set_hot, set_cold. cbn [cold hot l1a l1b ctr].
        rewrite hot_l1_invalidate. intros k. rewrite !lookup_put.
        destruct (N.eqb id k); [congruence|]. rewrite C1.
        destruct H1 as [H1|[H1 _]]; rewrite H1; [cbn; congruence|apply NO].
      + intros Hh. sproj. rewrite hot_l1_invalidate. unfold put. cbn [length].
        pose proof (length_remove_le id (hot s1)).
        destruct H1 as [H1|[H1 H2]]; rewrite H1 in *; cbn in *; lia.
    - split; [auto|]. split; [|split].
      + intros k. apply canon_cold. rewrite cold_l1_invalidate. auto.
      + eapply no_orphan_sub; [exact NO| rewrite cold_l1_invalidate; auto|].
        unfold hot_sub. rewrite hot_l1_invalidate. destruct H1 as [H1|[H1 _]]; rewrite H1; cbn; auto; congruence.
      + intros Hh. rewrite hot_l1_invalidate. destruct H1 as [H1|[H1 H2]]; rewrite H1; cbn; lia.
  Qed.

  Lemma delete_char : forall c s id,
    (forall k, canon (fst (delete c s id)) k = if N.eqb id k then None else canon s k) /\
    (no_orphan s -> no_orphan (fst (delete c s id))) /\
    (l1_ok c s -> l1_ok c (fst (delete c s id))) /\
    length (hot (fst (delete c s id))) <= length (hot s).
  Proof.
    intros c s id. unfold delete.
    set (s1 := set_hot (set_cold s (remove id (cold s))) (remove id (hot s))).
    assert (K : forall k, canon s1 k = if N.eqb id k then None else canon s k).
    { intros k. unfold canon. cbn. rewrite lookup_remove. destruct (N.eqb id k); auto. }
    assert (NO : no_orphan s -> no_orphan s1).
    { unfold no_orphan. cbn. intros H k. rewrite !lookup_remove. destruct (N.eqb id k); auto. }
    assert (L : l1_ok c s -> l1_ok c s1) by (apply l1_ok_frame; auto).
    assert (Hl : length (hot s1) <= length (hot s)) by (cbn; apply length_remove_le).
    destruct (negb (mem id (cold s)) && negb (mem id (hot s))); cbn [fst]; [auto|].
    split; [|split; [|split]].
    - intros k. rewrite (canon_cold s1); [apply K|apply cold_l1_invalidate].
    - intros H. eapply no_orphan_sub; [apply NO; exact H|apply cold_l1_invalidate|apply hot_sub_eq; apply hot_l1_invalidate].
    - intros H. apply l1_ok_invalidate. auto.
    - rewrite hot_l1_invalidate. auto.
  Qed.

  Lemma filter_nil_false : forall {A} (f : A -> bool) l, filter f l = [] -> forall x, In x l -> f x = false.
  Proof.
    induction l as [|a r IH]; cbn; intros H x Hx; [contradiction|].
    destruct (f a) eqn:E; [discriminate|]. destruct Hx as [->|Hx]; auto.
  Qed.

  Lemma batch_delete_char : forall c s ids,
    (forall k, canon (fst (batch_delete c s ids)) k = if existsb (N.eqb k) ids then None else canon s k) /\
    (no_orphan s -> no_orphan (fst (batch_delete c s ids))) /\
    (l1_ok c s -> l1_ok c (fst (batch_delete c s ids))) /\
    length (hot (fst (batch_delete c s ids))) <= length (hot s).
  Proof.
    intros c s ids. unfold batch_delete.
    set (u := sort_dedup ids).
    set (f := fun id => mem id (hot s) || mem id (cold s)).
    destruct (Nat.eqb (length (filter f u)) 0) eqn:E; cbn [fst].
    - apply Nat.eqb_eq in E. apply length_zero_iff_nil in E.
      split; [|auto]. intros k. destruct (existsb (N.eqb k) ids) eqn:X; auto.
      rewrite <- in_sort_dedup in X. fold u in X. apply existsb_exists in X. destruct X as [x [X1 X2]].
      apply N.eqb_eq in X2. subst x. pose proof (filter_nil_false f u E k X1) as F. unfold f in F.
      apply orb_false_iff in F. destruct F as [_ F]. apply canon_none_iff.
      unfold mem in F. destruct (lookup k (cold s)); [discriminate|auto].
    - set (s1 := set_hot (set_cold s (remove_all u (cold s))) (remove_all u (hot s))).
      destruct (fold_invalidate_frame c u s1) as [A [B C]].
      split; [|split; [|split]].
      + intros k. rewrite (canon_cold s1); auto. unfold canon. cbn. rewrite lookup_remove_all.
        unfold u. rewrite in_sort_dedup. destruct (existsb (N.eqb k) ids); auto.
      + intros NO. unfold no_orphan. rewrite A, B. cbn. intros k. rewrite !lookup_remove_all.
        destruct (existsb (N.eqb k) u); auto.
      + intros H. apply C. eapply l1_ok_frame; eauto.
      + rewrite B. cbn. apply length_remove_all_le.
  Qed.

  Lemma update_meta_char : forall s id m merge,
    (forall k, canon (fst (update_meta s id m merge)) k =
               match canon s id with
               | Some (v, m0) => if N.eqb id k then Some (v, apply_meta m0 m merge) else canon s k
               | None => canon s k
               end) /\
    (no_orphan s -> no_orphan (fst (update_meta s id m merge))) /\
    l1a (fst (update_meta s id m merge)) = l1a s /\ l1b (fst (update_meta s id m merge)) = l1b s /\
    length (hot (fst (update_meta s id m merge))) <= length (hot s).
  Proof.
    intros s id m merge. unfold update_meta, canon.
    destruct (lookup id (cold s)) as [r|] eqn:E; cbn [fst]; [|auto].
    set (s1 := set_cold s (put id (mkC (c_vec r) (apply_meta (c_meta r) m merge) (c_ver r)) (cold s))).
    assert (K : forall k, lookup k (cold s1) <> None <-> lookup k (cold s) <> None).
    { intros k. unfold s1. sproj. rewrite lookup_put. destruct (N.eqb id k) eqn:X; [|tauto].
      apply N.eqb_eq in X. subst k. rewrite E. split; congruence. }
    destruct (lookup id (hot s1)) as [h|] eqn:Eh.
    - unfold s1 in *. sproj. split; [|split; [|split; [|split]]]; auto.
      + intros k. rewrite lookup_put. destruct (N.eqb id k); auto.
      + unfold no_orphan. sproj. intros NO k. rewrite !lookup_put. destruct (N.eqb id k) eqn:X.
        * congruence.
        * apply NO.
      + sproj. unfold set_cold in Eh. cbn [hot] in Eh. assert (lookup id (hot s) <> None) by congruence.
        apply length_remove_lt in H. unfold put. cbn [length]. lia.
    - unfold s1 in *. sproj. split; [|split; [|split; [|split]]]; auto.
      + intros k. rewrite lookup_put. destruct (N.eqb id k); auto.
      + unfold no_orphan. sproj. intros NO k Hk. rewrite lookup_put. destruct (N.eqb id k); [congruence|auto].
  Qed.

  Lemma bulk_fold_char : forall docs s a b d,
    (forall k, canon s k = lookup k d) ->
    exists s1 a1 b1,
      fold_left (bulk_load_one valid) docs (s, a, b) = (s1, a1, b1) /\
      hot s1 = hot s /\ l1a s1 = l1a s /\ l1b s1 = l1b s /\
      (forall k, canon s1 k = lookup k (fold_left (fun acc x => spec_insert acc (fst (fst x)) (snd (fst x)) (snd x)) docs d)) /\
      (forall k, lookup k (cold s) <> None -> lookup k (cold s1) <> None) /\
      (forall k, existsb (N.eqb k) (map (fun x => fst (fst x)) docs) = false -> lookup k (cold s1) = lookup k (cold s)).
  Proof.
    induction docs as [|[[id v] m] r IH]; cbn; intros s a b d H.
    - exists s, a, b. auto 10.
    - unfold Tiered.cold_insert, spec_insert. destruct (valid v) eqn:V.
      + set (s0 := set_cold s (put id (mkC v (meta_canon m) (match lookup id (cold s) with Some r0 => N.succ (c_ver r0) | None => 1%N end)) (cold s))).
        destruct (IH s0 (S a) b (put id (v, meta_canon m) d)) as [s1 [a1 [b1 [F [Hh [La [Lb [K [M U]]]]]]]]].
        { intros k. unfold canon, s0. sproj. rewrite !lookup_put. destruct (N.eqb id k); auto. apply H. }
        exists s1, a1, b1. split; [auto|]. split; [auto|]. split; [auto|]. split; [auto|]. split; [auto|]. split.
        * intros k Hk. apply M. unfold s0. sproj. rewrite lookup_put. destruct (N.eqb id k); [congruence|auto].
        * intros k Hk. apply orb_false_iff in Hk. destruct Hk as [Hk1 Hk2]. rewrite (U k Hk2).
          unfold s0. sproj. rewrite lookup_put. rewrite N.eqb_sym, Hk1. auto.
      + destruct (IH s a (S b) d H) as [s1 [a1 [b1 [F [Hh [La [Lb [K [M U]]]]]]]]]. exists s1, a1, b1.
        split; [auto|]. split; [auto|]. split; [auto|]. split; [auto|]. split; [auto|]. split; [auto|].
        intros k Hk. apply orb_false_iff in Hk. destruct Hk as [_ Hk2]. auto.
  Qed.

  Lemma bulk_load_char : forall c s docs,
    (forall k, canon (fst (bulk_load valid c s docs)) k = lookup k (spec_step (cold_docs s) (OBulkLoad docs))) /\
    (no_orphan s -> no_orphan (fst (bulk_load valid c s docs))) /\
    (l1_ok c s -> l1_ok c (fst (bulk_load valid c s docs))) /\
    hot (fst (bulk_load valid c s docs)) = remove_all (map (fun d => fst (fst d)) docs) (hot s) /\
    (forall k, existsb (N.eqb k) (map (fun d => fst (fst d)) docs) = false ->
               lookup k (cold (fst (bulk_load valid c s docs))) = lookup k (cold s)).
  Proof.
    intros c s docs. unfold bulk_load.
    destruct (bulk_fold_char docs s 0 0 (cold_docs s)) as [s1 [a1 [b1 [F [Hh [La [Lb [K [M U]]]]]]]]].
    { intros k. symmetry. apply lookup_cold_docs. }
    rewrite F. cbv zeta. cbn [fst].
    destruct (fold_invalidate_frame c (map (fun d => fst (fst d)) docs) s1) as [A [B C]].
    split; [|split; [|split; [|split]]].
    - intros k. rewrite (canon_cold s1); auto.
    - intros NO. unfold no_orphan. sproj. rewrite A, B, Hh. intros k Hk. apply M. apply NO.
      rewrite lookup_remove_all in Hk. destruct (existsb _ _); congruence.
    - intros H. eapply l1_ok_frame; [| |apply C; eapply l1_ok_frame; eauto]; reflexivity.
    - sproj. congruence.
    - intros k Hk. sproj. rewrite A. auto.
  Qed.

  (* ---------- the step function as a whole ---------- *)
  Lemma step_l1_ok : forall c s o, caps_ok c -> l1_ok c s -> l1_ok c (fst (step c s o)).
  Proof.
    intros c s o Cc H. destruct o; cbn [Tiered.step].
    - pose proof (query_frame c s adm id) as F. destruct (query c s adm id). cbn in *. apply F; auto.
    - pose proof (get_doc_frame c s id) as F. destruct (get_doc c s id). cbn in *. apply F; auto.
    - pose proof (get_emb_frame c s id) as F. destruct (get_emb c s id). cbn in *. apply F; auto.
    - auto.
    - auto.
    - pose proof (bulk_frame c s inc ids) as F. destruct (bulk c s inc ids). cbn in *. apply F; auto.
    - pose proof (insert_l1 c s id v m H) as F. destruct (insert digest valid c s id v m). auto.
    - pose proof (delete_char c s id) as F. destruct (delete c s id). cbn in *. apply F; auto.
    - pose proof (batch_delete_char c s ids) as F. destruct (batch_delete c s ids). cbn in *. apply F; auto.
    - pose proof (update_meta_char s id m merge) as F. destruct (update_meta s id m merge). cbn in *.
      destruct F as [_ [_ [A [B _]]]]. eapply l1_ok_frame; eauto.
    - pose proof (bulk_load_char c s docs) as F. destruct (bulk_load valid c s docs). cbn in *. apply F; auto.
    - pose proof (flush_l1 c s force H) as F. destruct (flush valid c s force). auto.
    - cbn. apply audit_frame. auto.
    - cbn. apply tick_l1. auto.
    - cbn. unfold poke_l1. destruct Cc, H. destruct b; split; cbn; auto; apply lru_insert_length; auto.
    - cbn. unfold poke_hot. eapply l1_ok_frame; eauto.
  Qed.

  Theorem l1a_bound : forall c docs ops, caps_ok c -> l1_ok c (run c (init docs) ops).
  Proof.
    intros c docs ops Cc. unfold Tiered.run.
    assert (G : forall ops s, l1_ok c s -> l1_ok c (fold_left (fun acc o => fst (step c acc o)) ops s)).
    { induction ops0 as [|o r IH]; cbn; intros s H; auto. apply IH. apply step_l1_ok; auto. }
    apply G. unfold l1_ok, init. cbn. lia.
  Qed.

  (* guarded histories: a mirror poke may only target an id that exists in the cold tier *)
  Definition guard (s : state) (o : op) : bool :=
    match o with OPokeHot id _ _ _ => mem id (cold s) | _ => true end.
  Fixpoint run_guarded (c : config) (s : state) (ops : list op) : option state :=
    match ops with
    | [] => Some s
    | o :: r => if guard s o then run_guarded c (fst (step c s o)) r else None
    end.

  Lemma step_cold_no_orphan : forall c s o, no_orphan s ->
    (forall k, lookup k (cold_docs (fst (step c s o))) = lookup k (spec_step (cold_docs s) o)) /\
    (guard s o = true -> no_orphan (fst (step c s o))).
  Proof.
    intros c s o NO.
    assert (R : forall s', cold s' = cold s -> hot_sub s' s ->
                (forall k, lookup k (cold_docs s') = lookup k (cold_docs s)) /\ no_orphan s').
    { intros s' C S. split; [|eapply no_orphan_sub; eauto]. intros k. unfold cold_docs. rewrite C. auto. }
    destruct o; cbn [Tiered.step spec_step guard].
    - pose proof (query_frame c s adm id) as [F _]. pose proof (query_canonical c s adm id) as [_ C].
      destruct (query c s adm id). cbn in *. destruct (R s0 C F). auto.
    - pose proof (get_doc_frame c s id) as [F _]. pose proof (get_doc_canonical c s id) as [_ C].
      destruct (get_doc c s id). cbn in *. destruct (R s0 C F). auto.
    - pose proof (get_emb_frame c s id) as [F _]. pose proof (get_emb_canonical c s id) as [_ C].
      destruct (get_emb c s id). cbn in *. destruct (R s0 C F). auto.
    - cbn. auto.
    - cbn. auto.
    - pose proof (bulk_frame c s inc ids) as [C [F _]]. destruct (bulk c s inc ids). cbn in *.
      destruct (R s0 C F). auto.
    - pose proof (insert_no_orphan_char c s id v m NO) as F. cbv zeta in F.
      destruct (insert digest valid c s id v m) as [s' b]. cbn in *. destruct F as [_ [K [N1 _]]].
      split; auto. intros k. rewrite lookup_cold_docs, K. unfold spec_insert.
      destruct (valid v); cbn [andb]; [rewrite lookup_put; destruct (N.eqb id k)|]; auto;
        symmetry; apply lookup_cold_docs.
    - pose proof (delete_char c s id) as [K [N1 _]]. destruct (delete c s id). cbn in *. split; auto.
      intros k. rewrite lookup_cold_docs, K, lookup_remove. destruct (N.eqb id k); auto.
      symmetry. apply lookup_cold_docs.
    - pose proof (batch_delete_char c s ids) as [K [N1 _]]. destruct (batch_delete c s ids). cbn in *. split; auto.
      intros k. rewrite lookup_cold_docs, K, lookup_remove_all. destruct (existsb (N.eqb k) ids); auto.
      symmetry. apply lookup_cold_docs.
    - pose proof (update_meta_char s id m merge) as [K [N1 _]]. destruct (update_meta s id m merge). cbn in *.
      split; auto. intros k. rewrite lookup_cold_docs, K. rewrite (lookup_cold_docs s id).
      destruct (canon s id) as [[v0 m0]|]; [rewrite lookup_put; destruct (N.eqb id k)|]; auto;
        symmetry; apply lookup_cold_docs.
    - pose proof (bulk_load_char c s docs) as [K [N1 _]]. destruct (bulk_load valid c s docs). cbn in *. split; auto.
      intros k. rewrite lookup_cold_docs. apply K.
    - pose proof (flush_no_orphan c s force NO) as [C F]. destruct (flush valid c s force). cbn in *.
      destruct (R s0 C F). auto.
    - cbn. destruct (audit_frame c s) as [C [F _]]. destruct (R _ C F). auto.
    - cbn. destruct (tick_no_orphan c s NO) as [C F]. destruct (R _ C F). auto.
    - cbn [fst].
      assert (C : cold (poke_l1 c s b id v t) = cold s) by (unfold poke_l1; destruct b; reflexivity).
      assert (F : hot_sub (poke_l1 c s b id v t) s) by (apply hot_sub_eq; unfold poke_l1; destruct b; reflexivity).
      destruct (R _ C F). auto.
    - cbn [fst]. split; [intros k; reflexivity|]. intros G. unfold no_orphan, poke_hot. sproj. intros k. rewrite lookup_put.
      destruct (N.eqb id k) eqn:X; [|apply NO]. apply N.eqb_eq in X. subst k. intros _.
      apply mem_lookup. auto.
  Qed.

  Lemma init_no_orphan : forall docs, no_orphan (init docs).
  Proof. unfold no_orphan, init. cbn. congruence. Qed.

  Theorem api_no_orphan : forall c docs ops s, run_guarded c (init docs) ops = Some s -> no_orphan s.
  Proof.
    intros c docs ops. generalize (init_no_orphan docs). generalize (init docs).
    induction ops as [|o r IH]; cbn; intros s0 NO s H.
    - inversion H; subst. auto.
    - destruct (guard s0 o) eqn:G; [|discriminate]. eapply IH; [|exact H].
      apply step_cold_no_orphan; auto.
  Qed.

  Theorem refines_map : forall c s o, no_orphan s ->
    forall k, lookup k (cold_docs (fst (step c s o))) = lookup k (spec_step (cold_docs s) o).
  Proof. intros c s o NO. apply step_cold_no_orphan. auto. Qed.

  (* drains, audits and the background tick are invisible: the canonical store is unchanged and so
     is every read result *)
  Definition is_maintenance (o : op) : bool :=
    match o with OFlush _ | OAudit | OTick => true | _ => false end.

  Theorem drain_audit_neutral : forall c s o, no_orphan s -> is_maintenance o = true ->
    let s' := fst (step c s o) in
    (forall k, lookup k (cold_docs s') = lookup k (cold_docs s)) /\
    (forall adm id ids,
       option_map fst (snd (query c s' adm id)) = option_map fst (snd (query c s adm id)) /\
       snd (get_doc c s' id) = snd (get_doc c s id) /\
       snd (get_emb c s' id) = snd (get_emb c s id) /\
       get_meta s' id = get_meta s id /\
       exists_ s' id = exists_ s id /\
       map strip (snd (bulk c s' true ids)) = map strip (snd (bulk c s true ids))).
  Proof.
    intros c s o NO M. cbv zeta.
    assert (K : forall k, lookup k (cold_docs (fst (step c s o))) = lookup k (cold_docs s)).
    { intros k. rewrite (refines_map c s o NO). destruct o; try discriminate; reflexivity. }
    split; auto. intros adm id ids.
    destruct (reads_canonical c (fst (step c s o)) adm id ids) as [A1 [A2 [A3 [A4 [A5 A6]]]]].
    destruct (reads_canonical c s adm id ids) as [B1 [B2 [B3 [B4 [B5 B6]]]]].
    rewrite A1, A2, A3, A4, A5, A6, B1, B2, B3, B4, B5, B6, !K.
    repeat split; auto. apply map_ext. intros. apply K.
  Qed.

  (* C20: the mirror is within the hard limit whenever insert returns (Ok or Err) *)
  Theorem hot_bound_after_insert : forall c s id v m, 1 <= hard c -> no_orphan s ->
    length (hot (fst (step c s (OInsert id v m)))) <= hard c.
  Proof.
    intros c s id v m Hh NO. cbn [Tiered.step].
    pose proof (insert_no_orphan_char c s id v m NO) as F. cbv zeta in F.
    destruct (insert digest valid c s id v m). cbn in *. apply F. auto.
  Qed.

  (* states that differ only in caches / mirror give the same answers *)
  Theorem evicted_still_readable : forall c s s' adm adm' id ids, cold s' = cold s ->
    option_map fst (snd (query c s' adm' id)) = option_map fst (snd (query c s adm id)) /\
    snd (get_doc c s' id) = snd (get_doc c s id) /\
    snd (get_emb c s' id) = snd (get_emb c s id) /\
    map strip (snd (bulk c s' true ids)) = map strip (snd (bulk c s true ids)).
  Proof.
    intros c s s' adm adm' id ids C.
    destruct (reads_canonical c s' adm' id ids) as [A1 [A2 [A3 [_ [_ A6]]]]].
    destruct (reads_canonical c s adm id ids) as [B1 [B2 [B3 [_ [_ B6]]]]].
    assert (K : cold_docs s' = cold_docs s) by (unfold cold_docs; rewrite C; auto).
    rewrite A1, A2, A3, A6, B1, B2, B3, B6, K. auto.
  Qed.

  (* end to end: after ANY guarded API history the canonical store is the abstract map obtained by
     folding the specification over the same operations (latest successful write wins) *)
  Definition lk_eq (d d' : list (N * (vec * meta))) : Prop := forall k, lookup k d = lookup k d'.

  Lemma spec_insert_equiv : forall d d' id v m, lk_eq d d' -> lk_eq (spec_insert d id v m) (spec_insert d' id v m).
  Proof.
    unfold lk_eq, spec_insert. intros d d' id v m H k. destruct (valid v); auto.
    rewrite !lookup_put. destruct (N.eqb id k); auto.
  Qed.

  Lemma spec_step_equiv : forall o d d', lk_eq d d' -> lk_eq (spec_step d o) (spec_step d' o).
  Proof.
    intros o d d' H. destruct o; cbn [spec_step]; auto.
    - apply spec_insert_equiv; auto.
    - intros k. rewrite !lookup_remove. destruct (N.eqb id k); auto.
    - intros k. rewrite !lookup_remove_all. destruct (existsb (N.eqb k) ids); auto.
    - rewrite <- (H id). destruct (lookup id d) as [[v0 m0]|]; auto.
      intros k. rewrite !lookup_put. destruct (N.eqb id k); auto.
    - revert d d' H. induction docs as [|x r IH]; cbn; intros d d' H; auto.
      apply IH. apply spec_insert_equiv; auto.
  Qed.

  Theorem history_refines : forall c docs ops s,
    run_guarded c (init docs) ops = Some s ->
    forall k, lookup k (cold_docs s) = lookup k (fold_left spec_step ops (cold_docs (init docs))).
  Proof.
    intros c docs ops.
    assert (G : forall ops s0 d0, no_orphan s0 -> lk_eq (cold_docs s0) d0 ->
              forall s, run_guarded c s0 ops = Some s ->
              lk_eq (cold_docs s) (fold_left spec_step ops d0)).
    { induction ops0 as [|o r IH]; cbn; intros s0 d0 NO E s H.
      - inversion H; subst. auto.
      - destruct (guard s0 o) eqn:Gd; [|discriminate].
        destruct (step_cold_no_orphan c s0 o NO) as [K N1].
        eapply IH; [apply N1; auto| |exact H].
        intros k. rewrite K. apply spec_step_equiv. auto. }
    intros s H. eapply G; eauto. apply init_no_orphan. intros k. auto.
  Qed.

  (* ------------------------------------------------------------------------------------------ *)
  (* no stale mirror: after an API history without mirror pokes every hot-tier entry carries the   *)
  (* CURRENT canonical token and payload of its id (needed by C06: hot k-NN candidates are live)   *)
  (* ------------------------------------------------------------------------------------------ *)
  Definition mirror_fresh (s : state) : Prop :=
    forall id h, lookup id (hot s) = Some h ->
    exists r, lookup id (cold s) = Some r /\ h_vec h = c_vec r /\ h_tok h = (c_ver r, digest (c_vec r)).

  Lemma fresh_no_orphan : forall s, mirror_fresh s -> no_orphan s.
  Proof.
    unfold mirror_fresh, no_orphan. intros s F id H.
    destruct (lookup id (hot s)) as [h|] eqn:E; [|congruence].
    destruct (F id h E) as [r [L _]]. congruence.
  Qed.

  Lemma fresh_match : forall s, mirror_fresh s ->
    forall id h, lookup id (hot s) = Some h -> canon_state s id (h_vec h) (h_tok h) = CMatch.
  Proof.
    intros s F id h H. destruct (F id h H) as [r [L [V T]]].
    unfold Tiered.canon_state, cold_token. rewrite L, T, V. cbn [snd].
    assert (E1 : tok_eqb (c_ver r, digest (c_vec r)) (c_ver r, digest (c_vec r)) = true) by (apply tok_eqb_eq; auto).
    assert (E2 : vec_eqb (digest (c_vec r)) (digest (c_vec r)) = true) by (apply vec_eqb_eq; auto).
    rewrite E1, E2. reflexivity.
  Qed.

  Lemma fresh_sub : forall s' s, mirror_fresh s -> cold s' = cold s -> hot_sub s' s -> mirror_fresh s'.
  Proof. unfold mirror_fresh, hot_sub. intros s' s F C S id h H. rewrite C. auto. Qed.

  Lemma insert_fresh : forall c s id v m, mirror_fresh s -> mirror_fresh (fst (insert digest valid c s id v m)).
  Proof.
    intros c s id v m F. rewrite insert_unfold.
    destruct (insert_pre_no_orphan c s (fresh_no_orphan s F)) as [s1 [P [C1 H1]]]. rewrite P. cbn [negb].
    cbv zeta. unfold Tiered.cold_insert. rewrite cold_l1_invalidate.
    assert (F1 : mirror_fresh (l1_invalidate c s1 id)).
    { eapply fresh_sub; [exact F|rewrite cold_l1_invalidate; auto|].
      unfold hot_sub. rewrite hot_l1_invalidate. destruct H1 as [H1|[H1 _]]; rewrite H1; cbn; auto; congruence. }
    destruct (valid v) eqn:V; cbn [fst]; [|exact F1].
    unfold mirror_fresh, cold_token. sproj. rewrite hot_l1_invalidate, lookup_put_eq.
    intros k h. rewrite !lookup_put. destruct (N.eqb id k) eqn:X.
    - intros H. inversion H; subst h. cbn [h_vec h_tok]. eexists. split; [reflexivity|]. cbn [c_vec c_ver]. auto.
    - intros H. unfold mirror_fresh in F1. rewrite hot_l1_invalidate, cold_l1_invalidate in F1. apply F1. auto.
  Qed.

  Lemma delete_fresh : forall c s id, mirror_fresh s -> mirror_fresh (fst (delete c s id)).
  Proof.
    intros c s id F. unfold delete.
    set (s1 := set_hot (set_cold s (remove id (cold s))) (remove id (hot s))).
    assert (F1 : mirror_fresh s1).
    { unfold mirror_fresh, s1. sproj. intros k h. rewrite !lookup_remove. destruct (N.eqb id k); [congruence|apply F]. }
    destruct (negb (mem id (cold s)) && negb (mem id (hot s))); cbn [fst]; auto.
    eapply fresh_sub; [exact F1|apply cold_l1_invalidate|apply hot_sub_eq; apply hot_l1_invalidate].
  Qed.

  Lemma batch_delete_fresh : forall c s ids, mirror_fresh s -> mirror_fresh (fst (batch_delete c s ids)).
  Proof.
    intros c s ids F. unfold batch_delete.
    destruct (Nat.eqb _ 0); cbn [fst]; auto.
    set (u := sort_dedup ids).
    set (s1 := set_hot (set_cold s (remove_all u (cold s))) (remove_all u (hot s))).
    destruct (fold_invalidate_frame c u s1) as [A [B _]].
    eapply fresh_sub; [|exact A|apply hot_sub_eq; exact B].
    unfold mirror_fresh, s1. sproj. intros k h. rewrite !lookup_remove_all.
    destruct (existsb (N.eqb k) u); [congruence|apply F].
  Qed.

  Lemma update_meta_fresh : forall s id m merge, mirror_fresh s -> mirror_fresh (fst (update_meta s id m merge)).
  Proof.
    intros s id m merge F. unfold update_meta.
    destruct (lookup id (cold s)) as [r|] eqn:E; cbn [fst]; auto.
    set (s1 := set_cold s (put id (mkC (c_vec r) (apply_meta (c_meta r) m merge) (c_ver r)) (cold s))).
    assert (F1 : mirror_fresh s1).
    { unfold mirror_fresh, s1. sproj. intros k h H. rewrite lookup_put. destruct (F k h H) as [r0 [L R]].
      destruct (N.eqb id k) eqn:X; [|eauto]. apply N.eqb_eq in X. subst k. rewrite E in L. inversion L; subst r0.
      eexists. split; [reflexivity|]. cbn [c_vec c_ver]. auto. }
    destruct (lookup id (hot s1)) as [h0|] eqn:Eh; auto.
    unfold mirror_fresh. sproj. intros k h. rewrite lookup_put. destruct (N.eqb id k) eqn:X.
    - apply N.eqb_eq in X. subst k. intros H. inversion H; subst h. cbn [h_vec h_tok]. apply (F1 id h0 Eh).
    - apply F1.
  Qed.

  Lemma bulk_load_fresh : forall c s docs, mirror_fresh s -> mirror_fresh (fst (bulk_load valid c s docs)).
  Proof.
    intros c s docs F. destruct (bulk_load_char c s docs) as [_ [_ [_ [Hh U]]]].
    unfold mirror_fresh. rewrite Hh. intros k h. rewrite lookup_remove_all.
    destruct (existsb (N.eqb k) (map (fun d => fst (fst d)) docs)) eqn:X; [congruence|].
    intros H. rewrite (U k X). apply F. auto.
  Qed.

  Definition no_hot_poke (o : op) : bool := match o with OPokeHot _ _ _ _ => false | _ => true end.

  Lemma step_fresh : forall c s o, no_hot_poke o = true -> mirror_fresh s -> mirror_fresh (fst (step c s o)).
  Proof.
    intros c s o G F. pose proof (fresh_no_orphan s F) as NO.
    assert (R : forall s', cold s' = cold s -> hot_sub s' s -> mirror_fresh s') by (intros; eapply fresh_sub; eauto).
    destruct o; cbn [Tiered.step]; try discriminate.
    - pose proof (query_frame c s adm id) as [Fr _]. pose proof (query_canonical c s adm id) as [_ C].
      destruct (query c s adm id). cbn in *. auto.
    - pose proof (get_doc_frame c s id) as [Fr _]. pose proof (get_doc_canonical c s id) as [_ C].
      destruct (get_doc c s id). cbn in *. auto.
    - pose proof (get_emb_frame c s id) as [Fr _]. pose proof (get_emb_canonical c s id) as [_ C].
      destruct (get_emb c s id). cbn in *. auto.
    - auto.
    - auto.
    - pose proof (bulk_frame c s inc ids) as [C [Fr _]]. destruct (bulk c s inc ids). cbn in *. auto.
    - pose proof (insert_fresh c s id v m F) as X. destruct (insert digest valid c s id v m). auto.
    - pose proof (delete_fresh c s id F) as X. destruct (delete c s id). auto.
    - pose proof (batch_delete_fresh c s ids F) as X. destruct (batch_delete c s ids). auto.
    - pose proof (update_meta_fresh s id m merge F) as X. destruct (update_meta s id m merge). auto.
    - pose proof (bulk_load_fresh c s docs F) as X. destruct (bulk_load valid c s docs). auto.
    - pose proof (flush_no_orphan c s force NO) as [C Fr]. destruct (flush valid c s force). cbn in *. auto.
    - cbn [fst]. destruct (audit_frame c s) as [C [Fr _]]. auto.
    - cbn [fst]. destruct (tick_no_orphan c s NO) as [C Fr]. auto.
    - cbn [fst]. apply R; [|apply hot_sub_eq]; unfold poke_l1; destruct b; reflexivity.
  Qed.

  Theorem api_no_stale_mirror : forall c docs ops,
    forallb no_hot_poke ops = true ->
    let s := run c (init docs) ops in
    forall id h, lookup id (hot s) = Some h ->
    (exists r, lookup id (cold s) = Some r /\ h_vec h = c_vec r /\ h_tok h = (c_ver r, digest (c_vec r))) /\
    canon_state s id (h_vec h) (h_tok h) = CMatch.
  Proof.
    intros c docs ops G. cbv zeta.
    assert (F : mirror_fresh (run c (init docs) ops)).
    { unfold Tiered.run. assert (I : mirror_fresh (init docs)) by (unfold mirror_fresh, init; cbn; congruence).
      revert G I. generalize (init docs). induction ops as [|o r IH]; cbn; intros s0 G I; auto.
      apply andb_true_iff in G. destruct G as [G1 G2]. apply IH; auto. apply step_fresh; auto. }
    intros id h H. split; [apply F; auto|apply fresh_match; auto].
  Qed.

  (* final forms pinned in Properties/C20.v *)
  Theorem l1a_bound_explicit : forall c docs ops, 1 <= cap_a c -> 1 <= cap_b c ->
    length (l1a (run c (init docs) ops)) <= cap_a c /\ length (l1b (run c (init docs) ops)) <= cap_b c.
  Proof. intros c docs ops Ha Hb. apply l1a_bound. split; auto. Qed.

  Theorem hot_bound_api : forall c docs ops s id v m, 1 <= hard c ->
    run_guarded c (init docs) ops = Some s ->
    length (hot (fst (step c s (OInsert id v m)))) <= hard c.
  Proof. intros. apply hot_bound_after_insert; auto. eapply api_no_orphan; eauto. Qed.
End Theorems.

(* ---------- concrete instances used by the witnesses / examples ---------- *)
Definition id_digest (v : vec) : dgst := v.
Lemma id_digest_inj : forall a b : vec, id_digest a = id_digest b -> a = b.
Proof. auto. Qed.
Definition all_valid (v : vec) : bool := true.
Definition dim4_valid (v : vec) : bool := Nat.eqb (length v) 4.
