(* Tenant index assignment (Model/Server.v: tmap_create = TenantIdMapper::load_or_create on a fresh
   data dir, tmap_ensure = ensure_tenant after the persisted map was loaded): indices stay dense and
   pairwise distinct, existing tenants keep their index when tenants are added, and a new tenant
   receives an index no existing tenant has. *)
From Coq Require Import List NArith ZArith Bool String Lia.
From Kyro Require Import Model.Server Proofs.ServerProofs.
Import ListNotations.
Open Scope N_scope.

Definition tlen (m : tmap) : N := N.of_nat (List.length m).
(* dense: every index is below the size of the map; injective: distinct tenants, distinct indices *)
Definition tm_ok (m : tmap) : Prop :=
  (forall t i, tm_get m t = Some i -> i < tlen m)
  /\ (forall t t' i, tm_get m t = Some i -> tm_get m t' = Some i -> t = t').

Lemma tm_get_app : forall m t i t',
  tm_get (m ++ [(t, i)]) t' = match tm_get m t' with Some x => Some x | None => if str_eqb t' t then Some i else None end.
Proof.
  induction m as [|[t0 i0] r IH]; intros t i t'; cbn; [reflexivity|].
  destruct (str_eqb t' t0); [reflexivity | apply IH].
Qed.
Lemma enumerate_length : forall l i, List.length (enumerate_from i l) = List.length l.
Proof. induction l as [|x l IH]; intro i; cbn; [reflexivity | rewrite IH; reflexivity]. Qed.
Lemma enumerate_get : forall l i t j, tm_get (enumerate_from i l) t = Some j ->
  i <= j /\ j < i + N.of_nat (List.length l) /\ nth_error l (N.to_nat (j - i)) = Some t.
Proof.
  induction l as [|x l IH]; intros i t j H; cbn in H; [discriminate|].
  destruct (str_eqb t x) eqn:E.
  - inversion H; subst j. apply str_eqb_eq in E. subst x. replace (i - i) with 0 by lia. cbn [List.length]. split; [lia|]. split; [lia|]. reflexivity.
  - apply IH in H. destruct H as [H1 [H2 H3]]. cbn [List.length]. split; [lia|]. split; [lia|].
    replace (N.to_nat (j - i)) with (S (N.to_nat (j - (i + 1)))) by lia. exact H3.
Qed.
Lemma tmap_create_ok : forall tids, tm_ok (tmap_create tids).
Proof.
  intro tids. unfold tmap_create, tm_ok, tlen. rewrite enumerate_length. split.
  - intros t i H. apply enumerate_get in H. lia.
  - intros t t' i H H'. apply enumerate_get in H. apply enumerate_get in H'.
    destruct H as [_ [_ H]]. destruct H' as [_ [_ H']]. congruence.
Qed.
Lemma tmap_ensure_stable : forall m t t' i, tm_get m t' = Some i -> tm_get (tmap_ensure m t) t' = Some i.
Proof.
  intros m t t' i H. unfold tmap_ensure. destruct (tm_get m t); [exact H|]. rewrite tm_get_app, H. reflexivity.
Qed.
Lemma tmap_ensure_fresh : forall m t, tm_get m t = None -> tm_get (tmap_ensure m t) t = Some (tlen m).
Proof. intros m t H. unfold tmap_ensure. rewrite H, tm_get_app, H, str_eqb_refl. reflexivity. Qed.
Lemma tmap_ensure_ok : forall m t, tm_ok m -> tm_ok (tmap_ensure m t).
Proof.
  intros m t [Hb Hi]. unfold tmap_ensure. destruct (tm_get m t) eqn:E; [split; assumption|].
  unfold tm_ok, tlen in *. set (n := N.of_nat (List.length m)) in *.
  assert (Hl : N.of_nat (List.length (m ++ [(t, n)])) = n + 1) by (unfold n; rewrite app_length; cbn; lia).
  rewrite Hl. split.
  - intros t' i H. rewrite tm_get_app in H. destruct (tm_get m t') eqn:E'.
    + inversion H; subst. apply Hb in E'. lia.
    + destruct (str_eqb t' t); [inversion H; lia | discriminate].
  - intros t1 t2 i H1 H2. rewrite tm_get_app in H1, H2.
    destruct (tm_get m t1) eqn:E1; destruct (tm_get m t2) eqn:E2.
    + inversion H1; inversion H2; subst. eapply Hi; eauto.
    + inversion H1; subst. destruct (str_eqb t2 t); [|discriminate]. inversion H2; subst. apply Hb in E1. lia.
    + inversion H2; subst. destruct (str_eqb t1 t); [|discriminate]. inversion H1; subst. apply Hb in E2. lia.
    + destruct (str_eqb t1 t) eqn:F1; [|discriminate]. destruct (str_eqb t2 t) eqn:F2; [|discriminate].
      apply str_eqb_eq in F1. apply str_eqb_eq in F2. congruence.
Qed.
Lemma tmap_ensure_all_ok : forall ts m, tm_ok m -> tm_ok (tmap_ensure_all m ts).
Proof. unfold tmap_ensure_all. induction ts as [|t r IH]; intros m H; cbn; [exact H|]. apply IH. apply tmap_ensure_ok. exact H. Qed.
Lemma tmap_ensure_all_stable : forall ts m t' i, tm_get m t' = Some i -> tm_get (tmap_ensure_all m ts) t' = Some i.
Proof. unfold tmap_ensure_all. induction ts as [|t r IH]; intros m t' i H; cbn; [exact H|]. apply IH. apply tmap_ensure_stable. exact H. Qed.

(* the whole life of a data dir: created from the first key file, then extended at every restart *)
Theorem tenant_index_stable_across_restart :
  forall (first_keys : list str) (later : list (list str)),
  let m0 := tmap_create first_keys in
  let m := fold_left tmap_ensure_all later m0 in
  tm_ok m
  /\ (forall t i, tm_get m0 t = Some i -> tm_get m t = Some i)
  /\ (forall t, tm_get m t = None ->
        tm_get (tmap_ensure m t) t = Some (tlen m)
        /\ (forall t' i, tm_get m t' = Some i -> i <> tlen m /\ tm_get (tmap_ensure m t) t' = Some i)).
Proof.
  intros first_keys later m0 m.
  assert (Hgen : forall ls a, tm_ok a -> tm_ok (fold_left tmap_ensure_all ls a) /\ (forall t i, tm_get a t = Some i -> tm_get (fold_left tmap_ensure_all ls a) t = Some i)).
  { induction ls as [|l r IH]; intros a Ha; cbn; [split; auto|].
    destruct (IH (tmap_ensure_all a l) (tmap_ensure_all_ok l a Ha)) as [H1 H2]. split; [exact H1|].
    intros t i H. apply H2. apply tmap_ensure_all_stable. exact H. }
  destruct (Hgen later m0 (tmap_create_ok first_keys)) as [Hok Hst]. fold m in Hok, Hst.
  split; [exact Hok|]. split; [exact Hst|].
  intros t Hn. split; [apply tmap_ensure_fresh; exact Hn|].
  intros t' i H. split; [|apply tmap_ensure_stable; exact H].
  destruct Hok as [Hb _]. apply Hb in H. lia.
Qed.
