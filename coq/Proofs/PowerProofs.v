(* Proofs about the power-loss model of Model/Crash.v (C01, fsync policy Always).
   Part 1: the name-space / inode bookkeeping simulates apply_eff (the un-lossy view is the kill view). *)
From Coq Require Import List NArith ZArith Bool Lia.
From Kyro Require Import Model.Amap Model.Backend Model.Crash Proofs.AmapProofs Proofs.BackendProofs
  Proofs.CrashProofs.
Import ListNotations.
Open Scope N_scope.
Arguments N.add : simpl never.
Arguments N.mul : simpl never.
Arguments N.max : simpl never.
Arguments N.pred : simpl never.
Arguments N.ltb : simpl never.
Arguments N.leb : simpl never.
Arguments N.eqb : simpl never.
Arguments N.of_nat : simpl never.

(* ------------------------------------------------------------------------------------------ *)
(* 1. Name spaces                                                                              *)
(* ------------------------------------------------------------------------------------------ *)

Definition nsT := list (name * nat).

Lemma ns_get_remove_same : forall (ns : nsT) k, ns_get (ns_remove ns k) k = None.
Proof.
  induction ns as [|[k0 i] r IH]; intros k; cbn; [reflexivity|].
  destruct (name_eqb_spec k0 k); [apply IH|]. cbn. rewrite name_eqb_neq by assumption. apply IH.
Qed.

Lemma ns_get_remove_other : forall (ns : nsT) k x, x <> k -> ns_get (ns_remove ns k) x = ns_get ns x.
Proof.
  induction ns as [|[k0 i] r IH]; intros k x H; cbn; [reflexivity|].
  destruct (name_eqb_spec k0 k); cbn.
  - subst k0. rewrite name_eqb_neq by congruence. apply IH; assumption.
  - destruct (name_eqb_spec k0 x); [reflexivity|]. apply IH; assumption.
Qed.

Lemma ns_get_app : forall (a b : nsT) x,
  ns_get (a ++ b) x = match ns_get a x with Some i => Some i | None => ns_get b x end.
Proof.
  induction a as [|[k0 i] r IH]; intros b x; cbn; [reflexivity|].
  destruct (name_eqb k0 x); [reflexivity|apply IH].
Qed.

Lemma ns_get_set_same : forall (ns : nsT) k i, ns_get (ns_set ns k i) k = Some i.
Proof.
  intros. unfold ns_set. rewrite ns_get_app, ns_get_remove_same. cbn. rewrite name_eqb_refl. reflexivity.
Qed.

Lemma ns_get_set_other : forall (ns : nsT) k i x, x <> k -> ns_get (ns_set ns k i) x = ns_get ns x.
Proof.
  intros ns k i x H. unfold ns_set. rewrite ns_get_app, ns_get_remove_other by assumption.
  destruct (ns_get ns x); [reflexivity|]. cbn. rewrite name_eqb_neq by congruence. reflexivity.
Qed.

(* a view: one version of the name space, one version of every inode *)
Definition mkview (N : nsT) (ch : nat -> file) : dir := map (fun ki : name * nat => (fst ki, ch (snd ki))) N.

Lemma dget_mkview : forall N ch x, dget (mkview N ch) x = option_map ch (ns_get N x).
Proof.
  induction N as [|[k i] r IH]; intros ch x; cbn; [reflexivity|].
  destruct (name_eqb k x); [reflexivity|apply IH].
Qed.

Lemma nth_clamped_in : forall A (l : list A) i d, l <> [] -> In (nth_clamped l i d) l.
Proof.
  intros A l i d H. unfold nth_clamped. apply nth_In. destruct l; [contradiction|]. cbn [length]. lia.
Qed.

Lemma pview_mkview : forall P l,
  pview P l = mkview (nth_clamped (p_ns P) (l_dir l) [])
                     (fun i => nth_clamped (nth i (p_inodes P) []) (l_data l i) FEmpty).
Proof. reflexivity. Qed.

(* ------------------------------------------------------------------------------------------ *)
(* 2. Well-formedness and simulation of apply_eff                                              *)
(* ------------------------------------------------------------------------------------------ *)

Definition inj (N : nsT) : Prop := forall x y i, ns_get N x = Some i -> ns_get N y = Some i -> x = y.

Record WF (P : pfs) : Prop := {
  wf_ns : p_ns P <> [];
  wf_inodes : Forall (fun v : inode => v <> []) (p_inodes P);
  wf_bound : forall N x i, In N (p_ns P) -> ns_get N x = Some i -> (i < length (p_inodes P))%nat;
  wf_inj : inj (cur_ns P)
}.

Definition Sim (P : pfs) (d : dir) : Prop :=
  forall x, dget d x = option_map (cur_content P) (ns_get (cur_ns P) x).

Lemma last_snoc : forall A (l : list A) x d, last (l ++ [x]) d = x.
Proof. intros. apply last_last. Qed.

Lemma cur_ns_in : forall P, p_ns P <> [] -> In (cur_ns P) (p_ns P).
Proof.
  intros P H. unfold cur_ns, last_or. destruct (p_ns P) as [|a l]; [contradiction|].
  clear H. revert a. induction l as [|b l IH]; intros a; cbn; [left; reflexivity|].
  right. apply IH.
Qed.

Lemma nth_upd_same : forall A (l : list A) i f d, (i < length l)%nat -> nth i (upd_nth l i f) d = f (nth i l d).
Proof.
  induction l as [|x r IH]; intros i f d H; cbn in H; [lia|]. destruct i; cbn; [reflexivity|]. apply IH. lia.
Qed.

Lemma nth_upd_other : forall A (l : list A) i j f d, i <> j -> nth j (upd_nth l i f) d = nth j l d.
Proof.
  induction l as [|x r IH]; intros i j f d H; cbn; [reflexivity|].
  destruct i, j; cbn; try reflexivity; try congruence. apply IH. congruence.
Qed.

Lemma upd_nth_length : forall A (l : list A) i f, length (upd_nth l i f) = length l.
Proof. induction l as [|x r IH]; intros i f; cbn; [reflexivity|]. destruct i; cbn; [reflexivity|]. rewrite IH. reflexivity. Qed.

Lemma upd_nth_forall : forall A (P : A -> Prop) (l : list A) i f,
  Forall P l -> (forall x, P x -> P (f x)) -> Forall P (upd_nth l i f).
Proof.
  induction l as [|x r IH]; intros i f H Hf; cbn; [constructor|].
  inversion H; subst. destruct i; constructor; auto.
Qed.

(* the content of f after a data effect, as computed by apply_eff itself *)
Lemma data_effect : forall d e f c,
  (match e with EAppend g _ | ETrunc g _ => g = f | _ => False end) ->
  dget d f = Some c ->
  dget (apply_eff d e) f = Some (content_after c f e) /\
  (forall x, x <> f -> dget (apply_eff d e) x = dget d x).
Proof.
  intros d e f c He Hc. unfold content_after.
  destruct e as [g tr|g b|g n|g|g|a b|g| |g co]; try contradiction; subst g.
  - cbn [apply_eff]. rewrite Hc. cbn [dget]. rewrite name_eqb_refl.
    destruct c as [| frs [| |] | | |]; destruct b;
      repeat first [rewrite name_eqb_refl | progress cbn [dget dset]];
      (split; [dsimp; try reflexivity; try exact Hc|intros x Hx; dsimp; reflexivity]).
  - cbn [apply_eff]. rewrite Hc. cbn [dget]. rewrite name_eqb_refl.
    destruct c as [| frs t | | |];
      repeat first [rewrite name_eqb_refl | progress cbn [dget dset]];
      (split; [dsimp; try reflexivity; try exact Hc|intros x Hx; dsimp; reflexivity]).
Qed.

Lemma cur_content_upd : forall P i g j, (i < length (p_inodes P))%nat ->
  cur_content (mkPfs (upd_nth (p_inodes P) i g) (p_ns P)) j =
  if Nat.eqb j i then last_or (g (nth i (p_inodes P) [])) FEmpty else cur_content P j.
Proof.
  intros P i g j H. unfold cur_content. cbn [p_inodes].
  destruct (Nat.eqb_spec j i) as [->|N].
  - rewrite nth_upd_same by exact H. reflexivity.
  - rewrite nth_upd_other by congruence. reflexivity.
Qed.

Lemma sim_none : forall P d x, Sim P d -> (dget d x = None <-> ns_get (cur_ns P) x = None).
Proof. intros P d x S. rewrite (S x). destruct (ns_get (cur_ns P) x); cbn; split; congruence. Qed.

(* a write that changes the content of the file named f (inode i) to c' *)
Lemma push_content : forall P d f i c', WF P -> Sim P d -> ns_get (cur_ns P) f = Some i ->
  let P' := mkPfs (upd_nth (p_inodes P) i (fun v => v ++ [c'])) (p_ns P) in
  WF P' /\ Sim P' (dset d f c').
Proof.
  intros P d f i c' W S Hf P'. destruct W as [W1 W2 W3 W4].
  assert (Hi : (i < length (p_inodes P))%nat) by (eapply W3; [apply cur_ns_in; exact W1|exact Hf]).
  split.
  - constructor; cbn [p_ns p_inodes P'].
    + exact W1.
    + apply upd_nth_forall; [exact W2|]. intros v _. destruct v; discriminate.
    + intros N x j HN Hx. rewrite upd_nth_length. eapply W3; eassumption.
    + exact W4.
  - intros x. unfold P'. change (cur_ns (mkPfs _ (p_ns P))) with (cur_ns P).
    destruct (name_eqb_spec x f) as [->|Hne].
    + rewrite dget_dset_same, Hf. cbn [option_map]. rewrite cur_content_upd by exact Hi.
      rewrite Nat.eqb_refl. unfold last_or. rewrite last_snoc. reflexivity.
    + rewrite dget_dset_other by exact Hne. rewrite (S x).
      destruct (ns_get (cur_ns P) x) as [j|] eqn:E; [|reflexivity]. cbn [option_map].
      rewrite cur_content_upd by exact Hi. destruct (Nat.eqb_spec j i) as [->|_]; [|reflexivity].
      exfalso. apply Hne. eapply W4; eassumption.
Qed.

(* fsync of inode i *)
Lemma collapse_content : forall P d i, WF P -> Sim P d -> (i < length (p_inodes P))%nat ->
  let P' := mkPfs (upd_nth (p_inodes P) i (fun v => [last_or v FEmpty])) (p_ns P) in
  WF P' /\ Sim P' d.
Proof.
  intros P d i W S Hi P'. destruct W as [W1 W2 W3 W4]. split.
  - constructor; cbn [p_ns p_inodes P'].
    + exact W1.
    + apply upd_nth_forall; [exact W2|]. intros v _. discriminate.
    + intros N x j HN Hx. rewrite upd_nth_length. eapply W3; eassumption.
    + exact W4.
  - intros x. unfold P'. change (cur_ns (mkPfs _ (p_ns P))) with (cur_ns P). rewrite (S x).
    destruct (ns_get (cur_ns P) x) as [j|]; [|reflexivity]. cbn [option_map].
    rewrite cur_content_upd by exact Hi. destruct (Nat.eqb_spec j i) as [->|_]; reflexivity.
Qed.

Lemma cur_ns_push : forall P N, cur_ns (push_ns P N) = N.
Proof. intros. unfold cur_ns, push_ns, last_or. cbn [p_ns]. apply last_snoc. Qed.

(* a new file f with content c *)
Lemma new_file : forall P d f c, WF P -> Sim P d -> ns_get (cur_ns P) f = None ->
  let P' := mkPfs (p_inodes P ++ [[c]]) (p_ns P ++ [ns_set (cur_ns P) f (length (p_inodes P))]) in
  WF P' /\ Sim P' (dset d f c).
Proof.
  intros P d f c W S Hf P'. destruct W as [W1 W2 W3 W4].
  assert (Hcur : cur_ns P' = ns_set (cur_ns P) f (length (p_inodes P)))
    by (unfold cur_ns at 1, last_or; cbn [p_ns P']; apply last_snoc).
  assert (Hold : forall x j, ns_get (cur_ns P) x = Some j -> (j < length (p_inodes P))%nat)
    by (intros x j Hx; eapply W3; [apply cur_ns_in; exact W1|exact Hx]).
  split.
  - constructor; cbn [p_ns p_inodes P'].
    + destruct (p_ns P); discriminate.
    + apply Forall_app. split; [exact W2|]. constructor; [discriminate|constructor].
    + intros N x j HN Hx. rewrite app_length. cbn [length]. apply in_app_or in HN. destruct HN as [HN|[<-|[]]].
      * pose proof (W3 N x j HN Hx). lia.
      * destruct (name_eqb_spec x f) as [->|Hne].
        -- rewrite ns_get_set_same in Hx. inversion Hx. lia.
        -- rewrite ns_get_set_other in Hx by exact Hne. pose proof (Hold _ _ Hx). lia.
    + rewrite Hcur. intros x y j Hx Hy.
      destruct (name_eqb_spec x f) as [->|Nx]; destruct (name_eqb_spec y f) as [->|Ny]; try reflexivity.
      * rewrite ns_get_set_same in Hx. rewrite ns_get_set_other in Hy by exact Ny. inversion Hx; subst j.
        pose proof (Hold _ _ Hy). lia.
      * rewrite ns_get_set_same in Hy. rewrite ns_get_set_other in Hx by exact Nx. inversion Hy; subst j.
        pose proof (Hold _ _ Hx). lia.
      * rewrite ns_get_set_other in Hx, Hy by assumption. eapply W4; eassumption.
  - intros x. rewrite Hcur. unfold cur_content. cbn [p_inodes P'].
    destruct (name_eqb_spec x f) as [->|Hne].
    + rewrite dget_dset_same, ns_get_set_same. cbn [option_map]. rewrite nth_middle. reflexivity.
    + rewrite dget_dset_other, ns_get_set_other by exact Hne. rewrite (S x).
      destruct (ns_get (cur_ns P) x) as [j|] eqn:E; [|reflexivity]. cbn [option_map].
      rewrite app_nth1 by (eapply Hold; exact E). reflexivity.
Qed.

Lemma push_ns_sim : forall P N' d',
  WF P -> (forall x j, ns_get N' x = Some j -> (j < length (p_inodes P))%nat) -> inj N' ->
  (forall x, dget d' x = option_map (cur_content P) (ns_get N' x)) ->
  WF (push_ns P N') /\ Sim (push_ns P N') d'.
Proof.
  intros P N' d' [W1 W2 W3 W4] Hb Hi Hd. split.
  - constructor; cbn [push_ns p_ns p_inodes].
    + destruct (p_ns P); discriminate.
    + exact W2.
    + intros N x j HN Hx. apply in_app_or in HN. destruct HN as [HN|[<-|[]]]; [eapply W3; eassumption|eapply Hb; exact Hx].
    + rewrite cur_ns_push. exact Hi.
  - intros x. rewrite cur_ns_push. exact (Hd x).
Qed.

Theorem sim_step : forall P d e, WF P -> Sim P d -> WF (papply P e) /\ Sim (papply P e) (apply_eff d e).
Proof.
  intros P d e W S.
  assert (Hbound : forall x j, ns_get (cur_ns P) x = Some j -> (j < length (p_inodes P))%nat)
    by (intros x j Hx; destruct W as [W1 _ W3 _]; eapply W3; [apply cur_ns_in; exact W1|exact Hx]).
  destruct e as [f tr|f b|f n|f|f|a b|f| |f co]; cbn [papply].
  - (* create *)
    cbn [apply_eff].
    pose proof (S f) as Sf. destruct (ns_get (cur_ns P) f) as [i|] eqn:E; cbn [option_map] in Sf; rewrite Sf.
    + destruct tr; [|split; assumption]. apply (push_content P d f i FEmpty W S E).
    + apply (new_file P d f FEmpty W S E).
  - (* append *)
    pose proof (S f) as Sf. destruct (ns_get (cur_ns P) f) as [i|] eqn:E; cbn [option_map] in Sf.
    + destruct (data_effect d (EAppend f b) f _ eq_refl Sf) as [A B].
      destruct (push_content P d f i (content_after (cur_content P i) f (EAppend f b)) W S E) as [W' S'].
      split; [exact W'|]. intros x. rewrite <- (S' x).
      destruct (name_eqb_spec x f) as [->|Hne]; [rewrite A; dsimp; reflexivity|rewrite B by exact Hne; dsimp; reflexivity].
    + cbn [apply_eff]. rewrite Sf. destruct b; split; assumption.
  - (* truncate *)
    pose proof (S f) as Sf. destruct (ns_get (cur_ns P) f) as [i|] eqn:E; cbn [option_map] in Sf.
    + destruct (data_effect d (ETrunc f n) f _ eq_refl Sf) as [A B].
      destruct (push_content P d f i (content_after (cur_content P i) f (ETrunc f n)) W S E) as [W' S'].
      split; [exact W'|]. intros x. rewrite <- (S' x).
      destruct (name_eqb_spec x f) as [->|Hne]; [rewrite A; dsimp; reflexivity|rewrite B by exact Hne; dsimp; reflexivity].
    + cbn [apply_eff]. rewrite Sf. split; assumption.
  - (* fsync *)
    cbn [apply_eff].
    destruct (ns_get (cur_ns P) f) as [i|] eqn:E; [|split; assumption].
    apply collapse_content; [exact W|exact S|eapply Hbound; exact E].
  - (* fdatasync *)
    cbn [apply_eff].
    destruct (ns_get (cur_ns P) f) as [i|] eqn:E; [|split; assumption].
    apply collapse_content; [exact W|exact S|eapply Hbound; exact E].
  - (* rename *)
    cbn [apply_eff].
    pose proof (S a) as Sa. destruct (ns_get (cur_ns P) a) as [i|] eqn:E; cbn [option_map] in Sa; rewrite Sa;
      [|split; assumption].
    apply push_ns_sim; [exact W| | |].
    + intros x j Hx. destruct (name_eqb_spec x b) as [->|Nb].
      * rewrite ns_get_set_same in Hx. inversion Hx; subst. eapply Hbound; exact E.
      * rewrite ns_get_set_other in Hx by exact Nb. destruct (name_eqb_spec x a) as [->|Na].
        -- rewrite ns_get_remove_same in Hx. discriminate.
        -- rewrite ns_get_remove_other in Hx by exact Na. eapply Hbound; exact Hx.
    + destruct W as [_ _ _ W4]. intros x y j Hx Hy.
      assert (Hlk : forall z, z <> b -> ns_get (ns_set (ns_remove (cur_ns P) a) b i) z = Some j ->
                              z <> a /\ ns_get (cur_ns P) z = Some j).
      { intros z Nz Hz. rewrite ns_get_set_other in Hz by exact Nz. destruct (name_eqb_spec z a) as [->|Na].
        - rewrite ns_get_remove_same in Hz. discriminate.
        - rewrite ns_get_remove_other in Hz by exact Na. split; assumption. }
      destruct (name_eqb_spec x b) as [->|Nx]; destruct (name_eqb_spec y b) as [->|Ny]; try reflexivity.
      * rewrite ns_get_set_same in Hx. inversion Hx; subst j. destruct (Hlk y Ny Hy) as [Na Hy'].
        exfalso. apply Na. eapply W4; eassumption.
      * rewrite ns_get_set_same in Hy. inversion Hy; subst j. destruct (Hlk x Nx Hx) as [Na Hx'].
        exfalso. apply Na. eapply W4; eassumption.
      * destruct (Hlk x Nx Hx) as [_ Hx']. destruct (Hlk y Ny Hy) as [_ Hy']. eapply W4; eassumption.
    + intros x. destruct (name_eqb_spec x b) as [->|Nb].
      * rewrite dget_dset_same, ns_get_set_same. reflexivity.
      * rewrite dget_dset_other, ns_get_set_other by exact Nb. destruct (name_eqb_spec x a) as [->|Na].
        -- rewrite dget_dremove_same, ns_get_remove_same. reflexivity.
        -- rewrite dget_dremove_other, ns_get_remove_other by exact Na. apply S.
  - (* unlink *)
    cbn [apply_eff].
    destruct (ns_get (cur_ns P) f) as [i|] eqn:E.
    + apply push_ns_sim; [exact W| | |].
      * intros x j Hx. destruct (name_eqb_spec x f) as [->|Nf].
        -- rewrite ns_get_remove_same in Hx. discriminate.
        -- rewrite ns_get_remove_other in Hx by exact Nf. eapply Hbound; exact Hx.
      * destruct W as [_ _ _ W4]. intros x y j Hx Hy.
        destruct (name_eqb_spec x f) as [->|Nx]; [rewrite ns_get_remove_same in Hx; discriminate|].
        destruct (name_eqb_spec y f) as [->|Ny]; [rewrite ns_get_remove_same in Hy; discriminate|].
        rewrite ns_get_remove_other in Hx, Hy by assumption. eapply W4; eassumption.
      * intros x. destruct (name_eqb_spec x f) as [->|Nf].
        -- rewrite dget_dremove_same, ns_get_remove_same. reflexivity.
        -- rewrite dget_dremove_other, ns_get_remove_other by exact Nf. apply S.
    + split; [exact W|]. intros x. destruct (name_eqb_spec x f) as [->|Nf].
      * rewrite dget_dremove_same, E. reflexivity.
      * rewrite dget_dremove_other by exact Nf. apply S.
  - (* directory fsync *)
    cbn [apply_eff].
    destruct W as [W1 W2 W3 W4]. split.
    + constructor; cbn [p_ns p_inodes].
      * discriminate.
      * exact W2.
      * intros N x j [<-|[]] Hx. eapply Hbound; exact Hx.
      * exact W4.
    + exact S.
  - (* write-file *)
    cbn [apply_eff].
    pose proof (S f) as Sf. destruct (ns_get (cur_ns P) f) as [i|] eqn:E; cbn [option_map] in Sf.
    + apply (push_content P d f i co W S E).
    + apply (new_file P d f co W S E).
Qed.

Lemma sim_steps : forall es P d, WF P -> Sim P d ->
  WF (papply_all P es) /\ Sim (papply_all P es) (apply_effs d es).
Proof.
  induction es as [|e r IH]; intros P d W S; [split; assumption|].
  destruct (sim_step P d e W S) as [W' S']. exact (IH _ _ W' S').
Qed.

(* ------------------------------------------------------------------------------------------ *)
(* 3. Anchored name-space versions                                                             *)
(* ------------------------------------------------------------------------------------------ *)

Definition refs (m : manifest) (x : name) : Prop :=
  x = NManifest \/ In x (m_segments m) \/ m_snapshot m = Some x.

(* name x is bound in N to an inode below B whose only version is co *)
Definition pinned (P : pfs) (N : nsT) (B : nat) (x : name) (co : file) : Prop :=
  exists i, ns_get N x = Some i /\ nth i (p_inodes P) [] = [co] /\ (i < B)%nat.

(* version N of the name space is read, whatever survives of the un-synced data, as directory K:
   everything K's manifest references is pinned in N to K's content *)
Definition Anch (c : cfg) (X : store) (P : pfs) (N : nsT) (B : nat) : Prop :=
  exists K m, RecM c X K m /\ forall x, refs m x -> exists co, dget K x = Some co /\ pinned P N B x co.

Definition valid_ch (P : pfs) (ch : nat -> file) : Prop :=
  forall i, (i < length (p_inodes P))%nat -> In (ch i) (nth i (p_inodes P) []).

Lemma nth_singleton_lt : forall (l : list inode) i co, nth i l [] = [co] -> (i < length l)%nat.
Proof.
  intros l i co H. destruct (Nat.lt_ge_cases i (length l)) as [L|G]; [exact L|].
  rewrite nth_overflow in H by exact G. discriminate.
Qed.

Lemma Anch_view : forall c X P N B ch, Anch c X P N B -> valid_ch P ch -> Rec c X (mkview N ch).
Proof.
  intros c X P N B ch (K & m & R & Hp) Hv. exists m.
  assert (Hag : forall x, refs m x -> dget (mkview N ch) x = dget K x).
  { intros x Hx. destruct (Hp x Hx) as (co & HK & i & Hi & Hn & _).
    rewrite dget_mkview, Hi, HK. cbn [option_map]. f_equal.
    pose proof (Hv i (nth_singleton_lt _ _ _ Hn)) as Hin. rewrite Hn in Hin. destruct Hin as [E|[]]. congruence. }
  apply (RecM_agree c X K _ m R).
  - apply Hag. left. reflexivity.
  - intros x Hx. apply Hag. right. left. exact Hx.
  - intros x Hx. apply Hag. right. right. exact Hx.
Qed.

Lemma Anch_mono : forall c X P N B B', (B <= B')%nat -> Anch c X P N B -> Anch c X P N B'.
Proof.
  intros c X P N B B' H (K & m & R & Hp). exists K, m. split; [exact R|].
  intros x Hx. destruct (Hp x Hx) as (co & HK & i & Hi & Hn & Hb). exists co. split; [exact HK|].
  exists i. repeat split; try assumption. lia.
Qed.

(* every version of the name space is anchored to one of the two collections *)
Definition Safe (c : cfg) (X Y : store) (P : pfs) (B : nat) : Prop :=
  forall N, In N (p_ns P) -> Anch c X P N B \/ Anch c Y P N B.

Theorem Safe_start : forall c X Y P B l, wf_cfg c = true -> WF P -> Safe c X Y P B ->
  docs_ok c X -> size X <= c_capacity c -> docs_ok c Y -> size Y <= c_capacity c ->
  exists r, start c (pview P l) = SOk r /\ (st_store r = X \/ st_store r = Y).
Proof.
  intros c X Y P B l Hwf W HS DX SX DY SY. rewrite pview_mkview.
  set (N := nth_clamped (p_ns P) (l_dir l) []).
  set (ch := fun i => nth_clamped (nth i (p_inodes P) []) (l_data l i) FEmpty).
  assert (HN : In N (p_ns P)) by (apply nth_clamped_in; apply (wf_ns P W)).
  assert (Hv : valid_ch P ch).
  { intros i Hi. unfold ch. apply nth_clamped_in.
    pose proof (wf_inodes P W) as F. rewrite Forall_forall in F. apply F. apply nth_In. exact Hi. }
  destruct (HS N HN) as [A|A].
  - destruct (Rec_start c X _ Hwf (Anch_view _ _ _ _ _ _ A Hv) DX SX) as (r & E & Es). exists r. auto.
  - destruct (Rec_start c Y _ Hwf (Anch_view _ _ _ _ _ _ A Hv) DY SY) as (r & E & Es). exists r. auto.
Qed.

(* the current version is anchored to the kill directory when everything that directory's manifest
   references is synced *)
Definition synced (P : pfs) (B : nat) (x : name) : Prop :=
  exists i co, ns_get (cur_ns P) x = Some i /\ nth i (p_inodes P) [] = [co] /\ (i < B)%nat.

Lemma Anch_cur : forall c X P d m B, Sim P d -> RecM c X d m ->
  (forall x, refs m x -> synced P B x) -> Anch c X P (cur_ns P) B.
Proof.
  intros c X P d m B S R H. exists d, m. split; [exact R|].
  intros x Hx. destruct (H x Hx) as (i & co & Hi & Hn & Hb). exists co. split.
  - rewrite (S x), Hi. cbn [option_map]. unfold cur_content, last_or. rewrite Hn. reflexivity.
  - exists i. auto.
Qed.

Lemma Rec_RecM : forall c X d m, Rec c X d -> dget d NManifest = Some (FManifest m) -> RecM c X d m.
Proof.
  intros c X d m [m' R] H. pose proof R as (sdocs & sseq & nx & Hm & _). rewrite Hm in H. inversion H; subst. exact R.
Qed.

(* ------------------------------------------------------------------------------------------ *)
(* 4. One effect at a time                                                                     *)
(* ------------------------------------------------------------------------------------------ *)

(* the inode that receives a new content version *)
Definition written (P : pfs) (e : eff) : option nat :=
  match e with
  | ECreate g true | EAppend g _ | ETrunc g _ | EWriteFile g _ => ns_get (cur_ns P) g
  | _ => None
  end.

Lemma low_stable : forall P e B i co, WF P ->
  (forall j, written P e = Some j -> (B <= j)%nat) ->
  (i < B)%nat -> nth i (p_inodes P) [] = [co] -> nth i (p_inodes (papply P e)) [] = [co].
Proof.
  intros P e B i co W Hw Hi Hn.
  pose proof (nth_singleton_lt _ _ _ Hn) as Hlen.
  assert (Hpush : forall j g, (B <= j)%nat -> nth i (upd_nth (p_inodes P) j g) [] = [co])
    by (intros j g Hj; rewrite nth_upd_other by lia; exact Hn).
  assert (Hcol : forall j, nth i (upd_nth (p_inodes P) j (fun v => [last_or v FEmpty])) [] = [co]).
  { intros j. destruct (Nat.eq_dec j i) as [->|Nj].
    - rewrite nth_upd_same by exact Hlen. rewrite Hn. reflexivity.
    - rewrite nth_upd_other by exact Nj. exact Hn. }
  assert (Happ : forall v, nth i (p_inodes P ++ [v]) [] = [co]) by (intros v; rewrite app_nth1 by exact Hlen; exact Hn).
  destruct e as [f tr|f b|f n|f|f|a b|f| |f co']; cbn [papply written] in *.
  - destruct (ns_get (cur_ns P) f) as [j|] eqn:E; [|apply Happ].
    destruct tr; [|exact Hn]. cbn [p_inodes]. apply Hpush. apply Hw. reflexivity.
  - destruct (ns_get (cur_ns P) f) as [j|] eqn:E; [|exact Hn]. cbn [p_inodes]. apply Hpush. apply Hw. reflexivity.
  - destruct (ns_get (cur_ns P) f) as [j|] eqn:E; [|exact Hn]. cbn [p_inodes]. apply Hpush. apply Hw. reflexivity.
  - destruct (ns_get (cur_ns P) f) as [j|]; [apply Hcol|exact Hn].
  - destruct (ns_get (cur_ns P) f) as [j|]; [apply Hcol|exact Hn].
  - destruct (ns_get (cur_ns P) a) as [j|]; exact Hn.
  - destruct (ns_get (cur_ns P) f) as [j|]; exact Hn.
  - exact Hn.
  - destruct (ns_get (cur_ns P) f) as [j|] eqn:E; [|apply Happ]. cbn [p_inodes]. apply Hpush. apply Hw. reflexivity.
Qed.

Lemma ns_versions_step : forall P e N, p_ns P <> [] -> In N (p_ns (papply P e)) ->
  In N (p_ns P) \/ N = cur_ns (papply P e).
Proof.
  intros P e N Hne H.
  assert (Hpush : forall N', In N (p_ns (push_ns P N')) -> In N (p_ns P) \/ N = cur_ns (push_ns P N')).
  { intros N' Hin. rewrite cur_ns_push. cbn [push_ns p_ns] in Hin. apply in_app_or in Hin.
    destruct Hin as [Hin|[<-|[]]]; auto. }
  assert (Happ : forall ino N', In N (p_ns P ++ [N']) -> In N (p_ns P) \/ N = cur_ns (mkPfs ino (p_ns P ++ [N']))).
  { intros ino N' Hin. unfold cur_ns, last_or. cbn [p_ns]. rewrite last_snoc. apply in_app_or in Hin.
    destruct Hin as [Hin|[<-|[]]]; auto. }
  destruct e as [f tr|f b|f n|f|f|a b|f| |f co']; cbn [papply] in *.
  - destruct (ns_get (cur_ns P) f); [destruct tr; left; exact H|]. apply Happ. exact H.
  - destruct (ns_get (cur_ns P) f); left; exact H.
  - destruct (ns_get (cur_ns P) f); left; exact H.
  - destruct (ns_get (cur_ns P) f); left; exact H.
  - destruct (ns_get (cur_ns P) f); left; exact H.
  - destruct (ns_get (cur_ns P) a); [apply Hpush; exact H|left; exact H].
  - destruct (ns_get (cur_ns P) f); [apply Hpush; exact H|left; exact H].
  - left. cbn [p_ns] in H. destruct H as [<-|[]]. apply cur_ns_in. exact Hne.
  - destruct (ns_get (cur_ns P) f); [left; exact H|]. apply Happ. exact H.
Qed.

Lemma anch_keep : forall c X P N B e, WF P ->
  (forall j, written P e = Some j -> (B <= j)%nat) -> Anch c X P N B -> Anch c X (papply P e) N B.
Proof.
  intros c X P N B e W Hw (K & m & R & Hp). exists K, m. split; [exact R|].
  intros x Hx. destruct (Hp x Hx) as (co & HK & i & Hi & Hn & Hb). exists co. split; [exact HK|].
  exists i. split; [exact Hi|]. split; [|exact Hb]. eapply low_stable; eassumption.
Qed.

Theorem safe_step : forall c X Y P B e, WF P -> Safe c X Y P B ->
  (forall j, written P e = Some j -> (B <= j)%nat) ->
  (In (cur_ns (papply P e)) (p_ns P) \/
   Anch c X (papply P e) (cur_ns (papply P e)) B \/ Anch c Y (papply P e) (cur_ns (papply P e)) B) ->
  Safe c X Y (papply P e) B.
Proof.
  intros c X Y P B e W HS Hw Hnew N HN.
  assert (Hold : forall N0, In N0 (p_ns P) -> Anch c X (papply P e) N0 B \/ Anch c Y (papply P e) N0 B).
  { intros N0 H0. destruct (HS N0 H0) as [A|A]; [left|right]; apply anch_keep; assumption. }
  destruct (ns_versions_step P e N (wf_ns P W) HN) as [H| ->]; [apply Hold; exact H|].
  destruct Hnew as [H|H]; [apply Hold; exact H|exact H].
Qed.

Lemma Safe_mono : forall c X Y P B B', (B <= B')%nat -> Safe c X Y P B -> Safe c X Y P B'.
Proof. intros c X Y P B B' H S N HN. destruct (S N HN) as [A|A]; [left|right]; eapply Anch_mono; eassumption. Qed.

(* lookups of names an effect does not touch *)
Lemma cur_lookup_other : forall P e x, ~ In x (touches e) ->
  ns_get (cur_ns (papply P e)) x = ns_get (cur_ns P) x.
Proof.
  intros P e x H.
  assert (Hnew : forall ino f k, x <> f ->
            ns_get (cur_ns (mkPfs ino (p_ns P ++ [ns_set (cur_ns P) f k]))) x = ns_get (cur_ns P) x).
  { intros ino f k Hx. unfold cur_ns at 1, last_or. cbn [p_ns]. rewrite last_snoc. apply ns_get_set_other. exact Hx. }
  destruct e as [f tr|f b|f n|f|f|a b|f| |f co']; cbn [papply touches] in *.
  - destruct (ns_get (cur_ns P) f); [destruct tr; reflexivity|]. apply Hnew. intro; apply H; left; congruence.
  - destruct (ns_get (cur_ns P) f); reflexivity.
  - destruct (ns_get (cur_ns P) f); reflexivity.
  - destruct (ns_get (cur_ns P) f); reflexivity.
  - destruct (ns_get (cur_ns P) f); reflexivity.
  - destruct (ns_get (cur_ns P) a); [|reflexivity]. rewrite cur_ns_push.
    rewrite ns_get_set_other by (intro; apply H; right; left; congruence).
    apply ns_get_remove_other. intro; apply H; left; congruence.
  - destruct (ns_get (cur_ns P) f); [|reflexivity]. rewrite cur_ns_push.
    apply ns_get_remove_other. intro; apply H; left; congruence.
  - reflexivity.
  - destruct (ns_get (cur_ns P) f); [reflexivity|]. apply Hnew. intro; apply H; left; congruence.
Qed.

Lemma synced_keep : forall P e B x, WF P -> ~ In x (touches e) ->
  (forall j, written P e = Some j -> (B <= j)%nat) -> synced P B x -> synced (papply P e) B x.
Proof.
  intros P e B x W Hx Hw (i & co & Hi & Hn & Hb). exists i, co.
  split; [rewrite cur_lookup_other by exact Hx; exact Hi|]. split; [|exact Hb]. eapply low_stable; eassumption.
Qed.

Lemma inodes_length_mono : forall P e, (length (p_inodes P) <= length (p_inodes (papply P e)))%nat.
Proof.
  intros P e. destruct e as [f tr|f b|f n|f|f|a b|f| |f co']; cbn [papply];
    try (destruct (ns_get (cur_ns P) _); try destruct tr; cbn [p_inodes push_ns];
         rewrite ?upd_nth_length, ?app_length; cbn [length]; lia).
  cbn [p_inodes]. lia.
Qed.

(* files that did not exist at the start of a block live in inodes created during the block *)
Definition Young (P : pfs) (A : name -> Prop) (L0 : nat) : Prop :=
  forall g j, ns_get (cur_ns P) g = Some j -> A g -> (L0 <= j)%nat.

Lemma young_step : forall P e A L0, Young P A L0 -> (L0 <= length (p_inodes P))%nat ->
  (forall a b, e = ERename a b -> A b -> A a) -> Young (papply P e) A L0.
Proof.
  intros P e A L0 HY HL Hr g j Hg HA.
  assert (Hnew : forall ino f, ns_get (cur_ns (mkPfs ino (p_ns P ++ [ns_set (cur_ns P) f (length (p_inodes P))]))) g = Some j ->
                               (L0 <= j)%nat).
  { intros ino f H. unfold cur_ns at 1, last_or in H. cbn [p_ns] in H. rewrite last_snoc in H.
    destruct (name_eqb_spec g f) as [->|Ne].
    - rewrite ns_get_set_same in H. inversion H. lia.
    - rewrite ns_get_set_other in H by exact Ne. eapply HY; eassumption. }
  destruct e as [f tr|f b|f n|f|f|a b|f| |f co']; cbn [papply] in Hg.
  - destruct (ns_get (cur_ns P) f); [destruct tr; eapply HY; eassumption|]. eapply Hnew; exact Hg.
  - destruct (ns_get (cur_ns P) f); eapply HY; eassumption.
  - destruct (ns_get (cur_ns P) f); eapply HY; eassumption.
  - destruct (ns_get (cur_ns P) f); eapply HY; eassumption.
  - destruct (ns_get (cur_ns P) f); eapply HY; eassumption.
  - destruct (ns_get (cur_ns P) a) as [i|] eqn:Ea; [|eapply HY; eassumption].
    rewrite cur_ns_push in Hg. destruct (name_eqb_spec g b) as [->|Nb].
    + rewrite ns_get_set_same in Hg. inversion Hg; subst j. eapply HY; [exact Ea|]. eapply Hr; [reflexivity|exact HA].
    + rewrite ns_get_set_other in Hg by exact Nb. destruct (name_eqb_spec g a) as [->|Na].
      * rewrite ns_get_remove_same in Hg. discriminate.
      * rewrite ns_get_remove_other in Hg by exact Na. eapply HY; eassumption.
  - destruct (ns_get (cur_ns P) f); [|eapply HY; eassumption]. rewrite cur_ns_push in Hg.
    destruct (name_eqb_spec g f) as [->|Nf]; [rewrite ns_get_remove_same in Hg; discriminate|].
    rewrite ns_get_remove_other in Hg by exact Nf. eapply HY; eassumption.
  - eapply HY; eassumption.
  - destruct (ns_get (cur_ns P) f); [eapply HY; eassumption|]. eapply Hnew; exact Hg.
Qed.

Record Mid (P : pfs) (d : dir) (m : manifest) (B : nat) : Prop := {
  mid_wf : WF P;
  mid_sim : Sim P d;
  mid_man : dget d NManifest = Some (FManifest m);
  mid_refs : forall x, refs m x -> synced P B x;
  mid_B : (B <= length (p_inodes P))%nat
}.

Definition written_name (e : eff) : option name :=
  match e with
  | ECreate g true | EAppend g _ | ETrunc g _ | EWriteFile g _ => Some g
  | _ => None
  end.

Lemma written_spec : forall P e j, written P e = Some j ->
  exists g, written_name e = Some g /\ ns_get (cur_ns P) g = Some j.
Proof.
  intros P e j H. destruct e as [f tr|f b|f n|f|f|a b|f| |f co']; cbn [written written_name] in *;
    try discriminate; try (eexists; split; [reflexivity|exact H]).
  destruct tr; [eexists; split; [reflexivity|exact H]|discriminate].
Qed.

(* a block of effects that publishes no manifest, touches nothing the manifest references and writes
   only to files that did not exist when the block started *)
Theorem walk_quiet : forall c X Y (A : name -> Prop) L0 E P d m B,
  Mid P d m B -> Safe c X Y P B -> Young P A L0 -> (B <= L0)%nat -> (L0 <= length (p_inodes P))%nat ->
  (forall e x, In e E -> In x (touches e) -> ~ refs m x) ->
  (forall e g, In e E -> written_name e = Some g -> A g) ->
  (forall a b, In (ERename a b) E -> A a) ->
  (forall k, (k <= length E)%nat -> Rec c X (apply_effs d (firstn k E))) ->
  forall k, (k <= length E)%nat ->
    Safe c X Y (papply_all P (firstn k E)) B /\ Mid (papply_all P (firstn k E)) (apply_effs d (firstn k E)) m B /\
    Young (papply_all P (firstn k E)) A L0 /\
    (forall x, (forall e, In e E -> ~ In x (touches e)) -> synced P L0 x -> synced (papply_all P (firstn k E)) L0 x).
Proof.
  intros c X Y A L0 E. induction E as [|e r IH]; intros P d m B HM HS HY HB HL H1 H2 H3 H4 k Hk.
  - rewrite firstn_nil. cbn. auto.
  - destruct k as [|k]; [cbn; auto|]. cbn [firstn].
    change (papply_all P (e :: firstn k r)) with (papply_all (papply P e) (firstn k r)).
    change (apply_effs d (e :: firstn k r)) with (apply_effs (apply_eff d e) (firstn k r)).
    destruct HM as [W Sd Hm Hrf HBl].
    destruct (sim_step P d e W Sd) as [W' Sd'].
    assert (Hw : forall j, written P e = Some j -> (B <= j)%nat).
    { intros j Hj. destruct (written_spec P e j Hj) as (g & Hg & Hl).
      pose proof (HY g j Hl (H2 e g (or_introl eq_refl) Hg)). lia. }
    assert (Hm' : dget (apply_eff d e) NManifest = Some (FManifest m)).
    { rewrite apply_eff_other; [exact Hm|]. intro Hin. apply (H1 e NManifest (or_introl eq_refl) Hin). left. reflexivity. }
    assert (Hrf' : forall x, refs m x -> synced (papply P e) B x).
    { intros x Hx. apply synced_keep; [exact W| |exact Hw|apply Hrf; exact Hx].
      intro Hin. exact (H1 e x (or_introl eq_refl) Hin Hx). }
    assert (HM' : Mid (papply P e) (apply_eff d e) m B).
    { constructor; try assumption. pose proof (inodes_length_mono P e). lia. }
    assert (HS' : Safe c X Y (papply P e) B).
    { apply safe_step; [exact W|exact HS|exact Hw|]. right. left.
      apply (Anch_cur c X _ (apply_eff d e) m B Sd'); [|exact Hrf'].
      apply Rec_RecM; [|exact Hm']. exact (H4 1%nat ltac:(cbn; lia)). }
    assert (HY' : Young (papply P e) A L0).
    { apply young_step; [exact HY|exact HL|]. intros a b -> _. apply (H3 a b). left. reflexivity. }
    assert (Hw0 : forall j, written P e = Some j -> (L0 <= j)%nat).
    { intros j Hj. destruct (written_spec P e j Hj) as (g & Hg & Hl).
      exact (HY g j Hl (H2 e g (or_introl eq_refl) Hg)). }
    destruct (IH (papply P e) (apply_eff d e) m B HM' HS' HY' HB) with (k := k) as (R1 & R2 & R3 & R4).
    + pose proof (inodes_length_mono P e). lia.
    + intros e0 x He0. apply H1. right. exact He0.
    + intros e0 g He0. apply H2. right. exact He0.
    + intros a b Hin. apply (H3 a b). right. exact Hin.
    + intros k0 Hk0. exact (H4 (S k0) ltac:(cbn; lia)).
    + cbn in Hk. lia.
    + split; [exact R1|]. split; [exact R2|]. split; [exact R3|].
      intros x Hx Hs. apply R4; [intros e0 He0; apply Hx; right; exact He0|].
      apply synced_keep; [exact W|apply Hx; left; reflexivity|exact Hw0|exact Hs].
Qed.

Lemma synced_after_fsync : forall P f j, WF P -> ns_get (cur_ns P) f = Some j ->
  synced (papply P (EFsync f)) (length (p_inodes (papply P (EFsync f)))) f /\
  nth j (p_inodes (papply P (EFsync f))) [] = [cur_content P j].
Proof.
  intros P f j W Hf. cbn [papply]. rewrite Hf.
  assert (Hj : (j < length (p_inodes P))%nat)
    by (eapply (wf_bound P W); [apply cur_ns_in; apply (wf_ns P W)|exact Hf]).
  assert (E : nth j (upd_nth (p_inodes P) j (fun v => [last_or v FEmpty])) [] = [cur_content P j])
    by (rewrite nth_upd_same by exact Hj; reflexivity).
  split; [|exact E]. exists j, (cur_content P j). cbn [p_inodes]. rewrite upd_nth_length.
  split; [exact Hf|]. split; [exact E|exact Hj].
Qed.

(* ------------------------------------------------------------------------------------------ *)
(* 5. Manifest::save under power loss                                                          *)
(* ------------------------------------------------------------------------------------------ *)

Definition SafeE (c : cfg) (X Y : store) (P : pfs) : Prop := exists B, Safe c X Y P B.

Lemma crash_false : forall d effs k, crash_kill d effs k false = apply_effs d (firstn k effs).
Proof. reflexivity. Qed.

Lemma refs_kind : forall c X d m x, RecM c X d m -> refs m x ->
  x = NManifest \/ is_wal x \/ (exists k, x = NSnap k).
Proof.
  intros c X d m x R [->|[H|H]]; [left; reflexivity| |].
  - right. left. destruct (RecM_refs _ _ _ _ R) as (A & _). apply A. exact H.
  - right. right. destruct (RecM_refs _ _ _ _ R) as (_ & B & _). apply B. exact H.
Qed.

Lemma young_from_sim : forall P d, Sim P d -> Young P (fun g => dget d g = None) (length (p_inodes P)).
Proof.
  intros P d S g j Hg Hn. rewrite (S g), Hg in Hn. discriminate.
Qed.

Theorem walk_manifest : forall c X Y P d m B m',
  Mid P d m B -> Safe c X Y P B -> dget d NManifestTmp = None ->
  AllRec c X d (save_manifest_effs m') ->
  (forall x, refs m' x -> x <> NManifest -> synced P (length (p_inodes P)) x /\ x <> NManifestTmp) ->
  (forall k, (k <= 5)%nat -> SafeE c X Y (papply_all P (firstn k (save_manifest_effs m')))) /\
  Mid (papply_all P (save_manifest_effs m')) (apply_effs d (save_manifest_effs m')) m'
      (length (p_inodes (papply_all P (save_manifest_effs m')))) /\
  Safe c X Y (papply_all P (save_manifest_effs m')) (length (p_inodes (papply_all P (save_manifest_effs m')))) /\
  dget (apply_effs d (save_manifest_effs m')) NManifestTmp = None.
Proof.
  intros c X Y P d m B m' HM HS Htmp HA Hnew.
  set (E := save_manifest_effs m'). set (L := length (p_inodes P)).
  assert (HRk : forall k, (k <= 5)%nat -> Rec c X (apply_effs d (firstn k E)))
    by (intros k Hk; rewrite <- crash_false; apply HA; exact Hk).
  pose proof (Rec_RecM c X d m (HRk 0%nat ltac:(lia)) (mid_man _ _ _ _ HM)) as RM0.
  assert (Hnt : forall x, refs m x -> x <> NManifestTmp).
  { intros x Hx. destruct (refs_kind _ _ _ _ _ RM0 Hx) as [->|[[j ->]|[j ->]]]; discriminate. }
  (* the three effects that only touch MANIFEST.tmp *)
  assert (Q : forall k, (k <= 3)%nat ->
            Safe c X Y (papply_all P (firstn k E)) B /\ Mid (papply_all P (firstn k E)) (apply_effs d (firstn k E)) m B /\
            (forall x, x <> NManifestTmp -> synced P L x -> synced (papply_all P (firstn k E)) L x)).
  { intros k Hk.
    destruct (walk_quiet c X Y (fun g => dget d g = None) L (firstn 3 E) P d m B HM HS
                (young_from_sim P d (mid_sim _ _ _ _ HM)) (mid_B _ _ _ _ HM) (le_n _)) with (k := k) as (Q1 & Q2 & _ & Q4).
    - intros e x He Hx Hr. cbn in He. destruct He as [<-|[<-|[<-|[]]]]; cbn in Hx; try contradiction;
        destruct Hx as [<-|[]]; exact (Hnt _ Hr eq_refl).
    - intros e g He Hg. cbn in He. destruct He as [<-|[<-|[<-|[]]]]; cbn in Hg; inversion Hg; subst; exact Htmp.
    - intros a b He. cbn in He. destruct He as [H|[H|[H|[]]]]; discriminate.
    - intros k0 Hk0. cbn [length firstn E save_manifest_effs] in Hk0.
      replace (firstn k0 (firstn 3 E)) with (firstn k0 E); [apply HRk; lia|].
      rewrite firstn_firstn. f_equal. lia.
    - cbn. exact Hk.
    - replace (firstn k (firstn 3 E)) with (firstn k E) in * by (rewrite firstn_firstn; f_equal; lia).
      split; [exact Q1|]. split; [exact Q2|]. intros x Hx Hs. apply Q4; [|exact Hs].
      intros e He Hin. cbn in He. destruct He as [<-|[<-|[<-|[]]]]; cbn in Hin; try contradiction;
        destruct Hin as [E0|[]]; apply Hx; symmetry; exact E0. }
  destruct (Q 2%nat ltac:(lia)) as (_ & M2 & _).
  destruct (Q 3%nat ltac:(lia)) as (S3 & M3 & K3).
  set (P2 := papply_all P (firstn 2 E)) in *. set (P3 := papply_all P (firstn 3 E)) in *.
  assert (E3 : P3 = papply P2 (EFsync NManifestTmp)) by reflexivity.
  (* MANIFEST.tmp holds the new manifest and has just been fsynced *)
  assert (Hd2 : dget (apply_effs d (firstn 2 E)) NManifestTmp = Some (FManifest m')).
  { unfold E, save_manifest_effs, apply_effs. cbn [firstn fold_left apply_eff]. rewrite Htmp. dsimp. reflexivity. }
  destruct (ns_get (cur_ns P2) NManifestTmp) as [j|] eqn:Ej;
    [|pose proof (mid_sim _ _ _ _ M2 NManifestTmp) as Sx; rewrite Hd2, Ej in Sx; discriminate].
  assert (Hc2 : cur_content P2 j = FManifest m').
  { pose proof (mid_sim _ _ _ _ M2 NManifestTmp) as Sx. rewrite Hd2, Ej in Sx. cbn [option_map] in Sx.
    inversion Sx. reflexivity. }
  destruct (synced_after_fsync P2 NManifestTmp j (mid_wf _ _ _ _ M2) Ej) as [_ Hflat].
  rewrite <- E3, Hc2 in Hflat.
  assert (Ej3 : ns_get (cur_ns P3) NManifestTmp = Some j).
  { rewrite E3, cur_lookup_other by (cbn; tauto). exact Ej. }
  (* the rename publishes m' *)
  set (P4 := papply P3 (ERename NManifestTmp NManifest)).
  set (D4 := apply_effs d (firstn 4 E)).
  assert (E4 : papply_all P (firstn 4 E) = P4) by reflexivity.
  destruct (sim_step P3 (apply_effs d (firstn 3 E)) (ERename NManifestTmp NManifest)
              (mid_wf _ _ _ _ M3) (mid_sim _ _ _ _ M3)) as [W4 S4].
  fold P4 in W4, S4. change (apply_eff (apply_effs d (firstn 3 E)) (ERename NManifestTmp NManifest)) with D4 in S4.
  assert (Hcur4 : cur_ns P4 = ns_set (ns_remove (cur_ns P3) NManifestTmp) NManifest j).
  { unfold P4. cbn [papply]. rewrite Ej3. apply cur_ns_push. }
  assert (Hino4 : p_inodes P4 = p_inodes P3) by (unfold P4; cbn [papply]; rewrite Ej3; reflexivity).
  set (B' := length (p_inodes P4)).
  assert (HD4 : D4 = apply_effs d E) by reflexivity.
  assert (Hm4 : dget D4 NManifest = Some (FManifest m')) by (rewrite HD4; apply save_manifest_get).
  assert (HL : (L <= B')%nat).
  { unfold B'. rewrite Hino4. pose proof (mid_B _ _ _ _ M3).
    assert (L <= length (p_inodes P3))%nat; [|lia]. unfold P3, L.
    clear. generalize (firstn 3 E). intros l. revert P. induction l as [|e r IH]; intros P; [cbn; lia|].
    change (papply_all P (e :: r)) with (papply_all (papply P e) r).
    pose proof (inodes_length_mono P e). specialize (IH (papply P e)). lia. }
  assert (Hsy4 : forall x, refs m' x -> synced P4 B' x).
  { intros x Hx. destruct (name_eqb_spec x NManifest) as [->|Nm].
    - exists j, (FManifest m'). rewrite Hcur4, ns_get_set_same, Hino4. split; [reflexivity|]. split; [exact Hflat|].
      unfold B'. rewrite Hino4. eapply nth_singleton_lt. exact Hflat.
    - destruct (Hnew x Hx Nm) as [Hs Nt]. destruct (K3 x Nt Hs) as (i & co & Hi & Hn & Hb).
      exists i, co. rewrite Hcur4, ns_get_set_other, ns_get_remove_other by assumption. rewrite Hino4.
      split; [exact Hi|]. split; [exact Hn|]. lia. }
  assert (RM4 : RecM c X D4 m') by (apply Rec_RecM; [apply (HRk 4%nat); lia|exact Hm4]).
  assert (HB3 : (B <= B')%nat) by (pose proof (mid_B _ _ _ _ HM); fold L in H; lia).
  assert (S4' : Safe c X Y P4 B').
  { apply safe_step; [exact (mid_wf _ _ _ _ M3)|eapply Safe_mono; [exact HB3|exact S3]|intros j0 H0; discriminate|].
    right. left. exact (Anch_cur c X P4 D4 m' B' S4 RM4 Hsy4). }
  (* the directory fsync *)
  set (P5 := papply P4 EFsyncDir).
  assert (E5 : papply_all P E = P5) by reflexivity.
  destruct (sim_step P4 D4 EFsyncDir W4 S4) as [W5 S5]. fold P5 in W5, S5.
  change (apply_eff D4 EFsyncDir) with (apply_effs d E) in S5.
  assert (Hino5 : p_inodes P5 = p_inodes P4) by reflexivity.
  assert (Hcur5 : cur_ns P5 = cur_ns P4) by reflexivity.
  assert (S5' : Safe c X Y P5 B').
  { apply safe_step; [exact W4|exact S4'|intros j0 H0; discriminate|]. left.
    change (In (cur_ns P4) (p_ns P4)). apply cur_ns_in. apply (wf_ns _ W4). }
  split; [|split; [|split]].
  - intros k Hk. assert (k <= 3 \/ k = 4 \/ k = 5)%nat as [H3|[->| ->]] by lia.
    + exists B. apply (Q k H3).
    + rewrite E4. exists B'. exact S4'.
    + change (firstn 5 E) with E. rewrite E5. exists B'. exact S5'.
  - rewrite E5, Hino5. fold B'. constructor.
    + exact W5.
    + exact S5.
    + rewrite <- HD4. exact Hm4.
    + intros x Hx. destruct (Hsy4 x Hx) as (i & co & Hi & Hn & Hb). exists i, co. rewrite Hcur5, Hino5. auto.
    + rewrite Hino5. apply le_n.
  - rewrite E5, Hino5. exact S5'.
  - unfold E, save_manifest_effs, apply_effs. cbn [fold_left apply_eff]. rewrite Htmp. dsimp. cbn. dsimp. reflexivity.
Qed.

Lemma synced_mono : forall P B B' x, (B <= B')%nat -> synced P B x -> synced P B' x.
Proof. intros P B B' x H (i & co & A & C & D). exists i, co. repeat split; try assumption. lia. Qed.

Lemma synced_after_fdatasync : forall P f j, WF P -> ns_get (cur_ns P) f = Some j ->
  synced (papply P (EFsyncData f)) (length (p_inodes (papply P (EFsyncData f)))) f.
Proof. intros P f j W Hf. exact (proj1 (synced_after_fsync P f j W Hf)). Qed.

Lemma papply_all_app : forall P a b, papply_all P (a ++ b) = papply_all (papply_all P a) b.
Proof. intros. unfold papply_all. apply fold_left_app. Qed.

Lemma papply_all_length_mono : forall es P, (length (p_inodes P) <= length (p_inodes (papply_all P es)))%nat.
Proof.
  induction es as [|e r IH]; intros P; [cbn; lia|].
  change (papply_all P (e :: r)) with (papply_all (papply P e) r).
  pose proof (inodes_length_mono P e). specialize (IH (papply P e)). lia.
Qed.

Lemma firstn_app_le : forall A (a b : list A) k, (k <= length a)%nat -> firstn k (a ++ b) = firstn k a.
Proof.
  intros A a b k H. rewrite firstn_app. replace (k - length a)%nat with 0%nat by lia. cbn. apply app_nil_r.
Qed.

Lemma firstn_app_ge : forall A (a b : list A) k, (length a <= k)%nat -> firstn k (a ++ b) = a ++ firstn (k - length a) b.
Proof.
  intros A a b k H. rewrite firstn_app. rewrite firstn_all2 by exact H. reflexivity.
Qed.

(* ------------------------------------------------------------------------------------------ *)
(* 6. A fresh segment is created, then listed (rotation, recovery)                             *)
(* ------------------------------------------------------------------------------------------ *)

Definition newseg_effs (d : dir) (m : manifest) : list eff :=
  new_wal_effs (NWal (fresh_id d)) ++
  save_manifest_effs (mkManifest (m_snapshot m) (m_snapshot_seq m) (m_segments m ++ [NWal (fresh_id d)])).

Theorem walk_newseg : forall c X Y P d a nx m B,
  InvD c X d a nx -> Mid P d m B -> Safe c X Y P B -> dget d NManifestTmp = None ->
  (forall k, (k <= length (newseg_effs d m))%nat -> SafeE c X Y (papply_all P (firstn k (newseg_effs d m)))) /\
  (exists m' B', Mid (papply_all P (newseg_effs d m)) (apply_effs d (newseg_effs d m)) m' B' /\
                 Safe c X Y (papply_all P (newseg_effs d m)) B') /\
  dget (apply_effs d (newseg_effs d m)) NManifestTmp = None.
Proof.
  intros c X Y P d a nx m B HI HM HS Htmp. unfold newseg_effs.
  set (f := NWal (fresh_id d)).
  set (m' := mkManifest (m_snapshot m) (m_snapshot_seq m) (m_segments m ++ [f])).
  set (E1 := new_wal_effs f). set (E2 := save_manifest_effs m').
  pose proof (newseg_allrec c X d a nx m HI (mid_man _ _ _ _ HM)) as HA. fold f m' E1 E2 in HA.
  assert (Hf : dget d f = None) by (apply fresh_none; reflexivity).
  assert (R0 : Rec c X d) by (eapply InvD_Rec; exact HI).
  pose proof (Rec_RecM c X d m R0 (mid_man _ _ _ _ HM)) as RM0.
  assert (A1 : AllRec c X d E1) by (apply AllRec_new_wal; assumption).
  set (L := length (p_inodes P)).
  (* creating the segment: only f is touched *)
  assert (Q : forall k, (k <= 3)%nat ->
            Safe c X Y (papply_all P (firstn k E1)) B /\ Mid (papply_all P (firstn k E1)) (apply_effs d (firstn k E1)) m B /\
            (forall x, x <> f -> synced P L x -> synced (papply_all P (firstn k E1)) L x)).
  { intros k Hk.
    destruct (walk_quiet c X Y (fun g => dget d g = None) L E1 P d m B HM HS
                (young_from_sim P d (mid_sim _ _ _ _ HM)) (mid_B _ _ _ _ HM) (le_n _)) with (k := k) as (Q1 & Q2 & _ & Q4).
    - intros e x He Hx Hr. cbn in He. destruct He as [<-|[<-|[<-|[]]]]; cbn in Hx; try contradiction;
        destruct Hx as [<-|[]]; destruct (RecM_refs _ _ _ _ RM0) as (Ra & Rb & Rc);
        destruct Hr as [E0|[Hr|Hr]]; [discriminate|destruct (Ra _ Hr) as [_ N]; contradiction|destruct (Rb _ Hr) as [[i Ei] _]; discriminate|
                                      discriminate|destruct (Ra _ Hr) as [_ N]; contradiction|destruct (Rb _ Hr) as [[i Ei] _]; discriminate].
    - intros e g He Hg. cbn in He. destruct He as [<-|[<-|[<-|[]]]]; cbn in Hg; inversion Hg; subst; exact Hf.
    - intros a0 b He. cbn in He. destruct He as [H|[H|[H|[]]]]; discriminate.
    - intros k0 Hk0. rewrite <- crash_false. apply A1. exact Hk0.
    - cbn. exact Hk.
    - split; [exact Q1|]. split; [exact Q2|]. intros x Hx Hs. apply Q4; [|exact Hs].
      intros e He Hin. cbn in He. destruct He as [<-|[<-|[<-|[]]]]; cbn in Hin; try contradiction;
        destruct Hin as [E0|[]]; apply Hx; symmetry; exact E0. }
  destruct (Q 2%nat ltac:(lia)) as (_ & M2 & _).
  destruct (Q 3%nat ltac:(lia)) as (S3 & M3 & K3).
  change (firstn 3 E1) with E1 in *.
  set (P3 := papply_all P E1) in *. set (D3 := apply_effs d E1) in *.
  set (P2 := papply_all P (firstn 2 E1)) in *.
  assert (E3 : P3 = papply P2 (EFsyncData f)) by reflexivity.
  assert (Hd2 : dget (apply_effs d (firstn 2 E1)) f = Some (FWal [] Clean)).
  { unfold E1, new_wal_effs, apply_effs. cbn [firstn fold_left apply_eff]. rewrite Hf. dsimp. cbn. dsimp. reflexivity. }
  destruct (ns_get (cur_ns P2) f) as [j|] eqn:Ej;
    [|pose proof (mid_sim _ _ _ _ M2 f) as Sx; rewrite Hd2, Ej in Sx; discriminate].
  pose proof (synced_after_fdatasync P2 f j (mid_wf _ _ _ _ M2) Ej) as Hsf. rewrite <- E3 in Hsf.
  set (L3 := length (p_inodes P3)) in *.
  assert (HL3 : (L <= L3)%nat) by (unfold L3, P3, L; apply papply_all_length_mono).
  assert (Htmp3 : dget D3 NManifestTmp = None) by (unfold D3, E1; rewrite new_wal_other; [exact Htmp|exact Hf|discriminate]).
  assert (A2 : AllRec c X D3 E2).
  { intros k torn Hk. unfold D3. rewrite <- crash_app_ge. apply HA. rewrite app_length. cbn [length E1 new_wal_effs]. lia. }
  (* listing it *)
  destruct (walk_manifest c X Y P3 D3 m B m' M3 S3 Htmp3 A2) as (W1 & W2 & W3 & W4).
  { intros x Hx Nm. split.
    - destruct Hx as [E0|[Hx|Hx]]; [contradiction| |].
      + cbn [m_segments m'] in Hx. apply in_app_or in Hx. destruct Hx as [Hx|[<-|[]]]; [|exact Hsf].
        eapply synced_mono; [|apply (mid_refs _ _ _ _ M3); right; left; exact Hx]. pose proof (mid_B _ _ _ _ M3). exact H.
      + cbn [m_snapshot m'] in Hx. eapply synced_mono; [|apply (mid_refs _ _ _ _ M3); right; right; exact Hx].
        pose proof (mid_B _ _ _ _ M3). exact H.
    - assert (RM' : RecM c X (apply_effs D3 E2) m').
      { apply Rec_RecM; [apply AllRec_end; exact A2|apply save_manifest_get]. }
      destruct (refs_kind _ _ _ _ _ RM' Hx) as [->|[[i ->]|[i ->]]]; discriminate. }
  split; [|split].
  - intros k Hk. destruct (Nat.le_gt_cases k 3) as [L1|G1].
    + rewrite firstn_app_le by exact L1. exists B. apply (Q k L1).
    + rewrite firstn_app_ge by (cbn; lia). rewrite papply_all_app. fold P3. cbn [length E1 new_wal_effs].
      apply W1. rewrite app_length in Hk. cbn [length E1 E2 new_wal_effs save_manifest_effs] in Hk. lia.
  - rewrite papply_all_app, apply_effs_app. fold P3 D3. eexists. eexists. split; [exact W2|exact W3].
  - rewrite apply_effs_app. fold D3. exact W4.
Qed.

(* ------------------------------------------------------------------------------------------ *)
(* 7. Composing blocks                                                                         *)
(* ------------------------------------------------------------------------------------------ *)

(* running block E from (P, d): every prefix is safe, and the end state is again a Mid state *)
Definition BlockOK (c : cfg) (X Y : store) (P : pfs) (d : dir) (E : list eff) : Prop :=
  (forall k, (k <= length E)%nat -> SafeE c X Y (papply_all P (firstn k E))) /\
  (exists m' B', Mid (papply_all P E) (apply_effs d E) m' B' /\ Safe c X Y (papply_all P E) B') /\
  dget (apply_effs d E) NManifestTmp = None.

Lemma BlockOK_app : forall c X Y P d E1 E2,
  BlockOK c X Y P d E1 ->
  (forall m' B', Mid (papply_all P E1) (apply_effs d E1) m' B' -> Safe c X Y (papply_all P E1) B' ->
                 dget (apply_effs d E1) NManifestTmp = None ->
                 BlockOK c X Y (papply_all P E1) (apply_effs d E1) E2) ->
  BlockOK c X Y P d (E1 ++ E2).
Proof.
  intros c X Y P d E1 E2 (A1 & (m1 & B1 & M1 & S1) & T1) H2.
  destruct (H2 m1 B1 M1 S1 T1) as (A2 & R2 & T2).
  split; [|split].
  - intros k Hk. destruct (Nat.le_gt_cases k (length E1)) as [L|G].
    + rewrite firstn_app_le by exact L. apply A1. exact L.
    + rewrite firstn_app_ge by lia. rewrite papply_all_app. apply A2. rewrite app_length in Hk. lia.
  - rewrite papply_all_app, apply_effs_app. exact R2.
  - rewrite apply_effs_app. exact T2.
Qed.

Lemma BlockOK_nil : forall c X Y P d m B, Mid P d m B -> Safe c X Y P B -> dget d NManifestTmp = None ->
  BlockOK c X Y P d [].
Proof.
  intros c X Y P d m B HM HS HT. split; [|split].
  - intros k _. rewrite firstn_nil. exists B. exact HS.
  - exists m, B. split; assumption.
  - exact HT.
Qed.

Lemma block_manifest : forall c X Y P d m B m',
  Mid P d m B -> Safe c X Y P B -> dget d NManifestTmp = None ->
  AllRec c X d (save_manifest_effs m') ->
  (forall x, refs m' x -> x <> NManifest -> synced P (length (p_inodes P)) x /\ x <> NManifestTmp) ->
  BlockOK c X Y P d (save_manifest_effs m').
Proof.
  intros c X Y P d m B m' HM HS HT HA Hn.
  destruct (walk_manifest c X Y P d m B m' HM HS HT HA Hn) as (W1 & W2 & W3 & W4).
  split; [exact W1|]. split; [|exact W4]. eexists. eexists. split; [exact W2|exact W3].
Qed.

Lemma block_newseg : forall c X Y P d a nx m B,
  InvD c X d a nx -> Mid P d m B -> Safe c X Y P B -> dget d NManifestTmp = None ->
  BlockOK c X Y P d (newseg_effs d m).
Proof. intros. eapply walk_newseg; eassumption. Qed.

(* a quiet block (no manifest publish, nothing referenced is touched, writes only to new files) *)
Lemma block_quiet : forall c X Y E P d m B,
  Mid P d m B -> Safe c X Y P B -> dget d NManifestTmp = None ->
  (forall e x, In e E -> In x (touches e) -> ~ refs m x /\ x <> NManifestTmp) ->
  (forall e g, In e E -> written_name e = Some g -> dget d g = None) ->
  (forall a b, In (ERename a b) E -> dget d a = None) ->
  AllRec c X d E ->
  BlockOK c X Y P d E /\
  (forall x, (forall e, In e E -> ~ In x (touches e)) -> synced P (length (p_inodes P)) x ->
             synced (papply_all P E) (length (p_inodes P)) x).
Proof.
  intros c X Y E P d m B HM HS HT H1 H2 H3 HA.
  pose proof (walk_quiet c X Y (fun g => dget d g = None) (length (p_inodes P)) E P d m B HM HS
      (young_from_sim P d (mid_sim _ _ _ _ HM)) (mid_B _ _ _ _ HM) (le_n _)
      (fun e x He Hx => proj1 (H1 e x He Hx)) H2 H3
      (fun k Hk => eq_ind _ (Rec c X) (HA k false Hk) _ (crash_false d E k))) as W.
  split; [split; [|split]|].
  - intros k Hk. exists B. apply (W k Hk).
  - destruct (W (length E) (le_n _)) as (Q1 & Q2 & _). rewrite firstn_all in Q1, Q2.
    exists m, B. split; assumption.
  - rewrite apply_effs_other; [exact HT|]. intros e He Hin. destruct (H1 e _ He Hin) as [_ N]. apply N. reflexivity.
  - destruct (W (length E) (le_n _)) as (_ & _ & _ & Q4). rewrite firstn_all in Q4. exact Q4.
Qed.

(* Snapshot::save: the snapshot file is written and fsynced under its temp name, then renamed *)
Lemma block_snapfile : forall c X Y P d m B k sn,
  Mid P d m B -> Safe c X Y P B -> dget d NManifestTmp = None ->
  dget d (NSnap k) = None -> dget d (NSnapTmp k) = None ->
  AllRec c X d (save_snapshot_effs k sn) ->
  BlockOK c X Y P d (save_snapshot_effs k sn) /\
  (forall x, x <> NSnap k -> x <> NSnapTmp k -> synced P (length (p_inodes P)) x ->
             synced (papply_all P (save_snapshot_effs k sn)) (length (p_inodes P)) x) /\
  synced (papply_all P (save_snapshot_effs k sn)) (length (p_inodes (papply_all P (save_snapshot_effs k sn)))) (NSnap k).
Proof.
  intros c X Y P d m B k sn HM HS HT Hs Ht HA.
  set (E := save_snapshot_effs k sn).
  pose proof (Rec_RecM c X d m (AllRec_end _ _ _ [] (AllRec_nil _ _ _ (eq_ind _ (Rec c X) (HA 0%nat false ltac:(cbn; lia)) _ (crash_false d E 0)))) (mid_man _ _ _ _ HM)) as RM0.
  destruct (block_quiet c X Y E P d m B HM HS HT) as [BK Pres].
  - intros e x He Hx. cbn in He.
    assert (Hxx : x = NSnapTmp k \/ x = NSnap k).
    { destruct He as [<-|[<-|[<-|[<-|[<-|[]]]]]]; cbn in Hx;
        repeat match goal with
               | H : _ \/ _ |- _ => destruct H
               | H : False |- _ => contradiction
               end; subst; auto. }
    split.
    + intro Hr. destruct (RecM_refs _ _ _ _ RM0) as (Ra & Rb & Rc).
      destruct Hr as [E0|[Hr|Hr]].
      * destruct Hxx as [->| ->]; discriminate.
      * destruct (Ra _ Hr) as [[i Ei] N]. destruct Hxx as [->| ->]; discriminate.
      * destruct (Rb _ Hr) as [_ N]. destruct Hxx as [->| ->]; contradiction.
    + destruct Hxx as [->| ->]; discriminate.
  - intros e g He Hg. cbn in He. destruct He as [<-|[<-|[<-|[<-|[<-|[]]]]]]; cbn in Hg; inversion Hg; subst; exact Ht.
  - intros a b He. cbn in He. destruct He as [H|[H|[H|[H|[H|[]]]]]]; try discriminate. inversion H; subst. exact Ht.
  - exact HA.
  - split; [exact BK|]. split.
    + intros x N1 N2 Hx. apply Pres; [|exact Hx]. intros e He Hin. cbn in He.
      destruct He as [<-|[<-|[<-|[<-|[<-|[]]]]]]; cbn in Hin;
        repeat match goal with
               | H : _ \/ _ |- _ => destruct H
               | H : False |- _ => contradiction
               end; subst; contradiction.
    + (* the inode written as snapshot_k.tmp is flat and now bound to snapshot_k.snap *)
      destruct (sim_steps (firstn 2 E) P d (mid_wf _ _ _ _ HM) (mid_sim _ _ _ _ HM)) as [W2 S2].
      set (P2 := papply_all P (firstn 2 E)) in *.
      assert (Hd2 : dget (apply_effs d (firstn 2 E)) (NSnapTmp k) = Some (FSnap sn)).
      { unfold E, save_snapshot_effs, apply_effs. cbn [firstn fold_left apply_eff]. rewrite Ht. dsimp. reflexivity. }
      destruct (ns_get (cur_ns P2) (NSnapTmp k)) as [j|] eqn:Ej;
        [|pose proof (S2 (NSnapTmp k)) as Sx; rewrite Hd2, Ej in Sx; discriminate].
      destruct (synced_after_fsync P2 (NSnapTmp k) j W2 Ej) as [_ Hflat].
      set (P3 := papply P2 (EFsync (NSnapTmp k))) in *.
      assert (Ej3 : ns_get (cur_ns P3) (NSnapTmp k) = Some j).
      { unfold P3. rewrite cur_lookup_other by (cbn; tauto). exact Ej. }
      assert (EP : papply_all P E = papply (papply P3 (ERename (NSnapTmp k) (NSnap k))) EFsyncDir) by reflexivity.
      rewrite EP. exists j, (cur_content P2 j). cbn [papply]. rewrite Ej3. cbn [p_inodes push_ns p_ns].
      split; [|split; [exact Hflat|eapply nth_singleton_lt; exact Hflat]].
      change (cur_ns (mkPfs (p_inodes P3) [cur_ns (push_ns P3 (ns_set (ns_remove (cur_ns P3) (NSnapTmp k)) (NSnap k) j))]))
        with (cur_ns (push_ns P3 (ns_set (ns_remove (cur_ns P3) (NSnapTmp k)) (NSnap k) j))).
      rewrite cur_ns_push. apply ns_get_set_same.
Qed.

(* ------------------------------------------------------------------------------------------ *)
(* 8. create_snapshot under power loss                                                         *)
(* ------------------------------------------------------------------------------------------ *)

Lemma mid_manifest_eq : forall P d m m' B, Mid P d m B -> dget d NManifest = Some (FManifest m') -> m = m'.
Proof. intros P d m m' B HM H. rewrite (mid_man _ _ _ _ HM) in H. inversion H. reflexivity. Qed.

Theorem walk_snapshot : forall c s Y P m0 B0,
  InvDs c (st_store s) s -> sorted (st_store s) -> docs_ok c (st_store s) ->
  Mid P (st_disk s) m0 B0 -> Safe c (st_store s) Y P B0 -> dget (st_disk s) NManifestTmp = None ->
  BlockOK c (st_store s) Y P (st_disk s) (snd (create_snapshot c s)).
Proof.
  intros c s Y P m0 B0 H Hso Hdo HM HS HT.
  pose proof H as (m & sdocs & sseq & Hm & [pre Hpre] & Hnd & Hw & Hg & Hs & Hok & Hmx & Hrp).
  unfold create_snapshot. fold (store_dim (st_store s)).
  set (last := N.pred (st_next_seq s)).
  set (sn := mkSnap (store_dim (st_store s)) (c_metric c) (st_store s) last).
  destruct (snap_valid_store c (st_store s) (c_metric c) last Hso Hdo) as [Hv Hdim].
  fold sn in Hv. rewrite Hv. cbn [negb].
  set (k := fresh_id (st_disk s)).
  set (d := st_disk s) in *.
  set (d1 := apply_effs d (save_snapshot_effs k sn)).
  assert (Hm1 : load_manifest d1 = Some m).
  { unfold load_manifest, d1. rewrite save_snapshot_other by discriminate. rewrite Hm. reflexivity. }
  rewrite Hm1.
  pose proof (maxseq_ge (all_entries d (m_segments m)) sseq) as Hge.
  assert (Hlast : last + 1 = st_next_seq s) by (unfold last; lia).
  destruct Hs as [Hq Hs]. rewrite Hq.
  replace (last <? sseq) with false by (symmetry; apply N.ltb_ge; lia).
  set (m1 := mkManifest (Some (NSnap k)) (Some last) (m_segments m)).
  set (d2 := apply_effs d1 (save_manifest_effs m1)).
  destruct (compact_segments d2 last (m_segments m)) as [keep del] eqn:EC.
  destruct (compact_props _ _ _ _ _ EC) as (C1 & C2 & C3 & C4).
  destruct (C3 Hnd) as [Cnd Cdis].
  set (m2 := mkManifest (Some (NSnap k)) (Some last) keep).
  cbn [snd].
  assert (Hwal : forall x, In x (m_segments m) -> is_wal x) by (rewrite Forall_forall in Hw; exact Hw).
  assert (R0 : Rec c (st_store s) d) by (eapply InvD_Rec; exact H).
  assert (A1 : AllRec c (st_store s) d (save_snapshot_effs k sn))
    by (apply AllRec_save_snapshot; [exact R0|apply fresh_none; reflexivity]).
  (* facts about d1, d2 *)
  assert (Hd1 : forall x, is_wal x -> dget d1 x = dget d x).
  { intros x Hx. destruct (is_wal_neq _ Hx) as (_ & _ & N3 & N4). unfold d1.
    apply save_snapshot_other; [apply N3|apply N4]. }
  assert (Hd2 : forall x, is_wal x -> dget d2 x = dget d x).
  { intros x Hx. destruct (is_wal_neq _ Hx) as (N1 & N2 & _). unfold d2.
    rewrite save_manifest_other by assumption. apply Hd1. exact Hx. }
  assert (Hd2s : dget d2 (NSnap k) = Some (FSnap sn)).
  { unfold d2. rewrite save_manifest_other by discriminate. unfold d1. apply save_snapshot_get. }
  assert (R2 : Rec c (st_store s) d2).
  { exists m1. apply (RecM_snapshot c d (st_active s) (st_next_seq s) (st_store s) m d2 (m_segments m) k last
                        H Hso Hdo Hlast Hm (fun x Hx => Hx)).
    - unfold d2. apply save_manifest_get.
    - exact Hd2s.
    - intros x Hx. apply Hd2. apply Hwal. exact Hx. }
  assert (A2 : AllRec c (st_store s) d1 (save_manifest_effs m1))
    by (apply AllRec_save_manifest; [apply AllRec_end; exact A1|exact R2]).
  (* pruned-manifest save + unlinks (only when something is deletable) *)
  set (e3 := (match del with [] => [] | _ :: _ => save_manifest_effs m2 end) ++ map EUnlink del).
  set (d4 := apply_effs d2 e3).
  assert (A3 : AllRec c (st_store s) d2 e3 /\
               (forall x, In x keep -> dget d4 x = dget d x) /\ dget d4 (NSnap k) = Some (FSnap sn)).
  { unfold d4, e3. destruct del as [|x0 dr] eqn:Edel.
    - cbn [map app]. split; [apply AllRec_nil; exact R2|]. split.
      + intros x Hx. apply Hd2. apply Hwal. apply C1. exact Hx.
      + exact Hd2s.
    - rewrite <- Edel in *. set (d3 := apply_effs d2 (save_manifest_effs m2)).
      assert (Hd3 : forall x, is_wal x -> dget d3 x = dget d x).
      { intros x Hx. destruct (is_wal_neq _ Hx) as (N1 & N2 & _). unfold d3.
        rewrite save_manifest_other by assumption. apply Hd2. exact Hx. }
      assert (Hd3s : dget d3 (NSnap k) = Some (FSnap sn)).
      { unfold d3. rewrite save_manifest_other by discriminate. exact Hd2s. }
      assert (RM3 : RecM c (st_store s) d3 m2).
      { apply (RecM_snapshot c d (st_active s) (st_next_seq s) (st_store s) m d3 keep k last
                 H Hso Hdo Hlast Hm C1).
        - unfold d3. apply save_manifest_get.
        - exact Hd3s.
        - intros x Hx. apply Hd3. apply Hwal. apply C1. exact Hx. }
      assert (A3a : AllRec c (st_store s) d2 (save_manifest_effs m2))
        by (apply AllRec_save_manifest; [exact R2|exists m2; exact RM3]).
      assert (A3u : AllRec c (st_store s) d3 (map EUnlink del)).
      { intros j torn _. exists m2. apply AllRec_untouched; [exact RM3|].
        intros e x He Hx. apply in_map_iff in He. destruct He as (y & <- & Hy). cbn in Hx.
        destruct Hx as [<-|[]]. destruct (Hwal _ (C2 _ Hy)) as [i Ei].
        split; [rewrite Ei; discriminate|]. split; [apply Cdis; exact Hy|].
        cbn [m_snapshot m2]. rewrite Ei. discriminate. }
      split; [apply AllRec_app; [exact A3a|exact A3u]|].
      rewrite apply_effs_app. fold d3. split.
      + intros x Hx. rewrite unlinks_other by (intro Hin; apply (Cdis _ Hin Hx)).
        apply Hd3. apply Hwal. apply C1. exact Hx.
      + rewrite unlinks_other; [exact Hd3s|]. intro Hin. destruct (Hwal _ (C2 _ Hin)) as [i Ei]. discriminate. }
  destruct A3 as (A3 & Hk4 & Hs4).
  assert (R5 : Rec c (st_store s) (apply_effs d4 (save_manifest_effs m2))).
  { exists m2. apply (RecM_snapshot c d (st_active s) (st_next_seq s) (st_store s) m _ keep k last
                        H Hso Hdo Hlast Hm C1).
    - apply save_manifest_get.
    - rewrite save_manifest_other by discriminate. exact Hs4.
    - intros x Hx. destruct (is_wal_neq _ (Hwal _ (C1 _ Hx))) as (N1 & N2 & _).
      rewrite save_manifest_other by assumption. apply Hk4. exact Hx. }
  assert (A4 : AllRec c (st_store s) d4 (save_manifest_effs m2))
    by (apply AllRec_save_manifest; [apply AllRec_end; exact A3|exact R5]).
  (* ---- power-loss walk over the four blocks ---- *)
  assert (Em0 : m0 = m) by (eapply mid_manifest_eq; [exact HM|exact Hm]). subst m0.
  assert (Hk1 : dget d (NSnap k) = None) by (apply fresh_none; reflexivity).
  assert (Hk2 : dget d (NSnapTmp k) = None) by (apply fresh_none; reflexivity).
  destruct (block_snapfile c (st_store s) Y P d m B0 k sn HM HS HT Hk1 Hk2 A1) as (BK1 & Pres1 & Sy1).
  set (P1 := papply_all P (save_snapshot_effs k sn)) in *.
  apply BlockOK_app; [exact BK1|]. fold d1. intros m' B1 M1 S1 T1.
  assert (Em1 : m' = m).
  { eapply mid_manifest_eq; [exact M1|]. unfold d1. rewrite save_snapshot_other by discriminate. exact Hm. }
  subst m'.
  assert (Hseg1 : forall x, In x (m_segments m) -> synced P1 (length (p_inodes P1)) x).
  { intros x Hx. eapply synced_mono; [exact (mid_B _ _ _ _ M1)|]. apply (mid_refs _ _ _ _ M1). right. left. exact Hx. }
  assert (BK2 : BlockOK c (st_store s) Y P1 d1 (save_manifest_effs m1)).
  { apply (block_manifest c (st_store s) Y P1 d1 m B1 m1 M1 S1 T1 A2).
    intros x Hx Nm. destruct Hx as [E0|[Hx|Hx]]; [contradiction| |].
    - cbn [m_segments m1] in Hx. split; [apply Hseg1; exact Hx|]. destruct (Hwal _ Hx) as [i ->]. discriminate.
    - cbn [m_snapshot m1] in Hx. inversion Hx; subst x. split; [exact Sy1|discriminate]. }
  apply BlockOK_app; [exact BK2|]. fold d2. intros m' B2 M2 S2 T2.
  assert (Em2 : m' = m1) by (eapply mid_manifest_eq; [exact M2|unfold d2; apply save_manifest_get]).
  subst m'.
  set (P2 := papply_all P1 (save_manifest_effs m1)) in *.
  assert (Href2 : forall x, In x keep \/ x = NSnap k -> synced P2 (length (p_inodes P2)) x).
  { intros x Hx. eapply synced_mono; [exact (mid_B _ _ _ _ M2)|]. apply (mid_refs _ _ _ _ M2).
    destruct Hx as [Hx| ->]; [right; left; cbn [m_segments m1]; apply C1; exact Hx|right; right; reflexivity]. }
  (* pruned-list save + unlinks, then the final save: by cases on whether anything is deletable *)
  assert (Hfin : forall P4 m4 B4, Mid P4 d4 m4 B4 -> Safe c (st_store s) Y P4 B4 -> dget d4 NManifestTmp = None ->
                   (forall x, In x keep \/ x = NSnap k -> synced P4 (length (p_inodes P4)) x) ->
                   BlockOK c (st_store s) Y P4 d4 (save_manifest_effs m2)).
  { intros P4 m4 B4 M4 S4 T4 H4. apply (block_manifest c (st_store s) Y P4 d4 m4 B4 m2 M4 S4 T4 A4).
    intros x Hx Nm. destruct Hx as [E0|[Hx|Hx]]; [contradiction| |].
    - cbn [m_segments m2] in Hx. split; [apply H4; left; exact Hx|]. destruct (Hwal _ (C1 _ Hx)) as [i ->]. discriminate.
    - cbn [m_snapshot m2] in Hx. inversion Hx; subst x. split; [apply H4; right; reflexivity|discriminate]. }
  unfold d4, e3 in *. destruct del as [|x0 dr] eqn:Edel.
  - cbn [map app] in *. change (apply_effs d2 []) with d2 in *.
    apply (BlockOK_app c (st_store s) Y P2 d2 [] (save_manifest_effs m2)); [eapply BlockOK_nil; eassumption|].
    intros m' B' M' S' T'. apply (Hfin _ m' B' M' S' T'). exact Href2.
  - rewrite <- Edel in *. set (d3 := apply_effs d2 (save_manifest_effs m2)) in *.
    assert (RM3 : RecM c (st_store s) d3 m2).
    { apply (RecM_snapshot c d (st_active s) (st_next_seq s) (st_store s) m d3 keep k last H Hso Hdo Hlast Hm C1).
      - unfold d3. apply save_manifest_get.
      - unfold d3. rewrite save_manifest_other by discriminate. exact Hd2s.
      - intros x Hx. destruct (is_wal_neq _ (Hwal _ (C1 _ Hx))) as (N1 & N2 & _). unfold d3.
        rewrite save_manifest_other by assumption. apply Hd2. apply Hwal. apply C1. exact Hx. }
    assert (A3a : AllRec c (st_store s) d2 (save_manifest_effs m2))
      by (apply AllRec_save_manifest; [exact R2|exists m2; exact RM3]).
    assert (A3u : AllRec c (st_store s) d3 (map EUnlink del)).
    { intros j torn _. exists m2. apply AllRec_untouched; [exact RM3|].
      intros e x He Hx. apply in_map_iff in He. destruct He as (y & <- & Hy). cbn in Hx.
      destruct Hx as [<-|[]]. destruct (Hwal _ (C2 _ Hy)) as [i Ei].
      split; [rewrite Ei; discriminate|]. split; [apply Cdis; exact Hy|].
      cbn [m_snapshot m2]. rewrite Ei. discriminate. }
    assert (BK3a : BlockOK c (st_store s) Y P2 d2 (save_manifest_effs m2)).
    { apply (block_manifest c (st_store s) Y P2 d2 m1 B2 m2 M2 S2 T2 A3a).
      intros x Hx Nm. destruct Hx as [E0|[Hx|Hx]]; [contradiction| |].
      - cbn [m_segments m2] in Hx. split; [apply Href2; left; exact Hx|]. destruct (Hwal _ (C1 _ Hx)) as [i ->]. discriminate.
      - cbn [m_snapshot m2] in Hx. inversion Hx; subst x. split; [apply Href2; right; reflexivity|discriminate]. }
    apply BlockOK_app.
    + apply BlockOK_app; [exact BK3a|]. fold d3. intros m' B3 M3 S3 T3.
      assert (Em3 : m' = m2) by (eapply mid_manifest_eq; [exact M3|unfold d3; apply save_manifest_get]).
      subst m'.
      apply (block_quiet c (st_store s) Y (map EUnlink del) _ d3 m2 B3 M3 S3 T3).
      * intros e x He Hx. apply in_map_iff in He. destruct He as (y & <- & Hy). cbn in Hx.
        destruct Hx as [<-|[]]. destruct (Hwal _ (C2 _ Hy)) as [i Ei]. split; [|rewrite Ei; discriminate].
        intros [E0|[Hr|Hr]]; [rewrite Ei in E0; discriminate|exact (Cdis _ Hy Hr)|cbn [m_snapshot m2] in Hr; rewrite Ei in Hr; discriminate].
      * intros e g He Hwn. apply in_map_iff in He. destruct He as (y & <- & Hy). discriminate.
      * intros a0 b0 He. apply in_map_iff in He. destruct He as (y & E0 & Hy). discriminate.
      * exact A3u.
    + intros m' B4 M4 S4 T4. apply (Hfin _ m' B4 M4 S4 T4).
      (* kept segments and the snapshot are still synced after the unlinks *)
      intros x Hx.
      assert (Em4 : m' = m2).
      { eapply mid_manifest_eq; [exact M4|]. rewrite apply_effs_app. fold d3.
        rewrite unlinks_other; [unfold d3; apply save_manifest_get|].
        intro Hin. destruct (Hwal _ (C2 _ Hin)) as [i Ei]. discriminate. }
      subst m'. eapply synced_mono; [exact (mid_B _ _ _ _ M4)|]. apply (mid_refs _ _ _ _ M4).
      destruct Hx as [Hx| ->]; [right; left; exact Hx|right; right; reflexivity].
Qed.

(* ------------------------------------------------------------------------------------------ *)
(* 9. Appending frames to the active segment, then fsync (policy Always)                       *)
(* ------------------------------------------------------------------------------------------ *)

Lemma upd_nth_compose : forall A (l : list A) i f g, upd_nth (upd_nth l i f) i g = upd_nth l i (fun x => g (f x)).
Proof.
  induction l as [|x r IH]; intros i f g; cbn; [reflexivity|]. destruct i; cbn; [reflexivity|]. rewrite IH. reflexivity.
Qed.

Lemma upd_nth_ext : forall A (l : list A) i f g, (forall x, f x = g x) -> upd_nth l i f = upd_nth l i g.
Proof.
  induction l as [|x r IH]; intros i f g H; cbn; [reflexivity|]. destruct i; cbn; [rewrite H; reflexivity|].
  rewrite (IH i f g H). reflexivity.
Qed.

Lemma firstn_S_nth : forall A (l : list A) k e, nth_error l k = Some e -> firstn (S k) l = firstn k l ++ [e].
Proof.
  induction l as [|x r IH]; intros k e H; destruct k; cbn in *; try discriminate.
  - inversion H. reflexivity.
  - rewrite (IH k e H). reflexivity.
Qed.

Definition vers (es0 es : list entry) (t : nat) : file := FWal (map Good (es0 ++ firstn t es)) Clean.

(* after k frame appends the inode of the active segment holds the versions 0..k, nothing else changed *)
Lemma append_versions : forall a ia es0 es k P N,
  p_ns P = [N] -> ns_get N a = Some ia -> (ia < length (p_inodes P))%nat ->
  nth ia (p_inodes P) [] = [vers es0 es 0] -> (k <= length es)%nat ->
  papply_all P (firstn k (append_effs a es)) =
  mkPfs (upd_nth (p_inodes P) ia (fun _ => map (vers es0 es) (seq 0 (S k)))) [N].
Proof.
  intros a ia es0 es k P N HN Ha Hia H0. induction k as [|k IH]; intros Hk.
  - cbn [firstn papply_all fold_left seq map]. destruct P as [ino ns]. cbn in *. subst ns. f_equal.
    rewrite <- H0. clear. revert ia. induction ino as [|x r IH]; intros ia; cbn; [reflexivity|].
    destruct ia; cbn; [reflexivity|]. rewrite <- IH. reflexivity.
  - assert (Hk' : (k < length es)%nat) by lia.
    destruct (nth_error es k) as [e|] eqn:Ee; [|apply nth_error_None in Ee; lia].
    assert (Hf : firstn (S k) (append_effs a es) = firstn k (append_effs a es) ++ [EAppend a (BFrame (Good e))]).
    { rewrite !append_effs_firstn, (firstn_S_nth _ es k e Ee). unfold append_effs. rewrite map_app. reflexivity. }
    rewrite Hf, papply_all_app, IH by lia. cbn [papply_all fold_left papply].
    unfold cur_ns at 1, last_or. cbn [p_ns last]. rewrite Ha. cbn [p_inodes p_ns].
    rewrite upd_nth_compose. f_equal. apply upd_nth_ext. intros _.
    rewrite (seq_S (S k) 0), (map_app _ (seq 0 (S k))). cbn [map Nat.add]. f_equal. f_equal.
    unfold cur_content, last_or. cbn [p_inodes]. rewrite nth_upd_same by exact Hia.
    rewrite (seq_S k 0), map_app. cbn [map Nat.add]. rewrite last_snoc.
    unfold content_after, vers.
    repeat first [rewrite name_eqb_refl | progress cbn [apply_eff dget dset]].
    rewrite (firstn_S_nth _ es k e Ee). rewrite app_assoc, !map_app. reflexivity.
Qed.

Theorem walk_append : forall c X P d a nx m B N es,
  InvD c X d a nx -> Mid P d m B -> p_ns P = [N] -> seqs_from nx es -> dims_ok c es ->
  (forall k ch, (k <= length es)%nat -> valid_ch (papply_all P (firstn k (append_effs a es))) ch ->
      exists t, (t <= k)%nat /\ Rec c (fold_left apply_entry (firstn t es) X) (mkview N ch)) /\
  (forall k, (k <= length es)%nat -> p_ns (papply_all P (firstn k (append_effs a es))) = [N]) /\
  exists B', Mid (papply_all P (append_effs a es ++ [EFsync a])) (apply_effs d (append_effs a es ++ [EFsync a])) m B' /\
             Safe c (fold_left apply_entry es X) (fold_left apply_entry es X)
                  (papply_all P (append_effs a es ++ [EFsync a])) B' /\
             p_ns (papply_all P (append_effs a es ++ [EFsync a])) = [N].
Proof.
  intros c X P d a nx m B N es HI HM HN Hsq Hdm.
  assert (Hcur : cur_ns P = N) by (unfold cur_ns, last_or; rewrite HN; reflexivity).
  pose proof HI as (m0 & sdocs & sseq & Hm & [pre Hpre] & Hnd & Hw & Hg & _).
  assert (m0 = m) by (symmetry; eapply mid_manifest_eq; [exact HM|exact Hm]). subst m0.
  assert (Hain : In a (m_segments m)) by (rewrite Hpre; apply in_or_app; right; left; reflexivity).
  assert (Hwa : is_wal a) by (rewrite Forall_forall in Hw; apply Hw; exact Hain).
  destruct (Hg a Hain) as [es0 Hes0].
  destruct (mid_refs _ _ _ _ HM a (or_intror (or_introl Hain))) as (ia & co & Hia & Hnia & Hiab).
  rewrite Hcur in Hia.
  assert (Hco : co = vers es0 es 0).
  { pose proof (mid_sim _ _ _ _ HM a) as Sa. rewrite Hes0, Hcur, Hia in Sa. cbn [option_map] in Sa.
    unfold cur_content, last_or in Sa. rewrite Hnia in Sa. cbn in Sa. inversion Sa. unfold vers. cbn [firstn].
    rewrite app_nil_r. reflexivity. }
  subst co.
  assert (Hlen : (ia < length (p_inodes P))%nat) by (eapply nth_singleton_lt; exact Hnia).
  pose proof (fun k => append_versions a ia es0 es k P N HN Hia Hlen Hnia) as HV.
  (* the directory after t complete frames *)
  assert (HDt : forall t, exists mt, RecM c (fold_left apply_entry (firstn t es) X) (apply_effs d (append_effs a (firstn t es))) mt /\
                                mt = m).
  { intros t. pose proof (InvD_append c X d a nx (firstn t es) HI (seqs_from_firstn _ _ t Hsq) (forall_firstn _ _ _ t Hdm)) as HIt.
    rewrite apply_effs_app, fsync_effs_nop in HIt. destruct (InvD_RecM _ _ _ _ _ HIt) as (mt & Rt & Hmt).
    exists mt. split; [exact Rt|]. rewrite append_other in Hmt by (destruct Hwa as [i ->]; discriminate).
    rewrite Hm in Hmt. inversion Hmt. reflexivity. }
  (* other referenced names keep their single version *)
  assert (Hoth : forall x, refs m x -> x <> a ->
            exists i co, ns_get N x = Some i /\ i <> ia /\ nth i (p_inodes P) [] = [co] /\ (i < B)%nat /\ dget d x = Some co).
  { intros x Hx Nx. destruct (mid_refs _ _ _ _ HM x Hx) as (i & co & Hi & Hn & Hb). rewrite Hcur in Hi.
    exists i, co. split; [exact Hi|]. split.
    - intro E. subst i. apply Nx. eapply (wf_inj P (mid_wf _ _ _ _ HM)); rewrite Hcur; eassumption.
    - split; [exact Hn|]. split; [exact Hb|].
      rewrite (mid_sim _ _ _ _ HM x), Hcur, Hi. cbn [option_map]. unfold cur_content, last_or. rewrite Hn. reflexivity. }
  split; [|split].
  - intros k ch Hk Hv. rewrite (HV k Hk) in Hv.
    pose proof (Hv ia) as Hva. cbn [p_inodes] in Hva. rewrite upd_nth_length, nth_upd_same in Hva by exact Hlen.
    specialize (Hva Hlen). apply in_map_iff in Hva. destruct Hva as (t & Ht & Hin). apply in_seq in Hin.
    exists t. split; [lia|]. destruct (HDt t) as (mt & Rt & ->). exists m.
    assert (Hag : forall x, refs m x -> dget (mkview N ch) x = dget (apply_effs d (append_effs a (firstn t es))) x).
    { intros x Hx. rewrite dget_mkview. destruct (name_eqb_spec x a) as [->|Nx].
      - rewrite Hia. cbn [option_map]. rewrite <- Ht. unfold vers. symmetry. apply append_get. exact Hes0.
      - destruct (Hoth x Hx Nx) as (i & co & Hi & Ni & Hn & Hb & Hd). rewrite Hi. cbn [option_map].
        rewrite append_other by exact Nx. rewrite Hd. f_equal.
        pose proof (Hv i) as Hvi. cbn [p_inodes] in Hvi. rewrite upd_nth_length, nth_upd_other in Hvi by congruence.
        rewrite Hn in Hvi. destruct (Hvi (nth_singleton_lt _ _ _ Hn)) as [E|[]]. symmetry. exact E. }
    apply (RecM_agree c _ _ _ m Rt).
    + apply Hag. left. reflexivity.
    + intros x Hx. apply Hag. right. left. exact Hx.
    + intros x Hx. apply Hag. right. right. exact Hx.
  - intros k Hk. rewrite (HV k Hk). reflexivity.
  - set (n := length es).
    assert (Hfull : firstn n (append_effs a es) = append_effs a es)
      by (apply firstn_all2; rewrite append_effs_length; apply le_n).
    pose proof (HV n (le_n _)) as HVn. rewrite Hfull in HVn.
    set (Pn := papply_all P (append_effs a es)) in *.
    destruct (sim_steps (append_effs a es) P d (mid_wf _ _ _ _ HM) (mid_sim _ _ _ _ HM)) as [Wn Sn]. fold Pn in Wn, Sn.
    assert (Hcn : cur_ns Pn = N) by (rewrite HVn; reflexivity).
    assert (Hian : ns_get (cur_ns Pn) a = Some ia) by (rewrite Hcn; exact Hia).
    rewrite papply_all_app, apply_effs_app. fold Pn.
    change (papply_all Pn [EFsync a]) with (papply Pn (EFsync a)).
    change (apply_effs (apply_effs d (append_effs a es)) [EFsync a]) with (apply_effs d (append_effs a es)).
    destruct (sim_step Pn _ (EFsync a) Wn Sn) as [W' S']. cbn [apply_eff] in S'.
    destruct (synced_after_fsync Pn a ia Wn Hian) as [Hsa _].
    set (P' := papply Pn (EFsync a)) in *.
    assert (Hns' : p_ns P' = [N]) by (unfold P'; cbn [papply]; rewrite Hian; cbn [p_ns]; rewrite HVn; reflexivity).
    assert (Hc' : cur_ns P' = N) by (unfold cur_ns, last_or; rewrite Hns'; reflexivity).
    assert (Hino' : forall i, i <> ia -> nth i (p_inodes P') [] = nth i (p_inodes P) []).
    { intros i Ni. unfold P'. cbn [papply]. rewrite Hian. cbn [p_inodes]. rewrite nth_upd_other by congruence.
      rewrite HVn. cbn [p_inodes]. apply nth_upd_other. congruence. }
    assert (Hlen' : length (p_inodes P') = length (p_inodes P)).
    { unfold P'. cbn [papply]. rewrite Hian. cbn [p_inodes]. rewrite upd_nth_length, HVn. cbn [p_inodes]. apply upd_nth_length. }
    exists (length (p_inodes P')).
    assert (Hsy : forall x, refs m x -> synced P' (length (p_inodes P')) x).
    { intros x Hx. destruct (name_eqb_spec x a) as [->|Nx]; [exact Hsa|].
      destruct (Hoth x Hx Nx) as (i & co & Hi & Ni & Hn & Hb & _). exists i, co. rewrite Hc'.
      split; [exact Hi|]. split; [rewrite Hino' by exact Ni; exact Hn|]. pose proof (mid_B _ _ _ _ HM). lia. }
    assert (Hm' : dget (apply_effs d (append_effs a es)) NManifest = Some (FManifest m)).
    { rewrite append_other by (destruct Hwa as [i ->]; discriminate). exact Hm. }
    split; [|split; [|exact Hns']].
    + constructor; [exact W'|exact S'|exact Hm'|exact Hsy|apply le_n].
    + intros N0 HN0. rewrite Hns' in HN0. destruct HN0 as [<-|[]]. left. rewrite <- Hc'.
      destruct (HDt n) as (mt & Rt & ->). unfold n in Rt. rewrite firstn_all in Rt.
      exact (Anch_cur c _ P' _ m _ S' Rt Hsy).
Qed.

(* ------------------------------------------------------------------------------------------ *)
(* 10. Operations                                                                              *)
(* ------------------------------------------------------------------------------------------ *)

Definition ends_dirsync (E : list eff) : Prop := E = [] \/ exists E', E = E' ++ [EFsyncDir].

Lemma single_after_dirsync : forall P E', exists N, p_ns (papply_all P (E' ++ [EFsyncDir])) = [N].
Proof. intros P E'. rewrite papply_all_app. cbn. eexists. reflexivity. Qed.

Lemma ends_dirsync_app : forall E1 E2, ends_dirsync E1 -> ends_dirsync E2 -> ends_dirsync (E1 ++ E2).
Proof.
  intros E1 E2 H1 [->|[E' ->]]; [rewrite app_nil_r; exact H1|]. right. exists (E1 ++ E'). rewrite app_assoc. reflexivity.
Qed.

Lemma save_manifest_ends : forall m, exists E', save_manifest_effs m = E' ++ [EFsyncDir].
Proof. intros m. exists (firstn 4 (save_manifest_effs m)). reflexivity. Qed.

Lemma rotate_shape : forall c lst s, InvDs c lst s ->
  snd (rotate_if_needed c s) = [] \/
  exists m, dget (st_disk s) NManifest = Some (FManifest m) /\ snd (rotate_if_needed c s) = newseg_effs (st_disk s) m.
Proof.
  intros c lst s H. unfold rotate_if_needed.
  destruct ((c_max_wal c =? 0) || (st_bytes s <? c_max_wal c)); [left; reflexivity|]. right.
  pose proof H as (m & sdocs & sseq & Hm & _). exists m. split; [exact Hm|].
  assert (Hl : load_manifest (apply_effs (st_disk s) (new_wal_effs (NWal (fresh_id (st_disk s))))) = Some m).
  { unfold load_manifest. rewrite new_wal_other; [rewrite Hm; reflexivity|apply fresh_none; reflexivity|discriminate]. }
  rewrite Hl. reflexivity.
Qed.

Lemma rotate_ends : forall c lst s, InvDs c lst s -> ends_dirsync (snd (rotate_if_needed c s)).
Proof.
  intros c lst s H. destruct (rotate_shape c lst s H) as [->|(m & _ & ->)]; [left; reflexivity|]. right.
  unfold newseg_effs. destruct (save_manifest_ends (mkManifest (m_snapshot m) (m_snapshot_seq m)
                                   (m_segments m ++ [NWal (fresh_id (st_disk s))]))) as [E' ->].
  eexists. rewrite app_assoc. reflexivity.
Qed.

Lemma snapshot_ends : forall c s, InvDs c (st_store s) s -> sorted (st_store s) -> docs_ok c (st_store s) ->
  ends_dirsync (snd (create_snapshot c s)).
Proof.
  intros c s H Hso Hdo.
  pose proof H as (m & sdocs & sseq & Hm & _ & _ & _ & _ & [Hq _] & _ & Hmx & _).
  unfold create_snapshot. fold (store_dim (st_store s)).
  destruct (snap_valid_store c (st_store s) (c_metric c) (N.pred (st_next_seq s)) Hso Hdo) as [Hv _].
  rewrite Hv. cbn [negb].
  assert (Hm1 : load_manifest (apply_effs (st_disk s)
             (save_snapshot_effs (fresh_id (st_disk s))
                (mkSnap (store_dim (st_store s)) (c_metric c) (st_store s) (N.pred (st_next_seq s))))) = Some m).
  { unfold load_manifest. rewrite save_snapshot_other by discriminate. rewrite Hm. reflexivity. }
  rewrite Hm1, Hq.
  pose proof (maxseq_ge (all_entries (st_disk s) (m_segments m)) sseq) as Hge.
  replace (N.pred (st_next_seq s) <? sseq) with false by (symmetry; apply N.ltb_ge; lia).
  destruct (compact_segments _ _ _) as [keep del]. cbn [snd]. right.
  destruct (save_manifest_ends (mkManifest (Some (NSnap (fresh_id (st_disk s)))) (Some (N.pred (st_next_seq s))) keep)) as [E' ->].
  eexists. rewrite !app_assoc. reflexivity.
Qed.

Lemma maybe_snapshot_ends : forall c s, InvDs c (st_store s) s -> sorted (st_store s) -> docs_ok c (st_store s) ->
  ends_dirsync (snd (maybe_snapshot c s)).
Proof.
  intros c s H Hso Hdo. unfold maybe_snapshot.
  destruct ((0 <? c_snapshot_interval c) && (c_snapshot_interval c <=? st_since_snap s)); [|left; reflexivity].
  pose proof (snapshot_ends c s H Hso Hdo) as X. destruct (create_snapshot c s) as [[s' o] e]. exact X.
Qed.

(* the state between two operations *)
Definition Bnd (c : cfg) (s : state) (P : pfs) : Prop :=
  exists m B N, Mid P (st_disk s) m B /\ Safe c (st_store s) (st_store s) P B /\
                dget (st_disk s) NManifestTmp = None /\ p_ns P = [N].

Lemma pview_single : forall P N l, p_ns P = [N] ->
  pview P l = mkview N (fun i => nth_clamped (nth i (p_inodes P) []) (l_data l i) FEmpty).
Proof.
  intros P N l H. rewrite pview_mkview, H. unfold nth_clamped at 1. cbn [length Nat.sub].
  rewrite Nat.min_0_r. reflexivity.
Qed.

Lemma clamped_valid : forall P l, WF P ->
  valid_ch P (fun i => nth_clamped (nth i (p_inodes P) []) (l_data l i) FEmpty).
Proof.
  intros P l W i Hi. apply nth_clamped_in.
  pose proof (wf_inodes P W) as F. rewrite Forall_forall in F. apply F. apply nth_In. exact Hi.
Qed.

Lemma write_op_power : forall c s es s1 e1 s2 e2 s3 s4 e4 P,
  c_fsync c = FsAlways -> Inv c s -> Bnd c s P ->
  seqs_from (st_next_seq s) es -> dims_ok c es ->
  append_entries c s es = (s1, e1) -> rotate_if_needed c s1 = (s2, e2) ->
  st_disk s3 = st_disk s2 -> st_active s3 = st_active s2 -> st_next_seq s3 = st_next_seq s2 ->
  st_store s3 = fold_left apply_entry es (st_store s) -> InvM c s3 ->
  maybe_snapshot c s3 = (s4, e4) ->
  (forall k l, (k <= length es)%nat -> exists t, (t <= k)%nat /\
       Rec c (fold_left apply_entry (firstn t es) (st_store s)) (pview (papply_all P (firstn k (e1 ++ e2 ++ e4))) l)) /\
  (forall k, (length es < k)%nat -> (k <= length (e1 ++ e2 ++ e4))%nat ->
       SafeE c (st_store s4) (st_store s4) (papply_all P (firstn k (e1 ++ e2 ++ e4))) /\
       WF (papply_all P (firstn k (e1 ++ e2 ++ e4)))) /\
  Bnd c s4 (papply_all P (e1 ++ e2 ++ e4)) /\ st_store s4 = fold_left apply_entry es (st_store s).
Proof.
  intros c s es s1 e1 s2 e2 s3 s4 e4 P Hfs [H M] (m & B & N & HM & HS & HT & HN) Hsq Hdm E1 E2 D3 A3 N3 S3 M3 E4.
  set (X := st_store s) in *. set (X' := fold_left apply_entry es X) in *.
  set (a := st_active s) in *. set (d := st_disk s) in *.
  assert (Ee1 : e1 = append_effs a es ++ [EFsync a]).
  { unfold append_entries in E1. inversion E1. unfold fsync_effs. rewrite Hfs. reflexivity. }
  destruct (walk_append c X P d a (st_next_seq s) m B N es H HM HN Hsq Hdm) as (WA1 & WA2 & B1 & M1 & S1 & N1).
  rewrite <- Ee1 in M1, S1, N1.
  set (P1 := papply_all P e1) in *.
  pose proof (append_inv c X s es H Hsq Hdm) as A. rewrite E1 in A. cbn [fst] in A. destruct A as (A1 & A2 & _).
  pose proof (rotate_inv c _ s1 A1) as R. rewrite E2 in R. cbn [fst] in R. destruct R as (R1 & _).
  assert (H3 : InvDs c (st_store s3) s3) by (unfold InvDs in *; rewrite D3, A3, N3, S3; exact R1).
  pose proof M3 as (So3 & Do3 & _).
  pose proof (maybe_snapshot_inv c s3 H3 So3 Do3) as Q. rewrite E4 in Q. cbn [fst] in Q. destruct Q as (_ & Q2 & _).
  assert (Es4 : st_store s4 = X') by (rewrite Q2; exact S3).
  pose proof (append_disk _ _ _ _ _ E1) as Dk1. fold d in Dk1.
  pose proof (rotate_disk _ _ _ _ E2) as Dk2.
  pose proof (maybe_snapshot_disk _ _ _ _ E4) as Dk4.
  assert (Hwa : is_wal a).
  { pose proof H as (m0 & _ & _ & _ & [pre Hpre] & _ & Hw & _). rewrite Forall_forall in Hw. apply Hw.
    rewrite Hpre. apply in_or_app. right. left. reflexivity. }
  assert (T1 : dget (apply_effs d e1) NManifestTmp = None).
  { rewrite Ee1, apply_effs_app. change (apply_effs (apply_effs d (append_effs a es)) [EFsync a]) with (apply_effs d (append_effs a es)).
    rewrite append_other; [exact HT|]. destruct Hwa as [i ->]. discriminate. }
  (* rotation, then the automatic snapshot *)
  assert (BK : BlockOK c X' X' P1 (apply_effs d e1) (e2 ++ e4)).
  { apply BlockOK_app.
    - assert (Ee2 : e2 = snd (rotate_if_needed c s1)) by (rewrite E2; reflexivity).
      rewrite <- Dk1. destruct (rotate_shape c X' s1 A1) as [Hn|(m1 & Hm1 & Hn)]; rewrite Ee2, Hn.
      + rewrite Dk1. eapply BlockOK_nil; eassumption.
      + assert (m1 = m) by (symmetry; eapply mid_manifest_eq; [exact M1|rewrite <- Dk1; exact Hm1]). subst m1.
        eapply block_newseg; [exact A1|rewrite Dk1; exact M1|exact S1|rewrite Dk1; exact T1].
    - intros m' B' M' S' T'. rewrite <- Dk1, <- Dk2, <- D3 in *.
      assert (Ee4 : e4 = snd (maybe_snapshot c s3)) by (rewrite E4; reflexivity).
      rewrite Ee4. unfold maybe_snapshot.
      destruct ((0 <? c_snapshot_interval c) && (c_snapshot_interval c <=? st_since_snap s3)).
      + pose proof (walk_snapshot c s3 (st_store s3) _ m' B' H3 So3 Do3 M') as WS. rewrite S3 in WS.
        specialize (WS S' T'). destruct (create_snapshot c s3) as [[s5 o5] e5]. exact WS.
      + cbn [snd]. eapply BlockOK_nil; eassumption. }
  destruct BK as (BK1 & (mE & BE & ME & SE) & TE).
  assert (Hl1 : length e1 = Datatypes.S (length es)) by (rewrite Ee1, app_length, append_effs_length; cbn; lia).
  split; [|split; [|split]].
  - intros k l Hk.
    assert (Hf : firstn k (e1 ++ e2 ++ e4) = firstn k (append_effs a es)).
    { rewrite firstn_app_le by lia. rewrite Ee1. apply firstn_app_le. rewrite append_effs_length. exact Hk. }
    rewrite Hf. rewrite (pview_single _ N l (WA2 k Hk)).
    apply WA1; [exact Hk|]. apply clamped_valid.
    apply (sim_steps (firstn k (append_effs a es)) P d (mid_wf _ _ _ _ HM) (mid_sim _ _ _ _ HM)).
  - intros k Hk1 Hk2. rewrite Es4.
    rewrite firstn_app_ge by lia. rewrite papply_all_app. fold P1. split.
    + apply BK1. rewrite !app_length in *. lia.
    + apply (sim_steps _ P1 _ (mid_wf _ _ _ _ M1) (mid_sim _ _ _ _ M1)).
  - rewrite papply_all_app. fold P1. exists mE, BE.
    assert (Hd4 : st_disk s4 = apply_effs (apply_effs d e1) (e2 ++ e4)).
    { rewrite Dk4, D3, Dk2, Dk1, apply_effs_app. reflexivity. }
    assert (Hsing : exists N4, p_ns (papply_all P1 (e2 ++ e4)) = [N4]).
    { assert (He : ends_dirsync (e2 ++ e4)).
      { apply ends_dirsync_app.
        - pose proof (rotate_ends c X' s1 A1) as X0. rewrite E2 in X0. exact X0.
        - pose proof (maybe_snapshot_ends c s3 H3 So3 Do3) as X0. rewrite E4 in X0. exact X0. }
      destruct He as [->|[E' ->]]; [exists N; exact N1|apply single_after_dirsync]. }
    destruct Hsing as [N4 HN4]. exists N4. rewrite Hd4, Es4. auto.
  - exact Es4.
Qed.

Lemma Bnd_eq : forall c s s' P, st_disk s' = st_disk s -> st_store s' = st_store s -> Bnd c s P -> Bnd c s' P.
Proof. intros c s s' P E1 E2 H. unfold Bnd in *. rewrite E1, E2. exact H. Qed.

Lemma Bnd_start : forall c s P l, wf_cfg c = true -> Inv c s -> Bnd c s P ->
  exists r, start c (pview P l) = SOk r /\ st_store r = st_store s.
Proof.
  intros c s P l Hwf HI (m & B & N & HM & HS & _). destruct (Inv_mem _ _ HI) as [D1 S1].
  destruct (Safe_start c _ _ P B l Hwf (mid_wf _ _ _ _ HM) HS D1 S1 D1 S1) as (r & E & [Es|Es]); exists r; auto.
Qed.

(* from the two phases of a logging operation to its crash statement *)
Lemma finish_write : forall c s s4 es E P (known : nat -> bool),
  wf_cfg c = true -> Inv c s -> Inv c s4 ->
  st_store s4 = fold_left apply_entry es (st_store s) ->
  (forall k l, (k <= length es)%nat -> exists t, (t <= k)%nat /\
       Rec c (fold_left apply_entry (firstn t es) (st_store s)) (pview (papply_all P (firstn k E)) l)) ->
  (forall k, (length es < k)%nat -> (k <= length E)%nat ->
       SafeE c (st_store s4) (st_store s4) (papply_all P (firstn k E)) /\ WF (papply_all P (firstn k E))) ->
  (forall k t, (k <= length es)%nat -> (t <= k)%nat -> known k = false ->
       fold_left apply_entry (firstn t es) (st_store s) = st_store s \/
       fold_left apply_entry (firstn t es) (st_store s) = st_store s4) ->
  forall k l, (k <= length E)%nat -> known k = false ->
    exists r, start c (pview (papply_all P (firstn k E)) l) = SOk r /\ (st_store r = st_store s \/ st_store r = st_store s4).
Proof.
  intros c s s4 es E P known Hwf HI HI4 Es4 HA HB Hpart k l Hk Hkn.
  destruct (Inv_mem _ _ HI) as [D1 S1]. destruct (Inv_mem _ _ HI4) as [D4 S4].
  destruct (Nat.le_gt_cases k (length es)) as [L|G].
  - destruct (HA k l L) as (t & Ht & R). destruct (Hpart k t L Ht Hkn) as [Ef|Ef]; rewrite Ef in R.
    + destruct (Rec_start c _ _ Hwf R D1 S1) as (r & Er & Es). exists r. auto.
    + destruct (Rec_start c _ _ Hwf R D4 S4) as (r & Er & Es). exists r. auto.
  - destruct (HB k G Hk) as [[B HS] W].
    destruct (Safe_start c _ _ _ B l Hwf W HS D4 S4 D4 S4) as (r & Er & [Es|Es]); exists r; auto.
Qed.

Theorem op_power : forall c s o s' out effs P,
  wf_cfg c = true -> norm_ok c -> c_fsync c = FsAlways -> Inv c s -> Bnd c s P ->
  step c s o = (s', out, effs) ->
  (forall k l, (k <= length effs)%nat -> known_power_op s o k = false ->
     exists r, start c (pview (papply_all P (firstn k effs)) l) = SOk r /\
               (st_store r = st_store s \/ st_store r = st_store s')) /\
  Bnd c s' (papply_all P effs).
Proof.
  intros c s o s' out effs P Hwf Hn Hfs HI HB Hst.
  pose proof HI as [H M].
  assert (HI' : Inv c s').
  { pose proof (step_inv c s o Hwf Hn HI) as X. unfold step_state in X. rewrite Hst in X. exact X. }
  (* operations that log nothing *)
  assert (Hnil : forall s0, st_disk s0 = st_disk s -> st_store s0 = st_store s ->
            (forall k l, (k <= length (@nil eff))%nat -> known_power_op s o k = false ->
               exists r, start c (pview (papply_all P (firstn k [])) l) = SOk r /\
                         (st_store r = st_store s \/ st_store r = st_store s0)) /\
            Bnd c s0 (papply_all P [])).
  { intros s0 E1 E2. split; [|apply (Bnd_eq c s s0 P E1 E2 HB)].
    intros k l _ _. rewrite firstn_nil. destruct (Bnd_start c s P l Hwf HI HB) as (r & Er & Es). exists r. auto. }
  destruct o as [id v m|id|ids|id m mg| |]; cbn [step] in Hst.
  - (* insert *)
    unfold do_insert in Hst.
    destruct (N.eqb_spec (len v) (c_dim c)) as [Hlen|Hlen]; cbn [negb] in Hst;
      [|inversion Hst; subst; apply Hnil; reflexivity].
    destruct (normalize_if_needed c v) as [w|] eqn:Hw; [|inversion Hst; subst; apply Hnil; reflexivity].
    destruct (c_accepts c w) eqn:Hacc; cbn [negb] in Hst; [|inversion Hst; subst; apply Hnil; reflexivity].
    destruct (normalize_doc_ok c v w (meta_canon m) Hn Hlen Hw Hacc) as [Hdoc Hlw].
    match type of Hst with context [if c_capacity c <=? st_slots ?x then _ else _] => set (s0 := x) in Hst end.
    assert (H0 : InvDs c (st_store s) s0 /\ InvM c s0 /\ st_store s0 = st_store s /\ st_disk s0 = st_disk s).
    { unfold s0. destruct ((c_capacity c <=? st_slots s) && (size (st_store s) <? st_slots s)); [|auto].
      split; [exact H|]. split; [|split; reflexivity]. destruct M as (A & B & C & D).
      unfold InvM. cbn [with_slots st_store st_slots]. repeat split; try assumption; lia. }
    clearbody s0. destruct H0 as (H0 & M0 & E0 & D0).
    destruct (N.leb_spec (c_capacity c) (st_slots s0)) as [Hfull|Hfull];
      [inversion Hst; subst; apply Hnil; assumption|].
    rewrite (InvDs_has_manifest _ _ _ H0) in Hst. cbn [negb] in Hst.
    destruct (append_entries c s0 _) as [s1 e1] eqn:E1.
    destruct (rotate_if_needed c s1) as [s2 e2] eqn:E2.
    match type of Hst with context [maybe_snapshot c ?x] => set (s3 := x) in Hst end.
    destruct (maybe_snapshot c s3) as [s4 e4] eqn:E4.
    inversion Hst; subst s' out effs. clear Hst.
    assert (Hdm0 : dims_ok c [mkEntry Ins id w (meta_canon m) (st_next_seq s0)])
      by (constructor; [intros _; exact Hlw|constructor]).
    pose proof (append_inv c (st_store s) s0 [mkEntry Ins id w (meta_canon m) (st_next_seq s0)] H0
                  (conj eq_refl I) Hdm0) as A.
    rewrite E1 in A. cbn [fst] in A. destruct A as (A1 & A2 & A3 & _).
    pose proof (rotate_inv c _ s1 A1) as R. rewrite E2 in R. cbn [fst] in R. destruct R as (R1 & R2 & R3 & _).
    assert (M3 : InvM c s3).
    { destruct M0 as (A & B & C & D). rewrite E0 in A, B, C.
      unfold s3, InvM. cbn [st_store st_slots]. rewrite R2, A2, E0, R3, A3.
      split; [apply sorted_set; exact A|]. split; [apply docs_ok_set; assumption|].
      pose proof (size_set_le (st_store s) id (mkDoc w (meta_canon m))). split; lia. }
    assert (HI0 : Inv c s0) by (split; [rewrite E0; exact H0|exact M0]).
    assert (HB0 : Bnd c s0 P) by (apply (Bnd_eq c s s0 P D0 E0 HB)).
    destruct (write_op_power c s0 [mkEntry Ins id w (meta_canon m) (st_next_seq s0)]
                s1 e1 s2 e2 s3 s4 e4 P Hfs HI0 HB0 (conj eq_refl I) Hdm0 E1 E2 eq_refl eq_refl eq_refl
                ltac:(unfold s3; cbn [st_store fold_left apply_entry e_op e_id e_vec e_meta];
                      rewrite R2, A2; reflexivity) M3 E4) as (WA & WB & WC & WD).
    split; [|exact WC]. intros k l Hk Hkn.
    destruct (finish_write c s0 s4 _ _ P (fun _ => false) Hwf HI0 HI' WD WA WB) with (k := k) (l := l)
      as (r & Er & Es); [|exact Hk|reflexivity|exists r; rewrite <- E0; exact (conj Er Es)].
    intros k0 t Hk0 Ht _. cbn [length] in Hk0. destruct t as [|t]; [left; reflexivity|right].
    cbn [firstn]. rewrite firstn_nil. symmetry. exact WD.
  - (* delete *)
    unfold do_delete in Hst.
    destruct (get (st_store s) id) as [d|] eqn:Hg; [|inversion Hst; subst; apply Hnil; reflexivity].
    rewrite (InvDs_has_manifest _ _ _ H) in Hst. cbn [negb] in Hst.
    destruct (append_entries c s _) as [s1 e1] eqn:E1.
    destruct (rotate_if_needed c s1) as [s2 e2] eqn:E2.
    match type of Hst with context [maybe_snapshot c ?x] => set (s3 := x) in Hst end.
    destruct (maybe_snapshot c s3) as [s4 e4] eqn:E4.
    inversion Hst; subst s' out effs. clear Hst.
    assert (Hdm : dims_ok c [mkEntry Del id [] [] (st_next_seq s)])
      by (constructor; [intros E; discriminate|constructor]).
    pose proof (append_inv c (st_store s) s [mkEntry Del id [] [] (st_next_seq s)] H (conj eq_refl I) Hdm) as A.
    rewrite E1 in A. cbn [fst] in A. destruct A as (A1 & A2 & A3 & _).
    pose proof (rotate_inv c _ s1 A1) as R. rewrite E2 in R. cbn [fst] in R. destruct R as (R1 & R2 & R3 & _).
    assert (M3 : InvM c s3).
    { destruct M as (A & B & C & D).
      unfold s3, InvM. cbn [with_since with_store st_store st_slots]. rewrite R2, A2, R3, A3.
      split; [apply sorted_remove; exact A|]. split; [apply docs_ok_remove; exact B|].
      pose proof (size_remove_le (st_store s) id). split; lia. }
    destruct (write_op_power c s [mkEntry Del id [] [] (st_next_seq s)] s1 e1 s2 e2 s3 s4 e4 P Hfs HI HB
                (conj eq_refl I) Hdm E1 E2 eq_refl eq_refl eq_refl
                ltac:(unfold s3; cbn [with_since with_store st_store fold_left apply_entry e_op e_id];
                      rewrite R2, A2; reflexivity) M3 E4) as (WA & WB & WC & WD).
    split; [|exact WC]. intros k l Hk Hkn.
    apply (finish_write c s s4 _ _ P (fun _ => false) Hwf HI HI' WD WA WB); [|exact Hk|reflexivity].
    intros k0 t Hk0 Ht _. cbn [length] in Hk0. destruct t as [|t]; [left; reflexivity|right].
    cbn [firstn]. rewrite firstn_nil. symmetry. exact WD.
  - (* batch delete *)
    unfold do_batch_delete in Hst.
    destruct (filter (mem (st_store s)) ids) as [|l0 lr] eqn:El; [inversion Hst; subst; apply Hnil; reflexivity|].
    remember (l0 :: lr) as live eqn:Elive.
    assert (Hlive : (1 <= length live)%nat) by (subst live; cbn; lia).
    assert (Hst' : (if negb (has_manifest (st_disk s)) then (s, OErrIo, [])
                    else let '(s1, e1) := append_entries c s (number_dels (st_next_seq s) live) in
                         let '(s2, e2) := rotate_if_needed c s1 in
                         let '(m', cnt) := apply_batch (st_store s2) live 0 in
                         let s3 := with_since (with_store s2 m') (st_since_snap s2 + len live) in
                         let '(s4, e4) := maybe_snapshot c s3 in (s4, OCount cnt, e1 ++ e2 ++ e4))
                   = (s', out, effs)) by (subst live; exact Hst).
    clear Hst. rename Hst' into Hst. clear Elive l0 lr.
    rewrite (InvDs_has_manifest _ _ _ H) in Hst. cbn [negb] in Hst.
    destruct (append_entries c s _) as [s1 e1] eqn:E1.
    destruct (rotate_if_needed c s1) as [s2 e2] eqn:E2.
    pose proof (apply_batch_fst live (st_store s2) 0) as Eb.
    destruct (apply_batch (st_store s2) live 0) as [m' cnt]. cbn [fst] in Eb. subst m'.
    match type of Hst with context [maybe_snapshot c ?x] => set (s3 := x) in Hst end.
    destruct (maybe_snapshot c s3) as [s4 e4] eqn:E4.
    inversion Hst; subst s' out effs. clear Hst.
    pose proof (append_inv c (st_store s) s _ H (number_dels_seqs live (st_next_seq s))
                  (number_dels_dims c live (st_next_seq s))) as A.
    rewrite E1 in A. cbn [fst] in A. destruct A as (A1 & A2 & A3 & _).
    pose proof (rotate_inv c _ s1 A1) as R. rewrite E2 in R. cbn [fst] in R. destruct R as (R1 & R2 & R3 & _).
    destruct M as (A & B & C & D).
    destruct (remove_all_ok c live (st_store s) A B) as (X & Y & Z).
    assert (M3 : InvM c s3).
    { unfold s3, InvM. cbn [with_since with_store st_store st_slots]. rewrite R2, A2, R3, A3.
      repeat split; try assumption; lia. }
    destruct (write_op_power c s (number_dels (st_next_seq s) live) s1 e1 s2 e2 s3 s4 e4 P Hfs HI HB
                (number_dels_seqs live (st_next_seq s)) (number_dels_dims c live (st_next_seq s))
                E1 E2 eq_refl eq_refl eq_refl
                ltac:(unfold s3; cbn [with_since with_store st_store]; rewrite R2, A2, fold_number_dels;
                      reflexivity) M3 E4) as (WA & WB & WC & WD).
    split; [|exact WC]. intros k l Hk Hkn. cbn [known_power_op] in Hkn. rewrite El in Hkn.
    apply (finish_write c s s4 _ _ P
             (fun k => Nat.leb 2 (length live) && Nat.leb 1 k && Nat.leb k (length live))
             Hwf HI HI' WD WA WB); [|exact Hk|exact Hkn].
    intros k0 t Hk0 Ht Hk0n. rewrite number_dels_length in Hk0.
    destruct t as [|t]; [left; reflexivity|].
    destruct (Nat.lt_ge_cases (Datatypes.S t) (length live)) as [L|G].
    + exfalso. assert (H2 : (2 <= length live)%nat) by lia. assert (H1 : (1 <= k0)%nat) by lia.
      apply Nat.leb_le in H2. apply Nat.leb_le in H1. apply Nat.leb_le in Hk0.
      rewrite H2, H1, Hk0 in Hk0n. discriminate.
    + right. rewrite firstn_all2 by (rewrite number_dels_length; exact G). symmetry. exact WD.
  - (* update metadata *)
    unfold do_update in Hst.
    destruct (get (st_store s) id) as [d|] eqn:Hg; [|inversion Hst; subst; apply Hnil; reflexivity].
    set (upd := if mg then meta_merge (d_meta d) m else meta_canon m) in Hst. clearbody upd.
    rewrite (InvDs_has_manifest _ _ _ H) in Hst. cbn [negb] in Hst.
    destruct (append_entries c s _) as [s1 e1] eqn:E1.
    destruct (rotate_if_needed c s1) as [s2 e2] eqn:E2.
    match type of Hst with context [maybe_snapshot c ?x] => set (s3 := x) in Hst end.
    destruct (maybe_snapshot c s3) as [s4 e4] eqn:E4.
    inversion Hst; subst s' out effs. clear Hst.
    assert (Hdm : dims_ok c [mkEntry Upd id [] upd (st_next_seq s)])
      by (constructor; [intros E; discriminate|constructor]).
    pose proof (append_inv c (st_store s) s [mkEntry Upd id [] upd (st_next_seq s)] H (conj eq_refl I) Hdm) as A.
    rewrite E1 in A. cbn [fst] in A. destruct A as (A1 & A2 & A3 & _).
    pose proof (rotate_inv c _ s1 A1) as R. rewrite E2 in R. cbn [fst] in R. destruct R as (R1 & R2 & R3 & _).
    assert (M3 : InvM c s3).
    { destruct M as (A & B & C & D).
      unfold s3, InvM. cbn [with_since with_store st_store st_slots]. rewrite R2, A2, R3, A3.
      split; [apply sorted_set; exact A|]. split.
      - apply docs_ok_set; [exact B|]. exact (docs_ok_get c _ _ _ B Hg).
      - pose proof (length_set_present (st_store s) id (mkDoc (d_vec d) upd) d A Hg) as L.
        unfold size in *. rewrite L. split; lia. }
    destruct (write_op_power c s [mkEntry Upd id [] upd (st_next_seq s)] s1 e1 s2 e2 s3 s4 e4 P Hfs HI HB
                (conj eq_refl I) Hdm E1 E2 eq_refl eq_refl eq_refl
                ltac:(unfold s3; cbn [with_since with_store st_store fold_left apply_entry e_op e_id e_meta];
                      unfold upd_meta; rewrite R2, A2, Hg; reflexivity) M3 E4) as (WA & WB & WC & WD).
    split; [|exact WC]. intros k l Hk Hkn.
    apply (finish_write c s s4 _ _ P (fun _ => false) Hwf HI HI' WD WA WB); [|exact Hk|reflexivity].
    intros k0 t Hk0 Ht _. cbn [length] in Hk0. destruct t as [|t]; [left; reflexivity|right].
    cbn [firstn]. rewrite firstn_nil. symmetry. exact WD.
  - (* manual snapshot *)
    destruct HB as (m & B & N & HM & HS & HT & HN). destruct M as (A & B0 & _).
    pose proof (walk_snapshot c s (st_store s) P m B H A B0 HM HS HT) as WS. rewrite Hst in WS. cbn [snd] in WS.
    destruct WS as (W1 & (mE & BE & ME & SE) & TE).
    destruct (create_snapshot_inv c s H A B0) as (_ & Es & _). rewrite Hst in Es. cbn [fst] in Es.
    pose proof (create_snapshot_disk _ _ _ _ _ Hst) as Dk.
    split.
    + intros k l Hk _. destruct (W1 k Hk) as [Bk Sk]. destruct (Inv_mem _ _ HI) as [D1 S1].
      assert (Wk : WF (papply_all P (firstn k effs)))
        by (apply (sim_steps _ P _ (mid_wf _ _ _ _ HM) (mid_sim _ _ _ _ HM))).
      destruct (Safe_start c _ _ _ Bk l Hwf Wk Sk D1 S1 D1 S1) as (r & Er & [Ex|Ex]); exists r; auto.
    + exists mE, BE.
      assert (Hsing : exists N', p_ns (papply_all P effs) = [N']).
      { pose proof (snapshot_ends c s H A B0) as He. rewrite Hst in He. cbn [snd] in He.
        destruct He as [->|[E' ->]]; [exists N; exact HN|apply single_after_dirsync]. }
      destruct Hsing as [N' HN']. exists N'. rewrite Dk, Es. auto.
  - (* restart *)
    destruct (recover_inv c s Hwf HI) as (r0 & ef & E & Es & _ & _ & Dk).
    rewrite E in Hst. inversion Hst; subst s' out effs. clear Hst.
    destruct HB as (m & B & N & HM & HS & HT & HN).
    assert (Eeff : ef = newseg_effs (st_disk s) m).
    { destruct M as (Mso & Mdo & Msz & Mcap).
      pose proof H as (m0 & sdocs & sseq & Hm & Hpre & Hnd & Hw & Hg & Hs & Hok & Hmx & Hrp).
      assert (m0 = m) by (symmetry; eapply mid_manifest_eq; [exact HM|exact Hm]). subst m0.
      unfold recover_full in E.
      rewrite (recover_read_ok c (st_disk s) m sdocs sseq (st_next_seq s) Hwf Hm Hs
                 (fun nm Hin => wal_good_readable _ _ (Hg nm Hin)) Hok) in E.
      rewrite Hrp, (rebuild_docs_ok c _ Mdo) in E.
      rewrite size_le_cap_ltb in E by lia. rewrite (accepts_all_ok c _ Mdo) in E. cbn [negb] in E.
      inversion E. reflexivity. }
    subst ef.
    destruct (block_newseg c (st_store s) (st_store s) P (st_disk s) (st_active s) (st_next_seq s) m B H HM HS HT)
      as (W1 & (mE & BE & ME & SE) & TE).
    split.
    + intros k l Hk _. destruct (W1 k Hk) as [Bk Sk]. destruct (Inv_mem _ _ HI) as [D1 S1].
      assert (Wk : WF (papply_all P (firstn k (newseg_effs (st_disk s) m))))
        by (apply (sim_steps _ P _ (mid_wf _ _ _ _ HM) (mid_sim _ _ _ _ HM))).
      destruct (Safe_start c _ _ _ Bk l Hwf Wk Sk D1 S1 D1 S1) as (r & Er & [Ex|Ex]); exists r; auto.
    + exists mE, BE.
      assert (Hsing : exists N', p_ns (papply_all P (newseg_effs (st_disk s) m)) = [N']).
      { unfold newseg_effs. destruct (save_manifest_ends (mkManifest (m_snapshot m) (m_snapshot_seq m)
                                        (m_segments m ++ [NWal (fresh_id (st_disk s))]))) as [E' ->].
        rewrite app_assoc. apply single_after_dirsync. }
      destruct Hsing as [N' HN']. exists N'. rewrite Dk, Es. auto.
Qed.

(* ------------------------------------------------------------------------------------------ *)
(* 11. The very first start-up                                                                 *)
(* ------------------------------------------------------------------------------------------ *)

Lemma WF_empty : WF pfs_empty.
Proof.
  constructor; cbn.
  - discriminate.
  - constructor.
  - intros N x i [<-|[]] H. discriminate.
  - intros x y i H. discriminate.
Qed.

Lemma Sim_empty : Sim pfs_empty [].
Proof. intros x. reflexivity. Qed.

Ltac split_in :=
  repeat match goal with
         | H : _ \/ _ |- _ => destruct H
         | H : False |- _ => contradiction
         end.

Lemma init_views : forall c n N ch, wf_cfg c = true -> (n <= 8)%nat ->
  In N (p_ns (papply_all pfs_empty (firstn n init_effs))) ->
  valid_ch (papply_all pfs_empty (firstn n init_effs)) ch ->
  exists r, start c (mkview N ch) = SOk r /\ st_store r = empty.
Proof.
  intros c n N ch Hwf Hn HN Hv.
  pose proof (init_inv c Hwf) as HI. destruct (Inv_mem _ _ HI) as [D1 S1]. destruct HI as [HD _].
  pose proof (Rec_start c _ _ Hwf (InvD_Rec _ _ _ _ _ HD) D1 S1) as Hrec.
  pose proof (Hv 0%nat) as H0. pose proof (Hv 1%nat) as H1.
  assert (n = 0 \/ n = 1 \/ n = 2 \/ n = 3 \/ n = 4 \/ n = 5 \/ n = 6 \/ n = 7 \/ n = 8)%nat
    as [->|[->|[->|[->|[->|[->|[->|[->| ->]]]]]]]] by lia;
    vm_compute in HN, H0, H1; split_in; subst N;
    try (specialize (H0 ltac:(lia))); try (specialize (H1 ltac:(lia))); split_in;
    unfold mkview; cbn [map fst snd];
    repeat match goal with H : _ = ch _ |- _ => rewrite <- H end;
    try (eexists; split; [vm_compute; reflexivity|reflexivity]);
    exact Hrec.
Qed.

Lemma init_bnd : forall c, wf_cfg c = true -> Bnd c (init c) (papply_all pfs_empty init_effs).
Proof.
  intros c Hwf.
  destruct (sim_steps init_effs pfs_empty [] WF_empty Sim_empty) as [W S0].
  change (apply_effs [] init_effs) with (st_disk (init c)) in S0.
  pose proof (init_inv c Hwf) as [HD _].
  destruct (InvD_RecM _ _ _ _ _ HD) as (m & RM & Hm).
  assert (Em : m = mkManifest None None [NWal (fresh_id [])]) by (vm_compute in Hm; inversion Hm; reflexivity).
  subst m.
  assert (Hsy : forall x, refs (mkManifest None None [NWal (fresh_id [])]) x ->
                          synced (papply_all pfs_empty init_effs) 2 x).
  { intros x [->|[[<-|[]]|Hx]]; [| |discriminate].
    - exists 1%nat. eexists. split; [reflexivity|]. split; [reflexivity|lia].
    - exists 0%nat. eexists. split; [reflexivity|]. split; [reflexivity|lia]. }
  exists (mkManifest None None [NWal (fresh_id [])]), 2%nat. eexists. split; [|split; [|split]].
  - constructor; [exact W|exact S0|exact Hm|exact Hsy|vm_compute; lia].
  - intros N [<-|[]]. left.
    exact (Anch_cur c _ (papply_all pfs_empty init_effs) _ _ 2 S0 RM Hsy).
  - reflexivity.
  - reflexivity.
Qed.

Theorem power_run : forall c ops s P n l,
  wf_cfg c = true -> norm_ok c -> c_fsync c = FsAlways -> Inv c s -> Bnd c s P ->
  known_power_run c s ops n = false ->
  exists r, start c (pview (papply_all P (firstn n (all_effs c s ops))) l) = SOk r /\
            (st_store r = cp_acked (crash_run c s ops n false) \/
             st_store r = cp_inflight (crash_run c s ops n false)).
Proof.
  intros c ops. induction ops as [|o rest IH]; intros s P n l Hwf Hn Hfs HI HB Hkn.
  - cbn [all_effs crash_run cp_acked cp_inflight]. rewrite firstn_nil.
    destruct (Bnd_start c s P l Hwf HI HB) as (r & Er & Es). exists r. auto.
  - cbn [all_effs crash_run known_power_run] in *. destruct (step c s o) as [[s' out] effs] eqn:Hst.
    destruct (op_power c s o s' out effs P Hwf Hn Hfs HI HB Hst) as [OP1 OP2].
    destruct (Nat.leb n (length effs)) eqn:Hle.
    + apply Nat.leb_le in Hle. cbn [cp_acked cp_inflight]. rewrite firstn_app_le by exact Hle.
      exact (OP1 n l Hle Hkn).
    + apply Nat.leb_gt in Hle. rewrite firstn_app_ge by lia. rewrite papply_all_app.
      apply IH; try assumption.
      pose proof (step_inv c s o Hwf Hn HI) as X. unfold step_state in X. rewrite Hst in X. exact X.
Qed.

(* C01, power loss under fsync-always: every history, every crash index, EVERY loss choice *)
Theorem power_hist : forall c ops n l,
  wf_cfg c = true -> norm_ok c -> c_fsync c = FsAlways -> known_power c ops n = false ->
  exists r, start c (crash_power c ops n l) = SOk r /\
            (st_store r = cp_acked (crash_hist c ops n false) \/
             st_store r = cp_inflight (crash_hist c ops n false)).
Proof.
  intros c ops n l Hwf Hn Hfs Hkn. unfold crash_power, crash_hist, known_power in *.
  destruct (Nat.leb n (length init_effs)) eqn:Hle.
  - apply Nat.leb_le in Hle. cbn [cp_acked cp_inflight]. rewrite firstn_app_le by exact Hle.
    rewrite pview_mkview.
    destruct (sim_steps (firstn n init_effs) pfs_empty [] WF_empty Sim_empty) as [W _].
    destruct (init_views c n _ _ Hwf Hle
                (nth_clamped_in _ _ (l_dir l) [] (wf_ns _ W)) (clamped_valid _ l W)) as (r & Er & Es).
    exists r. auto.
  - apply Nat.leb_gt in Hle. rewrite firstn_app_ge by lia. rewrite papply_all_app.
    apply power_run; try assumption; [apply init_inv; exact Hwf|apply init_bnd; exact Hwf].
Qed.
