(* Invariants of the cache operations of Model/QCache.v (C07, C20 size bound). *)
From Coq Require Import QArith Qminmax Qround Qabs List NArith ZArith Bool Arith Lqa Lia.
From Kyro Require Import Model.QCache Proofs.QCacheProofs.
Import ListNotations.
Open Scope Q_scope.

(* every entry is indexed under each of its documents, except possibly row `ex` *)
Definition Complete (ex : option N) (es : list entry) (ridx : list (N * list key)) : Prop :=
  forall e id, In e es -> In id (e_ids e) -> Some id <> ex -> In (e_key e) (rget ridx id).

Definition CInv (s : state) : Prop :=
  NoDup (keys (s_entries s)) /\
  Complete None (s_entries s) (s_ridx s) /\
  (forall e, In e (s_entries s) -> e_qkey e = quantise (e_query e)).

Lemma CInv_empty : CInv empty.
Proof.
  split; [constructor|]. split; [intros e id H; inversion H|intros e H; inversion H].
Qed.

Lemma CInv_bump s : CInv s -> CInv (bump s).
Proof. intro H. exact H. Qed.

Lemma CInv_clear_remove s : CInv (clear_remove s).
Proof.
  split; [constructor|]. split; [intros e id H; inversion H|intros e H; inversion H].
Qed.

(* ---- remove_entry / remove_entries ---- *)

Lemma remove_entry_entries s k : s_entries (fst (remove_entry s k)) = remove_key k (s_entries s).
Proof.
  unfold remove_entry. destruct (find_entry k (s_entries s)) eqn:E; cbn [fst s_entries]; [reflexivity|].
  symmetry. apply remove_key_none. exact E.
Qed.

Lemma remove_entry_gen s k : s_gen (fst (remove_entry s k)) = s_gen s.
Proof. unfold remove_entry. destruct (find_entry k (s_entries s)); reflexivity. Qed.

Lemma remove_entry_complete ex s k :
  NoDup (keys (s_entries s)) -> Complete ex (s_entries s) (s_ridx s) ->
  Complete ex (s_entries (fst (remove_entry s k))) (s_ridx (fst (remove_entry s k))).
Proof.
  intros Hnd Hc. unfold remove_entry. destruct (find_entry k (s_entries s)) eqn:E; cbn [fst s_entries s_ridx]; [|exact Hc].
  intros e0 id He Hid Hex. apply remove_key_in in He. destruct He as [He Hk].
  apply unindex_ids_spec. split; [apply Hc; assumption|]. intros [H _]. contradiction.
Qed.

Lemma filter_true {A} (f : A -> bool) (l : list A) : (forall x, f x = true) -> filter f l = l.
Proof. intro H. induction l as [|x l IH]; cbn [filter]; [reflexivity|]. rewrite H, IH. reflexivity. Qed.

Lemma remove_entries_entries ks : forall s,
  s_entries (fst (remove_entries s ks)) =
  filter (fun e => negb (key_mem (e_key e) ks)) (s_entries s).
Proof.
  induction ks as [|k ks IH]; intro s; cbn [remove_entries].
  - cbn [fst]. symmetry. apply filter_true. intro x. reflexivity.
  - destruct (remove_entry s k) as [s1 b] eqn:E1.
    destruct (remove_entries s1 ks) as [s2 n] eqn:E2. cbn [fst].
    assert (H2 : s2 = fst (remove_entries s1 ks)) by (rewrite E2; reflexivity).
    assert (H1 : s1 = fst (remove_entry s k)) by (rewrite E1; reflexivity).
    rewrite H2, IH, H1, remove_entry_entries. unfold remove_key.
    induction (s_entries s) as [|x l IHl]; cbn [filter]; [reflexivity|].
    unfold key_mem at 2. cbn [existsb]. fold (key_mem (e_key x) ks).
    destruct (key_eqb (e_key x) k) eqn:Ek; cbn [negb orb].
    + exact IHl.
    + cbn [filter]. destruct (negb (key_mem (e_key x) ks)); rewrite IHl; reflexivity.
Qed.

Lemma remove_entries_gen ks : forall s, s_gen (fst (remove_entries s ks)) = s_gen s.
Proof.
  induction ks as [|k ks IH]; intro s; cbn [remove_entries]; [reflexivity|].
  destruct (remove_entry s k) as [s1 b] eqn:E1.
  destruct (remove_entries s1 ks) as [s2 n] eqn:E2. cbn [fst].
  replace s2 with (fst (remove_entries s1 ks)) by (rewrite E2; reflexivity).
  rewrite IH. replace s1 with (fst (remove_entry s k)) by (rewrite E1; reflexivity).
  apply remove_entry_gen.
Qed.

Lemma remove_entries_nodup ks s :
  NoDup (keys (s_entries s)) -> NoDup (keys (s_entries (fst (remove_entries s ks)))).
Proof. intro H. rewrite remove_entries_entries. apply nodup_filter. exact H. Qed.

Lemma remove_entries_complete ex ks : forall s,
  NoDup (keys (s_entries s)) -> Complete ex (s_entries s) (s_ridx s) ->
  Complete ex (s_entries (fst (remove_entries s ks))) (s_ridx (fst (remove_entries s ks))).
Proof.
  induction ks as [|k ks IH]; intros s Hnd Hc; cbn [remove_entries]; [exact Hc|].
  destruct (remove_entry s k) as [s1 b] eqn:E1.
  destruct (remove_entries s1 ks) as [s2 n] eqn:E2. cbn [fst].
  replace s2 with (fst (remove_entries s1 ks)) by (rewrite E2; reflexivity).
  assert (H1 : s1 = fst (remove_entry s k)) by (rewrite E1; reflexivity).
  apply IH.
  - rewrite H1, remove_entry_entries. apply nodup_remove_key. exact Hnd.
  - rewrite H1. apply remove_entry_complete; assumption.
Qed.

Lemma remove_entries_qkey ks s :
  (forall e, In e (s_entries s) -> e_qkey e = quantise (e_query e)) ->
  (forall e, In e (s_entries (fst (remove_entries s ks))) -> e_qkey e = quantise (e_query e)).
Proof.
  intros H e He. rewrite remove_entries_entries in He. apply filter_In in He. apply H. tauto.
Qed.

(* ---- doc_remove / invalidate_doc ---- *)

Lemma doc_remove_spec s id :
  CInv s ->
  CInv (fst (doc_remove s id)) /\
  s_gen (fst (doc_remove s id)) = s_gen s /\
  (forall e, In e (s_entries (fst (doc_remove s id))) -> In e (s_entries s) /\ ~ In id (e_ids e)).
Proof.
  intros [Hnd [Hc Hq]]. unfold doc_remove.
  destruct (rget (s_ridx s) id) as [|k0 ks0] eqn:Er.
  - cbn [fst]. split; [repeat split; assumption|]. split; [reflexivity|].
    intros e He. split; [exact He|]. intro Hid.
    assert (Hin : In (e_key e) (rget (s_ridx s) id)) by (apply Hc; auto; discriminate).
    rewrite Er in Hin. contradiction.
  - set (ks := k0 :: ks0) in *.
    set (s0 := mkState (s_entries s) (s_gen s) (rdel (s_ridx s) id)).
    assert (Hc0 : Complete (Some id) (s_entries s0) (s_ridx s0)).
    { intros e id' He Hid Hex. cbn [s0 s_entries s_ridx] in *. rewrite rget_rdel.
      destruct (N.eqb id id') eqn:E; [apply N.eqb_eq in E; subst; congruence|].
      apply Hc; auto. discriminate. }
    assert (Hnd0 : NoDup (keys (s_entries s0))) by exact Hnd.
    assert (Hsub : forall e, In e (s_entries (fst (remove_entries s0 (key_dedup ks)))) ->
                             In e (s_entries s) /\ ~ In id (e_ids e)).
    { intros e He. rewrite remove_entries_entries in He. apply filter_In in He.
      destruct He as [He Hk]. split; [exact He|]. intro Hid.
      apply negb_true_iff in Hk.
      assert (Hin : In (e_key e) ks) by (rewrite <- Er; apply Hc; auto; discriminate).
      apply key_dedup_in in Hin. apply key_mem_in in Hin. congruence. }
    split; [|split; [rewrite remove_entries_gen; reflexivity|exact Hsub]].
    split; [apply remove_entries_nodup; exact Hnd0|].
    split.
    + pose proof (remove_entries_complete (Some id) (key_dedup ks) s0 Hnd0 Hc0) as Hc1.
      intros e id' He Hid _. apply Hc1; auto.
      intro E. inversion E; subst. destruct (Hsub e He) as [_ Hn]. contradiction.
    + apply remove_entries_qkey. exact Hq.
Qed.

Lemma invalidate_doc_spec s id :
  CInv s ->
  CInv (fst (invalidate_doc s id)) /\
  s_gen (fst (invalidate_doc s id)) = (s_gen s + 1)%N /\
  (forall e, In e (s_entries (fst (invalidate_doc s id))) -> In e (s_entries s) /\ ~ In id (e_ids e)).
Proof.
  intro H. unfold invalidate_doc. destruct (doc_remove_spec (bump s) id (CInv_bump _ H)) as [A [B C]].
  split; [exact A|]. split; [rewrite B; reflexivity|exact C].
Qed.

(* ---- insert_remove / invalidate_for_insert ---- *)

Lemma insert_remove_spec pre dle s x :
  CInv s ->
  CInv (fst (insert_remove pre dle s x)) /\
  s_gen (fst (insert_remove pre dle s x)) = s_gen s /\
  (forall e, In e (s_entries (fst (insert_remove pre dle s x))) ->
             In e (s_entries s) /\ insert_hits pre dle x e = false).
Proof.
  intros [Hnd [Hc Hq]]. unfold insert_remove.
  set (ks := map e_key (filter (insert_hits pre dle x) (s_entries s))).
  split; [|split; [apply remove_entries_gen|]].
  - split; [apply remove_entries_nodup; exact Hnd|].
    split; [apply remove_entries_complete; assumption|apply remove_entries_qkey; exact Hq].
  - intros e He. rewrite remove_entries_entries in He. apply filter_In in He.
    destruct He as [He Hk]. split; [exact He|].
    destruct (insert_hits pre dle x e) eqn:Eh; [|reflexivity]. exfalso.
    apply negb_true_iff in Hk.
    assert (Hin : In (e_key e) ks).
    { unfold ks. apply in_map. apply filter_In. split; assumption. }
    apply key_mem_in in Hin. congruence.
Qed.

Lemma invalidate_for_insert_gen_spec pre dle s x :
  CInv s ->
  CInv (fst (invalidate_for_insert_gen pre dle s x)) /\
  s_gen (fst (invalidate_for_insert_gen pre dle s x)) = (s_gen s + 1)%N /\
  (forall e, In e (s_entries (fst (invalidate_for_insert_gen pre dle s x))) ->
             In e (s_entries s) /\ insert_hits pre dle x e = false).
Proof.
  intro H. unfold invalidate_for_insert_gen.
  destruct (insert_remove_spec pre dle (bump s) x (CInv_bump _ H)) as [A [B C]].
  split; [exact A|]. split; [rewrite B; reflexivity|exact C].
Qed.

(* ---- store ---- *)

Definition new_entry (scope : N) (q : vec) (rs : list result) (kreq : nat) : entry :=
  mkEntry scope (quantise q) q (Nat.max kreq (length rs)) rs.

Lemma store_spec cfg s scope q rs kreq expected :
  CInv s ->
  let r := store cfg s scope q rs kreq expected in
  CInv (fst r) /\ s_gen (fst r) = s_gen s /\
  (forall e, In e (s_entries (fst r)) -> In e (s_entries s) \/ e = new_entry scope q rs kreq) /\
  (snd r = SkippedGeneration -> fst r = s).
Proof.
  intros [Hnd [Hc Hq]]. unfold store.
  destruct (match expected with Some g => negb (N.eqb (s_gen s) g) | None => false end).
  { cbn [fst snd]. repeat split; auto. }
  set (qk := (scope, quantise q)).
  destruct (find_entry qk (s_entries s)) as [old|] eqn:Ef.
  - destruct (find_entry_some _ _ _ Ef) as [Hold Hkold].
    destruct (Nat.leb (e_kreq old) (Nat.max kreq (length rs))); cbn [fst snd s_entries s_gen s_ridx].
    + fold (new_entry scope q rs kreq). split; [|split; [reflexivity|split; [|discriminate]]].
      * split; [|split].
        -- unfold keys. cbn [map]. change (e_key (new_entry scope q rs kreq)) with qk.
           constructor; [apply not_in_keys_remove|apply nodup_remove_key; exact Hnd].
        -- intros e id [He|He] Hid _.
           ++ subst e. change (e_key (new_entry scope q rs kreq)) with qk.
              apply index_ids_spec. right. split; [reflexivity|].
              apply result_ids_in. exact Hid.
           ++ apply remove_key_in in He. destruct He as [He Hk].
              apply index_ids_spec. left. apply unindex_ids_spec.
              split; [apply Hc; auto; discriminate|]. intros [H _]. contradiction.
        -- intros e [He|He]; [subst e; reflexivity|]. apply remove_key_in in He. apply Hq. tauto.
      * intros e [He|He]; [right; symmetry; exact He|left]. apply remove_key_in in He. tauto.
    + split; [|split; [reflexivity|split; [|discriminate]]].
      * split; [apply nodup_touch; exact Hnd|]. split.
        -- intros e id He Hid Hex. apply Hc; auto. apply (touch_in _ _ _ He).
        -- intros e He. apply Hq. apply (touch_in _ _ _ He).
      * intros e He. left. apply (touch_in _ _ _ He).
  - pose proof (find_entry_none _ _ Ef) as Hnone.
    (* the eviction step yields a sub-list es1 with a complete index *)
    assert (Hev : forall es1 ridx1 ev,
      (if Nat.leb (c_cap cfg) (length (s_entries s)) then
         match drop_last (s_entries s) with
         | (es', Some v) =>
             (es', unindex_ids (s_ridx s) (e_key v) (result_ids (e_results v)), Some (e_qkey v))
         | (es', None) => (es', s_ridx s, None)
         end
       else (s_entries s, s_ridx s, None)) = (es1, ridx1, ev) ->
      (forall e, In e es1 -> In e (s_entries s)) /\ NoDup (keys es1) /\ Complete None es1 ridx1).
    { intros es1 ridx1 ev H.
      destruct (Nat.leb (c_cap cfg) (length (s_entries s))).
      - pose proof (drop_last_spec (s_entries s)) as Hd.
        destruct (drop_last (s_entries s)) as [es' [v|]]; inversion H; subst; clear H.
        + assert (Hnd' : NoDup (keys es1 ++ [e_key v])).
          { unfold keys in *. rewrite Hd, map_app in Hnd. exact Hnd. }
          assert (Hv : ~ In (e_key v) (keys es1)).
          { intro Hin. apply NoDup_remove_2 in Hnd'. rewrite app_nil_r in Hnd'. contradiction. }
          split; [intros e He; rewrite Hd; apply in_or_app; left; exact He|].
          split; [apply NoDup_remove_1 in Hnd'; rewrite app_nil_r in Hnd'; exact Hnd'|].
          intros e id He Hid _. apply unindex_ids_spec.
          split; [apply Hc; auto; [rewrite Hd; apply in_or_app; left; exact He|discriminate]|].
          intros [Hk _]. apply Hv. rewrite <- Hk. unfold keys. apply in_map. exact He.
        + destruct Hd as [Hd1 Hd2]. subst es1. split; [intros e []|]. split; [constructor|].
          intros e id [].
      - inversion H; subst. split; [auto|]. split; assumption. }
    destruct (if Nat.leb (c_cap cfg) (length (s_entries s)) then _ else _) as [[es1 ridx1] ev] eqn:Eev.
    destruct (Hev es1 ridx1 ev eq_refl) as [Hsub [Hnd1 Hc1]].
    cbn [fst snd s_entries s_gen s_ridx]. fold (new_entry scope q rs kreq).
    split; [|split; [reflexivity|split; [|discriminate]]].
    + split; [|split].
      * unfold keys. cbn [map]. change (e_key (new_entry scope q rs kreq)) with qk.
        constructor; [|exact Hnd1]. intro Hin. apply in_map_iff in Hin.
        destruct Hin as [y [Hy1 Hy2]]. apply (Hnone y (Hsub y Hy2)). exact Hy1.
      * intros e id [He|He] Hid _.
        -- subst e. change (e_key (new_entry scope q rs kreq)) with qk.
           apply index_ids_spec. right. split; [reflexivity|]. apply result_ids_in. exact Hid.
        -- apply index_ids_spec. left. apply Hc1; auto. discriminate.
      * intros e [He|He]; [subst e; reflexivity|]. apply Hq. apply Hsub. exact He.
    + intros e [He|He]; [right; symmetry; exact He|left; apply Hsub; exact He].
Qed.

(* ---- get_scoped ---- *)

Lemma in_firstn {A} (n : nat) (l : list A) (x : A) : In x (firstn n l) -> In x l.
Proof.
  revert l. induction n as [|n IH]; intros l H; [inversion H|].
  destruct l as [|y l]; [inversion H|]. cbn [firstn] in H. destruct H as [H|H]; [left; exact H|right; auto].
Qed.

(* what a similarity-path match guarantees about the matched entry *)
Definition sim_ok (cfg : config) (scope : N) (q : vec) (k : nat) (c : entry) : Prop :=
  e_scope c = scope /\ (k <= e_kreq c)%nat /\ c_thr cfg * c_thr cfg < cos_ssq q (e_query c).

Definition sim_good cfg (es : list entry) scope q k (mk : key) : Prop :=
  exists c, In c es /\ e_key c = mk /\ sim_ok cfg scope q k c.

Lemma sim_fold_inv cfg es scope qk q k (l : list entry) : forall best,
  (forall c, In c l -> In c es) ->
  c_thr cfg * c_thr cfg <= fst best ->
  (forall mk, snd best = Some mk -> sim_good cfg es scope q k mk) ->
  forall mk, snd (fold_left (sim_step scope qk q k) l best) = Some mk -> sim_good cfg es scope q k mk.
Proof.
  induction l as [|c l IH]; intros best Hl Hb Hs mk H; cbn [fold_left] in H; [apply Hs; exact H|].
  apply (IH (sim_step scope qk q k best c)); [intros c' Hc'; apply Hl; right; exact Hc'| | |exact H];
    unfold sim_step;
    destruct (negb (N.eqb (e_scope c) scope) || key_eqb (e_key c) qk) eqn:E1; try assumption;
    apply orb_false_iff in E1; destruct E1 as [E1 _]; apply negb_false_iff in E1; apply N.eqb_eq in E1;
    (destruct (Nat.ltb (e_kreq c) k) eqn:E2; try assumption); apply Nat.ltb_ge in E2;
    (destruct (Qltb (fst best) (cos_ssq q (e_query c))) eqn:E3; try assumption); apply Qltb_iff in E3;
    cbn [fst snd].
  - lra.
  - intros mk' Hm. inversion Hm; subst. exists c. split; [apply Hl; left; reflexivity|].
    split; [reflexivity|]. repeat split; auto. lra.
Qed.

Lemma find_similar_spec cfg es scope qk q k mk :
  find_similar cfg es scope qk q k = Some mk -> sim_good cfg es scope q k mk.
Proof.
  unfold find_similar. intro H.
  apply (sim_fold_inv cfg es scope qk q k _ _ (fun c Hc => in_firstn _ _ _ Hc)) in H; [exact H| |].
  - cbn [fst]. lra.
  - cbn [snd]. discriminate.
Qed.

(* what get_scoped serves, on both lookup paths *)
Definition served (cfg : config) (s : state) (scope : N) (q : vec) (k : nat) (r : list result) : Prop :=
  exists e, In e (s_entries s) /\ e_scope e = scope /\ (k <= e_kreq e)%nat /\
            r = firstn k (e_results e) /\
            (e_qkey e = quantise q \/ c_thr cfg * c_thr cfg < cos_ssq q (e_query e)).

Lemma get_scoped_spec cfg s scope q k :
  CInv s ->
  let g := get_scoped cfg s scope q k in
  CInv (fst g) /\ s_gen (fst g) = s_gen s /\
  (forall e, In e (s_entries (fst g)) -> In e (s_entries s)) /\
  (length (s_entries (fst g)) <= length (s_entries s))%nat /\
  (forall r, snd g = Some r -> served cfg s scope q k r).
Proof.
  intros [Hnd [Hc Hq]]. unfold get_scoped.
  assert (Htouch : forall mk, CInv (mkState (touch mk (s_entries s)) (s_gen s) (s_ridx s))).
  { intro mk. split; [apply nodup_touch; exact Hnd|]. split.
    - intros e id He Hid Hex. apply Hc; auto. apply (touch_in _ _ _ He).
    - intros e He. apply Hq. apply (touch_in _ _ _ He). }
  set (qk := (scope, quantise q)).
  destruct (find_entry qk (s_entries s)) as [e|] eqn:Ef.
  - destruct (find_entry_some _ _ _ Ef) as [He Hk].
    destruct (Nat.leb k (e_kreq e)) eqn:Ek; cbn [fst snd s_entries s_gen].
    + split; [apply Htouch|]. split; [reflexivity|]. split; [intros e0; apply touch_in|].
      split; [apply touch_length|].
      intros r Hr. inversion Hr; subst. exists e. apply Nat.leb_le in Ek.
      unfold e_key, qk in Hk. inversion Hk. repeat split; auto.
    + split; [repeat split; assumption|]. split; [reflexivity|]. split; [auto|]. split; [lia|discriminate].
  - destruct (find_similar cfg (s_entries s) scope qk q k) as [mk|] eqn:Es.
    + destruct (find_similar_spec _ _ _ _ _ _ _ Es) as [c [Hcin [Hck [Hsc [Hkk Hsim]]]]].
      assert (Hfound : find_entry mk (touch mk (s_entries s)) = Some c).
      { unfold touch. destruct (find_entry mk (s_entries s)) as [c0|] eqn:E0.
        - destruct (find_entry_some _ _ _ E0) as [Hc0 Hk0].
          assert (c0 = c) by (apply (nodup_key_eq (s_entries s)); auto; congruence). subst c0.
          cbn [find_entry]. rewrite Hck, key_eqb_refl. reflexivity.
        - exfalso. exact (find_entry_none _ _ E0 _ Hcin Hck). }
      rewrite Hfound.
      assert (Hlt : Nat.ltb (e_kreq c) k = false) by (apply Nat.ltb_ge; exact Hkk).
      rewrite Hlt. cbn [fst snd s_entries s_gen].
      split; [apply Htouch|]. split; [reflexivity|]. split; [intros e0; apply touch_in|].
      split; [apply touch_length|].
      intros r Hr. inversion Hr; subst. exists c. repeat split; auto.
    + cbn [fst snd]. split; [repeat split; assumption|]. split; [reflexivity|]. split; [auto|].
      split; [lia|discriminate].
Qed.

(* ---- all cache operations preserve CInv; the generation never decreases ---- *)

Lemma step_CInv cfg s o : CInv s -> CInv (fst (step cfg s o)).
Proof.
  intro H. destruct o; cbn [step].
  - destruct (get_scoped cfg s scope q k) eqn:E. cbn [fst].
    pose proof (get_scoped_spec cfg s scope q k H) as G. rewrite E in G. apply G.
  - destruct (store cfg s scope q rs kreq None) eqn:E. cbn [fst].
    pose proof (store_spec cfg s scope q rs kreq None H) as G. cbn zeta in G. rewrite E in G. apply G.
  - destruct (store cfg s scope q rs kreq (Some (s_gen s - back)%N)) eqn:E. cbn [fst].
    pose proof (store_spec cfg s scope q rs kreq (Some (s_gen s - back)%N) H) as G. cbn zeta in G.
    rewrite E in G. apply G.
  - destruct (invalidate_doc s id) eqn:E. cbn [fst].
    pose proof (invalidate_doc_spec s id H) as G. rewrite E in G. apply G.
  - destruct (invalidate_for_insert s x m) eqn:E. cbn [fst].
    pose proof (invalidate_for_insert_gen_spec (can_affect m (Nat.min prefix_dims (length x))) (dist_le m) s x H) as G.
    unfold invalidate_for_insert in E. rewrite E in G. apply G.
  - cbn [fst]. apply CInv_clear_remove.
  - exact H.
  - exact H.
Qed.

Lemma run_state_CInv cfg ops : forall s, CInv s -> CInv (run_state cfg s ops).
Proof.
  induction ops as [|o ops IH]; intros s H; cbn [run_state]; [exact H|].
  apply IH. apply step_CInv. exact H.
Qed.

(* ---- size bound (C20) ---- *)

Lemma filter_length_le {A} (f : A -> bool) (l : list A) : (length (filter f l) <= length l)%nat.
Proof. induction l as [|x l IH]; cbn [filter length]; [lia|]. destruct (f x); cbn [length]; lia. Qed.

Lemma remove_entries_length ks s :
  (length (s_entries (fst (remove_entries s ks))) <= length (s_entries s))%nat.
Proof. rewrite remove_entries_entries. apply filter_length_le. Qed.

Lemma drop_last_length (es : list entry) :
  match drop_last es with
  | (es', Some _) => length es = S (length es')
  | (es', None) => es = []
  end.
Proof.
  pose proof (drop_last_spec es) as H. destruct (drop_last es) as [es' [v|]].
  - rewrite H, app_length. cbn. lia.
  - tauto.
Qed.

Lemma store_length cfg s scope q rs kreq expected :
  (1 <= c_cap cfg)%nat -> (length (s_entries s) <= c_cap cfg)%nat ->
  (length (s_entries (fst (store cfg s scope q rs kreq expected))) <= c_cap cfg)%nat.
Proof.
  intros Hcap Hlen. unfold store.
  destruct (match expected with Some g => negb (N.eqb (s_gen s) g) | None => false end); [exact Hlen|].
  destruct (find_entry (scope, quantise q) (s_entries s)) as [old|] eqn:Ef.
  - destruct (Nat.leb (e_kreq old) (Nat.max kreq (length rs))); cbn [fst s_entries].
    + cbn [length]. pose proof (remove_key_length_found _ _ _ Ef). lia.
    + pose proof (touch_length (scope, quantise q) (s_entries s)). lia.
  - destruct (Nat.leb (c_cap cfg) (length (s_entries s))) eqn:El.
    + apply Nat.leb_le in El. pose proof (drop_last_length (s_entries s)) as Hd.
      destruct (drop_last (s_entries s)) as [es' [v|]]; cbn [fst s_entries length].
      * lia.
      * rewrite Hd in El. cbn [length] in El. lia.
    + apply Nat.leb_gt in El. cbn [fst s_entries length]. lia.
Qed.

Lemma step_length cfg s o :
  (1 <= c_cap cfg)%nat -> (length (s_entries s) <= c_cap cfg)%nat ->
  (length (s_entries (fst (step cfg s o))) <= c_cap cfg)%nat.
Proof.
  intros Hcap Hlen. destruct o; cbn [step].
  - unfold get_scoped.
    destruct (find_entry (scope, quantise q) (s_entries s)) as [e|].
    + destruct (Nat.leb k (e_kreq e)); cbn [fst s_entries]; [|exact Hlen].
      pose proof (touch_length (scope, quantise q) (s_entries s)). lia.
    + destruct (find_similar cfg (s_entries s) scope (scope, quantise q) q k) as [mk|]; [|exact Hlen].
      pose proof (touch_length mk (s_entries s)) as Ht.
      destruct (find_entry mk (touch mk (s_entries s))) as [e|]; [destruct (Nat.ltb (e_kreq e) k)|];
        cbn [fst s_entries]; lia.
  - destruct (store cfg s scope q rs kreq None) eqn:E. cbn [fst].
    pose proof (store_length cfg s scope q rs kreq None Hcap Hlen) as G. rewrite E in G. exact G.
  - destruct (store cfg s scope q rs kreq (Some (s_gen s - back)%N)) eqn:E. cbn [fst].
    pose proof (store_length cfg s scope q rs kreq (Some (s_gen s - back)%N) Hcap Hlen) as G.
    rewrite E in G. exact G.
  - destruct (invalidate_doc s id) eqn:E. cbn [fst].
    replace s0 with (fst (invalidate_doc s id)) by (rewrite E; reflexivity).
    unfold invalidate_doc, doc_remove. destruct (rget (s_ridx (bump s)) id); [exact Hlen|].
    etransitivity; [apply remove_entries_length|exact Hlen].
  - destruct (invalidate_for_insert s x m) eqn:E. cbn [fst].
    replace s0 with (fst (invalidate_for_insert s x m)) by (rewrite E; reflexivity).
    unfold invalidate_for_insert, invalidate_for_insert_gen, insert_remove.
    etransitivity; [apply remove_entries_length|exact Hlen].
  - cbn [fst clear clear_remove s_entries length]. lia.
  - exact Hlen.
  - exact Hlen.
Qed.

(* In every state reachable by cache operations the number of entries is at most the capacity. *)
Theorem len_bound cfg ops : (1 <= c_cap cfg)%nat ->
  (length (s_entries (run_state cfg empty ops)) <= c_cap cfg)%nat.
Proof.
  intro Hcap.
  assert (G : forall s, (length (s_entries s) <= c_cap cfg)%nat ->
                        (length (s_entries (run_state cfg s ops)) <= c_cap cfg)%nat).
  { induction ops as [|o ops IH]; intros s H; cbn [run_state]; [exact H|].
    apply IH. apply step_length; assumption. }
  apply G. cbn. lia.
Qed.
