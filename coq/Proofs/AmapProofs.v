(* Lemmas about Model/Amap.v: get/set/remove algebra, the sortedness invariant, canonicity
   (extensional equality implies Leibniz equality), of_list on a sorted list. *)
From Coq Require Import List NArith Bool Lia.
From Kyro Require Import Model.Amap.
Import ListNotations.
Open Scope N_scope.

Section AmapProofs.
  Context {V : Type}.
  Implicit Types (m : amap V) (k : N) (v : V).

  Definition lt_all k m : Prop := Forall (fun kv : N * V => k < fst kv) m.

  Fixpoint sorted m : Prop :=
    match m with
    | [] => True
    | (k, _) :: r => lt_all k r /\ sorted r
    end.

  Lemma lt_all_weaken : forall k k' m, k' <= k -> lt_all k m -> lt_all k' m.
  Proof.
    intros k k' m Hle H. unfold lt_all in *. eapply Forall_impl; [|exact H].
    intros a Ha. cbn in Ha. lia.
  Qed.

  Lemma get_lt_all : forall m k x, lt_all k m -> x <= k -> get m x = None.
  Proof.
    induction m as [|[k0 v0] r IH]; intros k x H Hle; cbn; [reflexivity|].
    inversion H as [|a l Ha Hr]; subst. cbn in Ha.
    destruct (N.eqb_spec k0 x) as [E|E]; [lia|]. eapply IH; eauto.
  Qed.

  Lemma get_set_same : forall m k v, get (set m k v) k = Some v.
  Proof.
    induction m as [|[k0 v0] r IH]; intros k v; cbn.
    - rewrite N.eqb_refl. reflexivity.
    - destruct (N.eqb_spec k0 k) as [E|E]; cbn.
      + rewrite N.eqb_refl. reflexivity.
      + destruct (N.ltb_spec k k0); cbn.
        * rewrite N.eqb_refl. reflexivity.
        * destruct (N.eqb_spec k0 k); [contradiction|]. apply IH.
  Qed.

  Lemma get_set_other : forall m k v k', k' <> k -> get (set m k v) k' = get m k'.
  Proof.
    induction m as [|[k0 v0] r IH]; intros k v k' Hne; cbn.
    - destruct (N.eqb_spec k k'); [congruence|reflexivity].
    - destruct (N.eqb_spec k0 k) as [E|E]; cbn.
      + subst k0. destruct (N.eqb_spec k k'); [congruence|reflexivity].
      + destruct (N.ltb_spec k k0); cbn.
        * destruct (N.eqb_spec k k'); [congruence|reflexivity].
        * destruct (N.eqb_spec k0 k'); [reflexivity|]. apply IH; assumption.
  Qed.

  Lemma get_remove_other : forall m k k', k' <> k -> get (remove m k) k' = get m k'.
  Proof.
    induction m as [|[k0 v0] r IH]; intros k k' Hne; cbn; [reflexivity|].
    destruct (N.eqb_spec k0 k) as [E|E]; cbn.
    - subst k0. destruct (N.eqb_spec k k'); [congruence|reflexivity].
    - destruct (N.eqb_spec k0 k'); [reflexivity|]. apply IH; assumption.
  Qed.

  Lemma get_remove_same : forall m k, sorted m -> get (remove m k) k = None.
  Proof.
    induction m as [|[k0 v0] r IH]; intros k Hs; cbn; [reflexivity|].
    destruct Hs as [Hlt Hs].
    destruct (N.eqb_spec k0 k) as [E|E]; cbn.
    - subst k0. eapply get_lt_all; [exact Hlt|lia].
    - destruct (N.eqb_spec k0 k); [contradiction|]. apply IH; assumption.
  Qed.

  Lemma remove_absent : forall m k, get m k = None -> remove m k = m.
  Proof.
    induction m as [|[k0 v0] r IH]; intros k H; cbn in *; [reflexivity|].
    destruct (N.eqb_spec k0 k); [discriminate|]. f_equal. apply IH; assumption.
  Qed.

  Lemma lt_all_set : forall m k0 k v, lt_all k0 m -> k0 < k -> lt_all k0 (set m k v).
  Proof.
    induction m as [|[k1 v1] r IH]; intros k0 k v H Hlt; cbn.
    - constructor; [cbn; assumption|constructor].
    - inversion H as [|a l Ha Hr]; subst. cbn in Ha.
      destruct (N.eqb_spec k1 k).
      + constructor; [cbn; assumption|assumption].
      + destruct (N.ltb_spec k k1).
        * constructor; [cbn; assumption|]. constructor; [cbn; assumption|assumption].
        * constructor; [cbn; assumption|]. apply IH; assumption.
  Qed.

  Lemma lt_all_remove : forall m k0 k, lt_all k0 m -> lt_all k0 (remove m k).
  Proof.
    induction m as [|[k1 v1] r IH]; intros k0 k H; cbn; [constructor|].
    inversion H as [|a l Ha Hr]; subst.
    destruct (N.eqb_spec k1 k); [assumption|].
    constructor; [assumption|]. apply IH; assumption.
  Qed.

  Lemma sorted_set : forall m k v, sorted m -> sorted (set m k v).
  Proof.
    induction m as [|[k0 v0] r IH]; intros k v Hs; cbn.
    - split; [constructor|exact I].
    - destruct Hs as [Hlt Hs].
      destruct (N.eqb_spec k0 k) as [E|E].
      + subst k0. cbn. split; assumption.
      + destruct (N.ltb_spec k k0).
        * cbn. split; [|split; assumption].
          constructor; [cbn; assumption|]. eapply lt_all_weaken; [|exact Hlt]. lia.
        * cbn. split; [|apply IH; assumption]. apply lt_all_set; [assumption|lia].
  Qed.

  Lemma sorted_remove : forall m k, sorted m -> sorted (remove m k).
  Proof.
    induction m as [|[k0 v0] r IH]; intros k Hs; cbn; [exact I|].
    destruct Hs as [Hlt Hs].
    destruct (N.eqb_spec k0 k); [assumption|].
    cbn. split; [apply lt_all_remove; assumption|apply IH; assumption].
  Qed.

  (* canonicity *)
  Lemma ext_eq : forall a b : amap V, sorted a -> sorted b -> (forall k, get a k = get b k) -> a = b.
  Proof.
    induction a as [|[k v] a' IH]; intros b Ha Hb H.
    - destruct b as [|[k' v'] b']; [reflexivity|].
      specialize (H k'). cbn in H. rewrite N.eqb_refl in H. discriminate.
    - destruct b as [|[k' v'] b'].
      + specialize (H k). cbn in H. rewrite N.eqb_refl in H. discriminate.
      + destruct Ha as [Hla Ha]. destruct Hb as [Hlb Hb].
        assert (k = k') as ->.
        { destruct (N.lt_trichotomy k k') as [L|[E|L]]; [|assumption|].
          - pose proof (H k) as Hk. cbn in Hk. rewrite N.eqb_refl in Hk.
            destruct (N.eqb_spec k' k); [lia|].
            rewrite (get_lt_all b' k' k Hlb) in Hk by lia. discriminate.
          - pose proof (H k') as Hk. cbn in Hk. rewrite N.eqb_refl in Hk.
            destruct (N.eqb_spec k k'); [lia|].
            rewrite (get_lt_all a' k k' Hla) in Hk by lia. discriminate. }
        pose proof (H k') as Hk. cbn in Hk. rewrite N.eqb_refl in Hk. inversion Hk; subst v'.
        f_equal. apply IH; [assumption|assumption|].
        intros x. destruct (N.eq_dec x k') as [->|Hne].
        * rewrite (get_lt_all a' k' k' Hla), (get_lt_all b' k' k' Hlb) by lia. reflexivity.
        * specialize (H x). cbn in H. destruct (N.eqb_spec k' x); [congruence|]. assumption.
  Qed.

  (* of_list of a sorted list is the list itself *)
  Lemma set_append : forall acc k v,
    Forall (fun kv : N * V => fst kv < k) acc -> set acc k v = acc ++ [(k, v)].
  Proof.
    induction acc as [|[k0 v0] r IH]; intros k v H; cbn; [reflexivity|].
    inversion H as [|a l Ha Hr]; subst. cbn in Ha.
    destruct (N.eqb_spec k0 k); [lia|]. destruct (N.ltb_spec k k0); [lia|].
    f_equal. apply IH; assumption.
  Qed.

  Lemma sorted_app_lt : forall acc k v r,
    sorted (acc ++ (k, v) :: r) -> Forall (fun kv : N * V => fst kv < k) acc.
  Proof.
    induction acc as [|[k0 v0] a IH]; intros k v r H; [constructor|].
    cbn in H. destruct H as [Hlt Hs]. constructor.
    - cbn. unfold lt_all in Hlt. rewrite Forall_forall in Hlt.
      specialize (Hlt (k, v)). cbn in Hlt. apply Hlt. apply in_or_app. right. left. reflexivity.
    - eapply IH; exact Hs.
  Qed.

  Lemma fold_set_sorted : forall l acc,
    sorted (acc ++ l) ->
    fold_left (fun m (kv : N * V) => set m (fst kv) (snd kv)) l acc = acc ++ l.
  Proof.
    induction l as [|[k v] r IH]; intros acc H; cbn.
    - rewrite app_nil_r. reflexivity.
    - rewrite (set_append acc k v) by (eapply sorted_app_lt; exact H).
      rewrite IH; rewrite <- app_assoc; cbn; [reflexivity|assumption].
  Qed.

  Lemma of_list_sorted : forall l : amap V, sorted l -> of_list l = l.
  Proof. intros l H. unfold of_list, empty. rewrite fold_set_sorted; [reflexivity|exact H]. Qed.

  (* sizes *)
  Lemma length_set_le : forall m k v, (length (set m k v) <= S (length m))%nat.
  Proof.
    induction m as [|[k0 v0] r IH]; intros k v; cbn; [lia|].
    destruct (N.eqb k0 k); cbn; [lia|]. destruct (N.ltb k k0); cbn; [lia|].
    specialize (IH k v). lia.
  Qed.

  Lemma length_remove_le : forall m k, (length (remove m k) <= length m)%nat.
  Proof.
    induction m as [|[k0 v0] r IH]; intros k; cbn; [lia|].
    destruct (N.eqb k0 k); cbn; [lia|]. specialize (IH k). lia.
  Qed.

  Lemma length_set_present : forall m k v v0, sorted m -> get m k = Some v0 ->
    length (set m k v) = length m.
  Proof.
    induction m as [|[k0 w0] r IH]; intros k v v0 Hs Hg; cbn in Hg; [discriminate|].
    destruct Hs as [Hlt Hs]. cbn [set].
    destruct (N.eqb_spec k0 k) as [E|E]; [reflexivity|].
    destruct (N.ltb_spec k k0) as [L|L].
    - rewrite (get_lt_all r k0 k Hlt) in Hg by lia. discriminate.
    - cbn [length]. f_equal. eapply IH; eassumption.
  Qed.

  (* unique keys *)
  Lemma lt_all_not_in : forall m k, lt_all k m -> existsb (N.eqb k) (map fst m) = false.
  Proof.
    induction m as [|[k0 v0] r IH]; intros k H; cbn; [reflexivity|].
    inversion H as [|a l Ha Hr]; subst. cbn in Ha.
    destruct (N.eqb_spec k k0); [lia|]. cbn. apply IH; assumption.
  Qed.

  Lemma in_get : forall m k v, sorted m -> In (k, v) m -> get m k = Some v.
  Proof.
    induction m as [|[k0 v0] r IH]; intros k v Hs Hin; [contradiction|].
    destruct Hs as [Hlt Hs]. cbn. destruct Hin as [E|Hin].
    - inversion E; subst. rewrite N.eqb_refl. reflexivity.
    - destruct (N.eqb_spec k0 k) as [E|E].
      + subst k0. unfold lt_all in Hlt. rewrite Forall_forall in Hlt.
        specialize (Hlt _ Hin). cbn in Hlt. lia.
      + apply IH; assumption.
  Qed.

  Lemma get_in : forall m k v, get m k = Some v -> In (k, v) m.
  Proof.
    induction m as [|[k0 v0] r IH]; intros k v H; cbn in H; [discriminate|].
    destruct (N.eqb_spec k0 k).
    - inversion H; subst. left. reflexivity.
    - right. apply IH; assumption.
  Qed.
End AmapProofs.
