(* Proofs about the filtered batch delete of Model/Tiered.v (C11 at the TieredEngine level):
   `meta_fresh` (every mirror entry carries the canonical metadata of its id) is an invariant of all
   API histories without mirror pokes, and in such a state filter_delete removes exactly the
   documents whose CANONICAL metadata satisfies the filter.  Properties/C11tier.v. *)
From Coq Require Import List NArith ZArith Bool Arith Lia Sorted.
From Kyro Require Import Model.TMap Model.Tiered Proofs.TieredProofs.
Import ListNotations.

(* ------------------------------------------------------------------------------------------ *)
(* id lists                                                                                     *)
(* ------------------------------------------------------------------------------------------ *)
Lemma existsb_eqb_In : forall k (l : list N), existsb (N.eqb k) l = true <-> In k l.
Proof.
  intros k l. rewrite existsb_exists. split.
  - intros [x [Hx E]]. apply N.eqb_eq in E. subst. auto.
  - intros H. exists k. split; auto. apply N.eqb_refl.
Qed.

Lemma existsb_eqb_filter : forall k (p : N -> bool) (l : list N),
  existsb (N.eqb k) (filter p l) = existsb (N.eqb k) l && p k.
Proof.
  induction l as [|a r IH]; cbn; auto.
  destruct (p a) eqn:Pa; cbn; rewrite IH.
  - destruct (N.eqb k a) eqn:E; cbn; auto. apply N.eqb_eq in E. subst. rewrite Pa. auto.
  - destruct (N.eqb k a) eqn:E; cbn; auto. apply N.eqb_eq in E. subst. rewrite Pa.
    rewrite andb_false_r. auto.
Qed.

Lemma existsb_eqb_keys : forall {A} k (l : list (N * A)), existsb (N.eqb k) (map fst l) = mem k l.
Proof.
  intros A k l. unfold mem. induction l as [|[k0 a] r IH]; cbn; auto.
  rewrite (N.eqb_sym k k0). destruct (N.eqb k0 k); cbn; auto.
Qed.

Lemma ins_id_in : forall k x l, In x (ins_id k l) <-> x = k \/ In x l.
Proof.
  induction l as [|q r IH]; cbn.
  - intuition.
  - destruct (N.eqb k q) eqn:E.
    + apply N.eqb_eq in E. subst. cbn. intuition.
    + destruct (N.ltb k q); cbn; [intuition|]. rewrite IH. intuition.
Qed.

Lemma ins_id_sorted : forall k l, StronglySorted N.lt l -> StronglySorted N.lt (ins_id k l).
Proof.
  induction l as [|q r IH]; cbn; intros H.
  - constructor; constructor.
  - inversion H as [|? ? Hs Hf]; subst. destruct (N.eqb k q) eqn:E; [exact H|].
    destruct (N.ltb k q) eqn:E2.
    + apply N.ltb_lt in E2. constructor; [exact H|]. constructor; [exact E2|].
      eapply Forall_impl; [|exact Hf]. intros a Ha. cbn in Ha. lia.
    + constructor; [apply IH; auto|]. apply Forall_forall. intros x Hx. apply ins_id_in in Hx.
      destruct Hx as [->|Hx].
      * apply N.eqb_neq in E. apply N.ltb_ge in E2. lia.
      * rewrite Forall_forall in Hf. auto.
Qed.

Lemma sort_dedup_sorted : forall l, StronglySorted N.lt (sort_dedup l).
Proof.
  unfold sort_dedup. induction l as [|x r IH]; cbn; [constructor|]. apply ins_id_sorted. auto.
Qed.

Lemma sorted_nodup : forall l, StronglySorted N.lt l -> NoDup l.
Proof.
  induction l as [|x r IH]; intros H; [constructor|].
  inversion H as [|? ? Hs Hf]; subst. constructor; auto.
  intros Hin. rewrite Forall_forall in Hf. apply Hf in Hin. lia.
Qed.

Lemma sort_dedup_nodup : forall l, NoDup (sort_dedup l).
Proof. intros. apply sorted_nodup, sort_dedup_sorted. Qed.

(* ------------------------------------------------------------------------------------------ *)
(* the invariant                                                                                *)
(* ------------------------------------------------------------------------------------------ *)
(* every mirror entry has a canonical record and carries ITS metadata *)
Definition meta_fresh (s : state) : Prop :=
  forall id h, lookup id (hot s) = Some h ->
  exists r, lookup id (cold s) = Some r /\ h_meta h = c_meta r.

(* the selection the filtered delete is supposed to make: the canonical metadata matches *)
Definition canon_sel (s : state) (f : tfilter) (id : N) : bool :=
  match lookup id (cold s) with Some r => tmatch f (c_meta r) | None => false end.

Definition no_hot_poke_x (o : opx) : bool :=
  match o with OApi o => no_hot_poke o | OFilterDelete _ => true end.

Lemma mfresh_no_orphan : forall s, meta_fresh s -> no_orphan s.
Proof.
  unfold meta_fresh, no_orphan. intros s F id H.
  destruct (lookup id (hot s)) as [h|] eqn:E; [|congruence].
  destruct (F id h E) as [r [L _]]. congruence.
Qed.

Lemma mfresh_sub : forall s' s, meta_fresh s -> cold s' = cold s -> hot_sub s' s -> meta_fresh s'.
Proof. unfold meta_fresh, hot_sub. intros s' s F C S id h H. rewrite C. auto. Qed.

Lemma init_mfresh : forall docs, meta_fresh (init docs).
Proof. unfold meta_fresh, init. cbn. congruence. Qed.

(* ---------- batch delete, in any state ---------- *)
Lemma batch_delete_lookups : forall c s ids,
  (forall k, lookup k (cold (fst (batch_delete c s ids))) =
             if existsb (N.eqb k) ids then None else lookup k (cold s)) /\
  (forall k, lookup k (hot (fst (batch_delete c s ids))) =
             if existsb (N.eqb k) ids then None else lookup k (hot s)) /\
  snd (batch_delete c s ids) =
    length (filter (fun id => mem id (hot s) || mem id (cold s)) (sort_dedup ids)).
Proof.
  intros c s ids. unfold batch_delete.
  set (u := sort_dedup ids).
  set (p := fun id => mem id (hot s) || mem id (cold s)).
  destruct (Nat.eqb (length (filter p u)) 0) eqn:E; cbn [fst snd].
  - apply Nat.eqb_eq in E. split; [|split; [|auto]].
    + intros k. destruct (existsb (N.eqb k) ids) eqn:X; auto.
      rewrite <- in_sort_dedup in X. fold u in X. apply existsb_eqb_In in X.
      apply length_zero_iff_nil in E. pose proof (filter_nil_false p u E k X) as F. unfold p in F.
      apply orb_false_iff in F. destruct F as [_ F]. unfold mem in F.
      destruct (lookup k (cold s)); [discriminate|auto].
    + intros k. destruct (existsb (N.eqb k) ids) eqn:X; auto.
      rewrite <- in_sort_dedup in X. fold u in X. apply existsb_eqb_In in X.
      apply length_zero_iff_nil in E. pose proof (filter_nil_false p u E k X) as F. unfold p in F.
      apply orb_false_iff in F. destruct F as [F _]. unfold mem in F.
      destruct (lookup k (hot s)); [discriminate|auto].
  - set (s1 := set_hot (set_cold s (remove_all u (cold s))) (remove_all u (hot s))).
    destruct (fold_invalidate_frame c u s1) as [A [B _]]. rewrite A, B. unfold s1. sproj.
    split; [|split; [|auto]]; intros k; rewrite lookup_remove_all; unfold u; rewrite in_sort_dedup; auto.
Qed.

Section Theorems.
  Variable digest : vec -> dgst.
  Variable valid : vec -> bool.
  Hypothesis digest_inj : forall a b : vec, digest a = digest b -> a = b.

  (* ---------- writes keep the mirror metadata equal to the canonical metadata ---------- *)
  Lemma insert_mfresh : forall c s id v m, meta_fresh s -> meta_fresh (fst (insert digest valid c s id v m)).
  Proof.
    intros c s id v m F. rewrite insert_unfold.
    destruct (insert_pre_no_orphan valid c s (mfresh_no_orphan s F)) as [s1 [P [C1 H1]]]. rewrite P. cbn [negb].
    cbv zeta. unfold Tiered.cold_insert. rewrite cold_l1_invalidate.
    assert (F1 : meta_fresh (l1_invalidate c s1 id)).
    { eapply mfresh_sub; [exact F|rewrite cold_l1_invalidate; auto|].
      unfold hot_sub. rewrite hot_l1_invalidate. destruct H1 as [H1|[H1 _]]; rewrite H1; cbn; auto; congruence. }
    destruct (valid v) eqn:V; cbn [fst]; [|exact F1].
    unfold meta_fresh, cold_token. sproj. rewrite hot_l1_invalidate, lookup_put_eq.
    intros k h. rewrite !lookup_put. destruct (N.eqb id k) eqn:X.
    - intros H. inversion H; subst h. cbn [h_meta]. eexists. split; [reflexivity|]. cbn [c_meta]. auto.
    - intros H. unfold meta_fresh in F1. rewrite hot_l1_invalidate, cold_l1_invalidate in F1. apply F1. auto.
  Qed.

  Lemma delete_mfresh : forall c s id, meta_fresh s -> meta_fresh (fst (delete c s id)).
  Proof.
    intros c s id F. unfold delete.
    set (s1 := set_hot (set_cold s (remove id (cold s))) (remove id (hot s))).
    assert (F1 : meta_fresh s1).
    { unfold meta_fresh, s1. sproj. intros k h. rewrite !lookup_remove. destruct (N.eqb id k); [congruence|apply F]. }
    destruct (negb (mem id (cold s)) && negb (mem id (hot s))); cbn [fst]; auto.
    eapply mfresh_sub; [exact F1|apply cold_l1_invalidate|apply hot_sub_eq; apply hot_l1_invalidate].
  Qed.

  Lemma batch_delete_mfresh : forall c s ids, meta_fresh s -> meta_fresh (fst (batch_delete c s ids)).
  Proof.
    intros c s ids F. destruct (batch_delete_lookups c s ids) as [A [B _]].
    unfold meta_fresh. intros k h. rewrite A, B.
    destruct (existsb (N.eqb k) ids); [congruence|apply F].
  Qed.

  (* the step the seeded bug breaks: merge AND replace are applied to both tiers alike *)
  Lemma update_meta_mfresh : forall s id m merge, meta_fresh s -> meta_fresh (fst (update_meta s id m merge)).
  Proof.
    intros s id m merge F. unfold update_meta.
    destruct (lookup id (cold s)) as [r|] eqn:E; cbn [fst]; auto.
    set (s1 := set_cold s (put id (mkC (c_vec r) (apply_meta (c_meta r) m merge) (c_ver r)) (cold s))).
    destruct (lookup id (hot s1)) as [h0|] eqn:Eh.
    - unfold meta_fresh. unfold s1 in *. sproj. unfold set_cold in Eh. cbn [hot] in Eh.
      intros k h. rewrite !lookup_put. destruct (N.eqb id k) eqn:X.
      + intros H. inversion H; subst h. cbn [h_meta]. eexists. split; [reflexivity|]. cbn [c_meta].
        destruct (F id h0 Eh) as [r0 [L M]]. rewrite E in L. inversion L; subst r0. rewrite M. auto.
      + apply F.
    - unfold meta_fresh. unfold s1 in *. sproj. unfold set_cold in Eh. cbn [hot] in Eh.
      intros k h H. rewrite lookup_put. destruct (N.eqb id k) eqn:X; [|apply F; auto].
      apply N.eqb_eq in X. subst k. congruence.
  Qed.

  Lemma bulk_load_mfresh : forall c s docs, meta_fresh s -> meta_fresh (fst (bulk_load valid c s docs)).
  Proof.
    intros c s docs F. destruct (bulk_load_char valid c s docs) as [_ [_ [_ [Hh U]]]].
    unfold meta_fresh. rewrite Hh. intros k h. rewrite lookup_remove_all.
    destruct (existsb (N.eqb k) (map (fun d => fst (fst d)) docs)) eqn:X; [congruence|].
    intros H. rewrite (U k X). apply F. auto.
  Qed.

  Lemma filter_delete_mfresh : forall c s f, meta_fresh s -> meta_fresh (fst (filter_delete c s f)).
  Proof. intros. unfold filter_delete. apply batch_delete_mfresh. auto. Qed.

  Lemma step_mfresh : forall c s o, no_hot_poke o = true -> meta_fresh s -> meta_fresh (fst (step digest valid c s o)).
  Proof.
    intros c s o G F. pose proof (mfresh_no_orphan s F) as NO.
    assert (R : forall s', cold s' = cold s -> hot_sub s' s -> meta_fresh s') by (intros; eapply mfresh_sub; eauto).
    destruct o; cbn [Tiered.step]; try discriminate.
    - pose proof (query_frame digest c s adm id) as [Fr _]. pose proof (query_canonical digest digest_inj c s adm id) as [_ C].
      destruct (query digest c s adm id). cbn in *. auto.
    - pose proof (get_doc_frame digest c s id) as [Fr _]. pose proof (get_doc_canonical digest digest_inj c s id) as [_ C].
      destruct (get_doc digest c s id). cbn in *. auto.
    - pose proof (get_emb_frame digest c s id) as [Fr _]. pose proof (get_emb_canonical digest digest_inj c s id) as [_ C].
      destruct (get_emb digest c s id). cbn in *. auto.
    - auto.
    - auto.
    - pose proof (bulk_frame digest digest_inj c s inc ids) as [C [Fr _]]. destruct (bulk digest c s inc ids). cbn in *. auto.
    - pose proof (insert_mfresh c s id v m F) as X. destruct (insert digest valid c s id v m). auto.
    - pose proof (delete_mfresh c s id F) as X. destruct (delete c s id). auto.
    - pose proof (batch_delete_mfresh c s ids F) as X. destruct (batch_delete c s ids). auto.
    - pose proof (update_meta_mfresh s id m merge F) as X. destruct (update_meta s id m merge). auto.
    - pose proof (bulk_load_mfresh c s docs F) as X. destruct (bulk_load valid c s docs). auto.
    - pose proof (flush_no_orphan valid c s force NO) as [C Fr]. destruct (flush valid c s force). cbn in *. auto.
    - cbn [fst]. destruct (audit_frame digest c s) as [C [Fr _]]. auto.
    - cbn [fst]. destruct (tick_no_orphan digest valid c s NO) as [C Fr]. auto.
    - cbn [fst]. apply R; [|apply hot_sub_eq]; unfold poke_l1; destruct b; reflexivity.
  Qed.

  Lemma stepx_mfresh : forall c s o, no_hot_poke_x o = true -> meta_fresh s ->
    meta_fresh (fst (stepx digest valid c s o)).
  Proof.
    intros c s o G F. destruct o as [o|f]; cbn [stepx].
    - apply step_mfresh; auto.
    - pose proof (filter_delete_mfresh c s f F) as X. destruct (filter_delete c s f). auto.
  Qed.

  Lemma runx_mfresh : forall c ops s, forallb no_hot_poke_x ops = true -> meta_fresh s ->
    meta_fresh (runx digest valid c s ops).
  Proof.
    unfold runx. induction ops as [|o r IH]; cbn; intros s G F; auto.
    apply andb_true_iff in G. destruct G as [G1 G2]. apply IH; auto. apply stepx_mfresh; auto.
  Qed.

  (* (a) unbounded API histories (every op incl. the filtered delete; cache pokes allowed, mirror pokes
     not): every mirror entry carries the canonical metadata of its id *)
  Theorem api_mirror_meta_fresh : forall c docs (ops : list opx),
    forallb no_hot_poke_x ops = true ->
    let s := runx digest valid c (init docs) ops in
    forall id h, lookup id (hot s) = Some h ->
    exists r, lookup id (cold s) = Some r /\ h_meta h = c_meta r.
  Proof.
    intros c docs ops G. cbv zeta. apply (runx_mfresh c ops (init docs) G (init_mfresh docs)).
  Qed.

  (* ---------- exactness ---------- *)
  Lemma hot_scan_mem : forall s f k,
    existsb (N.eqb k) (hot_scan s f) =
    match lookup k (hot s) with Some h => tmatch f (h_meta h) | None => false end.
  Proof.
    intros s f k. unfold hot_scan. rewrite existsb_eqb_filter, existsb_eqb_keys. unfold mem.
    destruct (lookup k (hot s)); auto.
  Qed.

  Lemma cold_filter_mem : forall s f k, existsb (N.eqb k) (cold_filter_ids s f) = canon_sel s f k.
  Proof.
    intros s f k. unfold cold_filter_ids, canon_sel. rewrite existsb_eqb_filter, existsb_eqb_keys. unfold mem.
    destruct (lookup k (cold s)); auto.
  Qed.

  (* with a fresh mirror the union hot-scan ∪ cold-index selects exactly the canonical matches *)
  Lemma selection_exact : forall s f k, meta_fresh s ->
    existsb (N.eqb k) (sort_dedup (hot_scan s f ++ cold_filter_ids s f)) = canon_sel s f k.
  Proof.
    intros s f k F. rewrite in_sort_dedup, existsb_app, hot_scan_mem, cold_filter_mem.
    destruct (lookup k (hot s)) as [h|] eqn:E; auto.
    destruct (F k h E) as [r [L M]]. unfold canon_sel. rewrite L, M. apply orb_diag.
  Qed.

  Theorem filter_delete_exact_state : forall c s f, meta_fresh s ->
    let r := filter_delete c s f in
    (forall id, lookup id (cold (fst r)) = if canon_sel s f id then None else lookup id (cold s)) /\
    (forall id, lookup id (hot (fst r)) = if canon_sel s f id then None else lookup id (hot s)) /\
    (exists L, NoDup L /\ (forall id, In id L <-> canon_sel s f id = true) /\ snd r = length L) /\
    meta_fresh (fst r).
  Proof.
    intros c s f F. cbv zeta. unfold filter_delete.
    set (ids := sort_dedup (hot_scan s f ++ cold_filter_ids s f)).
    destruct (batch_delete_lookups c s ids) as [A [B N0]].
    assert (S : forall k, existsb (N.eqb k) ids = canon_sel s f k) by (intros; apply selection_exact; auto).
    split; [intros id; rewrite A, S; auto|]. split; [intros id; rewrite B, S; auto|].
    split; [|apply batch_delete_mfresh; auto].
    exists (filter (fun id => mem id (hot s) || mem id (cold s)) (sort_dedup ids)).
    split; [apply NoDup_filter, sort_dedup_nodup|]. split; [|exact N0].
    intros id. rewrite filter_In, <- existsb_eqb_In, in_sort_dedup, S. split; [tauto|].
    intros H. split; auto. unfold canon_sel in H. unfold mem.
    destruct (lookup id (cold s)); [apply orb_true_r|discriminate].
  Qed.

  (* (b) in every state reached by an API history without mirror pokes, the filtered delete removes
     exactly the ids whose CANONICAL metadata satisfies the filter (from both tiers), returns their
     number, and leaves every other canonical record (vector, metadata, version) and mirror entry as
     it was *)
  Theorem filter_delete_exact : forall c docs (ops : list opx) (f : tfilter),
    forallb no_hot_poke_x ops = true ->
    let s := runx digest valid c (init docs) ops in
    let r := stepx digest valid c s (OFilterDelete f) in
    let sel := fun id => match lookup id (cold s) with Some rc => tmatch f (c_meta rc) | None => false end in
    (forall id, lookup id (cold (fst r)) = if sel id then None else lookup id (cold s)) /\
    (forall id, lookup id (hot (fst r)) = if sel id then None else lookup id (hot s)) /\
    (exists L, NoDup L /\ (forall id, In id L <-> sel id = true) /\ snd r = RCount (Some (length L))).
  Proof.
    intros c docs ops f G. cbv zeta. cbn [stepx].
    pose proof (runx_mfresh c ops (init docs) G (init_mfresh docs)) as F.
    destruct (filter_delete_exact_state c (runx digest valid c (init docs) ops) f F) as [A [B [[L [L1 [L2 L3]]] _]]].
    destruct (filter_delete c (runx digest valid c (init docs) ops) f) as [s1 n]. cbn [fst snd] in *.
    split; [exact A|]. split; [exact B|]. exists L. split; [auto|]. split; [exact L2|]. subst n. auto.
  Qed.
End Theorems.

(* ---------- (c) the variant in which the mirror half of a REPLACE behaves like a merge ---------- *)
Definition w_cfg := mkCfg 2 2 false 100 4.
Definition w_k0 : N := 0%N.
Definition w_k1 : N := 1%N.
Definition w_hist : list opx :=
  [OApi (OInsert 1%N [1%Z] [(w_k0, 7%N); (w_k1, 8%N)]);      (* hot-resident document with keys k0, k1 *)
   OApi (OUpdMeta 1%N [(w_k1, 8%N)] false)].                  (* replace: drops k0 *)
Definition w_filter : tfilter := TExact w_k0 7%N.              (* filtered delete on the dropped key *)

Theorem mirror_merge_variant_refuted :
  let s := runx_mirror_merges id_digest all_valid w_cfg (init []) w_hist in
  forallb no_hot_poke_x (w_hist ++ [OFilterDelete w_filter]) = true /\
  get_meta s 1%N = Some [(w_k1, 8%N)] /\
  canon_sel s w_filter 1%N = false /\
  stepx_mirror_merges id_digest all_valid w_cfg s (OFilterDelete w_filter) =
    (mkS [] [] [] [] (ctr s), RCount (Some 1)) /\
  ~ meta_fresh s /\
  (* the faithful model on the same history: nothing is selected, the document survives *)
  let s0 := runx id_digest all_valid w_cfg (init []) w_hist in
  snd (stepx id_digest all_valid w_cfg s0 (OFilterDelete w_filter)) = RCount (Some 0) /\
  get_meta (fst (stepx id_digest all_valid w_cfg s0 (OFilterDelete w_filter))) 1%N = Some [(w_k1, 8%N)].
Proof.
  cbv zeta. split; [vm_compute; reflexivity|]. split; [vm_compute; reflexivity|].
  split; [vm_compute; reflexivity|]. split; [vm_compute; reflexivity|].
  split; [|split; vm_compute; reflexivity].
  intros F. specialize (F 1%N). vm_compute in F.
  destruct (F _ eq_refl) as [r [L M]]. inversion L; subst r. discriminate.
Qed.
