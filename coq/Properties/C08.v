(* C08 — no interleaving of concurrent API calls can deadlock.  Statements only; proofs live in
   Proofs/LocksProofs.v, the model in Model/Locks.v (parking_lot Mutex + writer-preferring RwLock,
   any number of threads, any schedule).  The per-run instance (the lock programs recorded from the
   real engine by the patched parking_lot) is coq/gen/LockProgs_gen.v + coq/gen/LockInstance_gen.v,
   rewritten and re-checked by checks/c08.py on every run. *)
From Coq Require Import List NArith Bool Arith Lia.
From Kyro Require Import Model.Locks Proofs.LocksProofs.
Import ListNotations.

(* The general theorem, proved once: programs that are well bracketed and request locks in strictly
   increasing rank (TryAcq never blocks and is exempt) cannot deadlock — in every reachable state of
   every schedule, for any number of threads, either all threads are done or some thread can step. *)
Theorem deadlock_free_of_rank : forall (rank : lock -> nat) (progs : list prog),
  Forall well_bracketed progs -> Forall (rank_increasing rank) progs ->
  forall sched st, exec progs sched = Some st -> all_done st = false ->
  exists tid st', thread_step st tid = Some st'.
Proof. exact deadlock_free_of_rank_proof. Qed.

(* Reflective form: one boolean, decided by vm_compute on the generated programs, gives deadlock
   freedom for ANY number of client threads each issuing ANY sequence of the checked calls. *)
Theorem C08_family_of_check : forall (rank : lock -> nat) (calls : list prog),
  all_ok rank calls = true -> deadlock_free_family calls.
Proof. exact deadlock_free_family_of_check. Qed.

(* ... and every reachable state can be run to completion (no dead end, no livelock in the model). *)
Theorem C08_completes : forall (rank : lock -> nat) (ps : list prog),
  all_ok rank ps = true ->
  forall sched st, exec ps sched = Some st ->
  exists sched' st', run st sched' = Some st' /\ all_done st' = true.
Proof. exact completes_of_rank. Qed.

(* ---- non-vacuity: a small program set with nesting, an upgrade, a downgrade and try-locks ---- *)
Definition ex_calls : list prog :=
  [ [Acq 1 Read; Acq 2 Write; Rel 2; Rel 1];
    [Acq 1 Upgradable; Upgrade 1; Acq 3 Mutex; Rel 3; Downgrade 1 Read; Rel 1];
    [TryAcq 2 Write; Acq 3 Mutex; Rel 3; Rel 2];
    [Acq 3 Mutex; TryAcq 1 Write; Rel 1; Rel 3] ]%N.

Example C08_example_ok :
  lock_order_ok ex_calls = true /\ all_ok (topo_rank ex_calls) ex_calls = true /\
  deadlock_free_family ex_calls.
Proof.
  split; [vm_compute; reflexivity|]. split; [vm_compute; reflexivity|].
  apply C08_family_of_check with (rank := topo_rank ex_calls). vm_compute. reflexivity.
Qed.

(* ---- the HotTier inversion (lock 1 = documents, lock 2 = stats) ---- *)
Definition hot_insert : prog := [Acq 1 Write; Rel 1; Acq 2 Write; Acq 1 Read; Rel 1; Rel 2]%N.
Definition hot_delete : prog := [Acq 1 Write; Acq 2 Write; Rel 2; Rel 1]%N.
Definition hot_get    : prog := [Acq 1 Read; Acq 2 Write; Rel 2; Rel 1]%N.
Definition hot_writer : prog := [Acq 1 Write; Rel 1]%N.

(* the static check rejects it, no rank function exists, ... *)
Example C08_inversion_rejected : lock_order_ok [hot_insert; hot_delete] = false.
Proof. vm_compute. reflexivity. Qed.

Example C08_inversion_no_rank : forall rank, all_ok rank [hot_insert; hot_delete] = false.
Proof.
  intro rank. unfold all_ok. cbn [forallb].
  destruct (prog_ok rank hot_insert) eqn:E1; [|reflexivity].
  destruct (prog_ok rank hot_delete) eqn:E2; [exfalso|reflexivity].
  unfold prog_ok in *. apply andb_true_iff in E1 as [_ E1]. apply andb_true_iff in E2 as [_ E2].
  unfold hot_insert in E1; unfold hot_delete in E2. cbn -[Nat.ltb] in E1, E2.
  rewrite !andb_true_r in E1, E2. apply Nat.ltb_lt in E1, E2. lia.
Qed.

(* ... and two threads deadlock in the model: insert holds stats and waits for documents, delete
   holds documents and waits for stats. *)
Example C08_inversion_deadlocks :
  exists sched st, exec [hot_insert; hot_delete] sched = Some st /\ deadlocked st = true.
Proof. exists [0;0;0;0;0;1;1], (match exec [hot_insert; hot_delete] [0;0;0;0;0;1;1] with Some s => s | None => [] end).
  vm_compute. split; reflexivity. Qed.

(* Writer preference: insert and get alone share `documents` as readers, but with a third thread
   queued for the write lock the reader behind it is blocked and the three deadlock. *)
Example C08_writer_preference_deadlocks :
  exists sched st, exec [hot_insert; hot_get; hot_writer] sched = Some st /\ deadlocked st = true.
Proof. exists [0;0;0;0;0;1;2], (match exec [hot_insert; hot_get; hot_writer] [0;0;0;0;0;1;2] with Some s => s | None => [] end).
  vm_compute. split; reflexivity. Qed.

Print Assumptions deadlock_free_of_rank.
Print Assumptions C08_family_of_check.
Print Assumptions C08_completes.
Print Assumptions C08_example_ok.
Print Assumptions C08_inversion_deadlocks.
