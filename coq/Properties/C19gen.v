(* C19 (tie by translation) — the TokenBucket code regenerated from /repo on every run IS the model the C19
   theorems are about.  Statements only; proofs in Proofs/BucketGenProofs.v. *)
From Coq Require Import QArith NArith ZArith.
From Kyro Require Import Model.RateLimit gen.Bucket_gen Proofs.BucketGenProofs.
Open Scope Q_scope.

Theorem C19_generated_bucket_matches_model : forall (g : token_bucket) (now : Q),
  (to_model (fst (Bucket_gen.try_consume g now)), snd (Bucket_gen.try_consume g now))
  = RateLimit.try_consume (to_model g) now.
Proof. exact gen_try_consume. Qed.

Theorem C19_generated_refill_matches_model : forall (g : token_bucket) (now : Q),
  to_model (Bucket_gen.refill g now) = RateLimit.refill (to_model g) now.
Proof. exact gen_refill. Qed.

Theorem C19_generated_refund_matches_model : forall (g : token_bucket),
  to_model (Bucket_gen.refund_one g) = RateLimit.refund_one (to_model g).
Proof. exact gen_refund_one. Qed.

Theorem C19_generated_new_matches_model : forall (qps : N) (now : Q),
  to_model (Bucket_gen.new qps now) = RateLimit.bucket_new qps now.
Proof. exact gen_new. Qed.

Theorem C19_generated_available_matches_model : forall (g : token_bucket) (now : Q),
  (to_model (fst (Bucket_gen.available_tokens g now)), snd (Bucket_gen.available_tokens g now))
  = RateLimit.available (to_model g) now.
Proof. exact gen_available. Qed.

(* Non-vacuity: the generated functions compute (a full bucket of 2 admits twice, refuses, and admits again
   half a second later), and every model bucket with an integral capacity is the image of a generated one. *)
Example C19gen_nonvacuous :
  let b0 := Bucket_gen.new 2%N 0 in
  let '(b1, r1) := Bucket_gen.try_consume b0 0 in
  let '(b2, r2) := Bucket_gen.try_consume b1 0 in
  let '(b3, r3) := Bucket_gen.try_consume b2 0 in
  let '(b4, r4) := Bucket_gen.try_consume b3 (1 # 2) in
  (r1, r2, r3, r4) = (true, true, false, true) /\ Qeq_bool (tb_tokens b4) 0 = true.
Proof. vm_compute. split; reflexivity. Qed.

Print Assumptions C19_generated_bucket_matches_model.
Print Assumptions C19_generated_refill_matches_model.
Print Assumptions C19_generated_refund_matches_model.
Print Assumptions C19_generated_new_matches_model.
Print Assumptions C19_generated_available_matches_model.
