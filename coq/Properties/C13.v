(* C13 — strict recovery never silently returns damaged state.  Statements only.

   Byte level (Model/WalBytes.v, an executable model of WalReader::open/read_all/read_all_strict and of
   the Snapshot::load envelope, tied to the real readers on every run by kernel-evaluated
   differential correspondence over intact and mutated files):
     * every well-formed segment / snapshot file reads back exactly what was written;
     * damage to the bytes a checksum covers (payload or checksum bytes of any frame, snapshot data or
       checksum bytes) is never silent: the strict reader reports corruption / the load fails;
     * every truncation of a snapshot file fails to load;
     * every truncation of a segment reads WITHOUT error as a prefix of its entries (torn tails are
       tolerated in every segment) — this is what makes truncation of a non-newest segment silent
       (recorded finding C13-non-newest-segment-truncated);
     * the frame length field is not covered by any checksum: witness C13_length_field_damage_silent
       (recorded finding C13-wal-frame-length-runs-past-eof).
   `crc` is a parameter with crc p < 2^32; the instance used by the correspondence is the executable
   CRC-32 (crc32m).  "The checksum differs after damage" is an explicit premise (ck <> crc p): that
   CRC-32 detects every single-bit and burst error <= 32 bits is a property of the polynomial that is
   not proved here. *)
From Coq Require Import List NArith Bool Lia.
From Kyro Require Import Model.WalBytes Proofs.WalBytesProofs.
Import ListNotations.
Open Scope N_scope.

Theorem C13_wal_roundtrip :
  forall (crc : bytes -> N) (deser_ok : bytes -> bool), (forall p, crc p < 4294967296) ->
  forall ps, Forall valid_payload ps -> (forall p, In p ps -> deser_ok p = true) ->
  read_all_strict crc deser_ok (segment crc ps) = RdOk ps.
Proof. exact roundtrip. Qed.

Theorem C13_wal_checksum_damage_detected :
  forall (crc : bytes -> N) (deser_ok : bytes -> bool), (forall p, crc p < 4294967296) ->
  forall ps1 p ck rest,
  Forall valid_payload ps1 -> valid_payload p -> ck < 4294967296 -> ck <> crc p ->
  exists c, read_all_strict crc deser_ok
              (wal_magic ++ concat (map (frame crc) ps1) ++ bad_frame p ck ++ rest) = RdErrCorrupt c.
Proof. exact checksum_damage_detected. Qed.

Theorem C13_wal_short_file_refused :
  forall (crc : bytes -> N) (deser_ok : bytes -> bool) file,
  (length file < 4)%nat -> read_all_strict crc deser_ok file = RdErrMagic.
Proof. exact short_file_refused. Qed.

Theorem C13_wal_truncation_reads_prefix :
  forall (crc : bytes -> N) (deser_ok : bytes -> bool), (forall p, crc p < 4294967296) ->
  forall ps n, Forall valid_payload ps -> (forall p, In p ps -> deser_ok p = true) -> (4 <= n)%nat ->
  exists j, read_all_strict crc deser_ok (firstn n (segment crc ps)) = RdOk (firstn j ps).
Proof. exact torn_prefix. Qed.

Theorem C13_snapshot_roundtrip :
  forall (crc : bytes -> N), (forall p, crc p < 4294967296) ->
  forall data, N.of_nat (length data) < 256 ^ N.of_nat 8 ->
  snapshot_load crc (snapshot_file crc data) = Some data.
Proof. exact snapshot_roundtrip. Qed.

Theorem C13_snapshot_damage_detected :
  forall (crc : bytes -> N), (forall p, crc p < 4294967296) ->
  forall data ck rest,
  N.of_nat (length data) < 256 ^ N.of_nat 8 -> ck < 4294967296 -> ck <> crc data ->
  snapshot_load crc (snap_magic ++ to_le 8 (N.of_nat (length data)) ++ data ++ to_le 4 ck ++ rest) = None.
Proof. intros crc _. exact (snapshot_damage_detected crc). Qed.

Theorem C13_snapshot_truncated_refused :
  forall (crc : bytes -> N), (forall p, crc p < 4294967296) ->
  forall data n, N.of_nat (length data) < 256 ^ N.of_nat 8 ->
  (n < length (snapshot_file crc data))%nat ->
  snapshot_load crc (firstn n (snapshot_file crc data)) = None.
Proof. intros crc _. exact (snapshot_truncated_refused crc). Qed.

(* the executable CRC-32 meets the range premise *)
Theorem C13_crc32m_range : forall p, crc32m p < 4294967296.
Proof. exact crc32m_lt. Qed.

(* REFUTED for the length field: one flipped bit, strict reading succeeds with nothing. *)
Theorem C13_length_field_damage_silent :
  read_all_strict crc32m (fun _ => true) lenflip_file = RdOk [[1; 2; 3]; [4]] /\
  read_all_strict crc32m (fun _ => true) lenflip_damaged = RdOk [].
Proof. exact length_damage_silent. Qed.

(* non-vacuity: a concrete two-entry segment is well formed and round-trips under the real CRC *)
Example C13_nonvacuous :
  Forall valid_payload [[1; 2; 3]; [4]] /\
  read_all_strict crc32m (fun _ => true) (segment crc32m [[1; 2; 3]; [4]]) = RdOk [[1; 2; 3]; [4]].
Proof.
  split; [|vm_compute; reflexivity].
  repeat constructor; unfold max_wal_entry; cbn; lia.
Qed.

Print Assumptions C13_wal_roundtrip.
Print Assumptions C13_wal_checksum_damage_detected.
Print Assumptions C13_wal_truncation_reads_prefix.
Print Assumptions C13_snapshot_damage_detected.
Print Assumptions C13_snapshot_truncated_refused.
Print Assumptions C13_length_field_damage_silent.
