(* C14 — tenant vector quotas are exact.  Statements only; proofs live in Proofs/QuotaProofs.v; the
   model is Model/Quota.v (sequential handlers + interleaving model of the quota protocol).
   PARTIAL: sequential histories are proved for every history; concurrency is proved on the
   interleaving model for the pairs the per-tenant mutex serialises (Insert / BulkInsert against each
   other, every schedule) and REFUTED by witness schedules for every pair that involves Delete or
   BatchDelete (they do not take the mutex).  BulkLoadHnsw against Insert-like calls is not proved
   (it takes the mutex; the invariant for its thread was not written).  Runtime scheduling of the real
   binary is sampled by the harness, not proved. *)
From Coq Require Import List NArith Bool.
From Kyro Require Import Model.Quota Proofs.QuotaProofs.
Import ListNotations.
Open Scope N_scope.

(* ---- sequential: for EVERY history of RPCs by any tenants (duplicates inside batches, absent ids,
   rejected inputs, engine-rejected items, partial bulk-load failure, probes, restarts), for every
   tenant: the server's count equals the number of the tenant's live documents. *)
Theorem C14_count_exact_seq :
  forall (cfg : qcfg) (es : list qev) (t : N),
  let s := qfinal cfg es in
  t_count (tget s t) = len (t_live (tget s t)) /\ NoDup (t_live (tget s t)).
Proof. intros cfg es t s. destruct (qfinal_good cfg es t) as [A [B _]]. split; assumption. Qed.
(* qfinal is the state the response-producing run ends in *)
Theorem C14_run_state :
  forall cfg es, fst (qrun_from cfg [] es) = qfinal cfg es.
Proof. intros. apply qrun_from_fst. Qed.

Theorem C14_never_above_limit :
  forall (cfg : qcfg) (es : list qev) (t : N),
  len (t_live (tget (qfinal cfg es) t)) <= q_limit cfg t.
Proof. intros cfg es t. destruct (qfinal_good cfg es t) as [A [_ C]]. rewrite <- A. exact C. Qed.

(* after any history, an Insert that passes input validation is refused for quota IFF its id is new
   and the tenant holds exactly `limit` live documents; so an overwrite is never refused and a tenant
   below its limit is never refused *)
Theorem C14_never_refused_below_limit :
  forall (cfg : qcfg) (es : list qev) (t : N) (it : qitem),
  item_admissible it = true ->
  let ts := tget (qfinal cfg es) t in
  (snd (handle cfg t ts (QInsert it)) = QErrExhausted
   <-> (mem (qi_id it) (t_live ts) = false /\ len (t_live ts) = q_limit cfg t)).
Proof. intros cfg es t it Ha ts. apply insert_refused_iff; [apply qfinal_good|exact Ha]. Qed.

(* ---- interleaving model, pairs serialised by the quota mutex: Insert || Insert, Insert || BulkInsert,
   BulkInsert || BulkInsert (same or different ids, accepted or engine-rejected vectors), EVERY schedule:
   at every instant  |live| <= count <= |live| + 2  and  count <= limit;  when both calls have
   returned the count is exact and the mutex is free. *)
Theorem C14_pairs :
  forall (limit count : N) (live : list N) (a b : thr) (sched : list bool),
  NoDup live -> count = len live -> count <= limit -> fresh a -> fresh b ->
  let c := crun limit sched (cstart count live a b) in
  (final_live c <= final_count c /\ final_count c <= final_live c + 2 /\ final_count c <= limit
   /\ NoDup (sh_live (c_sh c)))
  /\ (quiescent c = true -> final_count c = final_live c /\ sh_mutex (c_sh c) = None).
Proof. exact pairs_insert_like. Qed.

(* ---- pairs with Delete / BatchDelete (no mutex): a schedule from an exact state that ends, both
   calls returned, with the count ONE SHORT of the live documents — and below the limit although the
   tenant holds `limit` documents, so the next new id is admitted (C14_never_refused_below_limit's
   refusal condition reads the count): the tenant exceeds its limit. *)
Definition drifts (a b : thr) : Prop :=
  exists (limit count : N) (live : list N) (sched : list bool),
    count = len live /\ count <= limit /\
    let c := crun limit sched (cstart count live a b) in
    quiescent c = true /\ final_count c + 1 = final_live c.

Theorem C14_overwrite_delete_refuted : drifts (TI (istart 1 true)) (TD (dstart 1)).
Proof.
  exists 2, 2, [1; 2], w_overwrite_delete. destruct overwrite_delete_witness as [A [B [C D]]].
  split; [exact A|]. split; [discriminate|]. cbv zeta in *. split; [exact B|]. rewrite C, D. reflexivity.
Qed.
Theorem C14_bulk_insert_delete_refuted : drifts (TBI (istart 1 true) []) (TD (dstart 1)).
Proof.
  exists 2, 2, [1; 2], w_overwrite_delete. destruct bulk_insert_delete_witness as [A [B [C D]]].
  split; [exact A|]. split; [discriminate|]. cbv zeta in *. split; [exact B|]. rewrite C, D. reflexivity.
Qed.
Theorem C14_bulk_load_overwrite_delete_refuted : drifts (TL (lstart [(1, true)])) (TD (dstart 1)).
Proof.
  exists 2, 2, [1; 2], w_load_over_delete. destruct bulk_load_overwrite_delete_witness as [A [B [C D]]].
  split; [exact A|]. split; [discriminate|]. cbv zeta in *. split; [exact B|]. rewrite C, D. reflexivity.
Qed.
(* new id: the delete lands after the load and before the load's recount *)
Theorem C14_bulk_load_new_delete_refuted : drifts (TL (lstart [(1, true)])) (TD (dstart 1)).
Proof.
  exists 2, 1, [2], w_load_new_delete. destruct bulk_load_new_delete_witness as [A [B [C D]]].
  split; [exact A|]. split; [discriminate|]. cbv zeta in *. split; [exact B|]. rewrite C, D. reflexivity.
Qed.
(* new id: the delete lands between TieredEngine::insert's cold-tier insert and its coherence-token
   read (model granularity only: the window is a few instructions wide in the code) *)
Theorem C14_insert_new_delete_refuted : drifts (TI (istart 1 true)) (TD (dstart 1)).
Proof.
  exists 2, 1, [2], w_insert_new_delete. destruct insert_new_delete_witness as [A [B [C D]]].
  split; [exact A|]. split; [discriminate|]. cbv zeta in *. split; [exact B|]. rewrite C, D. reflexivity.
Qed.
(* Delete || BatchDelete of the same id: both report the deletion *)
Theorem C14_delete_batch_delete_refuted : drifts (TB (bstart [1])) (TD (dstart 1)).
Proof.
  exists 2, 2, [1; 2], w_delete_batch. destruct delete_batch_delete_witness as [A [B [C D]]].
  split; [exact A|]. split; [discriminate|]. cbv zeta in *. split; [exact B|]. rewrite C, D. reflexivity.
Qed.

(* ---- non-vacuity *)
(* a history with limit 2 for tenant 0 (cosine): fill, refusal of a new id, overwrite admitted,
   engine-rejected zero vector released, bulk load with a duplicate new id and an engine-rejected item, batch delete
   with a duplicate and an absent id, restart, probe *)
Definition ex_cfg : qcfg := mkQCfg (fun t => if t =? 0 then 2 else 5) true.
Definition ex_history : list qev :=
  [ QCall 0 (QInsert (mkQItem 1 VGood 1)); QCall 1 (QInsert (mkQItem 1 VGood 1));
    QCall 0 (QInsert (mkQItem 2 VGood 2)); QCall 0 (QInsert (mkQItem 3 VGood 1));
    QCall 0 (QInsert (mkQItem 1 VGood 3)); QCall 0 (QDelete 2); QCall 0 (QInsert (mkQItem 3 VZero 1));
    QCall 0 (QBulkLoad [mkQItem 4 VGood 1; mkQItem 4 VGood 2; mkQItem 1 VWrongDim 1]);
    QCall 0 (QProbe 9); QCall 0 (QBatchDeleteIds [4; 4; 7]); QRestart; QCall 0 (QProbe 9);
    QCall 0 (QBulkLoad [mkQItem 6 VGood 1; mkQItem 7 VGood 1]) ].
Example C14_nonvacuous_seq :
  snd (qrun_from ex_cfg [] ex_history)
  = [ QOkInsert 1 0; QOkInsert 1 0; QOkInsert 1 0; QErrExhausted; QOkInsert 1 0; QOkExisted true; QErrInternal;
      QOkLoad 2 1; QOkProbe true; QOkBatch 1; QOkRestart; QOkProbe false; QErrExhausted ]
  /\ t_count (tget (qfinal ex_cfg ex_history) 0) = 1 /\ t_live (tget (qfinal ex_cfg ex_history) 0) = [1].
Proof. vm_compute. auto. Qed.
(* the hypotheses of C14_pairs are satisfiable and both calls do return under a fair schedule; here the
   second insert of a different new id is refused because the first one took the last slot *)
Example C14_nonvacuous_pairs :
  let c := crun 2 (repeat false 8 ++ repeat true 8) (cstart 1 [7] (TI (istart 1 true)) (TI (istart 2 true))) in
  quiescent c = true /\ final_count c = 2 /\ final_live c = 2
  /\ match c_b c with TI x => i_refused x | _ => false end = true.
Proof. exact pairs_nonvacuous. Qed.

Print Assumptions C14_count_exact_seq.
Print Assumptions C14_never_above_limit.
Print Assumptions C14_never_refused_below_limit.
Print Assumptions C14_pairs.
Print Assumptions C14_overwrite_delete_refuted.
Print Assumptions C14_delete_batch_delete_refuted.
