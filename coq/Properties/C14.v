(* C14 — tenant vector quotas are exact.  Statements only; proofs live in Proofs/QuotaProofs.v; the
   model is Model/Quota.v (sequential handlers + interleaving model of the quota protocol).
   PARTIAL: sequential histories are proved for every history; concurrency is proved on the
   interleaving model for ANY NUMBER of concurrent calls out of {Insert, BulkInsert, BulkLoadHnsw,
   Delete, BatchDelete}, of one tenant (C14_many_calls) and of any number of tenants
   (C14_many_tenants), every schedule (all five take the per-tenant quota mutex since /repo 3784711).
   Crashes are not covered (restart is modelled at quiescent points); runtime scheduling of the real
   binary is sampled by the harness, not proved.
   The protocol BEFORE 3784711 (Delete / BatchDelete without the mutex) is kept as regression
   documentation: Examples C14_old_protocol_* show the schedules on which it drifted. *)
From Coq Require Import List NArith Bool.
From Kyro Require Import Model.Quota Proofs.QuotaProofs.
Import ListNotations.
Open Scope N_scope.

(* ---- sequential: for EVERY history of RPCs by any tenants (duplicates inside batches, absent ids,
   rejected inputs, engine-rejected items, partial bulk-load failure, probes, restarts), for every
   tenant: the server's count equals the number of the tenant's live documents. *)
Theorem C14_count_exact_seq :
  forall (cfg : qcfg) (es : list qev) (t : N),
  let s := qfinal cfg es in
  t_count (tget s t) = len (t_live (tget s t)) /\ NoDup (t_live (tget s t)).
Proof. intros cfg es t s. destruct (qfinal_good cfg es t) as [A [B _]]. split; assumption. Qed.
(* qfinal is the state the response-producing run ends in *)
Theorem C14_run_state :
  forall cfg es, fst (qrun_from cfg [] es) = qfinal cfg es.
Proof. intros. apply qrun_from_fst. Qed.

Theorem C14_never_above_limit :
  forall (cfg : qcfg) (es : list qev) (t : N),
  len (t_live (tget (qfinal cfg es) t)) <= q_limit cfg t.
Proof. intros cfg es t. destruct (qfinal_good cfg es t) as [A [_ C]]. rewrite <- A. exact C. Qed.

(* after any history, an Insert that passes input validation is refused for quota IFF its id is new
   and the tenant holds exactly `limit` live documents; so an overwrite is never refused and a tenant
   below its limit is never refused *)
Theorem C14_never_refused_below_limit :
  forall (cfg : qcfg) (es : list qev) (t : N) (it : qitem),
  item_admissible it = true ->
  let ts := tget (qfinal cfg es) t in
  (snd (handle cfg t ts (QInsert it)) = QErrExhausted
   <-> (mem (qi_id it) (t_live ts) = false /\ len (t_live ts) = q_limit cfg t)).
Proof. intros cfg es t it Ha ts. apply insert_refused_iff; [apply qfinal_good|exact Ha]. Qed.

(* ---- interleaving model, ANY NUMBER of concurrent calls of one tenant: a list of calls, each an Insert,
   BulkInsert, BulkLoadHnsw, Delete or BatchDelete that has just arrived (same or different ids,
   accepted or engine-rejected vectors, duplicates in batches); the scheduler picks any call at every
   step (a blocked or finished call's turn is a no-op).  At EVERY instant of EVERY schedule:
     count = |live| + dsum   where dsum = the reservations / not yet applied decrements of the calls
                              currently inside their critical sections (gdebt),
     |live| <= count <= limit,  live has no duplicates,
     a call is inside its critical section iff it holds the mutex (so at most one is),
     whenever the mutex is free the count is exact;
   and when every call has returned the count is exact and the mutex is free. *)
Theorem C14_many_calls :
  forall (limit count : N) (live : list N) (ths : list thr) (sched : list nat),
  NoDup live -> count = len live -> count <= limit -> Forall fresh ths ->
  let c := mrun limit sched (mstart count live ths) in
  (sh_count (m_sh c) = len (sh_live (m_sh c)) + dsum (sh_live (m_sh c)) (m_ths c)
   /\ len (sh_live (m_sh c)) <= sh_count (m_sh c) /\ sh_count (m_sh c) <= limit /\ NoDup (sh_live (m_sh c))
   /\ (forall j x, nth_error (m_ths c) j = Some x -> (gin_cs x = true <-> sh_mutex (m_sh c) = Some j))
   /\ (sh_mutex (m_sh c) = None -> sh_count (m_sh c) = len (sh_live (m_sh c))))
  /\ (mquiescent c = true -> sh_count (m_sh c) = len (sh_live (m_sh c)) /\ sh_mutex (m_sh c) = None).
Proof. exact many_calls. Qed.

(* ---- any number of tenants, any number of calls each: every call works on its own tenant's counter,
   documents and mutex; for EVERY tenant t the same invariant holds with dsum taken over t's own calls
   (`view t` shows another tenant's call as an idle one) *)
Theorem C14_many_tenants :
  forall (limit : N -> N) (w0 : N -> shared) (ths : list (N * thr)) (sched : list nat),
  (forall t, NoDup (sh_live (w0 t)) /\ sh_count (w0 t) = len (sh_live (w0 t)) /\ sh_count (w0 t) <= limit t
             /\ sh_mutex (w0 t) = None) ->
  Forall (fun p => fresh (snd p)) ths ->
  let c := wrun limit sched (mkW w0 ths) in
  forall t,
    (sh_count (w_sh c t) = len (sh_live (w_sh c t)) + dsum (sh_live (w_sh c t)) (map (view t) (w_ths c))
     /\ len (sh_live (w_sh c t)) <= sh_count (w_sh c t) /\ sh_count (w_sh c t) <= limit t
     /\ NoDup (sh_live (w_sh c t))
     /\ (sh_mutex (w_sh c t) = None -> sh_count (w_sh c t) = len (sh_live (w_sh c t))))
    /\ (wquiescent c = true -> sh_count (w_sh c t) = len (sh_live (w_sh c t)) /\ sh_mutex (w_sh c t) = None).
Proof. exact many_tenants. Qed.
(* a step of a call of tenant u leaves every other tenant's counter, documents and mutex untouched *)
Theorem C14_other_tenants_untouched :
  forall limit c i u th t,
  nth_error (w_ths c) i = Some (u, th) -> t <> u -> w_sh (wstep limit c i) t = w_sh c t.
Proof. exact wstep_other_tenant. Qed.

(* ---- the two-call instance (the list [a; b]) *)
(* ANY two calls out of Insert, BulkInsert, BulkLoadHnsw, Delete, BatchDelete of
   one tenant (same or different ids, accepted or engine-rejected vectors, duplicates in batches),
   EVERY schedule: at every instant  |live| <= count <= limit;  when both calls have returned the
   count is exact and the mutex is free.  This covers overwrite || delete, bulk_insert || delete,
   bulk_load(new or existing id) || delete, insert(new id) || delete and delete || batch_delete, the
   pairs on which the protocol before /repo 3784711 drifted. *)
Theorem C14_pairs :
  forall (limit count : N) (live : list N) (a b : thr) (sched : list bool),
  NoDup live -> count = len live -> count <= limit -> fresh a -> fresh b ->
  let c := crun limit sched (cstart count live a b) in
  (final_live c <= final_count c /\ final_count c <= limit /\ NoDup (sh_live (c_sh c)))
  /\ (quiescent c = true -> final_count c = final_live c /\ sh_mutex (c_sh c) = None).
Proof. exact pairs_all. Qed.
(* what `fresh` ranges over: every kind of write call of the CURRENT protocol, just arrived *)
Theorem C14_pairs_cover_all_calls :
  forall id ok rest items ids,
  fresh (TI (istart id ok)) /\ fresh (TBI (istart id ok) rest) /\ fresh (TL (lstart items))
  /\ fresh (TD (dstart id)) /\ fresh (TB (bstart ids)).
Proof.
  intros. unfold fresh. repeat split.
  - left. eauto.
  - right. left. eauto.
  - right. right. left. eauto.
  - right. right. right. left. eauto.
  - right. right. right. right. eauto.
Qed.

(* ---- REGRESSION DOCUMENTATION (not claims about the current code): the OLD protocol, in which
   Delete / BatchDelete ran without the quota mutex (dstart_old / bstart_old), drifts: a schedule from an
   exact state that ends, both calls returned, with the count ONE SHORT of the live documents, so the
   next new id is admitted past the limit.  Reproduced on the real binary before the repair
   (52 of 674 race repetitions); see known_findings.json `fixed:` 3784711. *)
Definition drifts (a b : thr) : Prop :=
  exists (limit count : N) (live : list N) (sched : list bool),
    count = len live /\ count <= limit /\
    let c := crun limit sched (cstart count live a b) in
    quiescent c = true /\ final_count c + 1 = final_live c.

Example C14_old_protocol_overwrite_delete_drift : drifts (TI (istart 1 true)) (TD (dstart_old 1)).
Proof.
  exists 2, 2, [1; 2], w_overwrite_delete. destruct old_overwrite_delete_witness as [A [B [C D]]].
  split; [exact A|]. split; [discriminate|]. cbv zeta in *. split; [exact B|]. rewrite C, D. reflexivity.
Qed.
Example C14_old_protocol_bulk_insert_delete_drift : drifts (TBI (istart 1 true) []) (TD (dstart_old 1)).
Proof.
  exists 2, 2, [1; 2], w_overwrite_delete. destruct old_bulk_insert_delete_witness as [A [B [C D]]].
  split; [exact A|]. split; [discriminate|]. cbv zeta in *. split; [exact B|]. rewrite C, D. reflexivity.
Qed.
Example C14_old_protocol_bulk_load_overwrite_delete_drift : drifts (TL (lstart [(1, true)])) (TD (dstart_old 1)).
Proof.
  exists 2, 2, [1; 2], w_load_over_delete. destruct old_bulk_load_overwrite_delete_witness as [A [B [C D]]].
  split; [exact A|]. split; [discriminate|]. cbv zeta in *. split; [exact B|]. rewrite C, D. reflexivity.
Qed.
Example C14_old_protocol_bulk_load_new_delete_drift : drifts (TL (lstart [(1, true)])) (TD (dstart_old 1)).
Proof.
  exists 2, 1, [2], w_load_new_delete. destruct old_bulk_load_new_delete_witness as [A [B [C D]]].
  split; [exact A|]. split; [discriminate|]. cbv zeta in *. split; [exact B|]. rewrite C, D. reflexivity.
Qed.
Example C14_old_protocol_insert_new_delete_drift : drifts (TI (istart 1 true)) (TD (dstart_old 1)).
Proof.
  exists 2, 1, [2], w_insert_new_delete. destruct old_insert_new_delete_witness as [A [B [C D]]].
  split; [exact A|]. split; [discriminate|]. cbv zeta in *. split; [exact B|]. rewrite C, D. reflexivity.
Qed.
Example C14_old_protocol_delete_batch_delete_drift : drifts (TB (bstart_old [1])) (TD (dstart_old 1)).
Proof.
  exists 2, 2, [1; 2], w_delete_batch. destruct old_delete_batch_delete_witness as [A [B [C D]]].
  split; [exact A|]. split; [discriminate|]. cbv zeta in *. split; [exact B|]. rewrite C, D. reflexivity.
Qed.

(* ---- non-vacuity *)
(* a history with limit 2 for tenant 0 (cosine): fill, refusal of a new id, overwrite admitted,
   engine-rejected zero vector released, bulk load with a duplicate new id and an engine-rejected item, batch delete
   with a duplicate and an absent id, restart, probe *)
Definition ex_cfg : qcfg := mkQCfg (fun t => if t =? 0 then 2 else 5) true.
Definition ex_history : list qev :=
  [ QCall 0 (QInsert (mkQItem 1 VGood 1)); QCall 1 (QInsert (mkQItem 1 VGood 1));
    QCall 0 (QInsert (mkQItem 2 VGood 2)); QCall 0 (QInsert (mkQItem 3 VGood 1));
    QCall 0 (QInsert (mkQItem 1 VGood 3)); QCall 0 (QDelete 2); QCall 0 (QInsert (mkQItem 3 VZero 1));
    QCall 0 (QBulkLoad [mkQItem 4 VGood 1; mkQItem 4 VGood 2; mkQItem 1 VWrongDim 1]);
    QCall 0 (QProbe 9); QCall 0 (QBatchDeleteIds [4; 4; 7]); QRestart; QCall 0 (QProbe 9);
    QCall 0 (QBulkLoad [mkQItem 6 VGood 1; mkQItem 7 VGood 1]) ].
Example C14_nonvacuous_seq :
  snd (qrun_from ex_cfg [] ex_history)
  = [ QOkInsert 1 0; QOkInsert 1 0; QOkInsert 1 0; QErrExhausted; QOkInsert 1 0; QOkExisted true; QErrInternal;
      QOkLoad 2 1; QOkProbe true; QOkBatch 1; QOkRestart; QOkProbe false; QErrExhausted ]
  /\ t_count (tget (qfinal ex_cfg ex_history) 0) = 1 /\ t_live (tget (qfinal ex_cfg ex_history) 0) = [1].
Proof. vm_compute. auto. Qed.
(* the hypotheses of C14_pairs are satisfiable and both calls do return under a fair schedule; here the
   second insert of a different new id is refused because the first one took the last slot *)
Example C14_nonvacuous_pairs :
  let c := crun 2 (repeat false 8 ++ repeat true 8) (cstart 1 [7] (TI (istart 1 true)) (TI (istart 2 true))) in
  quiescent c = true /\ final_count c = 2 /\ final_live c = 2
  /\ match c_b c with TI x => i_refused x | _ => false end = true.
Proof. exact pairs_nonvacuous. Qed.
(* overwrite || delete on the schedule prefix that made the old protocol drift: the delete now blocks
   on the mutex until the overwrite has unlocked; both return, the count is exact *)
Example C14_nonvacuous_overwrite_delete :
  let c := crun 2 ([false; false; true; true; true] ++ repeat false 6 ++ repeat true 6)
                (cstart 2 [1; 2] (TI (istart 1 true)) (TD (dstart 1))) in
  quiescent c = true /\ final_count c = 1 /\ final_live c = 1.
Proof. exact pairs_nonvacuous_delete. Qed.

(* three calls of one tenant at limit 2 with one live document: overwrite of 1, delete of 1, insert of
   a new id 3, under a round-robin schedule; all return, the count is exact *)
Example C14_nonvacuous_many_calls :
  let c := mrun 2 (concat (repeat [0; 1; 2]%nat 30))
                (mstart 1 [1] [TI (istart 1 true); TD (dstart 1); TI (istart 3 true)]) in
  mquiescent c = true /\ sh_count (m_sh c) = len (sh_live (m_sh c)) /\ sh_mutex (m_sh c) = None
  /\ Forall fresh [TI (istart 1 true); TD (dstart 1); TI (istart 3 true)].
Proof.
  split; [vm_compute; reflexivity|]. split; [vm_compute; reflexivity|]. split; [vm_compute; reflexivity|].
  constructor; [left; eauto|]. constructor; [right; right; right; left; eauto|]. constructor; [left; eauto|constructor].
Qed.

Print Assumptions C14_count_exact_seq.
Print Assumptions C14_never_above_limit.
Print Assumptions C14_never_refused_below_limit.
Print Assumptions C14_many_calls.
Print Assumptions C14_many_tenants.
Print Assumptions C14_other_tenants_untouched.
Print Assumptions C14_pairs.
Print Assumptions C14_pairs_cover_all_calls.
Print Assumptions C14_old_protocol_overwrite_delete_drift.
