(* C19 — rate limits bound admitted traffic.  Statements only; proofs live in Proofs/RateLimitProofs.v.
   The events of `crun` are the atomic, mutex-protected bucket steps of any number of concurrent
   check_limit calls in ANY interleaving (Model/RateLimit.v); `Tick dt` is the passage of time. *)
From Coq Require Import QArith List NArith ZArith.
From Kyro Require Import Model.RateLimit Proofs.RateLimitProofs.
Import ListNotations.
Open Scope Q_scope.

(* Per-tenant bound: admitted <= burst capacity + rate * interval, for every interleaving. *)
Theorem C19_tenant_bound : forall (g : option N) (evs : list ev) (s : cstate) (t : N) (b : bucket),
  crun (cinit g) evs = Some s ->
  t_get (l_tenants (c_lim s)) t = Some b ->
  qn (admitted_t (c_calls s) t) <= b_cap b + b_rate b * elapsed evs.
Proof. exact tenant_bound. Qed.

(* A tenant that has no bucket has been admitted nothing. *)
Theorem C19_tenant_none : forall (g : option N) (evs : list ev) (s : cstate) (t : N),
  crun (cinit g) evs = Some s ->
  t_get (l_tenants (c_lim s)) t = None -> admitted_t (c_calls s) t = 0%nat.
Proof. exact tenant_none_admitted. Qed.

(* Global bound over all tenants together. *)
Theorem C19_global_bound : forall (q : N) (evs : list ev) (s : cstate) (g : bucket),
  crun (cinit (Some q)) evs = Some s ->
  l_global (c_lim s) = Some g ->
  qn (admitted_all (c_calls s)) <= b_cap g + b_rate g * elapsed evs.
Proof. exact global_bound. Qed.

(* A request refused by the global limit does not consume the tenant's own budget. *)
Theorem C19_refund_neutral : forall l t qps b g l',
  t_get (l_tenants l) t = Some b -> l_global l = Some g ->
  bucket_ok b (l_now l) ->
  Qle_bool 1 (b_tokens (refill b (l_now l))) = true ->
  Qle_bool 1 (b_tokens (refill g (l_now l))) = false ->
  check_limit l t qps = (l', false) ->
  exists b', t_get (l_tenants l') t = Some b' /\
             b_tokens b' == b_tokens (refill b (l_now l)) /\ b_cap b' = b_cap b.
Proof. exact refund_neutral. Qed.

(* A tenant below its rate is not refused while the global budget has room. *)
Theorem C19_no_starvation : forall l t qps b,
  t_get (l_tenants l) t = Some b ->
  Qle_bool 1 (b_tokens (refill b (l_now l))) = true ->
  (forall g, l_global l = Some g -> Qle_bool 1 (b_tokens (refill g (l_now l))) = true) ->
  snd (check_limit l t qps) = true.
Proof. exact no_starvation. Qed.

Theorem C19_fresh_tenant : forall l t qps,
  t_get (l_tenants l) t = None -> (1 <= qps)%N ->
  (forall g, l_global l = Some g -> Qle_bool 1 (b_tokens (refill g (l_now l))) = true) ->
  snd (check_limit l t qps) = true.
Proof. exact fresh_tenant_full. Qed.

(* Non-vacuity: a concrete two-caller interleaving with a refund is a run of the semantics, admits
   exactly 1 request for tenant 7 and the bound is tight there (cap 1, no time elapsed). *)
Definition ex_evs : list ev :=
  [TTry 0 7 1; TTry 1 8 5; GTry 1; GTry 0; Refund 0; Tick (1#2); TTry 2 7 1; GTry 2]%N.

Example C19_nonvacuous :
  exists s, crun (cinit (Some 1%N)) ex_evs = Some s /\
            admitted_t (c_calls s) 8%N = 1%nat /\ admitted_t (c_calls s) 7%N = 0%nat /\
            admitted_all (c_calls s) = 1%nat.
Proof. eexists. split; [vm_compute; reflexivity|]. vm_compute. auto. Qed.

Print Assumptions C19_tenant_bound.
Print Assumptions C19_tenant_none.
Print Assumptions C19_global_bound.
Print Assumptions C19_refund_neutral.
Print Assumptions C19_no_starvation.
Print Assumptions C19_fresh_tenant.
