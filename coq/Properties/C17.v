(* C17 — unsafe index and SIMD code stays in bounds (PARTIAL: index arithmetic and guard logic only).
   Statements only; proofs live in Proofs/C17Proofs.v (+ Proofs/StridedProofs.v).
   gen/Simd_gen.v, gen/Packed_gen.v, gen/Guards_gen.v are REGENERATED from /repo by harness/p/xl17 on every
   run; these theorems are re-checked against them.
   NOT expressible here (no Gallina model exhibits them): use-after-free, aliasing / re-entrancy of the
   thread-local search scratch, data races between readers and a writer, alignment, validity of the bytes
   read.  The H4 asserts + guard pages (+ ASan in the thorough tier) exercised by harness/p/c17 are the search
   for a failing input, not part of the proof. *)
From Coq Require Import NArith List Bool String.
From Kyro Require Import Model.Strided Model.PackedBase Model.Packed gen.Simd_gen gen.Packed_gen gen.Guards_gen
  Proofs.StridedProofs Proofs.C17Proofs.
Import ListNotations.
Open Scope N_scope.

(* Every load / element read of every unsafe kernel of simd.rs lies inside [0, len), for EVERY len
   (0, 1, W-1, W+1, non-multiples of the lane width, ...). *)
Theorem C17_simd_in_bounds : forall kernel len, In kernel Simd_gen.kernels ->
  Forall (fun '(o, w) => o + w <= len) (accesses kernel len).
Proof. exact simd_in_bounds'. Qed.

(* vector stores into the kernels' fixed-size temporaries stay inside them *)
Theorem C17_simd_local_stores : forall name f len, In (name, f) Simd_gen.local_stores ->
  forallb local_ok (f len) = true.
Proof. exact simd_local_stores_ok. Qed.

(* every kernel table handed out by detect_best_f32_kernels is guarded by the detection of every CPU feature
   its kernels are compiled with *)
Theorem C17_simd_dispatch : Simd_gen.dispatch_features_ok = true.
Proof. exact simd_dispatch_ok. Qed.

(* constructor and append establish / preserve: data.len() = n * record_words, the neighbour block and the
   vector fit in a record; push_node's own writes are in bounds (it cannot panic) and it returns id n *)
Theorem C17_packed_layout : forall cap dim, pl0_wf (PackedLevel0_new cap dim) 0.
Proof. exact pl0_new_wf. Qed.

Theorem C17_packed_append : forall s n rd nd e, pl0_wf s n ->
  let r := PackedLevel0_push_node s rd nd e in
  pl0_wf (m_state r) (n + 1) /\ Forall (fun a => pacc_ok a = true) (m_accs r) /\ m_val r = Some (as_u32 n).
Proof. exact pl0_push_node_ok. Qed.

(* under dense_id < len, idx < cap every unchecked read is inside data (= len * record_words words);
   vector_at_unchecked hands out exactly `dimension` words inside the record; record_ptr stays inside *)
Theorem C17_packed_in_bounds : forall s n rd nd d idx,
  pl0_wf s n -> d < n -> idx < PackedLevel0_cap s ->
  Forall (fun a => pacc_ok a = true) (m_accs (PackedLevel0_count_unchecked s rd nd d)) /\
  Forall (fun a => pacc_ok a = true) (m_accs (PackedLevel0_neighbor_unchecked s rd nd d idx)) /\
  Forall (fun a => pacc_ok a = true) (m_accs (PackedLevel0_vector_at_unchecked s rd nd d)) /\
  In (mk_pacc true arr_PackedLevel0_data (d * PackedLevel0_record_words s + PackedLevel0_vector_offset_words s)
        (PackedLevel0_dimension s) (PackedLevel0_data_len s))
     (m_accs (PackedLevel0_vector_at_unchecked s rd nd d)) /\
  Forall (fun a => pacc_ok a = true) (m_accs (PackedLevel0_record_ptr s rd nd d)).
Proof.
  intros s n rd nd d idx Hwf Hd Hi.
  pose proof (pl0_count_unchecked_ok s n rd nd d Hwf Hd) as [H1 _].
  pose proof (pl0_vector_at_unchecked_ok s n rd nd d Hwf Hd) as [H3 H4].
  repeat split; auto.
  - exact (pl0_neighbor_unchecked_ok s n rd nd d idx Hwf Hd Hi).
  - exact (pl0_record_ptr_ok s n rd nd d Hwf Hd).
Qed.

(* the checked twin vector_at ends in an unchecked from_raw_parts: safe for EVERY dense_id under the invariant *)
Theorem C17_packed_checked_twin : forall s n rd nd d, pl0_wf s n ->
  Forall (fun a => pacc_safe a = true) (m_accs (PackedLevel0_vector_at s rd nd d)).
Proof. exact pl0_vector_at_safe. Qed.

(* prepare(node_count, _) sizes the bitset; afterwards the unchecked mark of any dense_id < node_count (a u32)
   is in bounds and leaves the length alone *)
Theorem C17_visited_bitset : forall s rd nd nc t d, d < nc -> d < 4294967296 ->
  let s' := m_state (FlatSearchScratch_prepare s rd nd nc t) in
  Forall (fun a => pacc_ok a = true) (m_accs (FlatSearchScratch_mark_if_unvisited_unchecked s' rd nd d)) /\
  m_state (FlatSearchScratch_mark_if_unvisited_unchecked s' rd nd d) = s'.
Proof. intros s rd nd nc t d Hd Hu s'. exact (mark_unchecked_ok s' rd nd nc d (prepare_len s rd nd nc t) Hd Hu). Qed.

(* C17_search_guard: in the hand model over an ARBITRARY array (ids read from it are arbitrary numbers), for
   every oracle (heap order, distances, cancellation), every fuel: each id that reaches an unchecked accessor
   was compared against node_count (or comes from a bounded loop / a heap of such ids) *)
Theorem C17_search_guard : forall w o fuel layers e0, 0 < w_nc w ->
  Forall (fun e => ev_okb w e = true) (search_fp32 w o fuel layers e0).
Proof. exact search_fp32_guarded. Qed.

Theorem C17_insert_search_guard : forall w o fuel upper layers e0, 0 < w_nc w ->
  Forall (fun e => ev_okb w e = true) (insert_search w o fuel upper layers e0).
Proof. exact insert_search_guarded. Qed.

Theorem C17_neighbor_selection_guard : forall w o t cands target incoming current,
  Forall (fun e => ev_okb w e = true) (fst (select_diverse w o t cands)) /\
  Forall (fun e => ev_okb w e = true) (merge_prune w o t target incoming current).
Proof. intros. split; [apply select_diverse_guarded | apply merge_prune_guarded]. Qed.

(* ... hence every access the regenerated unchecked accessors perform during a search is in bounds *)
Theorem C17_search_in_bounds : forall w sc n o fuel layers e0,
  pl0_wf (w_l0 w) n -> 0 < w_nc w -> w_nc w <= n -> w_nc w <= 4294967296 ->
  (sat_add (w_nc w) 63) / 64 <= FlatSearchScratch_visited_bits_len sc ->
  Forall (fun a => pacc_ok a = true) (flat_map (ev_accs w sc) (search_fp32 w o fuel layers e0)).
Proof.
  intros w sc n o fuel layers e0 Hwf H0 Hn Hu Hsc.
  apply (guarded_trace_in_bounds w sc n); auto. apply search_fp32_guarded. exact H0.
Qed.

(* the tie of the hand model to the source, decided by evaluation on the regenerated guard report *)
Theorem C17_guards_complete :
  Guards_gen.all_sites_guarded = true /\
  covers Guards_gen.site_pairs model_sites = true /\ covers model_sites Guards_gen.site_pairs = true /\
  Guards_gen.len_invariant_structure_ok = true /\ Guards_gen.dimension_guards_ok = true.
Proof. exact guards_complete. Qed.

(* ---- non-vacuity ---- *)
(* a store with cap 8, dimension 3 and two appended nodes satisfies the invariant with n = 2 ... *)
(* record 0 (words 0..15): count 2, neighbours [1; 9];  record 1 (words 16..31): count 3, neighbours [0; 4294967295; 7] *)
Definition ex_rd (arr i : N) : N :=
  match i with 0 => 2 | 1 => 1 | 2 => 9 | 16 => 3 | 17 => 0 | 18 => 4294967295 | 19 => 7 | _ => 5 end.
Definition ex_nd (_ : N) : bool := false.
Definition ex_l0 : PackedLevel0 :=
  m_state (PackedLevel0_push_node (m_state (PackedLevel0_push_node (PackedLevel0_new 8 3) ex_rd ex_nd 3)) ex_rd ex_nd 3).
Example C17_nonvacuous_layout : pl0_wf ex_l0 2 /\ PackedLevel0_record_words ex_l0 = 16 /\ PackedLevel0_data_len ex_l0 = 32.
Proof. unfold pl0_wf. vm_compute. repeat split; discriminate. Qed.

(* ... a search over it with garbage neighbour ids (9, 7, 4294967295 are >= node_count 2) does reach the
   unchecked accessors with the valid ids 0 and 1, and the out-of-range ids never get past the guard *)
Definition ex_w : world := mk_world ex_l0 ex_rd ex_nd 2.
Definition ex_o : oracle := mk_oracle (fun _ _ => 0%nat) (fun _ => false) (fun _ _ => false) (fun _ _ => true)
  (fun _ _ => true) (fun _ _ => true) (fun _ _ => [9; 1]) (fun _ _ => 0%nat).
Example C17_nonvacuous_search :
  let tr := search_fp32 ex_w ex_o 6 1 99 in
  (8 <=? N.of_nat (List.length tr)) = true /\
  existsb (fun e => match e with ENeighbor 1 2 => true | _ => false end) tr = true /\
  existsb (fun e => match e with EMark 0 => true | _ => false end) tr = true /\
  existsb (fun e => match e with EVector 0 => true | _ => false end) tr = true /\
  existsb (fun e => match e with EMark 1 => true | _ => false end) tr = true /\
  existsb (fun e => match e with
                    | EVector 7 | EMark 7 | EVector 9 | EMark 9 | EVector 5 | EMark 5
                    | EVector 4294967295 | EMark 4294967295 | ECount 9 | ECount 7 => true
                    | _ => false end) tr = false.
Proof. vm_compute. repeat split. Qed.

(* ... and the SIMD access lists are not empty: the AVX2 dot kernel at len 19 does 2*2 vector loads and 2*3 tail reads *)
Example C17_nonvacuous_simd :
  List.length (accesses_dot_f32_avx2 19) = 10%nat /\ List.length (accesses_dot_f32_avx2 0) = 0%nat /\
  In (16, 1) (accesses_dot_f32_avx2 19) /\ In (8, 8) (accesses_dot_f32_avx2 19) /\ (1 <=? Simd_gen.kernel_count) = true.
Proof. vm_compute. repeat split; auto 12. Qed.

Print Assumptions C17_simd_in_bounds.
Print Assumptions C17_simd_local_stores.
Print Assumptions C17_packed_append.
Print Assumptions C17_packed_in_bounds.
Print Assumptions C17_packed_checked_twin.
Print Assumptions C17_visited_bitset.
Print Assumptions C17_search_guard.
Print Assumptions C17_insert_search_guard.
Print Assumptions C17_neighbor_selection_guard.
Print Assumptions C17_search_in_bounds.
Print Assumptions C17_guards_complete.
