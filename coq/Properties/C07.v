(* C07 — the query-result cache never serves stale or foreign results.  Statements only; proofs in
   Proofs/QCacheProofs.v, QCacheInv.v, QCacheEngine.v; model in Model/QCache.v.
   All distance comparisons are in sqrt-free squared form over exact rationals (see the "SQ:"
   comments of the model):  dist_le m q x w = "distance_m(q,x) <= w",  dist_lt = "... < w". *)
From Coq Require Import QArith List NArith ZArith Bool Arith Sorting.Sorted.
From Kyro Require Import Model.QCache Proofs.QCacheProofs Proofs.QCacheInv Proofs.QCacheEngine Proofs.QCacheKnn.
Import ListNotations.
Open Scope Q_scope.

(* The invalidation prefilter is sound: for every metric, all vectors of equal length, every
   prefix length and every boundary, "cannot affect" implies distance(q,x) > worst. *)
Theorem C07_prefilter_sound : forall (m : metric) (p : nat) (q x : vec) (w : Q),
  length q = length x ->
  can_affect m p q x w = false -> dist_le m q x w = false.
Proof. exact prefilter_sound. Qed.

(* Cauchy-Schwarz over lists of rationals, the lemma the cosine / inner-product cases rest on. *)
Theorem C07_cauchy_schwarz : forall a b : vec, dot a b * dot a b <= sumsq a * sumsq b.
Proof. exact cauchy_schwarz. Qed.

(* Every cached entry is valid after every sequential history, for each metric, relative to an
   abstract exact k-NN oracle (premises O_live, O_len, O_sorted, O_omit) whose reported distances are
   related to vectors by an arbitrary relation isd. *)
Theorem C07_entry_valid : forall (m : metric) (isd : vec -> vec -> Q -> Prop)
    (fresh_search : collection -> vec -> nat -> list result) (cfg : config),
  (forall c q k id d, In (id, d) (fresh_search c q k) -> exists v, c_get c id = Some v /\ isd q v d) ->
  (forall c q k, (length (fresh_search c q k) <= k)%nat) ->
  (forall c q k, StronglySorted rle (fresh_search c q k)) ->
  (forall c q k id v, (1 <= k)%nat -> c_get c id = Some v -> ~ In id (map fst (fresh_search c q k)) ->
       length (fresh_search c q k) = k /\
       exists w, worst (fresh_search c q k) = Some w /\ dist_lt m q v w = false) ->
  forall (ops : list eop) (e : entry),
  let st := erun (pre_m m) (dist_le m) fresh_search cfg einit ops in
  In e (s_entries (e_cache st)) -> Valid (dist_lt m) isd (e_coll st) e.
Proof.
  intros m isd fs cfg O1 O2 Os O3.
  exact (entry_valid (pre_m m) (dist_le m) (dist_lt m) isd fs cfg (pre_m_sound m) (dist_lt_le m) O1 O2 Os O3).
Qed.

(* An engine cache hit is the k-prefix of a valid entry stored under the request's own scope with
   k <= requested_k. *)
Theorem C07_hit_valid : forall (m : metric) (isd : vec -> vec -> Q -> Prop)
    (fresh_search : collection -> vec -> nat -> list result) (cfg : config),
  (forall c q k id d, In (id, d) (fresh_search c q k) -> exists v, c_get c id = Some v /\ isd q v d) ->
  (forall c q k, (length (fresh_search c q k) <= k)%nat) ->
  (forall c q k, StronglySorted rle (fresh_search c q k)) ->
  (forall c q k id v, (1 <= k)%nat -> c_get c id = Some v -> ~ In id (map fst (fresh_search c q k)) ->
       length (fresh_search c q k) = k /\
       exists w, worst (fresh_search c q k) = Some w /\ dist_lt m q v w = false) ->
  forall (ops : list eop) (scope : N) (q : vec) (k : nat) (r : list result) (st' : estate),
  let st := erun (pre_m m) (dist_le m) fresh_search cfg einit ops in
  estep (pre_m m) (dist_le m) fresh_search cfg st (ESearch scope q k) = (st', RHit r) ->
  exists e, In e (s_entries (e_cache st)) /\ Valid (dist_lt m) isd (e_coll st) e /\
            e_scope e = scope /\ (k <= e_kreq e)%nat /\ r = firstn k (e_results e).
Proof.
  intros m isd fs cfg O1 O2 Os O3.
  exact (hit_valid (pre_m m) (dist_le m) (dist_lt m) isd fs cfg (pre_m_sound m) (dist_lt_le m) O1 O2 Os O3).
Qed.

(* Scope and k, on BOTH lookup paths of get_scoped, in every reachable cache state. *)
Theorem C07_scope : forall (cfg : config) (ops : list op) (scope : N) (q : vec) (k : nat) (r : list result),
  let s := run_state cfg empty ops in
  snd (get_scoped cfg s scope q k) = Some r ->
  exists e, In e (s_entries s) /\ e_scope e = scope /\ (k <= e_kreq e)%nat /\
            r = firstn k (e_results e).
Proof. exact served_scope_k. Qed.

(* both lookup paths of the cache: an entry is used only for k <= requested_k and exactly its
   k-prefix is served *)
Theorem C07_k_prefix_served : forall (cfg : config) (ops : list op) (scope : N) (q : vec) (k : nat) (r : list result),
  let s := run_state cfg empty ops in
  snd (get_scoped cfg s scope q k) = Some r ->
  exists e, In e (s_entries s) /\ (k <= e_kreq e)%nat /\ r = firstn k (e_results e).
Proof.
  intros cfg ops scope q k r s H. destruct (served_scope_k cfg ops scope q k r H) as [e [A [_ [B C]]]].
  exists e. auto.
Qed.

(* C07_k_monotone (full): an engine cache hit for k >= 1 uses an entry stored for k_req >= k, serves
   exactly its k-prefix, and that k-prefix is itself a valid answer for k (Valid of the entry cut to
   k: only live ids with their current reported distance, no live document strictly inside the
   PREFIX's own boundary, the prefix full and sorted).  Oracle premises: exact k-NN (O_live, O_len,
   O_omit), results sorted non-decreasingly by reported distance (O_sorted), and the reported
   distance is the one the cache compares (a document reported at d is not strictly inside any
   boundary w <= d).  Monotonicity of dist_lt in the boundary is proved (dist_lt_mono). *)
Theorem C07_k_monotone : forall (m : metric) (isd : vec -> vec -> Q -> Prop)
    (fresh_search : collection -> vec -> nat -> list result) (cfg : config),
  (forall c q k id d, In (id, d) (fresh_search c q k) -> exists v, c_get c id = Some v /\ isd q v d) ->
  (forall c q k, (length (fresh_search c q k) <= k)%nat) ->
  (forall c q k, StronglySorted rle (fresh_search c q k)) ->
  (forall c q k id v, (1 <= k)%nat -> c_get c id = Some v -> ~ In id (map fst (fresh_search c q k)) ->
       length (fresh_search c q k) = k /\
       exists w, worst (fresh_search c q k) = Some w /\ dist_lt m q v w = false) ->
  (forall q v d w, isd q v d -> w <= d -> dist_lt m q v w = false) ->
  forall (ops : list eop) (scope : N) (q : vec) (k : nat) (r : list result) (st' : estate),
  let st := erun (pre_m m) (dist_le m) fresh_search cfg einit ops in
  (1 <= k)%nat ->
  estep (pre_m m) (dist_le m) fresh_search cfg st (ESearch scope q k) = (st', RHit r) ->
  exists e, In e (s_entries (e_cache st)) /\ e_scope e = scope /\ (k <= e_kreq e)%nat /\
            r = firstn k (e_results e) /\ Valid (dist_lt m) isd (e_coll st) e /\
            Valid (dist_lt m) isd (e_coll st) (prefix_entry e k) /\ e_results (prefix_entry e k) = r.
Proof.
  intros m isd fs cfg O1 O2 Os O3 Hi.
  exact (k_monotone (pre_m m) (dist_le m) (dist_lt m) isd fs cfg (pre_m_sound m) (dist_lt_le m)
                    O1 O2 Os O3 (dist_lt_mono m) Hi).
Qed.

(* (b) of the above, on its own: "not strictly inside w" is monotone in the boundary *)
Theorem C07_dist_lt_mono : forall (m : metric) (q v : vec) (w w' : Q),
  dist_lt m q v w = false -> w' <= w -> dist_lt m q v w' = false.
Proof. exact dist_lt_mono. Qed.

(* One searcher, one writer, any interleaving: a result computed before a generation bump is never
   stored after it. *)
Theorem C07_no_store_after_invalidate : forall (pre dle : vec -> vec -> Q -> bool)
    (fresh_search : collection -> vec -> nat -> list result) (cfg : config) (evs : list iev) (s : istate),
  irun pre dle fresh_search cfg iinit evs = Some s ->
  forall out, In (true, out) (i_log s) -> out = SkippedGeneration.
Proof. exact no_store_after_invalidate. Qed.

(* A hit is either the same quantisation cell (every component within 2^-15 of the stored query's)
   or more similar than the threshold.  Only remaining premise: for the request and the stored
   queries, |val| * 32768 <= f32::MAX (the scaled value is finite in f32), `fin_scaled`. *)
Theorem C07_hit_same_or_similar : forall (cfg : config) (ops : list op) (scope : N) (q : vec) (k : nat)
    (r : list result),
  let s := run_state cfg empty ops in
  fin_scaled q = true -> (forall e, In e (s_entries s) -> fin_scaled (e_query e) = true) ->
  snd (get_scoped cfg s scope q k) = Some r ->
  exists e, In e (s_entries s) /\ e_scope e = scope /\ (k <= e_kreq e)%nat /\
            r = firstn k (e_results e) /\
            (Forall2 near1 q (e_query e) \/ c_thr cfg * c_thr cfg < cos_ssq q (e_query e)).
Proof. exact hit_same_or_similar. Qed.

Definition sat_cfg : config := mkCfg 4 1 2000.
Definition sat_ops : list op := [OInsert 0 [5; 3] [(1%N, 0)] 1].

(* REGRESSION WITNESS ABOUT THE OLD QUANTISATION (`... as i16`, before /repo 6ba2bfe): outside the
   unit box the saturating cast gave the dissimilar queries [2;7] and [5;3] one key; with the
   current quantisation the keys differ and get([2;7]) after insert([5;3]) is a miss. *)
Example C07_old_quantisation_saturates :
  quantise_old [2; 7] = quantise_old [5; 3] /\ ~ Forall2 near1 [2; 7] [5; 3] /\
  quantise [2; 7] <> quantise [5; 3] /\
  snd (get_scoped sat_cfg (run_state sat_cfg empty sat_ops) 0 [2; 7] 1) = None.
Proof. exact old_quantisation_saturates. Qed.

(* Size bound (C20): every reachable cache state holds at most `capacity` entries. *)
Theorem qcache_len_bound : forall (cfg : config) (ops : list op),
  (1 <= c_cap cfg)%nat -> (length (s_entries (run_state cfg empty ops)) <= c_cap cfg)%nat.
Proof. exact len_bound. Qed.

(* capacity 0 breaks the bound (KyroDbConfig::validate refuses it) *)
Example qcache_cap0_unbounded :
  length (s_entries (run_state (mkCfg 0 1 2000) empty [OInsert 0 [1] [(1%N, 0)] 1])) = 1%nat.
Proof. vm_compute. reflexivity. Qed.

(* ---- non-vacuity ---- *)

(* the oracle premises of C07_entry_valid / C07_hit_valid are satisfiable: an executable exact
   k-NN (insertion sort over the live documents, inner-product metric, isd q v d := d = 1 - <q,v>)
   satisfies all of them (incl. sortedness and the distance link of C07_k_monotone), so the theorems
   apply to it with no premise left *)
Example C07_oracle_premises_satisfiable :
  (forall c q k id d, In (id, d) (ip_knn c q k) -> exists v, c_get c id = Some v /\ ip_isd q v d) /\
  (forall c q k, (length (ip_knn c q k) <= k)%nat) /\
  (forall c q k, StronglySorted rle (ip_knn c q k)) /\
  (forall c q k id v, (1 <= k)%nat -> c_get c id = Some v -> ~ In id (map fst (ip_knn c q k)) ->
       length (ip_knn c q k) = k /\
       exists w, worst (ip_knn c q k) = Some w /\ dist_lt InnerProduct q v w = false) /\
  (forall q v d w, ip_isd q v d -> w <= d -> dist_lt InnerProduct q v w = false).
Proof.
  split; [exact ip_knn_live|]. split; [exact ip_knn_len|]. split; [exact ip_knn_sorted|].
  split; [exact ip_knn_omit|exact ip_isd_lt].
Qed.

Corollary C07_entry_valid_ip : forall (cfg : config) (ops : list eop) (e : entry),
  let st := erun (pre_m InnerProduct) (dist_le InnerProduct) ip_knn cfg einit ops in
  In e (s_entries (e_cache st)) -> Valid (dist_lt InnerProduct) ip_isd (e_coll st) e.
Proof.
  intro cfg. exact (C07_entry_valid InnerProduct ip_isd ip_knn cfg ip_knn_live ip_knn_len ip_knn_sorted ip_knn_omit).
Qed.

Corollary C07_k_monotone_ip : forall (cfg : config) (ops : list eop) (scope : N) (q : vec) (k : nat)
    (r : list result) (st' : estate),
  let st := erun (pre_m InnerProduct) (dist_le InnerProduct) ip_knn cfg einit ops in
  (1 <= k)%nat ->
  estep (pre_m InnerProduct) (dist_le InnerProduct) ip_knn cfg st (ESearch scope q k) = (st', RHit r) ->
  exists e, In e (s_entries (e_cache st)) /\ e_scope e = scope /\ (k <= e_kreq e)%nat /\
            r = firstn k (e_results e) /\ Valid (dist_lt InnerProduct) ip_isd (e_coll st) e /\
            Valid (dist_lt InnerProduct) ip_isd (e_coll st) (prefix_entry e k) /\
            e_results (prefix_entry e k) = r.
Proof.
  intro cfg. exact (C07_k_monotone InnerProduct ip_isd ip_knn cfg ip_knn_live ip_knn_len ip_knn_sorted
                                   ip_knn_omit ip_isd_lt).
Qed.

(* a hit for k = 1 served from an entry stored for k = 2: the hypotheses of C07_k_monotone_ip are met *)
Example C07_k_monotone_nonvacuous :
  let st := erun (pre_m InnerProduct) (dist_le InnerProduct) ip_knn sat_cfg einit
                 [EInsert 1 [1; 0]; EInsert 2 [0; 1]; EInsert 3 [-1; 0]; ESearch 0 [1; 0] 2] in
  snd (estep (pre_m InnerProduct) (dist_le InnerProduct) ip_knn sat_cfg st (ESearch 0 [1; 0] 1)) = RHit [(1%N, 0)] /\
  map e_kreq (s_entries (e_cache st)) = [2%nat].
Proof. vm_compute. auto. Qed.

(* a concrete engine history in which an entry survives a far insert, is served as a hit, and is
   removed by a near insert *)
Example C07_engine_nonvacuous :
  let run := fun ops => erun (pre_m InnerProduct) (dist_le InnerProduct) ip_knn sat_cfg einit ops in
  let h := [EInsert 1 [1; 0]; EInsert 2 [0; 1]; ESearch 0 [1; 0] 1; EInsert 3 [-1; 0]] in
  length (s_entries (e_cache (run h))) = 1%nat /\
  snd (estep (pre_m InnerProduct) (dist_le InnerProduct) ip_knn sat_cfg (run h) (ESearch 0 [1; 0] 1)) = RHit [(1%N, 0)] /\
  length (s_entries (e_cache (run (h ++ [EInsert 4 [2; 0]])))) = 0%nat.
Proof. vm_compute. auto. Qed.


(* the interleaving semantics has runs in which the store is skipped, and runs in which it is not *)
Example C07_interleaving_nonvacuous :
  let fs := fun (c : collection) (q : vec) (k : nat) => firstn k (map (fun p => (fst p, 1 - dot q (snd p))) c) in
  (exists s, irun (pre_m InnerProduct) (dist_le InnerProduct) fs sat_cfg iinit
               [WMutPut 1 [1]; SRead 0 [1] 1; SCompute; WMutPut 2 [1]; WBump; SStore; WRemove (WRemInsert [1])] = Some s /\
             i_log s = [(true, SkippedGeneration)] /\ s_entries (i_cache s) = []) /\
  (exists s, irun (pre_m InnerProduct) (dist_le InnerProduct) fs sat_cfg iinit
               [WMutPut 1 [1]; SRead 0 [1] 1; SCompute; SStore; WMutPut 2 [1]; WBump] = Some s /\
             i_log s = [(false, Inserted None)] /\ length (s_entries (i_cache s)) = 1%nat).
Proof. split; eexists; vm_compute; auto. Qed.

(* the prefilter really prunes: a far insert leaves the entry in place, a near one removes it *)
Example C07_prefilter_nonvacuous :
  can_affect Cosine 1 [1; 0] [-1; 0] (1 # 2) = false /\
  can_affect Euclidean 1 [0; 0] [3; 0] 2 = false /\
  can_affect InnerProduct 1 [1; 0] [-1; 0] (1 # 2) = false /\
  can_affect Cosine 1 [1; 0] [1; 1] (1 # 2) = true.
Proof. vm_compute. auto. Qed.

Print Assumptions C07_prefilter_sound.
Print Assumptions C07_entry_valid.
Print Assumptions C07_entry_valid_ip.
Print Assumptions C07_hit_valid.
Print Assumptions C07_scope.
Print Assumptions C07_k_prefix_served.
Print Assumptions C07_k_monotone.
Print Assumptions C07_k_monotone_ip.
Print Assumptions C07_no_store_after_invalidate.
Print Assumptions C07_hit_same_or_similar.
Print Assumptions C07_old_quantisation_saturates.
Print Assumptions qcache_len_bound.
