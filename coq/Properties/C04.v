(* C04 — lookups by id return the canonical latest version whatever the caches hold.
   Statements only; proofs live in Proofs/TieredProofs.v; the model is Model/Tiered.v.
   `digest` is the 128-bit payload digest of coherence.rs; its collision-freeness is the explicit
   premise `digest_inj`.  `valid` is the set of vectors the cold tier accepts.  `s` is ANY state:
   arbitrary cache / mirror contents, no reachability premise, in C04_reads_canonical. *)
From Coq Require Import List NArith ZArith Bool Arith.
From Kyro Require Import Model.TMap Model.Tiered Proofs.TieredProofs.
Import ListNotations.

(* every read flavour answers exactly what the canonical store holds *)
Theorem C04_reads_canonical : forall (digest : vec -> dgst),
  (forall a b : vec, digest a = digest b -> a = b) ->
  forall (c : config) (s : state) (adm : bool) (id : N) (ids : list N),
  option_map fst (snd (query digest c s adm id)) = option_map fst (lookup id (cold_docs s)) /\
  snd (get_doc digest c s id) = lookup id (cold_docs s) /\
  snd (get_emb digest c s id) = option_map fst (lookup id (cold_docs s)) /\
  get_meta s id = option_map snd (lookup id (cold_docs s)) /\
  exists_ digest s id = (match lookup id (cold_docs s) with Some _ => true | None => false end) /\
  map strip (snd (bulk digest c s true ids)) = map (fun i => lookup i (cold_docs s)) ids.
Proof. exact reads_canonical. Qed.

(* every operation commutes with the abstract map: the latest successful write wins, deletes
   remove, everything else (reads, drains, audits, cache pokes, mirror pokes) leaves it alone *)
Theorem C04_refines_map : forall (digest : vec -> dgst) (valid : vec -> bool),
  (forall a b : vec, digest a = digest b -> a = b) ->
  forall (c : config) (s : state) (o : op),
  no_orphan s ->
  forall k : N,
  lookup k (cold_docs (fst (step digest valid c s o))) = lookup k (spec_step valid (cold_docs s) o).
Proof. exact refines_map. Qed.

(* end to end, over unbounded API histories (mirror pokes restricted to existing ids, cache pokes
   unrestricted): the canonical store after the history is the fold of the specification over the
   same operations — with C04_reads_canonical, every read returns the most recent successful write *)
Theorem C04_history_latest_write_wins : forall (digest : vec -> dgst) (valid : vec -> bool),
  (forall a b : vec, digest a = digest b -> a = b) ->
  forall (c : config) (docs : list (N * vec * meta)) (ops : list op) (s : state),
  run_guarded digest valid c (init docs) ops = Some s ->
  forall k : N,
  lookup k (cold_docs s) = lookup k (fold_left (spec_step valid) ops (cold_docs (init docs))).
Proof. exact history_refines. Qed.

(* drains (forced or threshold), audits and background ticks change neither the canonical store nor
   any read result *)
Theorem C04_drain_audit_neutral : forall (digest : vec -> dgst) (valid : vec -> bool),
  (forall a b : vec, digest a = digest b -> a = b) ->
  forall (c : config) (s : state) (o : op),
  no_orphan s ->
  is_maintenance o = true ->
  let s' := fst (step digest valid c s o) in
  (forall k : N, lookup k (cold_docs s') = lookup k (cold_docs s)) /\
  (forall (adm : bool) (id : N) (ids : list N),
     option_map fst (snd (query digest c s' adm id)) = option_map fst (snd (query digest c s adm id)) /\
     snd (get_doc digest c s' id) = snd (get_doc digest c s id) /\
     snd (get_emb digest c s' id) = snd (get_emb digest c s id) /\
     get_meta s' id = get_meta s id /\
     exists_ digest s' id = exists_ digest s id /\
     map strip (snd (bulk digest c s' true ids)) = map strip (snd (bulk digest c s true ids))).
Proof. exact drain_audit_neutral. Qed.

(* orphans (mirror entries without a cold record) are unreachable by API histories, including
   arbitrary L1a pokes and stale / corrupt mirror pokes on ids that exist in the cold tier *)
Theorem C04_api_no_orphan : forall (digest : vec -> dgst) (valid : vec -> bool),
  (forall a b : vec, digest a = digest b -> a = b) ->
  forall (c : config) (docs : list (N * vec * meta)) (ops : list op) (s : state),
  run_guarded digest valid c (init docs) ops = Some s -> no_orphan s.
Proof. exact api_no_orphan. Qed.

(* after ANY API history without mirror pokes (cache pokes allowed) no hot-tier mirror is stale:
   every mirror entry carries the current canonical payload and token of its id, i.e. is a `Match`
   (relies on bulk_load_cold_tier dropping the mirrors of the ids it loads, repo commit b64dfda;
   used by C06: hot-tier k-NN candidates are live documents) *)
Theorem C04_api_no_stale_mirror : forall (digest : vec -> dgst) (valid : vec -> bool),
  (forall a b : vec, digest a = digest b -> a = b) ->
  forall (c : config) (docs : list (N * vec * meta)) (ops : list op),
  forallb no_hot_poke ops = true ->
  let s := run digest valid c (init docs) ops in
  forall (id : N) (h : hent), lookup id (hot s) = Some h ->
  (exists r, lookup id (cold s) = Some r /\ h_vec h = c_vec r /\ h_tok h = (c_ver r, digest (c_vec r))) /\
  canon_state digest s id (h_vec h) (h_tok h) = CMatch.
Proof. exact api_no_stale_mirror. Qed.

(* Known class (by design; engine test test_flush_hot_tier_repairs_missing_cold_record_from_mirror
   demands it): a mirror entry planted for an ABSENT id is resurrected by a drain, i.e. without
   `no_orphan` a drain does change the canonical store. *)
Definition orphan_cfg := mkCfg 1 1 false 100 4.
Definition orphan_ops : list op := [OPokeHot 5%N [1%Z; 2%Z] [] (0%N, [1%Z; 2%Z])].
Theorem C04_orphan_repair_refuted :
  let s := run id_digest all_valid orphan_cfg (init []) orphan_ops in
  ~ no_orphan s /\
  lookup 5%N (cold_docs s) = None /\
  lookup 5%N (cold_docs (fst (step id_digest all_valid orphan_cfg s (OFlush true)))) = Some ([1%Z; 2%Z], []).
Proof.
  cbv zeta. split; [|split; vm_compute; reflexivity].
  intros H. apply (H 5%N); vm_compute; congruence.
Qed.

(* Non-vacuity: the premises are satisfiable (identity digest; the empty engine has no orphan and a
   guarded history exists), and a concrete history (insert, bulk load over it — which drops the mirror —, a planted stale L1a entry
   and a planted stale mirror) is answered from the cold tier with both stale copies scrubbed. *)
Definition ex_cfg := mkCfg 1 1 false 100 4.
Definition ex_ops : list op :=
  [OInsert 1%N [1%Z] []; OBulkLoad [(1%N, [2%Z], [])]; OPokeL1 false 1%N [1%Z] (1%N, [1%Z]);
   OPokeHot 1%N [1%Z] [] (1%N, [1%Z])].
Example C04_nonvacuous :
  (forall a b : vec, id_digest a = id_digest b -> a = b) /\
  no_orphan (init []) /\
  (exists s, run_guarded id_digest all_valid ex_cfg (init []) ex_ops = Some s /\
             length (l1a s) = 1 /\ length (hot s) = 1 /\
             query id_digest ex_cfg s false 1%N =
               (mkS (cold s) [] [] [] (ctr s), Some ([2%Z], TCold))).
Proof.
  split; [exact id_digest_inj|]. split; [apply init_no_orphan|].
  eexists. split; [vm_compute; reflexivity|]. vm_compute. auto.
Qed.

Print Assumptions C04_reads_canonical.
Print Assumptions C04_refines_map.
Print Assumptions C04_history_latest_write_wins.
Print Assumptions C04_drain_audit_neutral.
Print Assumptions C04_api_no_orphan.
Print Assumptions C04_api_no_stale_mirror.
Print Assumptions C04_orphan_repair_refuted.
