(* C01 — acknowledged writes survive a crash at any instant; restart always succeeds.
   Statements only; proofs live in Proofs/CrashProofs.v (on top of Proofs/BackendProofs.v).

   Model: Model/Backend.v (every operation emits its ordered file-system effects) + Model/Crash.v
   (`crash_kill`: the first n effects, optionally a torn prefix of the next write; `start`: the server's
   start-up decision; `crash_hist c ops n torn`: the crash point at global effect index n of the history
   `ops` — the effects of the very first start-up come first — with the collection after the
   acknowledged operations (`cp_acked`) and after acknowledged + in-flight (`cp_inflight`)).

   Premises: `wf_cfg c = true`, `norm_ok c` (see Properties/C02.v) and `known_c01 c ops n = false`:
   the crash does not fall strictly inside the run of per-id frames of a batch_delete of >= 2 live ids —
   the recorded finding C01-batch-delete-partial, where the property is FALSE
   (`C01_batch_delete_partial_refuted`).

   PROVED for the process-kill model (all completed effects persist; the last write may be torn), every
   configuration incl. every fsync policy: C01_kill, C01_kill_op, C01_restart_idem.
   PROVED for power loss under fsync-always, EVERY loss choice of the model: C01_power_always.
   NOT modelled in Coq: the periodic-fsync clause (decided by the driver's directed scenario). *)
From Coq Require Import List NArith ZArith Bool.
From Kyro Require Import Model.Amap Model.Backend Model.Crash Model.WalBytes
  Proofs.AmapProofs Proofs.BackendProofs Proofs.CrashProofs Proofs.PowerProofs Proofs.WalBytesProofs.
Import ListNotations.
Open Scope N_scope.

(* Kill at ANY instant of ANY history (insert/overwrite, delete, batch delete, metadata update, automatic
   and manual snapshots with log compaction, rotation, tombstone compaction, clean restarts; crash also
   inside a restart or inside the very first start-up): the next strict start-up succeeds and yields the
   collection of the acknowledged operations, optionally followed by the one in flight. *)
Theorem C01_kill : forall (c : cfg) (ops : list op) (n : nat) (torn : bool),
  wf_cfg c = true -> norm_ok c -> known_c01 c ops n = false ->
  exists r, start c (cp_dir (crash_hist c ops n torn)) = SOk r /\
            (st_store r = cp_acked (crash_hist c ops n torn) \/
             st_store r = cp_inflight (crash_hist c ops n torn)).
Proof. exact kill_hist. Qed.

(* The per-operation form: from any state satisfying the invariant, every prefix (k effects, last write
   possibly torn) of the operation's effect list recovers to the old or to the new collection. *)
Theorem C01_kill_op : forall (c : cfg) (s : state) (o : op) s' out effs (k : nat) (torn : bool),
  wf_cfg c = true -> norm_ok c -> Inv c s ->
  step c s o = (s', out, effs) -> (k <= length effs)%nat -> known_op s o k = false ->
  exists r, start c (crash_kill (st_disk s) effs k torn) = SOk r /\
            (st_store r = st_store s \/ st_store r = st_store s').
Proof. exact kill_op. Qed.

(* A crash during start-up itself leaves the next start-up with the same outcome. *)
Theorem C01_restart_idem : forall (c : cfg) (ops : list op) (k : nat) (torn : bool) s' effs,
  wf_cfg c = true -> norm_ok c ->
  recover_full c Strict (st_disk (run c ops)) = Ok (s', effs) -> (k <= length effs)%nat ->
  exists r, start c (crash_kill (st_disk (run c ops)) effs k torn) = SOk r /\
            st_store r = st_store (run c ops) /\ st_store s' = st_store (run c ops).
Proof. exact restart_idem. Qed.

(* ... and a crash during the very first start-up leaves a directory that starts empty. *)
Theorem C01_first_start : forall (c : cfg) (n : nat) (torn : bool),
  wf_cfg c = true -> (n <= length init_effs)%nat ->
  exists r, start c (crash_kill [] init_effs n torn) = SOk r /\ st_store r = empty.
Proof. exact kill_init. Qed.

(* Byte level: every truncation of a well-formed segment (>= its 4-byte magic) reads, in strict mode, as a
   prefix of its entries — the justification of modelling a torn write as tail `Torn`. *)
Theorem C01_torn_write_reads_prefix :
  forall (crc : WalBytes.bytes -> N) (deser_ok : WalBytes.bytes -> bool), (forall p, crc p < 4294967296) ->
  forall ps n, Forall valid_payload ps -> (forall p, In p ps -> deser_ok p = true) -> (4 <= n)%nat ->
  exists j, WalBytes.read_all_strict crc deser_ok (firstn n (segment crc ps)) = RdOk (firstn j ps).
Proof. exact torn_prefix. Qed.

(* ---- the recorded class really violates the property (witness by evaluation; reproduced on the real
   engine by the driver: class C01-batch-delete-partial) ---- *)
Definition bd_cfg : cfg := mkCfg Euclidean 1 0 0 64 FsAlways (fun v => Some v) (fun _ => true).
Definition bd_ops : list op :=
  [OInsert 2 [1065353216]%Z []; OInsert 3 [1073741824]%Z []; OInsert 5 [1077936128]%Z [];
   OBatchDelete [4; 3; 2; 2]].

(* effects: 8 (first start-up) + 3 x (append, fsync); the batch logs frames for ids 3, 2, 2; kill after its first frame *)
Theorem C01_batch_delete_partial_refuted :
  wf_cfg bd_cfg = true /\ norm_ok bd_cfg /\ known_c01 bd_cfg bd_ops 15 = true /\
  let p := crash_hist bd_cfg bd_ops 15 false in
  map fst (cp_acked p) = [2; 3; 5] /\ map fst (cp_inflight p) = [5] /\
  exists r, start bd_cfg (cp_dir p) = SOk r /\ map fst (st_store r) = [2; 5].
Proof.
  split; [reflexivity|]. split; [intros v w H; inversion H; subst; auto|]. split; [vm_compute; reflexivity|].
  split; [vm_compute; reflexivity|]. split; [vm_compute; reflexivity|].
  eexists. split; vm_compute; reflexivity.
Qed.

(* ---- power loss under fsync-always -------------------------------------------------------------------
   `crash_power c ops n l` (Model/Crash.v): the directory after a power loss before global effect index n,
   where the power-loss model keeps per inode the content versions since its last fsync/fdatasync and the
   name-space versions since the last directory fsync, and the loss choice `l` says how many un-synced steps
   survived — per inode and for the directory, in order.  `l` is universally quantified: all-lost,
   data-only-lost, directory-only-lost and nothing-lost (the views the driver materialises) are instances.
   The excluded class `known_power` is C01-batch-delete-partial as it appears under power loss: the frames of
   a batch_delete of >= 2 live ids stay un-synced until its fsync completes, so the class extends to the
   instant "all frames written, fsync not yet done" (`C01_power_batch_unsynced_refuted`). *)
Theorem C01_power_always : forall (c : cfg) (ops : list op) (n : nat) (l : loss),
  wf_cfg c = true -> norm_ok c -> c_fsync c = FsAlways -> known_power c ops n = false ->
  exists r, start c (crash_power c ops n l) = SOk r /\
            (st_store r = cp_acked (crash_hist c ops n false) \/
             st_store r = cp_inflight (crash_hist c ops n false)).
Proof. exact power_hist. Qed.

(* the un-lossy part of the model is exact: the name-space / inode bookkeeping simulates apply_eff *)
Theorem C01_power_model_simulates : forall (es : list eff) (P : pfs) (d : dir),
  WF P -> Sim P d -> WF (papply_all P es) /\ Sim (papply_all P es) (apply_effs d es).
Proof. exact sim_steps. Qed.

(* crash index 17 of bd_ops: all three frames of the batch written, its fsync not done; the loss choice
   keeps one un-synced step per inode: outside known_c01, inside known_power, and the property fails *)
Theorem C01_power_batch_unsynced_refuted :
  known_c01 bd_cfg bd_ops 17 = false /\ known_power bd_cfg bd_ops 17 = true /\
  nth_error (init_effs ++ all_effs bd_cfg (init bd_cfg) bd_ops) 17 = Some (EFsync (NWal 1)) /\
  exists r, start bd_cfg (crash_power bd_cfg bd_ops 17 (mkLoss 1000 (fun _ => 1%nat))) = SOk r /\
            map fst (st_store r) = [2; 5] /\
            map fst (cp_acked (crash_hist bd_cfg bd_ops 17 false)) = [2; 3; 5] /\
            map fst (cp_inflight (crash_hist bd_cfg bd_ops 17 false)) = [5].
Proof.
  split; [vm_compute; reflexivity|]. split; [vm_compute; reflexivity|]. split; [vm_compute; reflexivity|].
  eexists. split; [vm_compute; reflexivity|]. split; [vm_compute; reflexivity|]. split; vm_compute; reflexivity.
Qed.

(* evaluation of the same model on a history with rotation, compaction, tombstone compaction and restarts
   (kept as a regression example; superseded by C01_power_always) *)
Definition pw_norm (v : vec) : option vec :=
  match v with [] => None | _ :: _ => Some (map (fun _ => 1%Z) v) end.
Definition pw_cfg : cfg := mkCfg Cosine 2 2 1 3 FsAlways pw_norm (fun _ => true).
Definition pw_ops : list op :=
  [OInsert 1 [5; 6]%Z [([107], [1])]; OInsert 2 [7; 8]%Z []; OInsert 1 [9; 9]%Z [([107], [2])];
   ODelete 2; ORestart; OInsert 2 [3; 3]%Z []; OBatchDelete [1; 9]; OUpdate 2 [([108], [3])] true;
   OInsert 4 [2; 2]%Z []; OInsert 5 [2; 2]%Z []; OSnapshot; ORestart].

(* every crash index of this history (rotation after every append, snapshot + compaction every 2
   mutations, tombstone compaction, two restarts) x {all un-synced lost, un-synced data lost, un-synced
   directory changes lost, nothing lost}: start-up succeeds with acked or acked + in-flight *)
Example C01_power_always_partial :
  c_fsync pw_cfg = FsAlways /\ (100 < total_effs pw_cfg pw_ops)%nat /\
  power_bad pw_cfg pw_ops = [] /\ kill_bad pw_cfg pw_ops = [].
Proof.
  split; [reflexivity|]. split; [vm_compute; repeat constructor|]. split; vm_compute; reflexivity.
Qed.

(* ---- non-vacuity of C01_kill: crash index 44 of this history lies inside an automatic snapshot with log
   compaction — after the pointer save and the pruned-list save, between the unlink of wal#1 and the unlink
   of wal#2, before the final manifest save — and is outside the known class ---- *)
Example C01_nonvacuous :
  wf_cfg pw_cfg = true /\ norm_ok pw_cfg /\
  known_c01 pw_cfg pw_ops 44 = false /\
  nth_error (init_effs ++ all_effs pw_cfg (init pw_cfg) pw_ops) 43 = Some (EUnlink (NWal 1)) /\
  nth_error (init_effs ++ all_effs pw_cfg (init pw_cfg) pw_ops) 44 = Some (EUnlink (NWal 2)) /\
  exists r, start pw_cfg (cp_dir (crash_hist pw_cfg pw_ops 44 false)) = SOk r /\
            st_store r = cp_inflight (crash_hist pw_cfg pw_ops 44 false).
Proof.
  split; [reflexivity|]. split.
  { intros v w H. cbn in H. unfold pw_norm in H. destruct v as [|z v]; [discriminate|]. inversion H; subst.
    split; [cbn [map length]; rewrite map_length; reflexivity|]. cbn. rewrite map_map. reflexivity. }
  split; [vm_compute; reflexivity|]. split; [vm_compute; reflexivity|]. split; [vm_compute; reflexivity|].
  eexists. split; vm_compute; reflexivity.
Qed.

Print Assumptions C01_kill.
Print Assumptions C01_kill_op.
Print Assumptions C01_restart_idem.
Print Assumptions C01_first_start.
Print Assumptions C01_torn_write_reads_prefix.
Print Assumptions C01_batch_delete_partial_refuted.
Print Assumptions C01_power_always.
Print Assumptions C01_power_model_simulates.
Print Assumptions C01_power_batch_unsynced_refuted.
Print Assumptions C01_power_always_partial.
Print Assumptions C01_nonvacuous.
