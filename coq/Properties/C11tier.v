(* C11 at the TieredEngine level — a filtered batch delete removes exactly the documents whose
   CANONICAL metadata matches the filter.
   Statements only; proofs live in Proofs/TieredFilterProofs.v; the model is Model/Tiered.v
   (filter_delete / opx / stepx / runx, next to the C04/C20 model of the same engine).
   TieredEngine::batch_delete_by_metadata_filter selects
       hot_tier.scan(matches over the MIRROR's metadata)  ∪  cold_tier.ids_for_metadata_filter(filter)
   and hands the union to batch_delete.  The union is exact only when every mirror entry carries the
   canonical metadata of its id; that is theorem (a), an invariant of all API histories.
   `digest` / `valid` as in Properties/C04.v. *)
From Coq Require Import List NArith ZArith Bool Arith.
From Kyro Require Import Model.TMap Model.Tiered Proofs.TieredProofs Proofs.TieredFilterProofs.
Import ListNotations.

(* (a) after ANY history of API operations — reads, insert, update_metadata (merge and replace), delete,
   batch_delete, bulk load, drains, audits, ticks, L1a cache pokes and the filtered delete itself; only
   harness-planted mirror entries are excluded — every hot-tier mirror entry has a canonical record
   and carries exactly that record's metadata *)
Theorem C11tier_mirror_meta_fresh : forall (digest : vec -> dgst) (valid : vec -> bool),
  (forall a b : vec, digest a = digest b -> a = b) ->
  forall (c : config) (docs : list (N * vec * meta)) (ops : list opx),
  forallb no_hot_poke_x ops = true ->
  let s := runx digest valid c (init docs) ops in
  forall (id : N) (h : hent), lookup id (hot s) = Some h ->
  exists r, lookup id (cold s) = Some r /\ h_meta h = c_meta r.
Proof. exact api_mirror_meta_fresh. Qed.

(* (b) in every such state the filtered delete removes, from both tiers, exactly the ids whose
   canonical metadata satisfies the filter, returns their number (each id once), and leaves every
   other canonical record (vector, metadata, version) and every other mirror entry untouched *)
Theorem C11tier_filter_delete_exact : forall (digest : vec -> dgst) (valid : vec -> bool),
  (forall a b : vec, digest a = digest b -> a = b) ->
  forall (c : config) (docs : list (N * vec * meta)) (ops : list opx) (f : tfilter),
  forallb no_hot_poke_x ops = true ->
  let s := runx digest valid c (init docs) ops in
  let r := stepx digest valid c s (OFilterDelete f) in
  let sel := fun id => match lookup id (cold s) with Some rc => tmatch f (c_meta rc) | None => false end in
  (forall id, lookup id (cold (fst r)) = if sel id then None else lookup id (cold s)) /\
  (forall id, lookup id (hot (fst r)) = if sel id then None else lookup id (hot s)) /\
  (exists L, NoDup L /\ (forall id, In id L <-> sel id = true) /\ snd r = RCount (Some (length L))).
Proof. exact filter_delete_exact. Qed.

(* the same, from ANY state whose mirror metadata is fresh (no reachability premise); the invariant is
   re-established *)
Theorem C11tier_filter_delete_exact_state : forall (c : config) (s : state) (f : tfilter),
  meta_fresh s ->
  let r := filter_delete c s f in
  (forall id, lookup id (cold (fst r)) = if canon_sel s f id then None else lookup id (cold s)) /\
  (forall id, lookup id (hot (fst r)) = if canon_sel s f id then None else lookup id (hot s)) /\
  (exists L, NoDup L /\ (forall id, In id L <-> canon_sel s f id = true) /\ snd r = length L) /\
  meta_fresh (fst r).
Proof. exact filter_delete_exact_state. Qed.

(* (c) regression witness.  VARIANT MODEL (not the code): the hot-tier half of update_metadata treats
   a replace like a merge (update_meta_mirror_merges).  History: insert a document with keys k0,k1
   (hot-resident); replace its metadata by {k1} (drops k0); filtered delete on Exact(k0).  In the
   variant the mirror still carries k0, the invariant (a) is broken and the filtered delete removes
   the document although its canonical metadata {k1} does not match (count 1); the faithful model
   on the same history selects nothing and the document survives. *)
Theorem C11tier_mirror_merge_variant_refuted :
  let s := runx_mirror_merges id_digest all_valid w_cfg (init []) w_hist in
  forallb no_hot_poke_x (w_hist ++ [OFilterDelete w_filter]) = true /\
  get_meta s 1%N = Some [(w_k1, 8%N)] /\
  canon_sel s w_filter 1%N = false /\
  stepx_mirror_merges id_digest all_valid w_cfg s (OFilterDelete w_filter) =
    (mkS [] [] [] [] (ctr s), RCount (Some 1)) /\
  ~ meta_fresh s /\
  let s0 := runx id_digest all_valid w_cfg (init []) w_hist in
  snd (stepx id_digest all_valid w_cfg s0 (OFilterDelete w_filter)) = RCount (Some 0) /\
  get_meta (fst (stepx id_digest all_valid w_cfg s0 (OFilterDelete w_filter))) 1%N = Some [(w_k1, 8%N)].
Proof. exact mirror_merge_variant_refuted. Qed.

(* Non-vacuity: the premises are satisfiable (identity digest; a poke-free history with two
   hot-resident documents, a key-dropping replace on one and a merge on the other, a forced drain in
   between), the reached state has a non-empty mirror, and the filtered delete of (b) on it removes
   exactly document 2 — the one whose canonical metadata still has k0=7 — and keeps document 1. *)
Definition nv_ops : list opx :=
  [OApi (OInsert 1%N [1%Z] [(0%N, 7%N); (1%N, 8%N)]);
   OApi (OInsert 2%N [2%Z] [(0%N, 7%N)]);
   OApi (OUpdMeta 1%N [(1%N, 8%N)] false);
   OApi (OUpdMeta 2%N [(1%N, 9%N)] true);
   OApi (OFlush true);
   OApi (OInsert 1%N [3%Z] [(1%N, 8%N)])].
Example C11tier_nonvacuous :
  (forall a b : vec, id_digest a = id_digest b -> a = b) /\
  forallb no_hot_poke_x nv_ops = true /\
  let s := runx id_digest all_valid w_cfg (init []) nv_ops in
  length (hot s) = 1 /\ length (cold s) = 2 /\
  let r := stepx id_digest all_valid w_cfg s (OFilterDelete (TAnd [TExact 0%N 7%N; TNot (TIn 1%N [8%N])])) in
  snd r = RCount (Some 1) /\ get_meta (fst r) 2%N = None /\ get_meta (fst r) 1%N = Some [(1%N, 8%N)].
Proof.
  split; [exact id_digest_inj|]. split; [vm_compute; reflexivity|]. vm_compute. auto.
Qed.

Print Assumptions C11tier_mirror_meta_fresh.
Print Assumptions C11tier_filter_delete_exact.
Print Assumptions C11tier_filter_delete_exact_state.
Print Assumptions C11tier_mirror_merge_variant_refuted.
Print Assumptions C11tier_nonvacuous.
