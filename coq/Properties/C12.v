(* C12 — restoring a backup reproduces the collection as of that backup.
   Statements only; proofs in Proofs/BackupProofs.v over Model/Backup.v (a line-by-line model of
   engine/src/backup.rs as of /repo 0a20737).  `recovery_view` is exactly what HnswBackend::recover reads
   from a directory (MANIFEST, the snapshot it names, the segments it lists): equal views = identical
   recovery input, so "the restored directory reproduces the collection" is
   `recovery_view restored = recovery_view source`.

   Premises made explicit in the statements (validated on the real engine's directories every run by
   the harness, which evaluates wf_sdirb / evolvesb / snap_stableb on them inside coqc):
     wf_sdir d m  : quiescent engine directory (unique names, MANIFEST lists exactly the on-disk
                    segments in increasing id order, the snapshot it names exists);
     evolves      : segments not selected by an incremental are unchanged since its parent;
     snaps_agree  : a snapshot name denotes one content (snapshots are written once, fresh ids).
   The only class left outside the exactness theorem is KnownC12 = a chain member's metadata is missing
   from the backup directory at restore time (removed by hand: prune can no longer cause it).
   The two defects repaired in /repo (b41f57f, 0a20737) are kept as Examples on copies of the old
   functions. *)
From Coq Require Import List NArith Bool Sorted.
From Kyro Require Import Model.Backup Proofs.BackupProofs.
Import ListNotations.
Open Scope N_scope.

(* Full backup -> restore into an empty directory: exactly the recovery-relevant files of the source. *)
Theorem C12_full_restore_exact : forall d m id ts aux o,
  wf_sdir d m -> o_dry o = false ->
  exists b, create_full d id ts aux = Ok b /\
            b_files b = view_files d m /\
            restore_by_id [b] [] id o = (None, view_files d m) /\
            recovery_view (view_files d m) = recovery_view (strip d) /\
            restorable (view_files d m) = true.
Proof. exact full_restore_exact. Qed.

(* Incremental chains of any length. *)
Theorem C12_chain_restore_exact : forall sc st rch tip d m o,
  chain_ok sc rch d m -> hd_error rch = Some tip ->
  NoDup (map b_id rch) -> store_sub st rch -> o_dry o = false ->
  ~ KnownC12 st rch ->
  exists t', restore_by_id st [] (b_id tip) o = (None, t') /\
             recovery_view t' = recovery_view (strip d) /\ restorable t' = true.
Proof. exact chain_restore_exact. Qed.

(* Chain invariant: the chain up to any backup contains the snapshot that backup's manifest names. *)
Theorem C12_chain_contains_manifest_snapshot : forall sc rch d m s,
  chain_ok sc rch d m -> m_snap m = Some s ->
  tget (extract_chain [] (rev rch)) (FSnap s) = option_map fst (sget d (FSnap s)) /\
  (exists c mt, sget d (FSnap s) = Some (c, mt) /\ exists b, In b rch /\ In (FSnap s, c) (b_files b)).
Proof. exact chain_contains_manifest_snapshot. Qed.

(* Pruning never removes a backup that a retained backup depends on ... *)
Theorem C12_prune_keeps_parents : forall now p st b pid y,
  NoDup (map b_id st) -> In b (prune_store now p st) -> b_parent b = Some pid ->
  In y st -> b_id y = pid -> In y (prune_store now p st).
Proof. exact prune_keeps_parents. Qed.

(* ... so after ANY prune every retained member of a chain still restores exactly (no exception). *)
Theorem C12_chain_restore_exact_after_prune : forall sc now p st rch tip d m o,
  chain_ok sc rch d m -> hd_error rch = Some tip -> NoDup (map b_id rch) -> NoDup (map b_id st) ->
  (forall b, In b rch -> find_b st (b_id b) = Some b) -> o_dry o = false ->
  In tip (prune_store now p st) ->
  exists t', restore_by_id (prune_store now p st) [] (b_id tip) o = (None, t') /\
             recovery_view t' = recovery_view (strip d) /\ restorable t' = true.
Proof. exact chain_restore_exact_after_prune. Qed.

(* Prune never invents backups: the deleted ids and the retained store are duplicate-free subsets. *)
Theorem C12_prune_subset : forall now p st,
  incl (prune_deleted now p (list_backups st)) (map b_id (list_backups st)) /\
  incl (prune_store now p st) st /\
  (NoDup (map b_id st) -> NoDup (map b_id (prune_store now p st))) /\
  (forall b, In b (prune_store now p st) -> ~ In (b_id b) (prune_deleted now p (list_backups st))).
Proof.
  intros now p st. destruct (prune_store_subset now p st) as (A & B & C).
  split; [apply prune_deleted_subset|]. auto.
Qed.

(* If any archive of the chain fails verification, nothing is touched (by id and point-in-time);
   more generally every refusal leaves the target directory exactly as it was. *)
Theorem C12_tamper_rejected_before_clear : forall st t o,
  (forall id ch b, build_chain st id = Ok ch -> In b ch -> b_ok b = false ->
                   restore_by_id st t id o = (Some EVerify, t)) /\
  (forall ts ch b, pitr_chain st ts = Ok ch -> In b ch -> b_ok b = false ->
                   restore_pitr st t ts o = (Some EVerify, t)) /\
  (forall id e t', restore_by_id st t id o = (Some e, t') -> t' = t) /\
  (forall ts e t', restore_pitr st t ts o = (Some e, t') -> t' = t).
Proof.
  intros st t o. repeat split.
  - intros; eapply tamper_rejected_before_clear; eauto.
  - intros; eapply tamper_rejected_before_clear_pitr; eauto.
  - intros; eapply restore_by_id_err_unchanged; eauto.
  - intros; eapply restore_pitr_err_unchanged; eauto.
Qed.

(* A non-empty target is never cleared without allow_clear or BACKUP_ALLOW_CLEAR=true (the restore is
   refused and the target is unchanged); a dry run never modifies it either. *)
Theorem C12_no_clear_without_confirmation : forall st t o,
  (t <> [] -> o_allow o = false -> o_env o = false ->
     (forall id r t', restore_by_id st t id o = (r, t') -> t' = t /\ r <> None) /\
     (forall ts r t', restore_pitr st t ts o = (r, t') -> t' = t /\ r <> None)) /\
  (o_dry o = true ->
     (forall id r t', restore_by_id st t id o = (r, t') -> t' = t) /\
     (forall ts r t', restore_pitr st t ts o = (r, t') -> t' = t)).
Proof.
  intros st t o; split.
  - apply no_clear_without_confirmation.
  - apply dry_run_never_modifies.
Qed.

(* Only id, parent_id, backup_type, the archive and its verification (plus timestamp for PITR)
   influence a restore: timestamp (by id), size_bytes, vector_count, description, max_wal_file_id,
   snapshot_file cannot change the outcome or the restored directory. *)
Theorem C12_metadata_irrelevant : forall st st' t o,
  (Forall2 (fun b b' => (b_id b, b_parent b, b_kind b, b_files b, b_ok b) =
                        (b_id b', b_parent b', b_kind b', b_files b', b_ok b')) st st' ->
     forall id, restore_by_id st t id o = restore_by_id st' t id o) /\
  (Forall2 (fun b b' => (b_id b, b_parent b, b_kind b, b_files b, b_ok b) =
                        (b_id b', b_parent b', b_kind b', b_files b', b_ok b') /\ b_ts b = b_ts b') st st' ->
     forall ts, restore_pitr st t ts o = restore_pitr st' t ts o).
Proof.
  intros st st' t o; split; intros H x.
  - apply metadata_irrelevant_by_id; exact H.
  - apply metadata_irrelevant_pitr; exact H.
Qed.

(* The two repaired defects, on copies of the OLD functions, and the same inputs on the current model. *)
Example C12_old_incremental_after_snapshot_witness :
  create_full w_d0 1 60 0 = Ok w_b1 /\
  create_incr_files_old w_d1 60 (Some 10) = Ok (b_files w_b2_old, Some 10, None) /\
  exists t', restore_by_id [w_b1; w_b2_old] [] 2 opts_plain = (None, t') /\
             restorable t' = false /\ recovery_view t' <> recovery_view (strip w_d1).
Proof. exact old_incremental_after_snapshot. Qed.

Example C12_incremental_after_snapshot_now_exact :
  create_incremental [w_b1] w_d1 1 2 80 0 = Ok w_b2 /\
  restore_by_id [w_b1; w_b2] [] 2 opts_plain =
    (None, [(FManifest, CMan w_m1); (FWal 10, CBlob 101); (FSnap 70, CBlob 200)]) /\
  recovery_view (snd (restore_by_id [w_b1; w_b2] [] 2 opts_plain)) = recovery_view (strip w_d1) /\
  recovery_view (strip w_d1) = Some (w_m1, Some (CBlob 200), [CBlob 101]).
Proof. exact incremental_after_snapshot_now_exact. Qed.

Example C12_old_prune_parent_witness :
  prune_store_old 1000 default_policy [w_b2; w_b1] = [w_b2] /\
  restore_by_id (prune_store_old 1000 default_policy [w_b2; w_b1]) [] 2 opts_plain = (Some EParentNotFound, []) /\
  prune_store 1000 default_policy [w_b2; w_b1] = [w_b2; w_b1] /\
  fst (restore_by_id (prune_store 1000 default_policy [w_b2; w_b1]) [] 2 opts_plain) = None.
Proof. exact old_prune_deleted_parent. Qed.

(* KnownC12 is inhabited only by outside interference: the parent's metadata removed by hand. *)
Example C12_ancestor_removed_by_hand :
  KnownC12 [w_b2] [w_b2; w_b1] /\ restore_by_id [w_b2] [] 2 opts_plain = (Some EParentNotFound, []).
Proof. exact ancestor_removed_by_hand. Qed.

(* Non-vacuity: a four-member chain (full, incremental, incremental after a NEW snapshot and a rotation,
   incremental whose snapshot is found two levels up by the metadata walk) satisfies every premise,
   restores to the source's view, and survives the default prune entirely; and prune still deletes
   backups no survivor depends on. *)
Example C12_nonvacuous :
  let st := [n_b1; n_b2; n_b3; n_b4] in let rch := [n_b4; n_b3; n_b2; n_b1] in
  chain_ok n_sc rch n_d3 n_m2 /\ NoDup (map b_id rch) /\ store_sub st rch /\ ~ KnownC12 st rch /\
  restore_by_id st [] 4 opts_plain =
    (None, [(FSnap 5, CBlob 300); (FManifest, CMan n_m2); (FWal 10, CBlob 102); (FSnap 7, CBlob 301); (FWal 20, CBlob 401)]) /\
  recovery_view (snd (restore_by_id st [] 4 opts_plain)) = recovery_view (strip n_d3) /\
  recovery_view (strip n_d3) = Some (n_m2, Some (CBlob 301), [CBlob 102; CBlob 401]) /\
  In n_b4 (prune_store 1000 default_policy st) /\ prune_store 1000 default_policy st = st.
Proof. exact chain_nonvacuous. Qed.

Example C12_prune_still_prunes :
  prune_deleted 1000 default_policy (list_backups [w_b1; w_b2; p_b3]) = [2; 1].
Proof. exact prune_still_prunes. Qed.

Print Assumptions C12_full_restore_exact.
Print Assumptions C12_chain_restore_exact.
Print Assumptions C12_chain_contains_manifest_snapshot.
Print Assumptions C12_prune_keeps_parents.
Print Assumptions C12_chain_restore_exact_after_prune.
Print Assumptions C12_prune_subset.
Print Assumptions C12_tamper_rejected_before_clear.
Print Assumptions C12_no_clear_without_confirmation.
Print Assumptions C12_metadata_irrelevant.
Print Assumptions C12_nonvacuous.
