(* C12 — restoring a backup reproduces the collection as of that backup.
   Statements only; proofs in Proofs/BackupProofs.v over Model/Backup.v (a line-by-line model of
   engine/src/backup.rs).  `recovery_view` is exactly what HnswBackend::recover reads from a directory
   (MANIFEST, the snapshot it names, the segments it lists): equal views = identical recovery input,
   so "the restored directory reproduces the collection" is `recovery_view restored = recovery_view source`.

   Premises made explicit in the statements (validated on the real engine's directories every run by
   the harness, which evaluates wf_sdirb / evolvesb on them inside coqc):
     wf_sdir d m : quiescent engine directory (unique names, MANIFEST lists exactly the on-disk
                   segments in increasing id order, the snapshot it names exists);
     evolves     : segments not selected by an incremental are unchanged since its parent.
   Two classes are refuted on the faithful model (witness theorems below) and are the recorded
   classes of KnownC12. *)
From Coq Require Import List NArith Bool Sorted.
From Kyro Require Import Model.Backup Proofs.BackupProofs.
Import ListNotations.
Open Scope N_scope.

(* Full backup -> restore into an empty directory: exactly the recovery-relevant files of the source. *)
Theorem C12_full_restore_exact : forall d m id ts aux o,
  wf_sdir d m -> o_dry o = false ->
  exists b, create_full d id ts aux = Ok b /\
            b_files b = view_files d m /\
            restore_by_id [b] [] id o = (None, view_files d m) /\
            recovery_view (view_files d m) = recovery_view (strip d) /\
            restorable (view_files d m) = true.
Proof. exact full_restore_exact. Qed.

(* Incremental chains, outside the two recorded classes. *)
Theorem C12_chain_restore_exact : forall st rch bf tip d m o,
  chain_ok rch bf d m -> hd_error rch = Some tip ->
  NoDup (map b_id rch) -> store_sub st rch -> o_dry o = false ->
  ~ KnownC12 st rch bf d m ->
  exists t', restore_by_id st [] (b_id tip) o = (None, t') /\
             recovery_view t' = recovery_view (strip d) /\ restorable t' = true.
Proof. exact chain_restore_exact. Qed.

(* ... in particular for the store left by any prune. *)
Theorem C12_chain_restore_exact_after_prune : forall now p st rch bf tip d m o,
  chain_ok rch bf d m -> hd_error rch = Some tip -> NoDup (map b_id rch) -> NoDup (map b_id st) ->
  (forall b, In b rch -> find_b st (b_id b) = Some b) -> o_dry o = false ->
  ~ KnownC12 (prune_store now p st) rch bf d m ->
  exists t', restore_by_id (prune_store now p st) [] (b_id tip) o = (None, t') /\
             recovery_view t' = recovery_view (strip d) /\ restorable t' = true.
Proof. exact chain_restore_exact_after_prune. Qed.

(* Recorded class (8b): the restore of a fully verified chain succeeds and is not recoverable. *)
Theorem C12_incremental_after_snapshot_refuted :
  exists st rch bf tip d m o,
    chain_ok rch bf d m /\ hd_error rch = Some tip /\ NoDup (map b_id rch) /\ store_sub st rch /\
    o_dry o = false /\ snapshot_not_in_chain bf d m /\ ~ ancestor_missing st rch /\
    exists t', restore_by_id st [] (b_id tip) o = (None, t') /\
               restorable t' = false /\ recovery_view t' <> recovery_view (strip d).
Proof. exact incremental_after_snapshot_refuted. Qed.

(* Recorded class (8a): prune keeps an incremental and deletes its parent; the kept backup cannot be restored. *)
Theorem C12_prune_parent_refuted :
  exists now p st rch bf tip d m o,
    chain_ok rch bf d m /\ hd_error rch = Some tip /\ NoDup (map b_id st) /\
    (forall b, In b rch -> find_b st (b_id b) = Some b) /\
    In tip (prune_store now p st) /\
    (exists pid, b_parent tip = Some pid /\ find_b (prune_store now p st) pid = None) /\
    ancestor_missing (prune_store now p st) rch /\
    restore_by_id (prune_store now p st) [] (b_id tip) o = (Some EParentNotFound, []).
Proof. exact prune_parent_refuted. Qed.

(* "Pruning never removes a backup that a retained backup depends on" does NOT hold of prune_backups. *)
Theorem C12_prune_keeps_parents_refuted :
  ~ (forall now p st b pid, NoDup (map b_id st) -> In b (prune_store now p st) ->
       b_parent b = Some pid -> find_b st pid <> None -> find_b (prune_store now p st) pid <> None).
Proof. exact prune_keeps_parents_refuted. Qed.

(* Prune never invents backups: the deleted ids and the retained store are duplicate-free subsets. *)
Theorem C12_prune_subset : forall now p st,
  incl (prune_deleted now p (list_backups st)) (map b_id (list_backups st)) /\
  incl (prune_store now p st) st /\
  (NoDup (map b_id st) -> NoDup (map b_id (prune_store now p st))) /\
  (forall b, In b (prune_store now p st) -> ~ In (b_id b) (prune_deleted now p (list_backups st))).
Proof.
  intros now p st. destruct (prune_store_subset now p st) as (A & B & C).
  split; [apply prune_deleted_subset|]. auto.
Qed.

(* If any archive of the chain fails verification, nothing is touched (by id and point-in-time);
   more generally every refusal leaves the target directory exactly as it was. *)
Theorem C12_tamper_rejected_before_clear : forall st t o,
  (forall id ch b, build_chain st id = Ok ch -> In b ch -> b_ok b = false ->
                   restore_by_id st t id o = (Some EVerify, t)) /\
  (forall ts ch b, pitr_chain st ts = Ok ch -> In b ch -> b_ok b = false ->
                   restore_pitr st t ts o = (Some EVerify, t)) /\
  (forall id e t', restore_by_id st t id o = (Some e, t') -> t' = t) /\
  (forall ts e t', restore_pitr st t ts o = (Some e, t') -> t' = t).
Proof.
  intros st t o. repeat split.
  - intros; eapply tamper_rejected_before_clear; eauto.
  - intros; eapply tamper_rejected_before_clear_pitr; eauto.
  - intros; eapply restore_by_id_err_unchanged; eauto.
  - intros; eapply restore_pitr_err_unchanged; eauto.
Qed.

(* A non-empty target is never cleared without allow_clear or BACKUP_ALLOW_CLEAR=true (the restore is
   refused and the target is unchanged); a dry run never modifies it either. *)
Theorem C12_no_clear_without_confirmation : forall st t o,
  (t <> [] -> o_allow o = false -> o_env o = false ->
     (forall id r t', restore_by_id st t id o = (r, t') -> t' = t /\ r <> None) /\
     (forall ts r t', restore_pitr st t ts o = (r, t') -> t' = t /\ r <> None)) /\
  (o_dry o = true ->
     (forall id r t', restore_by_id st t id o = (r, t') -> t' = t) /\
     (forall ts r t', restore_pitr st t ts o = (r, t') -> t' = t)).
Proof.
  intros st t o; split.
  - apply no_clear_without_confirmation.
  - apply dry_run_never_modifies.
Qed.

(* Only id, parent_id, backup_type, the archive and its verification (plus timestamp for PITR)
   influence a restore: timestamp (by id), size_bytes, vector_count, description, max_wal_file_id,
   snapshot_file cannot change the outcome or the restored directory. *)
Theorem C12_metadata_irrelevant : forall st st' t o,
  (Forall2 (fun b b' => (b_id b, b_parent b, b_kind b, b_files b, b_ok b) =
                        (b_id b', b_parent b', b_kind b', b_files b', b_ok b')) st st' ->
     forall id, restore_by_id st t id o = restore_by_id st' t id o) /\
  (Forall2 (fun b b' => (b_id b, b_parent b, b_kind b, b_files b, b_ok b) =
                        (b_id b', b_parent b', b_kind b', b_files b', b_ok b') /\ b_ts b = b_ts b') st st' ->
     forall ts, restore_pitr st t ts o = restore_pitr st' t ts o).
Proof.
  intros st st' t o; split; intros H x.
  - apply metadata_irrelevant_by_id; exact H.
  - apply metadata_irrelevant_pitr; exact H.
Qed.

(* Non-vacuity: a three-member chain (full, incremental, incremental after a rotation) satisfies every
   premise of C12_chain_restore_exact, is outside KnownC12, and restores to the source's view. *)
Example C12_nonvacuous :
  let st := [n_b1; n_b2; n_b3] in let rch := [n_b3; n_b2; n_b1] in
  chain_ok rch n_b1 n_d2 n_m2 /\ NoDup (map b_id rch) /\ store_sub st rch /\
  ~ KnownC12 st rch n_b1 n_d2 n_m2 /\
  restore_by_id st [] 3 opts_plain =
    (None, [(FSnap 5, CBlob 300); (FManifest, CMan n_m2); (FWal 10, CBlob 102); (FWal 20, CBlob 400)]) /\
  recovery_view (snd (restore_by_id st [] 3 opts_plain)) = recovery_view (strip n_d2) /\
  recovery_view (strip n_d2) = Some (n_m2, Some (CBlob 300), [CBlob 102; CBlob 400]).
Proof. exact chain_nonvacuous. Qed.

Print Assumptions C12_full_restore_exact.
Print Assumptions C12_chain_restore_exact.
Print Assumptions C12_chain_restore_exact_after_prune.
Print Assumptions C12_incremental_after_snapshot_refuted.
Print Assumptions C12_prune_parent_refuted.
Print Assumptions C12_prune_keeps_parents_refuted.
Print Assumptions C12_prune_subset.
Print Assumptions C12_tamper_rejected_before_clear.
Print Assumptions C12_no_clear_without_confirmation.
Print Assumptions C12_metadata_irrelevant.
Print Assumptions C12_nonvacuous.
