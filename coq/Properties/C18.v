(* C18 — unsafe durability and exposure settings are refused outside benchmark mode.
   Statements only; proofs live in Proofs/ConfigProofs.v.  `Config_gen.validate` is the guard-by-guard
   translation of KyroDbConfig::validate that harness/p/translator regenerates from /repo on every run;
   `c` are the safety-relevant settings, `o` the opaque unrelated guards (universally quantified: an
   unrelated guard can only reject more). *)
From Coq Require Import Bool List NArith.
From Kyro Require Import Model.RustStr gen.Config_gen Proofs.ConfigProofs.
Import ListNotations.

Theorem C18_accept_implies_safe : forall (c : safety_cfg) (o : opaque_guards),
  Config_gen.validate c o = true ->
  (env c <> Benchmark -> fsync c <> FsNone /\ snapshot_interval c <> SnapZero /\
                         recovery c = Strict /\ strategy c = Learned) /\
  (env c = Pilot -> auth c = true /\ rate_limit c = true /\ obs_auth c <> ObsDisabled /\
                    fresh_start c = false /\ (tls c = true \/ grpc_loopback c = true)) /\
  (env c = Production -> grpc_loopback c = false -> auth c = true).
Proof. exact accept_implies_safe. Qed.

(* an accepted configuration names one of the three environments (nothing else is ever accepted) *)
Theorem C18_accept_implies_known_env : forall (c : safety_cfg) (o : opaque_guards),
  Config_gen.validate c o = true -> env c = Production \/ env c = Pilot \/ env c = Benchmark.
Proof. exact accept_implies_known_env. Qed.

(* The same, as a function of the RAW environment.type string (any case, any surrounding Unicode
   white space): `canon raw` = to_ascii_lowercase (trim raw).  Only the literal canonical name
   "benchmark" is exempt from the durability requirements. *)
Theorem C18_env_normalised : forall (raw : str) (c : safety_cfg) (o : opaque_guards),
  Config_gen.validate_raw raw c o = true ->
  (canon raw = env_lit_production \/ canon raw = env_lit_pilot \/ canon raw = env_lit_benchmark) /\
  (canon raw <> env_lit_benchmark ->
     fsync c <> FsNone /\ snapshot_interval c <> SnapZero /\ recovery c = Strict /\ strategy c = Learned) /\
  (canon raw = env_lit_pilot ->
     auth c = true /\ rate_limit c = true /\ obs_auth c <> ObsDisabled /\ fresh_start c = false /\
     (tls c = true \/ grpc_loopback c = true)) /\
  (canon raw = env_lit_production -> grpc_loopback c = false -> auth c = true).
Proof. exact env_normalised. Qed.

(* the class of a name does not depend on surrounding white space or on ASCII case *)
Theorem C18_env_padding : forall (ws1 s ws2 : str),
  forallb is_ws ws1 = true -> forallb is_ws ws2 = true ->
  Config_gen.env_of_raw (ws1 ++ s ++ ws2) = Config_gen.env_of_raw s.
Proof. exact env_of_raw_pad. Qed.

Theorem C18_env_case : forall (s : str),
  Config_gen.env_of_raw (str_to_ascii_uppercase s) = Config_gen.env_of_raw s /\
  Config_gen.env_of_raw (str_to_ascii_lowercase s) = Config_gen.env_of_raw s.
Proof. intro s. split; [apply env_of_raw_upper | apply env_of_raw_lower]. Qed.

(* Non-vacuity: the most conservative production and pilot configurations (every safety setting on its
   safe value, loopback binds, TLS) are accepted when the unrelated guards pass — so the premise of the
   theorems is satisfiable in both environments and a change that only makes validate stricter does not
   break this example; their unsafe neighbours are refused. *)
Definition ex_production : safety_cfg := {|
  env := Production; fsync := FsFull; snapshot_interval := SnapPositive; recovery := Strict;
  strategy := Learned; auth := true; rate_limit := true; obs_auth := ObsAll; fresh_start := false;
  tls := true; grpc_loopback := true; http_host_set := true; http_loopback := true |}.

Definition ex_pilot : safety_cfg := with_env Pilot ex_production.

Example C18_nonvacuous :
  Config_gen.validate ex_production all_opaque_true = true /\
  Config_gen.validate ex_pilot all_opaque_true = true /\
  (* " PILot<TAB>" is the pilot environment; "pilot" padded with U+00A0 / U+3000 too *)
  Config_gen.validate_raw [32; 80; 73; 76; 111; 116; 9]%N ex_production all_opaque_true = true /\
  Config_gen.env_of_raw [160; 112; 105; 108; 111; 116; 12288]%N = Pilot /\
  (* unsafe neighbours are refused *)
  Config_gen.validate {| env := Pilot; fsync := FsNone; snapshot_interval := SnapPositive; recovery := Strict;
      strategy := Learned; auth := true; rate_limit := true; obs_auth := ObsAll; fresh_start := false;
      tls := true; grpc_loopback := true; http_host_set := true; http_loopback := true |} all_opaque_true = false /\
  Config_gen.validate {| env := Pilot; fsync := FsFull; snapshot_interval := SnapPositive; recovery := Strict;
      strategy := Learned; auth := true; rate_limit := true; obs_auth := ObsAll; fresh_start := false;
      tls := false; grpc_loopback := false; http_host_set := true; http_loopback := true |} all_opaque_true = false /\
  Config_gen.validate {| env := Production; fsync := FsFull; snapshot_interval := SnapPositive; recovery := Strict;
      strategy := Learned; auth := false; rate_limit := true; obs_auth := ObsDisabled; fresh_start := false;
      tls := true; grpc_loopback := false; http_host_set := true; http_loopback := true |} all_opaque_true = false.
Proof. vm_compute. repeat split; reflexivity. Qed.

Print Assumptions C18_accept_implies_safe.
Print Assumptions C18_accept_implies_known_env.
Print Assumptions C18_env_normalised.
Print Assumptions C18_env_padding.
Print Assumptions C18_env_case.
