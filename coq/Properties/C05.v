(* C05 — per-document operations are linearizable under concurrency (PARTIAL: proved on the
   interleaving model Model/Conc05.v, whose atomic steps are the critical sections between lock
   releases of the real code; preemption INSIDE a lock-protected region and the memory ordering of
   atomics are not exhibited).  Statements only; proofs live in Proofs/Conc05Proofs.v.

   `crun digest (ginit sh0 threads) sched = Some g`: g is reached from ANY initial shared state sh0
   (arbitrary cold tier, arbitrary — even corrupt or orphaned — L1a cache and hot mirror) by ANY
   schedule `sched` of ANY number of threads, each running any list of API calls, interleaved at
   atomic-step granularity with environment pokes that overwrite cache / mirror entries arbitrarily.
   Scheduler steps are numbered from 0; `HRes t c cl r inv res` = call c of thread t returned r, its
   first atomic step was step inv and its last one step res.  The only premise about the outside
   world is injectivity of the 128-bit coherence digest (explicit hypothesis of every theorem). *)
From Coq Require Import List NArith ZArith Bool Arith Sorted.
From Kyro Require Import Model.TMap Model.Tiered Model.Conc05 Proofs.Conc05Proofs.
Import ListNotations.

(* Every completed vector read (point read, cache-aware read, the vector of read-with-metadata, every
   entry of a bulk read) returns the canonical value of its id as of some scheduler step k inside its
   own [invocation, response] interval: gk is the state right after step k. *)
Theorem C05_read_has_lin_point :
  forall (digest : vec -> dgst) (hard : nat), (forall a b : vec, digest a = digest b -> a = b) ->
  forall sh0 threads sched g,
    crun digest hard (ginit sh0 threads) sched = Some g ->
    forall t c cl r inv res id val,
      In (HRes t c cl r inv res) (g_hist g) -> In (id, val) (vec_components r) ->
      exists k gk, inv <= k <= res /\
        crun digest hard (ginit sh0 threads) (firstn (S k) sched) = Some gk /\
        option_map c_vec (lookup id (s_cold (g_sh gk))) = val.
Proof. exact read_has_lin_point. Qed.

(* The metadata component has a linearisation point of its own (in general a DIFFERENT step). *)
Theorem C05_meta_has_lin_point :
  forall (digest : vec -> dgst) (hard : nat), (forall a b : vec, digest a = digest b -> a = b) ->
  forall sh0 threads sched g,
    crun digest hard (ginit sh0 threads) sched = Some g ->
    forall t c cl r inv res id m,
      In (HRes t c cl r inv res) (g_hist g) -> In (id, m) (meta_components r) ->
      exists k gk, inv <= k <= res /\
        crun digest hard (ginit sh0 threads) (firstn (S k) sched) = Some gk /\
        option_map c_meta (lookup id (s_cold (g_sh gk))) = Some m.
Proof. exact meta_has_lin_point. Qed.

(* Register linearizability.  L = the stamped log of all accesses to the canonical registers (writes
   at their cold.insert / cold.delete step, read observations at the cold-tier read steps) is
   (1) ordered by scheduler step, (2) accepted by the sequential per-id register specification started
   from the initial cold tier, (3) ends in the final cold tier, (4) contains, for every completed call,
   inside that call's own interval: an observation carrying the returned vector of each id it
   answered for (and one carrying the returned metadata), resp. the call's own write — an insert
   that answers Err after its cold-tier write took effect is linearised as a write —, and
   (5) contains no write other than those issued by an invoked insert/delete with those arguments and the
   REPAIR writes of an insert's emergency drain (drain_repair: the cold tier re-created from a drained
   mirror entry — see C05_drain_resurrects_deleted_refuted).
   Since stamps lie inside the intervals and L is ordered by stamp, L respects real-time order
   (C05_real_time_order); dropping unused observations keeps it accepted (C05_linearisation_subsequence),
   which yields the textbook one-point-per-operation linearisation.  Per id only: a bulk read is not
   atomic across ids.  The boolean answered by delete is not part of the specification. *)
Theorem C05_register_linearizable :
  forall (digest : vec -> dgst) (hard : nat), (forall a b : vec, digest a = digest b -> a = b) ->
  forall sh0 threads sched g,
    crun digest hard (ginit sh0 threads) sched = Some g ->
    let L := chron (g_log g) in
    StronglySorted (fun a b => fst a <= fst b) L /\
    reg_accepts (reg_of (s_cold sh0)) (map snd L) /\
    (forall id, reg_after (reg_of (s_cold sh0)) (map snd L) id = lookup id (s_cold (g_sh g))) /\
    (forall t c cl r inv res, In (HRes t c cl r inv res) (g_hist g) ->
       inv <= res /\
       (forall id val, In (id, val) (vec_components r) ->
          exists k x, In (k, LObs id x) L /\ inv <= k <= res /\ option_map c_vec x = val) /\
       (forall id m, In (id, m) (meta_components r) ->
          exists k x, In (k, LObs id x) L /\ inv <= k <= res /\ option_map c_meta x = Some m) /\
       call_linearised L cl inv res) /\
    (forall k id x, In (k, LW id x) L ->
       exists t c cl inv, In (HInv t c cl inv) (g_hist g) /\ inv <= k /\
                          (write_matches cl id x \/ drain_repair cl id x)).
Proof. exact register_linearizable. Qed.

Theorem C05_real_time_order : forall (L : list lentry) e1 e2,
  StronglySorted (fun a b => fst a <= fst b) L -> In e1 L -> In e2 L -> fst e1 < fst e2 ->
  exists l1 l2 l3, L = l1 ++ e1 :: l2 ++ e2 :: l3.
Proof. exact sorted_before. Qed.

Theorem C05_linearisation_subsequence : forall (keep : lop -> bool) ops r,
  reg_accepts r ops -> reg_accepts r (filter (fun o => is_write o || keep o) ops).
Proof. exact reg_accepts_drop_obs. Qed.

(* Never a vector that was not written — for runs without a drain repair write (client_writes_only). *)
Theorem C05_read_value_written :
  forall (digest : vec -> dgst) (hard : nat), (forall a b : vec, digest a = digest b -> a = b) ->
  forall sh0 threads sched g,
    crun digest hard (ginit sh0 threads) sched = Some g ->
    client_writes_only g ->
    forall t c cl r inv res id v,
      In (HRes t c cl r inv res) (g_hist g) -> In (id, Some v) (vec_components r) ->
      (exists rc, lookup id (s_cold sh0) = Some rc /\ c_vec rc = v) \/
      (exists t' c' m inv', In (HInv t' c' (CInsert id v m) inv') (g_hist g)).
Proof. exact read_value_written. Qed.

(* Never older than a write that completed before the read began; never a deleted document after its
   delete completed: the read returns the value of that write W or of a write that took effect after
   W and before the read responded.  CAUTION: that later write may be a drain REPAIR write, not a client
   write — see C05_read_after_completed_delete for the clause restricted to client writes and
   C05_drain_resurrects_deleted_refuted for the refutation of the unrestricted clause. *)
Theorem C05_read_sees_completed_write :
  forall (digest : vec -> dgst) (hard : nat), (forall a b : vec, digest a = digest b -> a = b) ->
  forall sh0 threads sched g,
    crun digest hard (ginit sh0 threads) sched = Some g ->
    forall tw cw clw rw invw resw t c cl r inv res id val,
      In (HRes tw cw clw rw invw resw) (g_hist g) ->
      ((exists v m, clw = CInsert id v m) \/ clw = CDelete id) ->
      In (HRes t c cl r inv res) (g_hist g) -> In (id, val) (vec_components r) ->
      resw < inv ->
      exists kW xW kw x,
        In (kW, LW id xW) (chron (g_log g)) /\ invw <= kW <= resw /\ write_matches clw id xW /\
        In (kw, LW id x) (chron (g_log g)) /\ kW <= kw <= res /\ option_map c_vec x = val.
Proof. exact read_sees_completed_write. Qed.

(* ---------- the pairing clause of the property is REFUTED on the faithful model ---------- *)
(* (v, m) is a mixed pair for id: no version of id that was ever canonical — the initial one or one
   written during the run — has this vector together with this metadata *)
Definition mixed_pair (L : list lentry) (cold0 : list (N * crec)) (id : N) (v : vec) (m : meta) : Prop :=
  (forall rc, lookup id cold0 = Some rc -> ~ (c_vec rc = v /\ c_meta rc = m)) /\
  (forall k rc, In (k, LW id (Some rc)) L -> ~ (c_vec rc = v /\ c_meta rc = m)).

Definition wA : vec := [1%Z; 0%Z]. Definition wB : vec := [0%Z; 1%Z].
Definition nA : meta := [(0, 1)]%N. Definition nB : meta := [(0, 2)]%N.
(* document 7 = (wA, nA), version 1, mirrored in the hot tier (the state right after insert(7, wA, nA)) *)
Definition pair_sh0 : shared := mkSh [(7%N, mkC wA nA 1)] [] [(7%N, mkH wA nA (1%N, dg_id wA))].
(* thread 0: get_document_with_metadata(7) — metadata fetch; thread 1: insert(7, wB, nB) start to
   finish (9 steps); thread 0: hot probe (mirror now wB, token matches) — returns (wB, nA) *)
Definition pair_threads : list (list call) := [[CGetDoc 7]; [CInsert 7 wB nB]].
Definition pair_sched : list sitem := [Run 0] ++ repeat (Run 1) 9 ++ [Run 0; Run 0].
(* bulk_query_with_source([7]): snapshot + token check (vector wA is canonical), then the insert,
   then the metadata fetch — returns (wA, nB) *)
Definition bulk_threads : list (list call) := [[CBulk [7%N]]; [CInsert 7 wB nB]].
Definition bulk_sched : list sitem := [Run 0; Run 0] ++ repeat (Run 1) 9 ++ [Run 0].

Theorem C05_pairing_refuted :
  exists (digest : vec -> dgst) (hard : nat), (forall a b : vec, digest a = digest b -> a = b) /\
  exists sh0 threads sched g t c r inv res id v m,
    crun digest hard (ginit sh0 threads) sched = Some g /\
    In (HRes t c (CGetDoc id) r inv res) (g_hist g) /\ In (id, (v, m)) (pair_components r) /\
    mixed_pair (chron (g_log g)) (s_cold sh0) id v m.
Proof.
  exists dg_id, 5000. split; [intros a b H; exact H|].
  exists pair_sh0, pair_threads, pair_sched.
  destruct (crun dg_id 5000 (ginit pair_sh0 pair_threads) pair_sched) as [g|] eqn:E; [|vm_compute in E; discriminate].
  exists g, 0, 0, (RDoc 7 (Some (wB, nA))), 0, 11, 7%N, wB, nA.
  vm_compute in E. inversion E; subst g; clear E.
  split; [reflexivity|]. split; [left; reflexivity|]. split; [left; reflexivity|]. split.
  - intros rc H. vm_compute in H. inversion H; subst rc. intros [H1 _]. discriminate.
  - intros k rc H. vm_compute in H.
    repeat (destruct H as [H|H]; [inversion H; subst; intros [_ H2]; discriminate|]). destruct H.
Qed.

Theorem C05_pairing_refuted_bulk :
  exists (digest : vec -> dgst) (hard : nat), (forall a b : vec, digest a = digest b -> a = b) /\
  exists sh0 threads sched g t c ids r inv res id v m,
    crun digest hard (ginit sh0 threads) sched = Some g /\
    In (HRes t c (CBulk ids) r inv res) (g_hist g) /\ In (id, (v, m)) (pair_components r) /\
    mixed_pair (chron (g_log g)) (s_cold sh0) id v m.
Proof.
  exists dg_id, 5000. split; [intros a b H; exact H|].
  exists pair_sh0, bulk_threads, bulk_sched.
  destruct (crun dg_id 5000 (ginit pair_sh0 bulk_threads) bulk_sched) as [g|] eqn:E; [|vm_compute in E; discriminate].
  exists g, 0, 0, [7%N], (RBulk [(7%N, Some (wA, nB))]), 0, 11, 7%N, wA, nB.
  vm_compute in E. inversion E; subst g; clear E.
  split; [reflexivity|]. split; [left; reflexivity|]. split; [left; reflexivity|]. split.
  - intros rc H. vm_compute in H. inversion H; subst rc. intros [_ H2]. discriminate.
  - intros k rc H. vm_compute in H.
    repeat (destruct H as [H|H]; [inversion H; subst; intros [H1 _]; discriminate|]). destruct H.
Qed.

(* ... and it HOLDS for every read outside that class: the returned vector and the returned metadata are
   each canonical at a step of the call's interval (kv, km), and when no write of that id took effect
   between those two steps they belong to one canonical record.  (The refuted class is exactly "a write
   of the same id lands between the metadata fetch and the vector's linearisation point".) *)
Theorem C05_pairing_without_interleaved_write :
  forall (digest : vec -> dgst) (hard : nat), (forall a b : vec, digest a = digest b -> a = b) ->
  forall sh0 threads sched g,
    crun digest hard (ginit sh0 threads) sched = Some g ->
    forall t c cl r inv res id v m,
      In (HRes t c cl r inv res) (g_hist g) -> In (id, (v, m)) (pair_components r) ->
      exists kv km xv xm,
        In (kv, LObs id xv) (chron (g_log g)) /\ In (km, LObs id xm) (chron (g_log g)) /\
        inv <= kv <= res /\ inv <= km <= res /\
        option_map c_vec xv = Some v /\ option_map c_meta xm = Some m /\
        ((forall kw xw, In (kw, LW id xw) (chron (g_log g)) -> ~ (Nat.min kv km <= kw <= Nat.max kv km)) ->
         exists rc, xv = Some rc /\ xm = Some rc /\ c_vec rc = v /\ c_meta rc = m).
Proof. exact pairing_without_interleaved_write. Qed.

(* ---------- "never a deleted document after its delete completed" is REFUTED on the faithful model ---------- *)
(* It holds in runs without a drain repair write ... *)
Theorem C05_read_after_completed_delete :
  forall (digest : vec -> dgst) (hard : nat), (forall a b : vec, digest a = digest b -> a = b) ->
  forall sh0 threads sched g,
    crun digest hard (ginit sh0 threads) sched = Some g ->
    client_writes_only g ->
    forall tw cw rw invw resw t c cl r inv res id v,
      In (HRes tw cw (CDelete id) rw invw resw) (g_hist g) ->
      In (HRes t c cl r inv res) (g_hist g) -> In (id, Some v) (vec_components r) ->
      resw < inv ->
      exists kW kw t' c' m inv',
        invw <= kW <= resw /\ kW <= kw <= res /\
        In (HInv t' c' (CInsert id v m) inv') (g_hist g) /\ inv' <= kw.
Proof. exact read_after_completed_delete. Qed.

(* ... and fails with one: hot_tier_hard_limit = 1, document 7 mirrored.  delete(7) performs its
   cold-tier delete (step 0) and is preempted before hot_tier.delete; insert(9, ..) of another client finds
   the hot tier at its hard limit, drains it (taking 7's mirror), finds no canonical record of 7 and
   "repairs" it with cold_tier.insert; the delete finishes and answers found = true (step 19); a point
   read of 7 invoked AFTERWARDS (step 20) returns the deleted vector, although no insert of id 7 was ever
   invoked. *)
Definition res_threads : list (list call) := [[CDelete 7]; [CInsert 9 wB nB]; [CQuery true 7]].
Definition res_sched : list sitem := [Run 0] ++ repeat (Run 1) 16 ++ repeat (Run 0) 3 ++ repeat (Run 2) 4.
Definition never_inserted (g : gstate) (id : N) : Prop :=
  forall t c i v m inv, In (HInv t c (CInsert i v m) inv) (g_hist g) -> i <> id.

Theorem C05_drain_resurrects_deleted_refuted :
  exists (digest : vec -> dgst) (hard : nat), (forall a b : vec, digest a = digest b -> a = b) /\
  exists sh0 threads sched g id v td cd invd resd tr cr ar invr resr,
    crun digest hard (ginit sh0 threads) sched = Some g /\
    In (HRes td cd (CDelete id) (RDel true) invd resd) (g_hist g) /\
    In (HRes tr cr (CQuery ar id) (RVec id (Some v)) invr resr) (g_hist g) /\
    resd < invr /\ never_inserted g id.
Proof.
  exists dg_id, 1. split; [intros a b H; exact H|].
  exists pair_sh0, res_threads, res_sched.
  destruct (crun dg_id 1 (ginit pair_sh0 res_threads) res_sched) as [g|] eqn:E; [|vm_compute in E; discriminate].
  exists g, 7%N, wA, 0, 0, 0, 19, 2, 0, true, 20, 23.
  vm_compute in E. inversion E; subst g; clear E.
  split; [reflexivity|]. split; [cbn; tauto|]. split; [cbn; tauto|]. split; [repeat constructor|].
  intros t c i v m inv H. cbn in H.
  repeat (destruct H as [H|H]; [try discriminate; inversion H; subst; discriminate|]). destruct H.
Qed.

(* Observation (not part of the read clauses): an insert can answer Err AFTER its cold-tier write took
   effect — a delete of the same id lands between the insert's cold.insert and its token read
   ("insert succeeded but cold tier has no canonical token").  The theorems above linearise such an
   insert as a write. *)
Definition err_threads : list (list call) := [[CInsert 7 wB nB]; [CDelete 7]].
Definition err_sched : list sitem := repeat (Run 0) 7 ++ repeat (Run 1) 4 ++ [Run 0].
Theorem C05_insert_err_after_effect_witness :
  exists g, crun dg_id 5000 (ginit pair_sh0 err_threads) err_sched = Some g /\
    In (HRes 0 0 (CInsert 7 wB nB) (RIns false) 0 11) (g_hist g) /\
    In (4, LW 7 (Some (mkC wB nB 2))) (g_log g) /\
    In (HRes 1 0 (CDelete 7) (RDel true) 7 10) (g_hist g).
Proof. eexists. split; [vm_compute; reflexivity|]. vm_compute. tauto. Qed.

(* ---------- non-vacuity ---------- *)
(* three threads, two ids, a stale L1a entry, a corrupt mirror entry, environment pokes: a run of the
   semantics with seven completed calls, among them reads served from every tier *)
Definition nv_sh0 : shared :=
  mkSh [(7%N, mkC wA nA 3); (8%N, mkC wB nB 1)]
       [(7%N, mkL wB (2%N, dg_id wB)); (8%N, mkL wB (1%N, dg_id wB))]
       [(7%N, mkH wA nA (3%N, dg_id wB))].
Definition nv_threads : list (list call) :=
  [[CQuery true 8; CQuery true 7; CGetDoc 7];
   [CInsert 7 wB nA; CDelete 8];
   [CBulk [7; 8]%N; CGetEmb 8]].
Definition nv_sched : list sitem :=
  [Run 0; Run 0; Run 2; Run 1; Run 0; PokeHot 8 (Some (mkH wA nA (9%N, dg_id wA))); Run 2; Run 1; PokeL1 7 None;
   Run 0; Run 1; Run 2; Run 0; Run 1; Run 2; Run 0; Run 1; Run 2; Run 0; Run 1; Run 2; Run 0; Run 1; Run 2;
   Run 0; Run 1; Run 2; Run 0; Run 1; Run 0; Run 1; Run 1; Run 1; Run 1].

Definition is_res (e : hevent) : bool := match e with HRes _ _ _ _ _ _ => true | _ => false end.
Example C05_nonvacuous :
  exists g, crun dg_id 5000 (ginit nv_sh0 nv_threads) nv_sched = Some g /\
            length (filter is_res (g_hist g)) = 7 /\
            In (HRes 0 0 (CQuery true 8) (RVec 8 (Some wB)) 0 1) (g_hist g).
Proof. eexists. split; [vm_compute; reflexivity|]. vm_compute. tauto. Qed.

Print Assumptions C05_read_has_lin_point.
Print Assumptions C05_meta_has_lin_point.
Print Assumptions C05_register_linearizable.
Print Assumptions C05_real_time_order.
Print Assumptions C05_linearisation_subsequence.
Print Assumptions C05_read_value_written.
Print Assumptions C05_read_sees_completed_write.
Print Assumptions C05_pairing_refuted.
Print Assumptions C05_read_after_completed_delete.
Print Assumptions C05_drain_resurrects_deleted_refuted.
Print Assumptions C05_pairing_without_interleaved_write.
Print Assumptions C05_pairing_refuted_bulk.
Print Assumptions C05_insert_err_after_effect_witness.
