(* C11 (tie by translation) — the numeric index key regenerated from hnsw_backend.rs on every run is the
   `okey` of Model/Filter.v, hence (with C11_okey_order) order-isomorphic to f64 comparison on non-NaN values.
   Statements only; proofs in Proofs/OrderedF64GenProofs.v and Proofs/FilterLemmas.v. *)
From Coq Require Import ZArith Bool.
From Kyro Require Import Model.Filter gen.OrderedF64_gen Proofs.FilterLemmas Proofs.OrderedF64GenProofs.
Open Scope Z_scope.

Theorem C11_generated_okey_matches_model : forall v : Z,
  0 <= v < two64 -> OrderedF64_gen.from_f64 v = Filter.okey v.
Proof. exact gen_from_f64_eq_okey. Qed.

(* consequence, stated directly over the generated function *)
Theorem C11_generated_okey_order : forall a b : Z,
  0 <= a < two64 -> 0 <= b < two64 -> f64_is_nan a = false -> f64_is_nan b = false ->
  (OrderedF64_gen.from_f64 a <=? OrderedF64_gen.from_f64 b) = f64_le a b /\
  (OrderedF64_gen.from_f64 a <? OrderedF64_gen.from_f64 b) = f64_lt a b.
Proof.
  intros a b Ha Hb Na Nb. rewrite !gen_from_f64_eq_okey by assumption.
  split; [apply okey_le | apply okey_lt]; assumption.
Qed.

(* Non-vacuity: +0.0 and -0.0 get the same key 2^63; 1.0 (0x3FF0…) sorts above, -1.0 (0xBFF0…) below. *)
Example C11gen_nonvacuous :
  OrderedF64_gen.from_f64 0 = 9223372036854775808 /\
  OrderedF64_gen.from_f64 9223372036854775808 = 9223372036854775808 /\
  OrderedF64_gen.from_f64 4607182418800017408 = 13830554455654793216 /\
  OrderedF64_gen.from_f64 13830554455654793216 = 4616189618054758399.
Proof. vm_compute. repeat split; reflexivity. Qed.

Print Assumptions C11_generated_okey_matches_model.
Print Assumptions C11_generated_okey_order.
