(* C03 — a write that reports failure changes nothing, now or after restart.  Statements only; proofs
   live in Proofs/WalWriterProofs.v, the model in Model/WalWriter.v (byte-level WalWriter with
   rollback, poisoning, WalErrorHandler retry/classification and circuit breaker, on top of the
   byte-level reader model Model/WalBytes.v; thin engine layer for insert / delete / batch_delete /
   update_metadata with WAL-before-memory ordering and restart = strict read + replay).

   Every theorem quantifies over EVERY fault oracle `orc : list sysres` (the outcome of each write /
   fsync / fdatasync / ftruncate the code issues, in order, any length: short writes, every errno
   class, faults during the rollback and during the retries), every fsync policy `pol`, every state
   satisfying the writer invariant `Inv` (reached from `init` by any history, `C03_ack_durable`).
   `crc` and `deser_ok` are parameters with the explicit premises `crc p < 2^32` and `wfp p`
   (payload size within bounds, bincode-decodable) for the payloads being logged.

   RECORDED CLASS (known_findings C03-rollback-failed-after-complete-frame).  `known_c03 st ps orc`
   = the call fails, its rollback fails, and at that moment at least the first complete frame of the
   same call is already in the file (write ok + fsync fails + ftruncate fails; or a batch whose first
   frame is written, a later write fails and the ftruncate fails).  Failure atomicity is proved for
   every input outside this class; inside it the theorem is refuted by a computed witness
   (C03_complete_frame_leftover_refuted), which replays on the real engine.  What IS proved inside
   the class: only a prefix of that call's own entries can appear (C03_wal_failure_prefix), no other
   document is affected (C03_others_untouched), nothing acknowledged is lost (C03_ack_durable) and
   nothing more is acknowledged (C03_no_ack_after_poison). *)
From Coq Require Import List NArith Bool Lia.
From Kyro Require Import Model.WalBytes Proofs.WalBytesProofs Model.WalWriter Proofs.WalWriterProofs.
Import ListNotations.
Open Scope N_scope.

(* A failed writer call leaves the strict reader's view exactly as it was (same entries, still Ok),
   even when the rollback itself failed and a torn tail stays behind. *)
Theorem C03_wal_failure_atomic :
  forall (crc : bytes -> N) (pol : policy) (deser_ok : bytes -> bool), (forall p, crc p < 4294967296) ->
  forall (st : wstate) (es : list bytes) (op : wop) (orc : oracle) st' r orc',
  Inv crc deser_ok st es -> Forall (wfp deser_ok) (wpayloads op) ->
  wstep crc pol st op orc = (st', r, orc') -> is_failed r = true ->
  known_c03 crc pol st (wpayloads op) orc = false ->
  read_all_strict crc deser_ok (w_file (s_w st')) = read_all_strict crc deser_ok (w_file (s_w st)) /\
  read_all_strict crc deser_ok (w_file (s_w st)) = RdOk es /\ Inv crc deser_ok st' es.
Proof. exact wal_failure_atomic. Qed.

(* In every case, recorded class included: the reader sees the old entries followed by a prefix of
   THIS call's entries (all of them iff acknowledged); nothing older is removed or damaged. *)
Theorem C03_wal_failure_prefix :
  forall (crc : bytes -> N) (pol : policy) (deser_ok : bytes -> bool), (forall p, crc p < 4294967296) ->
  forall (st : wstate) (es : list bytes) (op : wop) (orc : oracle) st' r orc',
  Inv crc deser_ok st es -> Forall (wfp deser_ok) (wpayloads op) ->
  wstep crc pol st op orc = (st', r, orc') ->
  exists j, read_all_strict crc deser_ok (w_file (s_w st')) = RdOk (es ++ firstn j (wpayloads op)) /\
            Inv crc deser_ok st' (es ++ firstn j (wpayloads op)) /\
            (r = Acked -> firstn j (wpayloads op) = wpayloads op).
Proof. exact wal_failure_prefix. Qed.

(* Every acknowledged payload is returned by the strict reader in every later state, for every
   history of calls and every fault oracle; outside the recorded class the reader returns EXACTLY
   the acknowledged payloads, in order. *)
Theorem C03_ack_durable :
  forall (crc : bytes -> N) (pol : policy) (deser_ok : bytes -> bool), (forall p, crc p < 4294967296) ->
  forall (ops : list wop) (orc : oracle) st' rs orc',
  Forall (fun op => Forall (wfp deser_ok) (wpayloads op)) ops ->
  wrun crc pol init ops orc = (st', rs, orc') ->
  exists es', read_all_strict crc deser_ok (w_file (s_w st')) = RdOk es' /\
              (forall p, In p (acked_payloads ops rs) -> In p es') /\
              (any_known crc pol init ops orc = false -> es' = acked_payloads ops rs).
Proof. exact ack_durable. Qed.

(* The invariant is not an assumption about the outside world: every state reached from the freshly
   created writer by any history under any oracle satisfies it. *)
Theorem C03_reachable_inv :
  forall (crc : bytes -> N) (pol : policy) (deser_ok : bytes -> bool), (forall p, crc p < 4294967296) ->
  forall (ops : list wop) (orc : oracle) st' rs orc',
  Forall (fun op => Forall (wfp deser_ok) (wpayloads op)) ops ->
  wrun crc pol init ops orc = (st', rs, orc') -> exists es', Inv crc deser_ok st' es'.
Proof.
  intros crc pol deser_ok Hc ops orc st' rs orc' Hw H.
  destruct (wrun_spec crc pol deser_ok ops init [] orc st' rs orc' (Inv_init crc deser_ok) Hw H) as (es' & HI & _).
  exists es'. exact HI.
Qed.

(* The reader lemma behind the rollback-failure case: complete frames followed by a proper prefix of
   one more frame (a torn tail) read, strictly and without error, as exactly the complete frames. *)
Theorem C03_torn_tail_reads_as_complete_frames :
  forall (crc : bytes -> N) (deser_ok : bytes -> bool), (forall p, crc p < 4294967296) ->
  forall (es : list bytes) (q : bytes) (k : nat),
  Forall (wfp deser_ok) es -> valid_payload q -> (k < length (frame crc q))%nat ->
  read_all_strict crc deser_ok (segment crc es ++ firstn k (frame crc q)) = RdOk es.
Proof.
  intros crc deser_ok Hc es q k Hw Hq Hk. apply read_segment_torn; [exact Hc|exact Hw|].
  right. exists q, k. auto.
Qed.

(* After a failed rollback nothing is acknowledged and the file is never touched again. *)
Theorem C03_no_ack_after_poison :
  forall (crc : bytes -> N) (pol : policy) (ops : list wop) (st : wstate) (orc : oracle) st' rs orc',
  w_poisoned (s_w st) = true -> wrun crc pol st ops orc = (st', rs, orc') ->
  Forall (fun r => is_failed r = true) rs /\ s_w st' = s_w st.
Proof. exact no_ack_after_poison_run. Qed.

(* Every input class the index would refuse is refused before anything is logged: the whole state
   (file, counters, live map) and the oracle are untouched.  Stated over the classes themselves, so
   it is FALSE for the ordering before /repo ca4513e (see C03_prefix_model_refuted). *)
Theorem C03_invalid_input_no_effect :
  forall (crc : bytes -> N) (pol : policy) (st : estate) (id : N) (c : icls) (body : bytes) (orc : oracle),
  c <> IValid -> estep crc pol st (OInsert id c body) orc = (st, EFail, orc).
Proof.
  intros crc pol st id c body orc H. apply invalid_input_no_effect. destruct c; try reflexivity. congruence.
Qed.

(* Engine level: an operation that does not return Ok changes neither the live map nor what a
   restart recovers; and "restart recovers exactly the live map" is preserved by every step. *)
Theorem C03_engine_failure_atomic :
  forall (crc : bytes -> N) (pol : policy) (deser_ok : bytes -> bool), (forall p, crc p < 4294967296) ->
  forall (st : estate) (op : eop) (orc : oracle) st' r orc',
  EInv crc deser_ok st -> Forall (wfp deser_ok) (op_payloads st op) ->
  estep crc pol st op orc = (st', r, orc') -> e_known crc pol st op orc = false ->
  EInv crc deser_ok st' /\
  (r <> EOk -> e_mem st' = e_mem st /\
               recover crc deser_ok (w_file (s_w (e_s st'))) = recover crc deser_ok (w_file (s_w (e_s st)))).
Proof. exact engine_failure_atomic. Qed.

Theorem C03_engine_history :
  forall (crc : bytes -> N) (pol : policy) (deser_ok : bytes -> bool), (forall p, crc p < 4294967296) ->
  forall (ops : list eop) (orc : oracle) st' rs orc',
  e_all_wf crc pol deser_ok einit ops orc -> e_any_known crc pol einit ops orc = false ->
  erun crc pol einit ops orc = (st', rs, orc') ->
  recover crc deser_ok (w_file (s_w (e_s st'))) = Some (e_mem st').
Proof.
  intros crc pol deser_ok Hc ops orc st' rs orc' Hw Hk H.
  exact (proj2 (engine_history crc pol deser_ok Hc ops einit orc st' rs orc' (EInv_init crc deser_ok) Hw Hk H)).
Qed.

(* No other document is affected — for every outcome of the operation, recorded class included. *)
Theorem C03_others_untouched :
  forall (crc : bytes -> N) (pol : policy) (deser_ok : bytes -> bool), (forall p, crc p < 4294967296) ->
  forall (st : estate) (op : eop) (orc : oracle) st' r orc' (id : N),
  EInv crc deser_ok st -> Forall (wfp deser_ok) (op_payloads st op) -> Forall id_ok (op_ids op) ->
  estep crc pol st op orc = (st', r, orc') -> ~ In id (op_ids op) ->
  m_get id (e_mem st') = m_get id (e_mem st) /\
  exists m m', recover crc deser_ok (w_file (s_w (e_s st))) = Some m /\
               recover crc deser_ok (w_file (s_w (e_s st'))) = Some m' /\
               m_get id m' = m_get id m.
Proof. exact others_untouched. Qed.

(* ---------------------------------------------------------------------------------------------- *)
(* Witnesses (executable CRC-32, every payload decodable)                                           *)
(* ---------------------------------------------------------------------------------------------- *)
Definition all_ok : bytes -> bool := fun _ => true.
Definition p1 : bytes := enc 0 7 [1; 2; 3].
Definition p2 : bytes := enc 0 8 [9; 9].
Definition p3 : bytes := enc 1 7 [].

(* REFUTED inside the recorded class: write ok, fsync EIO, ftruncate EIO.  The call fails, the writer
   is poisoned, and the strict reader now returns the entry of the failed call. *)
Theorem C03_complete_frame_leftover_refuted :
  let orc := [SOk; SErr EIO; SErr EIO] in
  let '(st', r, _) := append crc32m PAlways init p1 orc in
  known_c03 crc32m PAlways init [p1] orc = true /\ is_failed r = true /\ w_poisoned (s_w st') = true /\
  read_all_strict crc32m all_ok (w_file (s_w init)) = RdOk [] /\
  read_all_strict crc32m all_ok (w_file (s_w st')) = RdOk [p1].
Proof. vm_compute. repeat split. Qed.

(* the same class in a batch: frame 1 written, write of frame 2 fails, ftruncate fails *)
Theorem C03_complete_frame_leftover_batch_refuted :
  let orc := [SOk; SShort 3; SErr EIO; SErr EACCES] in
  let '(st', r, _) := append_batch crc32m PAlways init [p3; p2] orc in
  known_c03 crc32m PAlways init [p3; p2] orc = true /\ is_failed r = true /\
  read_all_strict crc32m all_ok (w_file (s_w st')) = RdOk [p3].
Proof. vm_compute. repeat split. Qed.

(* REFUTED for the ordering before ca4513e (append, then the index check, then a compensating
   Delete): insert(1, valid) acknowledged; insert(1, non-finite) fails and leaves the live map
   alone, but a restart no longer has document 1. *)
Example C03_prefix_model_refuted :
  let '(st1, r1, _) := estep_old crc32m PAlways einit (OInsert 1 IValid [5; 5]) [] in
  let '(st2, r2, _) := estep_old crc32m PAlways st1 (OInsert 1 INonFinite [6; 6]) [] in
  r1 = EOk /\ r2 = EFail /\ e_mem st2 = e_mem st1 /\
  is_some (m_get 1 (e_mem st2)) = true /\
  option_map (m_get 1) (recover crc32m all_ok (w_file (s_w (e_s st1)))) = Some (m_get 1 (e_mem st1)) /\
  option_map (m_get 1) (recover crc32m all_ok (w_file (s_w (e_s st2)))) = Some None /\
  (* the current ordering on the same history: nothing is logged *)
  estep crc32m PAlways st1 (OInsert 1 INonFinite [6; 6]) [] = (st1, EFail, []).
Proof. vm_compute. repeat split. Qed.

(* Non-vacuity 1: a concrete oracle with a short write, then ENOSPC, then a failed truncate.  The
   hypotheses of C03_wal_failure_atomic hold (Inv, wfp, outside the recorded class), the call fails,
   a 5-byte torn tail stays in the file, the reader's view is unchanged, the writer is poisoned and
   the next call is refused. *)
Definition nv_orc : oracle := [SShort 5; SErr ENOSPC; SErr EIO].

Example C03_nonvacuous_short_enospc_failed_truncate :
  let '(st1, r1, o1) := append crc32m PAlways init p1 [] in
  let '(st2, r2, o2) := append crc32m PAlways st1 p2 nv_orc in
  let '(st3, r3, _) := append crc32m PAlways st2 p3 o2 in
  r1 = Acked /\ is_failed r2 = true /\ known_c03 crc32m PAlways st1 [p2] nv_orc = false /\
  w_poisoned (s_w st2) = true /\
  length (w_file (s_w st2)) = (length (w_file (s_w st1)) + 5)%nat /\
  read_all_strict crc32m all_ok (w_file (s_w st1)) = RdOk [p1] /\
  read_all_strict crc32m all_ok (w_file (s_w st2)) = RdOk [p1] /\
  r3 = Failed (FError XPoisoned) /\ w_file (s_w st3) = w_file (s_w st2).
Proof. vm_compute. repeat split. Qed.

(* Non-vacuity 2: transient faults are retried with the same closure and the call is then
   acknowledged (EIO on the write, rollback, EINTR inside write_all and fsync, short write, success);
   disk-full opens the breaker and the next call is refused without touching the file. *)
Example C03_nonvacuous_retry_then_ack_and_breaker :
  let orc := [SShort 4; SErr EIO; SOk; SOk;                (* attempt 1: torn, rolled back *)
              SErr EINTR; SShort 9; SOk; SErr EINTR; SOk;  (* attempt 2: succeeds *)
              SErr ENOSPC; SOk; SOk] in                   (* next call: disk full, rolled back *)
  let '(st1, r1, o1) := append crc32m PAlways init p1 orc in
  let '(st2, r2, o2) := append crc32m PAlways st1 p2 o1 in
  let '(st3, r3, _) := append crc32m PAlways st2 p3 o2 in
  r1 = Acked /\ r2 = Failed FDiskFull /\ r3 = Failed FBreakerOpen /\ o2 = [] /\
  w_file (s_w st1) = segment crc32m [p1] /\ w_file (s_w st3) = segment crc32m [p1] /\
  b_open (s_b st2) = true /\ w_poisoned (s_w st3) = false.
Proof. vm_compute. repeat split. Qed.

(* the premises are satisfiable: the initial state satisfies the invariant, the sample payloads are
   well formed, and the executable CRC-32 meets the range premise *)
Example C03_premises_satisfiable :
  Inv crc32m all_ok init [] /\ Forall (wfp all_ok) [p1; p2; p3] /\ (forall p, crc32m p < 4294967296) /\
  EInv crc32m all_ok einit.
Proof.
  split; [apply Inv_init|]. split; [|split; [exact crc32m_lt|apply EInv_init]].
  repeat constructor; unfold max_wal_entry; cbn; lia.
Qed.

Print Assumptions C03_wal_failure_atomic.
Print Assumptions C03_wal_failure_prefix.
Print Assumptions C03_ack_durable.
Print Assumptions C03_reachable_inv.
Print Assumptions C03_torn_tail_reads_as_complete_frames.
Print Assumptions C03_no_ack_after_poison.
Print Assumptions C03_invalid_input_no_effect.
Print Assumptions C03_engine_failure_atomic.
Print Assumptions C03_engine_history.
Print Assumptions C03_others_untouched.
Print Assumptions C03_complete_frame_leftover_refuted.
Print Assumptions C03_prefix_model_refuted.
