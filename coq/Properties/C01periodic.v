(* C01, periodic-fsync clause — "under the periodic-fsync policy the same holds against power loss for
   every operation acknowledged more than one configured flush interval before the failure".
   Statements only; model Model/Periodic.v (the timed core of WalWriter::perform_fsync), proofs in
   Proofs/PeriodicProofs.v.

   The clause at full strength (`periodic_clause`) is FALSE of the faithful model:
   C01_periodic_idle_tail_refuted is the witness (Periodic(50 ms), appends acknowledged at 10 ms and 11 ms,
   200 ms idle, power loss) — the recorded finding C01-periodic-idle-tail-never-synced, which the C01
   driver replays on the real engine on every run.  What the code does guarantee is proved for every
   interval, every start instant and every timed history: an entry is durable as soon as ANY append is
   acknowledged at least one interval after it (C01_periodic_partial), and with interval 0 nothing is
   ever pending (C01_periodic_zero_every_write).  So the recorded class is exactly the idle tail. *)
From Coq Require Import List NArith.
From Kyro Require Import Model.Periodic Proofs.PeriodicProofs.
Import ListNotations.
Open Scope N_scope.

Theorem C01_periodic_partial : forall iv t0 pre d mid dj post,
  p_now (prun iv t0 (pre ++ [d])) + iv <= p_now (prun iv t0 (pre ++ [d] ++ mid ++ [dj])) ->
  (length pre < length (p_durable (prun iv t0 (pre ++ [d] ++ mid ++ [dj] ++ post))))%nat.
Proof. exact periodic_followed_durable. Qed.

Theorem C01_periodic_zero_every_write : forall t0 evs, p_pending (prun 0 t0 evs) = [].
Proof. exact periodic_zero_every_write. Qed.

Theorem C01_periodic_idle_tail_refuted : ~ periodic_clause 50 0 [10; 1] 200.
Proof. exact periodic_idle_tail_refuted. Qed.

Example C01_periodic_nonvacuous :
  p_durable (prun 50 0 [10; 1; 60; 5]) = [10; 11; 71] /\ p_pending (prun 50 0 [10; 1; 60; 5]) = [76].
Proof. exact periodic_followed_nonvacuous. Qed.

Print Assumptions C01_periodic_partial.
Print Assumptions C01_periodic_zero_every_write.
Print Assumptions C01_periodic_idle_tail_refuted.
