(* C03 (segment level) — acknowledged operations stay durable whatever storage fault hits WAL rotation,
   the snapshot commit, WAL compaction or start-up.  Statements only; proofs in Proofs/SegmentsProofs.v,
   the model in Model/Segments.v.

   Every theorem quantifies over EVERY list of micro-steps `ms` from the empty directory: any number
   of appends, rotations, snapshots (with compaction), stops and starts, in any order, and for each
   of them every outcome of every Manifest::save it performs (VOk / VPre = failed up to the rename /
   VPost = failed in the directory fsync AFTER the rename had replaced the MANIFEST), every outcome of
   creating the new segment file (ok / failed without a file / failed leaving a file) and every
   outcome of every unlink.  `mrun init ms = Some s'` only excludes ill-formed observations (an
   append without a running engine, sequence numbers that do not increase, a snapshot whose
   last_wal_seq is below a number already appended).

   What Model/WalWriter.v (file C03.v) proves about ONE segment file — a failed append leaves the
   reader's view unchanged, an acknowledged entry is in the file — composes with these: the entry is
   in the ACTIVE segment, and here the active segment is always the newest listed one, exists, and
   is never unlinked while it holds an entry the committed snapshot does not cover. *)
From Coq Require Import List NArith Bool.
From Kyro Require Import Model.Segments Proofs.SegmentsProofs.
Import ListNotations.
Open Scope N_scope.

(* Every sequence number ever appended is recoverable: covered by the committed snapshot, or held by
   a segment that the on-disk MANIFEST lists and whose file exists. *)
Theorem C03_seg_appended_stays_recoverable :
  forall ms s', mrun init ms = Some s' -> forall n, In n (log s') -> recoverable s' n = true.
Proof. exact appended_stays_recoverable. Qed.

(* "Covered by the committed snapshot" is meant literally: a number <= snap was appended before that
   snapshot was captured (no later append can slip under the snapshot's sequence number). *)
Theorem C03_seg_snapshot_covers_only_captured :
  forall ms s' n, mrun init ms = Some s' -> In n (log s') -> n <= snap s' -> In n (captured s').
Proof. exact snapshot_covers_only_captured. Qed.

(* The live writer appends to the newest segment the on-disk MANIFEST lists, and that file exists:
   compaction ("keep the last listed segment") can therefore never unlink the file being written. *)
Theorem C03_seg_writer_on_newest_listed :
  forall ms s' a, mrun init ms = Some s' -> active s' = Some a ->
  lastN (man s') = Some a /\ memN a (files s') = true.
Proof. exact writer_on_newest_listed. Qed.

(* Strict recovery never meets a listed segment whose file is gone. *)
Theorem C03_seg_listed_segments_exist :
  forall ms s', mrun init ms = Some s' -> forallb (fun f => memN f (files s')) (man s') = true.
Proof. exact listed_segments_exist. Qed.

(* The one-step form (every state satisfying the invariant, every micro-step, every fault outcome). *)
Theorem C03_seg_step_preserves_invariant :
  forall s m s', Inv s -> mstep s m = Some s' -> Inv s'.
Proof. exact mstep_inv. Qed.

(* REGRESSION (defect repaired by fix db1490c).  Before the repair, rotation stayed on the old segment
   whenever Manifest::save returned Err, also when the failure was the directory fsync after the
   rename: the MANIFEST then listed the new segment as the newest, the next snapshot's compaction
   unlinked the old one, and an append acknowledged afterwards was unrecoverable.  `mstep_old` keeps
   that behaviour as a labelled model; the same trace on the current model keeps the entry. *)
Theorem C03_seg_old_rotation_refuted :
  exists s', mrun_old init old_loss_trace = Some s' /\ In 2 (log s') /\ recoverable s' 2 = false
             /\ active s' = Some 10 /\ memN 10 (files s') = false.
Proof. exact old_rotation_loses_an_append. Qed.

(* Non-vacuity: a well-formed run with a fault in every position class, ending in a state with a live
   writer, three listed segments' worth of history, a committed snapshot and a compacted segment. *)
Example C03_seg_nonvacuous :
  exists s', mrun init [ MStart 10 COk VPost; MStart 11 CFailFile VOk; MStart 12 COk VOk; MAppend [1; 2];
                         MRotate 13 COk VPre; MRotate 14 COk VPost; MAppend [3];
                         MSnapshot 5 [VOk; VOk; VPre] [false; true]; MAppend [6];
                         MRotate 15 CFailNoFile VOk; MSnapshot 6 [VPost] []; MStop; MStart 16 COk VOk;
                         MAppend [9] ] = Some s'
             /\ man s' = [14; 16] /\ snap s' = 6 /\ active s' = Some 16 /\ log s' = [1; 2; 3; 6; 9]
             /\ forallb (recoverable s') (log s') = true.
Proof. eexists. vm_compute. repeat split. Qed.

Print Assumptions C03_seg_appended_stays_recoverable.
Print Assumptions C03_seg_snapshot_covers_only_captured.
Print Assumptions C03_seg_writer_on_newest_listed.
Print Assumptions C03_seg_listed_segments_exist.
Print Assumptions C03_seg_step_preserves_invariant.
Print Assumptions C03_seg_old_rotation_refuted.
