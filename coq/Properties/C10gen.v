(* C10 (tie by translation) — the tenant/doc-id packing regenerated from kyrodb_server.rs on every run equals
   the functions of Model/Server.v that the C10 theorems use, is injective on (tenant, local id) and keeps
   tenants apart.  Statements only; proofs in Proofs/TenantIdGenProofs.v. *)
From Coq Require Import NArith Bool.
From Kyro Require Import Model.Server gen.TenantId_gen Proofs.TenantIdGenProofs.
Open Scope N_scope.

Theorem C10_generated_tenant_ids_match_model : forall t l g,
  t < 4294967296 -> g < 18446744073709551616 ->
  TenantId_gen.to_global_doc_id t l = Server.to_global_doc_id t l /\
  TenantId_gen.is_tenant_doc_id t g = Server.is_tenant_doc_id t g /\
  TenantId_gen.to_local_doc_id g = Server.to_local_doc_id g.
Proof.
  intros t l g Ht Hg. split; [|split].
  - apply gen_to_global_eq. exact Ht.
  - apply gen_is_tenant_eq. exact Hg.
  - apply gen_to_local_eq.
Qed.

Theorem C10_generated_tenant_ids_round_trip : forall t l g,
  t < 4294967296 -> l < 4294967296 ->
  TenantId_gen.to_global_doc_id t l = Some g ->
  TenantId_gen.to_local_doc_id g = l /\
  (forall t', t' < 4294967296 -> TenantId_gen.is_tenant_doc_id t' g = (t =? t')) /\
  g < 18446744073709551616.
Proof. exact gen_round_trip. Qed.

Theorem C10_generated_range_check : forall t l,
  TenantId_gen.to_global_doc_id t l = None <-> 4294967296 <= l.
Proof. exact gen_range_check. Qed.

(* Non-vacuity: tenant 7, local id 2^32-1 packs to 0x7_FFFF_FFFF, unpacks, and belongs to 7 only; 2^32 is refused. *)
Example C10gen_nonvacuous :
  TenantId_gen.to_global_doc_id 7 4294967295 = Some 34359738367 /\
  TenantId_gen.to_local_doc_id 34359738367 = 4294967295 /\
  TenantId_gen.is_tenant_doc_id 7 34359738367 = true /\
  TenantId_gen.is_tenant_doc_id 6 34359738367 = false /\
  TenantId_gen.to_global_doc_id 7 4294967296 = None.
Proof. vm_compute. repeat split; reflexivity. Qed.

Print Assumptions C10_generated_tenant_ids_match_model.
Print Assumptions C10_generated_tenant_ids_round_trip.
Print Assumptions C10_generated_range_check.
