(* C06 — search results are sound and reflect acknowledged recent writes (PARTIAL: soundness + guarded
   completeness for recent writes; NOT proved: f32 kernel accuracy, ANN completeness/recall).
   Statements only; proofs live in Proofs/KnnProofs.v; models in Model/Knn.v and gen/SearchK_gen.v.

   Premises shared by the statements (each is an assumption about the world outside the model and is listed
   in the trusted base of evidence/C06.json):
     dle total + transitive      distances form a total preorder (no NaN);
     digest injective            coherence digests identify vectors (no 128-bit digest collision);
     dg_eqb a b = true -> a = b  digest comparison is equality;
     order l ~ l                 HashMap iteration yields a permutation of the entries;
     store_wf                    DocStore invariant: one live slot per external id, stored digest = digest of the
                                 stored vector;  hot_wf: hot-tier keys are distinct (HashMap);
     ann_contract                the AnnBackend trait contract: ascending, duplicate-free, at most search_k
                                 entries, each carrying the TRUE distance of the slot it names;
     cache_ok                    a query-cache entry handed to the search is valid for (store, query, k): C07. *)
From Coq Require Import List NArith Bool Arith Permutation Sorted.
From Kyro Require Import gen.SearchK_gen Model.Knn Proofs.KnnProofs.
Import ListNotations.

(* The bounded max-heap scan of HotTier::knn_search_with_cancel returns exactly the k smallest finite
   candidates by (distance, doc id): any hot tier (distinct keys), any iteration order, any k. *)
Theorem C06_hot_heap_is_topk :
  forall (vec dist dg : Type) (dle : dist -> dist -> bool) (dfin : dist -> bool) (metric : vec -> vec -> dist),
    (forall a b, dle a b = true \/ dle b a = true) ->
    (forall a b c, dle a b = true -> dle b c = true -> dle a c = true) ->
    forall (k : nat) (q : vec) (hs : hot vec dg),
      NoDup (map h_id hs) ->
      hot_knn dle dfin metric k q hs = topk_spec dle dfin k (hot_cands metric q hs).
Proof. exact hot_heap_is_topk. Qed.

(* merge_knn_results: at most k, distinct ids, non-decreasing distances, every entry comes from the hot or the
   cold list with that list's distance, and the hot distance wins when an id is in both. *)
Theorem C06_merge_sound :
  forall (dist : Type) (dle : dist -> dist -> bool),
    (forall a b, dle a b = true \/ dle b a = true) ->
    (forall a b c, dle a b = true -> dle b c = true -> dle a c = true) ->
    forall (order : list (res dist) -> list (res dist)), (forall l, Permutation (order l) l) ->
    forall (h c : list (res dist)) (k : nat),
      let out := merge_knn dle order h c k in
      (length out <= k)%nat
      /\ NoDup (map fst out)
      /\ sorted_by_distance dist dle out
      /\ (forall i d, In (i, d) out -> In (i, d) h \/ (~ In i (map fst h) /\ In (i, d) c)).
Proof. intros dist dle Ht Hr. apply (merge_sound dist dle (fun _ => true) Ht Hr). Qed.

(* HnswBackend::knn_search_with_ef_cancel under the oracle contract: at most k results, distinct, every one
   names a document that is live NOW (no tombstoned slot, no stale internal id) with the true distance of its
   CURRENT vector, in non-decreasing order. *)
Theorem C06_cold_sound :
  forall (vec dist dg : Type) (dle : dist -> dist -> bool) (metric : vec -> vec -> dist) (digest : vec -> dg)
         (ann : ann_t vec dist) (s : cstore vec dg) (qc : qcheck) (q : vec) (k : N) (out : list (res dist)),
    store_wf vec dg digest s ->
    ann_contract vec dist dg dle metric ann s q ->
    cold_search ann s qc q k = Ok out ->
    sound_results vec dist dg dle metric s q (N.to_nat k) out /\ (1 <= k <= 10000)%N.
Proof. exact cold_sound. Qed.

(* The tiered entry points knn_search / knn_search_with_ef (knn_search_with_ef_detailed_scoped): every Ok
   response is sound, whatever the hot tier holds (stale mirrors included). *)
Theorem C06_sound :
  forall (vec dist dg : Type) (dle : dist -> dist -> bool) (dfin : dist -> bool) (metric : vec -> vec -> dist)
         (digest : vec -> dg) (dg_eqb : dg -> dg -> bool),
    (forall a b, dle a b = true \/ dle b a = true) ->
    (forall a b c, dle a b = true -> dle b c = true -> dle a c = true) ->
    (forall a b, digest a = digest b -> a = b) ->
    (forall a b, dg_eqb a b = true -> a = b) ->
    forall (order : list (res dist) -> list (res dist)), (forall l, Permutation (order l) l) ->
    forall (ann : ann_t vec dist) (e e' : engine vec dg) (qc : qcheck) (q : vec) (k : N) (ef : option N)
           (cache : option (list (res dist))) (r : response dist),
      store_wf vec dg digest (e_cold e) -> hot_wf vec dg (e_hot e) ->
      ann_contract vec dist dg dle metric ann (e_cold e) q ->
      cache_ok vec dist dg dle metric (e_cold e) q (N.to_nat k) cache ->
      tiered_search dle dfin metric digest dg_eqb order ann e qc q k ef cache = (Ok r, e') ->
      sound_results vec dist dg dle metric (e_cold e) q (N.to_nat k) (r_results r) /\ e_cold e' = e_cold e.
Proof. exact tiered_sound. Qed.

(* The timed path knn_search_with_timeouts*: every Ok response — full, partial or degraded, for every
   combination of breaker states, worker permits, panics and timeouts — is sound. *)
Theorem C06_sound_timed :
  forall (vec dist dg : Type) (dle : dist -> dist -> bool) (dfin : dist -> bool) (metric : vec -> vec -> dist)
         (digest : vec -> dg) (dg_eqb : dg -> dg -> bool),
    (forall a b, dle a b = true \/ dle b a = true) ->
    (forall a b c, dle a b = true -> dle b c = true -> dle a c = true) ->
    (forall a b, digest a = digest b -> a = b) ->
    (forall a b, dg_eqb a b = true -> a = b) ->
    forall (order : list (res dist) -> list (res dist)), (forall l, Permutation (order l) l) ->
    forall (ann : ann_t vec dist) (e e' : engine vec dg) (qc : qcheck) (q : vec) (k : N) (ef : option N)
           (cache : option (list (res dist))) (t : tenv) (r : response dist),
      store_wf vec dg digest (e_cold e) -> hot_wf vec dg (e_hot e) ->
      ann_contract vec dist dg dle metric ann (e_cold e) q ->
      cache_ok vec dist dg dle metric (e_cold e) q (N.to_nat k) cache ->
      timed_search dle dfin metric digest dg_eqb order ann e qc q k ef cache t = (Ok r, e') ->
      sound_results vec dist dg dle metric (e_cold e) q (N.to_nat k) (r_results r) /\ e_cold e' = e_cold e.
Proof. exact timed_sound. Qed.

(* compute_search_k as regenerated from /repo: it is its integer part applied to its float expression; for
   EVERY value of that expression: 0 for k = 0, k <= search_k <= min(10000, max(total, k)) for 1 <= k <= 10000,
   exactly k without tombstones, and the clamp cannot panic. *)
Theorem C06_search_k_bounds :
  forall k live total : N,
    compute_search_k k live total = compute_search_k_with (search_k_fsite k live total) k live total
    /\ (forall fx : N,
          let r := compute_search_k_with fx k live total in
          (k = 0 -> r = 0)%N
          /\ ((1 <= k <= 10000)%N -> (k <= r)%N /\ (r <= search_k_upper k total)%N /\ (r <= N.max k (N.min 10000 total))%N)
          /\ (r <= 10000)%N
          /\ (live = 0%N \/ (total <= live)%N -> (k <= 10000)%N -> r = k)
          /\ compute_search_k_panics_with fx k live total = false).
Proof.
  intros k live total. split; [apply search_k_decompose|].
  intro fx. destruct (search_k_bounds_with fx k live total) as [A [B [C D]]].
  repeat split; try tauto; try apply B; auto. apply search_k_no_panic.
Qed.

(* Oversampling: unless clamped to the upper bound, (search_k - headroom) * live >= k * total, i.e. the
   candidate list is expected to contain k live slots plus max(k/4, 2) spare ones.  Premise: the f64
   expression is not below its exact rational value (checked on the driver grid every run; f64 accuracy is
   otherwise not proved). *)
Theorem C06_search_k_oversampling :
  forall fx k live total : N,
    (0 < live)%N -> (1 <= k <= 10000)%N ->
    (search_k_fsite_exact k live total <= fx)%N ->
    let r := compute_search_k_with fx k live total in
    r = search_k_upper k total
    \/ ((total <= live)%N /\ r = k)
    \/ ((N.max (k / 4) 2 <= r)%N /\ (k * total <= (r - N.max (k / 4) 2) * live)%N).
Proof. exact search_k_oversampling_with. Qed.

(* RECENT WRITES.  A document acknowledged and still mirrored in the hot tier with a matching token
   (fresh_mirror) and a finite distance is, in every response that is not a cache hit, either present or
   beaten (the result is full and every returned document is at least as close) — PROVIDED it survives the hot
   tier's top-2k cut: fewer than 2k mirror entries, STALE OR NOT, precede it in (distance, id) order.  The
   cut is taken before filter_hot_knn_results_to_canonical drops stale mirrors, which is why the guard is
   needed (C06_recent_write_refuted).  Holds for ANY oracle (no ANN completeness assumed). *)
Theorem C06_recent_write_complete :
  forall (vec dist dg : Type) (dle : dist -> dist -> bool) (dfin : dist -> bool) (metric : vec -> vec -> dist)
         (digest : vec -> dg) (dg_eqb : dg -> dg -> bool),
    (forall a b, dle a b = true \/ dle b a = true) ->
    (forall a b c, dle a b = true -> dle b c = true -> dle a c = true) ->
    forall (order : list (res dist) -> list (res dist)), (forall l, Permutation (order l) l) ->
    forall (ann : ann_t vec dist) (e e' : engine vec dg) (qc : qcheck) (q : vec) (k : N) (ef : option N)
           (cache : option (list (res dist))) (r : response dist) (x : hentry vec dg),
      hot_wf vec dg (e_hot e) ->
      tiered_search dle dfin metric digest dg_eqb order ann e qc q k ef cache = (Ok r, e') ->
      r_path r <> CacheHit ->
      In x (e_hot e) -> fresh_mirror vec dg digest dg_eqb (e_cold e) x -> dfin (metric q (h_vec x)) = true ->
      survives_hot_cut vec dist dg dle dfin metric q k (e_hot e) x ->
      present_or_beaten vec dist dg dle metric q k x (r_results r).
Proof. exact recent_write_complete. Qed.

(* The same on the timed path for responses NOT produced under degradation (no timeout, panic, open breaker or
   saturated worker queue on the way). *)
Theorem C06_recent_write_complete_timed :
  forall (vec dist dg : Type) (dle : dist -> dist -> bool) (dfin : dist -> bool) (metric : vec -> vec -> dist)
         (digest : vec -> dg) (dg_eqb : dg -> dg -> bool),
    (forall a b, dle a b = true \/ dle b a = true) ->
    (forall a b c, dle a b = true -> dle b c = true -> dle a c = true) ->
    forall (order : list (res dist) -> list (res dist)), (forall l, Permutation (order l) l) ->
    forall (ann : ann_t vec dist) (e e' : engine vec dg) (qc : qcheck) (q : vec) (k : N) (ef : option N)
           (cache : option (list (res dist))) (t : tenv) (r : response dist) (x : hentry vec dg),
      hot_wf vec dg (e_hot e) ->
      timed_search dle dfin metric digest dg_eqb order ann e qc q k ef cache t = (Ok r, e') ->
      r_path r <> CacheHit -> r_degraded r = false ->
      In x (e_hot e) -> fresh_mirror vec dg digest dg_eqb (e_cold e) x -> dfin (metric q (h_vec x)) = true ->
      survives_hot_cut vec dist dg dle dfin metric q k (e_hot e) x ->
      present_or_beaten vec dist dg dle metric q k x (r_results r).
Proof. exact recent_write_complete_timed. Qed.

(* API HISTORIES.  Model/Knn.v `wstep` models every operation that creates or removes mirror entries:
   TieredEngine::insert (cold insert, then mirror with the new canonical token), delete, bulk_load_cold_tier
   (cold inserts, then — since repo commit b64dfda — the mirrors of ALL loaded ids are dropped), flush / emergency
   drain, tombstone compaction, and the removals done by searches and audits.  Starting from an empty hot tier,
   after ANY sequence of them the hot-tier keys are distinct and NO mirror is stale.  (Before b64dfda the
   WBulkLoad case of this proof failed: the mirrors of overwritten ids stayed with outdated tokens.) *)
Theorem C06_api_history_no_stale_mirror :
  forall (vec dg : Type) (digest : vec -> dg) (dg_eqb : dg -> dg -> bool),
    (forall a, dg_eqb a a = true) ->
    forall (ops : list (wop vec)) (e0 : engine vec dg),
      e_hot e0 = [] ->
      hot_wf vec dg (e_hot (wrun digest e0 ops))
      /\ forall y, In y (e_hot (wrun digest e0 ops)) -> fresh_mirror vec dg digest dg_eqb (e_cold (wrun digest e0 ops)) y.
Proof. exact api_history_mirrors_ok. Qed.

(* COROLLARY: in a state reached by an API history the recent-write clause holds WITHOUT the guard, for the sync
   and the timed entry points: when no mirror is stale, 2k mirror entries preceding x all pass the canonical
   filter, so the result is full of documents at least as close.  Any oracle; no ANN completeness assumed. *)
Theorem C06_recent_write_complete_api :
  forall (vec dist dg : Type) (dle : dist -> dist -> bool) (dfin : dist -> bool) (metric : vec -> vec -> dist)
         (digest : vec -> dg) (dg_eqb : dg -> dg -> bool),
    (forall a b, dle a b = true \/ dle b a = true) ->
    (forall a b c, dle a b = true -> dle b c = true -> dle a c = true) ->
    (forall a, dg_eqb a a = true) ->
    forall (order : list (res dist) -> list (res dist)), (forall l, Permutation (order l) l) ->
    forall (ops : list (wop vec)) (e0 : engine vec dg), e_hot e0 = [] ->
    let e := wrun digest e0 ops in
    forall (ann : ann_t vec dist) (qc : qcheck) (q : vec) (k : N) (ef : option N)
           (cache : option (list (res dist))) (x : hentry vec dg),
      In x (e_hot e) -> dfin (metric q (h_vec x)) = true ->
      (forall r e', tiered_search dle dfin metric digest dg_eqb order ann e qc q k ef cache = (Ok r, e') ->
                    r_path r <> CacheHit -> present_or_beaten vec dist dg dle metric q k x (r_results r))
      /\ (forall t r e', timed_search dle dfin metric digest dg_eqb order ann e qc q k ef cache t = (Ok r, e') ->
                    r_path r <> CacheHit -> r_degraded r = false ->
                    present_or_beaten vec dist dg dle metric q k x (r_results r)).
Proof.
  intros vec dist dg dle dfin metric digest dg_eqb Ht Hr Hrefl order Hperm ops e0 H0 e ann qc q k ef cache x Hx Hfin.
  destruct (api_history_mirrors_ok vec dg digest dg_eqb Hrefl ops e0 H0) as [HN Hall].
  split.
  - intros r e' H Hp. eapply (recent_write_complete_fresh vec dist dg dle dfin metric digest dg_eqb Ht Hr order Hperm); eauto.
  - intros t r e' H Hp Hd. eapply (recent_write_complete_fresh_timed vec dist dg dle dfin metric digest dg_eqb Ht Hr order Hperm); eauto.
Qed.

(* For ARBITRARY states (mirrors made stale by a race between a bulk load and an insert, or poked directly)
   the unguarded statement is FALSE in the faithful model (class C06-stale-mirrors-crowd-out-fresh-
   hot-result): well-formed store and hot tier, an oracle meeting the contract, a non-degraded non-cached Ok
   response, a fresh finite mirror entry of an acknowledged document — absent from the result although it is
   strictly closer than the k-th returned document; the guard is exactly what fails (2k stale mirrors, left by
   overwrites that bypass the hot tier, precede it). *)
Theorem C06_recent_write_refuted :
  ann_contract N N N Witness.dleN Witness.metricN Witness.annw Witness.cold 0%N
  /\ store_wf N N Witness.digestN Witness.cold
  /\ hot_wf N N Witness.hotl
  /\ (exists r e', Witness.run = (Ok r, e')
        /\ r_path r <> CacheHit /\ r_degraded r = false
        /\ In Witness.x9 Witness.hotl
        /\ fresh_mirror N N Witness.digestN N.eqb Witness.cold Witness.x9
        /\ ~ present_or_beaten N N N Witness.dleN Witness.metricN 0%N 1%N Witness.x9 (r_results r)
        /\ ~ survives_hot_cut N N N Witness.dleN (fun _ => true) Witness.metricN 0%N 1%N Witness.hotl Witness.x9).
Proof. split; [exact witness_contract | exact witness_refutes]. Qed.

(* Non-vacuity: the premises are satisfiable together and the guarded theorem applies to a real run — the
   same store with only ONE stale mirror: document 9 survives the cut and is returned first. *)
Definition nv_hot : hot N N := [ mk_hentry 1 1 1 1; Witness.x9 ].
Example C06_nonvacuous :
  store_wf N N Witness.digestN Witness.cold /\ hot_wf N N nv_hot
  /\ survives_hot_cut N N N Witness.dleN (fun _ => true) Witness.metricN 0%N 1%N nv_hot Witness.x9
  /\ fresh_mirror N N Witness.digestN N.eqb Witness.cold Witness.x9
  /\ exists r e',
       tiered_search Witness.dleN (fun _ => true) Witness.metricN Witness.digestN N.eqb (fun l => l) Witness.annw
         (mk_engine Witness.cold nv_hot) QOk 0%N 1%N (Some 10000%N) None = (Ok r, e')
       /\ r_results r = [(9%N, 5%N)] /\ e_hot e' = [Witness.x9]
       /\ compute_search_k 2 3 3 = 2%N /\ compute_search_k 1 2 98 = 52%N (* f64: ceil(1/(2/98)) = 50, not 49 *).
Proof.
  destruct C06_recent_write_refuted as [_ [Hs _]].
  split; [exact Hs|]. split; [unfold hot_wf; vm_compute; repeat constructor; cbn; intuition discriminate|].
  split; [unfold survives_hot_cut; vm_compute; auto|]. split; [vm_compute; reflexivity|].
  eexists. eexists. split; [vm_compute; reflexivity|]. vm_compute. auto.
Qed.

(* Non-vacuity of the history theorem: the operations of the directed scenario (mirrored inserts 1, 2; bulk
   load overwriting them; insert 9) leave exactly the mirror of 9, and it is fresh; the witness state of
   C06_recent_write_refuted is therefore not reachable by an API history any more. *)
Example C06_history_nonvacuous :
  let e := wrun Witness.digestN (mk_engine [] [])
             [WInsert 1 1 true; WInsert 2 2 true; WBulkLoad [(1, 50, true); (2, 60, true)]; WInsert 9 5 true]%N in
  map h_id (e_hot e) = [9%N]
  /\ map (@cs_ext N N) (e_cold e) = [None; None; Some 1; Some 2; Some 9]%N
  /\ canonical_vector_state Witness.digestN N.eqb (e_cold e) Witness.x9 = Match.
Proof. vm_compute. auto. Qed.

Print Assumptions C06_hot_heap_is_topk.
Print Assumptions C06_merge_sound.
Print Assumptions C06_cold_sound.
Print Assumptions C06_sound.
Print Assumptions C06_sound_timed.
Print Assumptions C06_search_k_bounds.
Print Assumptions C06_search_k_oversampling.
Print Assumptions C06_recent_write_complete.
Print Assumptions C06_recent_write_complete_timed.
Print Assumptions C06_api_history_no_stale_mirror.
Print Assumptions C06_recent_write_complete_api.
Print Assumptions C06_recent_write_refuted.
