(* C10 — tenants are isolated end to end.  Statements only; proofs live in Proofs/ServerProofs.v and
   Proofs/ServerNI.v; the model is Model/Server.v (auth enabled).  `idx_str` is u32::to_string (only its
   injectivity is used), `score` the f32 score function (uninterpreted). *)
From Coq Require Import List NArith ZArith Bool String.
From Kyro Require Import Model.Server Proofs.ServerProofs Proofs.ServerNI Proofs.TenantMapProofs.
Import ListNotations.
Open Scope N_scope.

(* responses_of A cs rs: tenant A's answers in the response list rs of the calls cs, where a
   Search/BulkSearch answer is reduced to its status (hits and total_found are NOT compared: see
   C10_search_count_refuted) and FlushHotTier's documents_flushed is dropped (C10_flush_count_refuted).
   Everything else — found/not-found, vectors, metadata, counts, per-item results, /usage — is compared. *)
Definition responses_of (cfg : config) (A : N) (cs : list call) (rs : list resp) : list resp := sel cfg A cs rs.

(* Noninterference, for every history over the property's RPC list (Insert, BulkInsert, BulkLoadHnsw,
   Query, BulkQuery, Search, BulkSearch, UpdateMetadata, Delete, BatchDelete by ids / filter,
   FlushHotTier, GET /usage), any number of tenants, any interleaving: removing all calls of another
   tenant B does not change any of tenant A's answers — with the two exceptions made explicit by
   `responses_of` (Search-family hit lists/total_found, FlushHotTier's count), both refuted below.
   Premise `A is not an admin key`: an admin may read every tenant's usage by design. *)
Theorem C10_noninterference :
  forall (idx_str : N -> str) (score : Z -> Z),
  (forall a b, idx_str a = idx_str b -> a = b) ->
  forall (cfg : config) (A B : N) (cs : list call),
  (forall k ki, nget (c_keys cfg) k = Some ki -> k_tenant ki = A -> k_admin ki = false) ->
  A <> B ->
  responses_of cfg A cs (run idx_str score cfg cs)
  = responses_of cfg A (remove_tenant cfg B cs) (run idx_str score cfg (remove_tenant cfg B cs)).
Proof. intros idx_str score Hinj cfg A B cs Hadm HAB. exact (noninterference idx_str score Hinj cfg A Hadm B cs HAB). Qed.

(* Tenant index assignment over the life of a data dir (tmap_create at the first start, tmap_ensure_all
   at every later start with a possibly extended key file): indices stay dense and pairwise distinct,
   tenants present at the first start keep their index for ever, and a tenant the map has not seen
   gets the index `size of the map`, which no existing tenant has, without moving anybody else. *)
Theorem C10_tenant_index_stable_across_restart :
  forall (first_keys : list str) (later : list (list str)),
  let m0 := tmap_create first_keys in
  let m := fold_left tmap_ensure_all later m0 in
  tm_ok m
  /\ (forall t i, tm_get m0 t = Some i -> tm_get m t = Some i)
  /\ (forall t, tm_get m t = None ->
        tm_get (tmap_ensure m t) t = Some (tlen m)
        /\ (forall t' i, tm_get m t' = Some i -> i <> tlen m /\ tm_get (tmap_ensure m t) t' = Some i)).
Proof. exact tenant_index_stable_across_restart. Qed.
(* two keys of one tenant (key rotation) do not consume two indices *)
Example C10_tenant_index_dedup :
  tmap_create [s2l "acme"; s2l "bolt"; s2l "acme"; s2l "cato"] = [(s2l "acme", 0); (s2l "bolt", 1); (s2l "cato", 2)]
  /\ tm_get (tmap_ensure (tmap_create [s2l "acme"; s2l "bolt"; s2l "acme"; s2l "cato"]) (s2l "dax")) (s2l "dax") = Some 3.
Proof. split; vm_compute; reflexivity. Qed.

(* The two unwinding lemmas, for every request kind INCLUDING BulkLoadHnsw by other tenants:
   a call authenticated as another tenant leaves A's view (documents, quota count, usage) unchanged. *)
Theorem C10_other_tenant_step_invisible :
  forall (idx_str : N -> str) (score : Z -> Z),
  (forall a b, idx_str a = idx_str b -> a = b) ->
  forall cfg A ki s r, k_tenant ki <> A -> wf idx_str s ->
  equivA A s (fst (handle idx_str score cfg ki s r)).
Proof. intros idx_str score Hinj cfg A ki s r H W. exact (handle_other idx_str score Hinj cfg A ki H s r W). Qed.

(* Search family: whatever the count, an answer never contains anything but the caller's own
   documents: global id in the caller's range, stored tenant index = caller, namespace selector exact,
   filter satisfied, id/score/vector/metadata those of that document, reserved keys stripped. *)
Theorem C10_search_containment :
  forall idx_str score cfg s key ki r hits tf,
  auth cfg key = Some ki ->
  snd (step idx_str score cfg s (mkCall key (RSearch r))) = OkSearch hits tf ->
  (forall h, In h hits -> hit_of idx_str score ki r (st_docs s) h /\ public (h_meta h))
  /\ len hits <= s_k r /\ len hits <= tf.
Proof. exact step_search_contained. Qed.
Theorem C10_bulk_search_containment :
  forall idx_str score cfg s key ki rs outs,
  auth cfg key = Some ki ->
  snd (step idx_str score cfg s (mkCall key (RBulkSearch rs))) = OkBulkSearch outs ->
  forall hits tf, In (SOk hits tf) outs ->
  exists r, In r rs /\ (forall h, In h hits -> hit_of idx_str score ki r (st_docs s) h /\ public (h_meta h)) /\ len hits <= s_k r.
Proof. exact step_bulk_search_contained. Qed.

(* Known finding: the number of hits tenant A gets depends on tenant B's documents (global top-k, then
   tenant filter): 5 hits without B, 0 with B's five closer vectors. *)
Theorem C10_search_count_refuted :
  exists cfg cs B,
    hits_of (last (run dec_str w_score cfg cs) (Err Internal)) <>
    hits_of (last (run dec_str w_score cfg (remove_tenant cfg B cs)) (Err Internal)).
Proof.
  exists w_cfg, (w_a_inserts ++ w_b_inserts ++ [w_search]), 1.
  destruct search_count_witness as [H1 H2]. rewrite H1, H2. discriminate.
Qed.
(* Known finding: FlushHotTier's documents_flushed counts every tenant's recent writes. *)
Theorem C10_flush_count_refuted :
  exists cfg cs B,
    last (run dec_str w_score cfg cs) (Err Internal) <>
    last (run dec_str w_score cfg (remove_tenant cfg B cs)) (Err Internal).
Proof.
  exists w_cfg, (w_a_inserts ++ w_b_inserts ++ [w_flush]), 1.
  destruct flush_count_witness as [H1 H2]. rewrite H1, H2. discriminate.
Qed.

(* Reserved keys: (1) a call and the same call with every client-supplied reserved key removed are
   indistinguishable (so they are never stored); (2) what IS stored under the reserved keys is the
   server's own value; (3) no response carries a reserved key. *)
Theorem C10_reserved_keys :
  forall idx_str score cfg,
  (forall s c, step idx_str score cfg s (mkCall (c_key c) (strip_req (c_req c))) = step idx_str score cfg s c)
  /\ (forall ki m ns,
        mget (stored_meta idx_str ki m ns) K_TIDX = Some (idx_str (k_tenant ki)) /\
        mget (stored_meta idx_str ki m ns) K_TID = Some (k_tid ki) /\
        mget (stored_meta idx_str ki m ns) K_NS = match ns with [] => None | _ => Some ns end)
  /\ (forall s c m, In m (resp_metas (snd (step idx_str score cfg s c))) -> public m).
Proof.
  intros idx_str score cfg. split; [|split].
  - intros s c. apply step_strip.
  - apply stored_meta_reserved.
  - intros s c m. apply responses_public.
Qed.

(* Every RPC (and GET /usage) without a valid ENABLED key is refused and has no effect. *)
Theorem C10_unauthenticated_refused :
  forall idx_str score cfg s c,
  (c_key c = None
   \/ (exists k, c_key c = Some k /\ nget (c_keys cfg) k = None)
   \/ (exists k ki, c_key c = Some k /\ nget (c_keys cfg) k = Some ki /\ k_enabled ki = false)) ->
  step idx_str score cfg s c = (s, Err (if is_http (c_req c) then Http401 else Unauthenticated)).
Proof. intros idx_str score cfg s c H. apply unauthenticated_refused. apply auth_none_cases. exact H. Qed.

(* Non-vacuity: the hypotheses of the noninterference theorem hold for the two-tenant witness history
   (keys of tenant 0 are not admin), and the theorem then says that
   tenant 0's projected answers agree — while the unprojected Search answers differ (refuted above). *)
Example C10_nonvacuous :
  responses_of w_cfg 0 (w_a_inserts ++ w_b_inserts ++ [w_search]) (run dec_str w_score w_cfg (w_a_inserts ++ w_b_inserts ++ [w_search]))
  = [OkInsert true 1 0; OkInsert true 1 0; OkInsert true 1 0; OkInsert true 1 0; OkInsert true 1 0; OkSearch [] 0]
  /\ (forall k ki, nget (c_keys w_cfg) k = Some ki -> k_tenant ki = 0 -> k_admin ki = false).
Proof.
  split; [vm_compute; reflexivity|].
  intros k ki H _. cbn in H. destruct (k =? 1); [inversion H; reflexivity|]. destruct (k =? 2); [inversion H; reflexivity|discriminate].
Qed.

Print Assumptions C10_noninterference.
Print Assumptions C10_tenant_index_stable_across_restart.
Print Assumptions C10_other_tenant_step_invisible.
Print Assumptions C10_search_containment.
Print Assumptions C10_bulk_search_containment.
Print Assumptions C10_search_count_refuted.
Print Assumptions C10_flush_count_refuted.
Print Assumptions C10_reserved_keys.
Print Assumptions C10_unauthenticated_refused.
