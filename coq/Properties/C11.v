(* C11 — metadata filters select exactly the matching documents.  Statements only; proofs live in
   Proofs/FilterProofs.v.  `parse` is Rust's str::parse::<f64>() as an arbitrary function to f64 bit
   patterns: every theorem holds for every such function.  `reachable parse s` = s is the state after
   ANY history of insert / overwrite / merge- and replace-update / delete / batch delete (by ids or by
   filter) / tombstone compaction / recovery-rebuild, from an empty backend of any capacity. *)
From Coq Require Import List NArith ZArith Bool.
From Kyro Require Import Model.Filter Proofs.FilterLemmas Proofs.FilterProofs.
Import ListNotations.

(* After every history the inverted index answers every lookup exactly as a fresh rebuild_from(store). *)
Theorem C11_index_consistent : forall (parse : str -> option Z) (s : state),
  reachable parse s -> lookups_agree (idx s) (rebuild_from parse (slots s)).
Proof. exact index_consistent. Qed.

(* For every filter tree (any depth, empty forms, unset oneofs) the ids selected through the index
   (or its scan fallback) are exactly the live documents whose metadata satisfies the reference
   semantics, each once. *)
Theorem C11_filter_exact : forall (parse : str -> option Z) (s : state) (f : mfilter),
  reachable parse s ->
  (forall d, In d (ids_for_filter parse s f)
             <-> In d (map fst (filter (fun dm => matches parse f (snd dm)) (live_docs (slots s)))))
  /\ NoDup (ids_for_filter parse s f).
Proof. exact filter_exact. Qed.

(* Stronger form: the very same list in the same (internal id) order as scan(matches). *)
Theorem C11_filter_exact_ordered : forall (parse : str -> option Z) (s : state) (f : mfilter),
  reachable parse s ->
  ids_for_filter parse s f
  = map fst (filter (fun dm => matches parse f (snd dm)) (live_docs (slots s))).
Proof. exact filter_exact_ordered. Qed.

(* A filtered batch delete removes exactly the matching documents and leaves every other document and
   its metadata untouched. *)
Theorem C11_batch_delete_exact : forall (parse : str -> option Z) (s : state) (f : mfilter),
  reachable parse s ->
  forall d m, In (d, m) (live_docs (slots (fst (step parse s (OBatchDeleteFilter f)))))
              <-> In (d, m) (live_docs (slots s)) /\ matches parse f m = false.
Proof. exact batch_delete_filter_step_exact. Qed.

(* The ordered key of the numeric index is order-isomorphic to f64 comparison on non-NaN values. *)
Theorem C11_okey_order : forall a b : Z, (0 <= a < two64)%Z -> (0 <= b < two64)%Z ->
  f64_is_nan a = false -> f64_is_nan b = false ->
  (okey a <=? okey b)%Z = f64_le a b /\ (okey a <? okey b)%Z = f64_lt a b
  /\ ((okey a =? okey b)%Z = f64_eq a b).
Proof. exact okey_order. Qed.

(* Non-vacuity: a concrete history (overwrite, merge update numeric -> string, delete, compaction on a
   full index, recovery) is reachable, the range filter selects a non-trivial subset through the
   numeric and the lexicographic branch ("abc" >= "9" as strings), -0 and +0 are one key, and a nested filter containing an
   unset NOT takes the scan fallback. *)
Definition ex_k : str := [107]%N.
Definition ex_10 : str := [49; 48]%N.
Definition ex_9 : str := [57]%N.
Definition ex_m0 : str := [45; 48]%N.
Definition ex_abc : str := [97; 98; 99]%N.
Definition ex_0 : str := [48]%N.
Definition ex_parse : str -> option Z :=
  parse_tbl [(ex_10, Some 4621819117588971520%Z); (ex_9, Some 4621256167635550208%Z);
             (ex_m0, Some 9223372036854775808%Z); (ex_abc, None); (ex_0, Some 0%Z)].
Definition ex_ops : list op :=
  [OInsert 1 [(ex_k, ex_10)]; OInsert 2 [(ex_k, ex_9)]; OInsert 3 [(ex_k, ex_abc)];
   OInsert 2 [(ex_k, ex_m0)]; OUpdate 1 [(ex_k, ex_abc)] true; ODelete 3;
   OInsert 4 [(ex_k, ex_9)]; OInsert 5 [(ex_k, ex_10)]; ORecover]%N.

Example C11_nonvacuous :
  exists s, reachable ex_parse s
    /\ length (slots s) = 4%nat
    /\ ids_for_filter ex_parse s (FRange ex_k (Some (Gte ex_9))) = [1; 4; 5]%N
    /\ ids_for_filter ex_parse s (FRange ex_k (Some (Lte ex_0))) = [2]%N
    /\ ids_for_filter ex_parse s (FRange ex_k (Some (Gte ex_0))) = [1; 2; 4; 5]%N
    /\ ids_for_filter ex_parse s (FAnd [FNot None; FNone]) = []
    /\ ids_for_filter ex_parse s (FOr [FNot None; FNone]) = [1; 2; 4; 5]%N
    /\ ids_for_filter ex_parse s (FNot (Some (FRange ex_k (Some (Gt ex_9))))) = [2; 4]%N
    /\ map fst (live_docs (slots (fst (step ex_parse s (OBatchDeleteFilter (FExact ex_k ex_abc)))))) = [2; 4; 5]%N.
Proof.
  exists (run_state ex_parse (init 4) ex_ops). split; [exists 4%nat, ex_ops; reflexivity|].
  vm_compute. repeat split; reflexivity.
Qed.

Print Assumptions C11_index_consistent.
Print Assumptions C11_filter_exact.
Print Assumptions C11_filter_exact_ordered.
Print Assumptions C11_batch_delete_exact.
Print Assumptions C11_okey_order.
