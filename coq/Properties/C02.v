(* C02 — restart is lossless.  Statements only; proofs live in Proofs/BackendProofs.v.

   `run c ops` is the model (Model/Backend.v) of HnswBackend with persistence, started on an empty
   directory and driven by ANY list of operations: insert (incl. overwrite), delete, batch delete (with
   duplicates / absent ids), metadata update (merge | replace), manual snapshot, Restart (= strict
   recovery, which creates a segment and rewrites the manifest) — with automatic snapshots every
   `c_snapshot_interval` mutations (0 = off), WAL rotation at `c_max_wal` bytes (exact frame sizes;
   0 = off), log compaction after every snapshot and tombstone compaction when the index is full.
   `c` ranges over every metric, dimension, interval, rotation threshold, capacity and fsync policy.

   Premises (explicit; none is an axiom):
   * `wf_cfg c = true`            dimension > 0 and capacity > 0 (the constructors refuse anything else);
   * `norm_ok c`                  ASSUMPTION ABOUT THE OUTSIDE WORLD: normalize_in_place_if_needed, seen as a
                                  function on f32 bit patterns, preserves the length and is bitwise idempotent
                                  (measured by the harness on every vector of every run);
   No premise restricts the operations: since /repo commit ca4513e `insert` pre-flights the index's
   acceptance checks before the WAL append, so the former exception (defect #1 of DESIGN.md §4: a vector
   refused only after the append) is gone; `C02_rejected_insert_harmless` is the former counterexample. *)
From Coq Require Import List NArith ZArith Bool.
From Kyro Require Import Model.Amap Model.Backend Proofs.AmapProofs Proofs.BackendProofs.
Import ListNotations.
Open Scope N_scope.

(* Stopping at an operation boundary and recovering (strict mode) from the directory succeeds and
   yields exactly the live collection: same ids, bit-identical vectors, identical metadata. *)
Theorem C02_restart_lossless : forall (c : cfg) (ops : list op),
  wf_cfg c = true -> norm_ok c ->
  let s := run c ops in
  exists s', recover c Strict (st_disk s) = Ok s' /\ st_store s' = st_store s.
Proof. exact restart_lossless. Qed.

(* Deleted documents never reappear and overwritten versions never resurface: for every id the
   restarted engine answers what the live engine answered. *)
Theorem C02_no_resurrection : forall (c : cfg) (ops : list op) (id : N),
  wf_cfg c = true -> norm_ok c ->
  let s := run c ops in
  exists s', recover c Strict (st_disk s) = Ok s' /\ get (st_store s') id = get (st_store s) id.
Proof. exact no_resurrection. Qed.

(* ... and an acknowledged delete really removed the id from the live collection. *)
Theorem C02_delete_absent : forall (c : cfg) (s : state) (id : N),
  Inv c s -> snd (fst (do_delete c s id)) = OBool true ->
  get (st_store (fst (fst (do_delete c s id)))) id = None.
Proof. exact delete_then_absent. Qed.

(* Sequence numbers continue: the recovered engine resumes with exactly the live engine's next
   sequence number, which exceeds every sequence number left in the directory (log entries of the listed
   segments and the snapshot's last_wal_seq). *)
Theorem C02_seq_monotone : forall (c : cfg) (ops : list op),
  wf_cfg c = true -> norm_ok c ->
  let s := run c ops in
  exists s', recover c Strict (st_disk s) = Ok s' /\ st_next_seq s' = st_next_seq s /\
    exists m, load_manifest (st_disk s) = Some m /\
      Forall (fun e => e_seq e < st_next_seq s') (all_entries (st_disk s) (m_segments m)) /\
      opt_or0 (m_snapshot_seq m) < st_next_seq s'.
Proof. exact seq_monotone. Qed.

(* Any number of consecutive restarts after any history: the collection does not change, and yet another
   restart still succeeds with the same collection.  (Writes after a restart are covered by
   C02_restart_lossless itself, because `ops` may contain Restart anywhere.) *)
Theorem C02_restart_chain : forall (c : cfg) (ops : list op) (n : nat),
  wf_cfg c = true -> norm_ok c ->
  st_store (run c (ops ++ repeat ORestart n)) = st_store (run c ops) /\
  exists s', recover c Strict (st_disk (run c (ops ++ repeat ORestart n))) = Ok s' /\
             st_store s' = st_store (run c ops).
Proof. exact restart_chain. Qed.

(* The invariant behind all of the above (DESIGN.md §3.2 Backend.Inv) holds in every reachable state. *)
Theorem C02_invariant : forall (c : cfg) (ops : list op),
  wf_cfg c = true -> norm_ok c -> Inv c (run c ops).
Proof. exact run_inv. Qed.

(* The effect list of an operation is exact, in EVERY state (no invariant needed): the next directory
   is the old one with the effects applied in order.  (Foundation of C01's crash prefixes.) *)
Theorem C02_effects_exact : forall (c : cfg) (s : state) (o : op) s' out effs,
  step c s o = (s', out, effs) -> st_disk s' = apply_effs (st_disk s) effs.
Proof. exact step_disk. Qed.

(* ---- the former counterexample of defect #1, now harmless: the NaN overwrite is refused before anything
   is logged, the live document survives the restart ---- *)
Definition nonfinite (b : Z) : bool := (Z.eqb (Z.modulo (Z.div b 8388608) 256) 255).
Definition wit_cfg : cfg :=
  mkCfg Euclidean 2 0 0 64 FsNever (fun v => Some v) (fun v => negb (existsb nonfinite v)).
(* insert(1,[1.0,2.0]); insert(1,[NaN,2.0]) *)
Definition wit_ops : list op :=
  [OInsert 1 [1065353216; 1073741824]%Z []; OInsert 1 [2143289344; 1073741824]%Z []].

Example C02_rejected_insert_harmless :
  snd (fst (step wit_cfg (run wit_cfg [OInsert 1 [1065353216; 1073741824]%Z []])
                 (OInsert 1 [2143289344; 1073741824]%Z []))) = OErrRejected /\
  snd (step wit_cfg (run wit_cfg [OInsert 1 [1065353216; 1073741824]%Z []])
            (OInsert 1 [2143289344; 1073741824]%Z [])) = [] /\
  let s := run wit_cfg wit_ops in
  exists s', recover wit_cfg Strict (st_disk s) = Ok s' /\
             get (st_store s') 1 = Some (mkDoc [1065353216; 1073741824]%Z []).
Proof.
  split; [vm_compute; reflexivity|]. split; [vm_compute; reflexivity|].
  eexists. split; vm_compute; reflexivity.
Qed.

(* ---- non-vacuity: the premises are satisfiable by a history that exercises overwrite, delete-then-
   reinsert, duplicate batch delete, merge, automatic snapshots + compaction, rotation after every
   append, tombstone compaction (capacity 3) and restarts, under a NON-identity normalisation ---- *)
Definition ex_norm (v : vec) : option vec :=
  match v with [] => None | _ :: _ => Some (map (fun _ => 1%Z) v) end.
Definition ex_cfg : cfg := mkCfg Cosine 2 2 1 3 FsAlways ex_norm (fun _ => true).
Definition ex_ops : list op :=
  [OInsert 1 [5; 6]%Z [([107], [1])]; OInsert 2 [7; 8]%Z []; OInsert 1 [9; 9]%Z [([107], [2])];
   ODelete 2; ORestart; OInsert 2 [3; 3]%Z []; OBatchDelete [1; 1; 9]; OUpdate 2 [([108], [3])] true;
   OInsert 4 [2; 2]%Z []; OInsert 5 [2; 2]%Z []; OSnapshot; ORestart; ORestart].

Lemma ex_norm_ok : norm_ok ex_cfg.
Proof.
  intros v w H. cbn in H. unfold ex_norm in H. destruct v as [|z v]; [discriminate|]. inversion H; subst.
  split; [cbn [map length]; rewrite map_length; reflexivity|]. cbn. rewrite map_map. reflexivity.
Qed.

Example C02_nonvacuous :
  wf_cfg ex_cfg = true /\ norm_ok ex_cfg /\
  st_store (run ex_cfg ex_ops)
  = [(2, mkDoc [1; 1]%Z [([108], [3])]); (4, mkDoc [1; 1]%Z []); (5, mkDoc [1; 1]%Z [])] /\
  manifest_shape (run ex_cfg ex_ops) = Some (Some 10, 3) /\
  exists s', recover ex_cfg Strict (st_disk (run ex_cfg ex_ops)) = Ok s' /\
             st_store s' = st_store (run ex_cfg ex_ops) /\ st_next_seq s' = 11.
Proof.
  split; [reflexivity|]. split; [exact ex_norm_ok|].
  split; [vm_compute; reflexivity|]. split; [vm_compute; reflexivity|].
  eexists. split; [vm_compute; reflexivity|]. split; vm_compute; reflexivity.
Qed.

Print Assumptions C02_restart_lossless.
Print Assumptions C02_no_resurrection.
Print Assumptions C02_delete_absent.
Print Assumptions C02_seq_monotone.
Print Assumptions C02_restart_chain.
Print Assumptions C02_invariant.
Print Assumptions C02_effects_exact.
Print Assumptions C02_rejected_insert_harmless.
Print Assumptions C02_nonvacuous.
