(* C09 — snapshots and compaction racing with writers lose and duplicate nothing.
   Statements only; proofs in Proofs/Conc09Proofs.v (+ Conc09Lemmas.v), model in Model/Conc09.v.

   `crun c init sched` runs ANY schedule: `EvCall t call` / `EvSnap t` start a writer call (insert,
   delete, update_metadata, batch_delete) or a manual create_snapshot on an idle thread t, `EvStep t`
   is the next atomic step of thread t (disabled steps make crun answer None).  The "programs" of the
   threads are therefore whatever the schedule starts: the theorems quantify over every number of
   writer threads, every number of snapshot threads (manual ones and the automatic snapshots that
   writers run inline when the interval is reached), every call sequence and every interleaving, for
   every configuration (snapshot interval, rotation threshold, capacity, frame sizes).
   The staged versions asked for by the design (one snapshotter first, then two) are subsumed: the
   general statement is proved.

   PARTIAL with respect to the property text: this is a theorem about the protocol model; the tie to
   /repo is the lock-skeleton correspondence, the directed schedules and the stress runs of
   checks/c09.py; real preemption at arbitrary instructions is not exhibited. *)
From Coq Require Import List NArith Bool Sorted.
From Kyro Require Import Model.Amap Model.Conc09 Proofs.Conc09Lemmas Proofs.Conc09Proofs.
Import ListNotations.
Open Scope N_scope.

(* KNOWN CLASS (finding C09-snapshot-file-id-collision).  `distinct_ids c := forall n, c_clock c n = n`
   says that every file creation gets its own id.  The code names files after the microsecond clock
   (HnswBackend::file_id) without a tie-break; when two create_snapshot calls draw the same id the
   property FAILS — in the model (C09_same_file_id_refuted below, by evaluation) and on the real engine
   (driver probe `c09 --probe-fileid`, strict recovery refuses: "loaded state covers WAL sequence a but
   the manifest committed a snapshot at sequence b").  All theorems are stated for ~Known = distinct_ids. *)

(* Once every call has returned, a (strict) restart from the directory yields exactly the live
   collection — nothing lost, nothing resurrected, no stale value. *)
Theorem C09_quiescent_exact : forall (c : cfg) (sched : list ev) (st : state),
  distinct_ids c ->
  crun c init sched = Some st -> all_done st = true ->
  recover (disk_of st) = Some (st_store st).
Proof. exact quiescent_exact. Qed.

(* Stronger: at ANY moment (snapshots, rotations, compactions half done, writers in flight) a restart
   yields the live collection plus exactly the operations already appended to the WAL by the writer
   that holds the write gate and not yet applied in memory — in order. *)
Theorem C09_recover_any_time : forall (c : cfg) (sched : list ev) (st : state),
  distinct_ids c ->
  crun c init sched = Some st ->
  recover (disk_of st) = Some (apply_entries (st_store st) (in_flight st)).
Proof. exact recover_any_time. Qed.

(* A stale snapshot never replaces a newer one: along every run the sequence number the manifest's
   snapshot pointer stands for never decreases ... *)
Theorem C09_stale_snapshot_never_wins : forall (c : cfg) (sched0 : list ev) (st : state) (sched : list ev) (st' : state),
  distinct_ids c ->
  crun c init sched0 = Some st -> crun c st sched = Some st' ->
  ptr_seq (st_man st) <= ptr_seq (st_man st').
Proof. exact stale_never_wins. Qed.

(* ... and the snapshotter that finds a newer pointer leaves the manifest and the segments alone
   (it only removes its own new file). *)
Theorem C09_stale_snapshot_skips : forall (c : cfg) (st : state) (t : nat) (last : N) (copy : store) (f : N) (st' : state),
  tget (st_thr st) t = SFile last copy f -> last < ptr_seq (st_man st) ->
  cstep c st (EvStep t) = Some st' ->
  st_man st' = st_man st /\ tget (st_thr st') t = Idle /\ st_files st' = st_files st.
Proof. exact stale_skips. Qed.

(* Replay visits every listed entry once, in list order, applies exactly those not covered by the
   snapshot and skips the covered ones; in every reachable state the listed entries carry strictly
   increasing sequence numbers, so no logged operation is present (hence applied) twice. *)
Theorem C09_no_duplicate_effect : forall (c : cfg) (sched : list ev) (st : state),
  distinct_ids c ->
  crun c init sched = Some st ->
  exists (last : N) (docs : store) (es : list entry),
    read_segs (st_files st) (m_segs (st_man st)) = Some es /\
    recover (disk_of st) = Some (apply_entries docs (filter (fun e => negb (covered last e)) es)) /\
    StronglySorted N.lt (map e_seq es).
Proof. exact no_duplicate_effect. Qed.

(* ---------------------------------------------------------------------------------------------- *)
(* Non-vacuity: two writer threads (1, 2) and a manual snapshot thread (3); rotation after two
   frames; automatic snapshots (interval 2) run inside writers 2 and 1; the snapshots of threads 2
   and 3 (last = 2) lose against the one of thread 1 (last = 3) and are discarded as stale; segment 1
   is compacted away.  The schedule is a run of the semantics, ends quiescent, and the restart
   yields the live collection {8}.                                                                  *)
(* ---------------------------------------------------------------------------------------------- *)
Definition ex_cfg : cfg := mkCfg 2 6 100 (fun _ => 1) (fun n => n).
Example ex_cfg_distinct : distinct_ids ex_cfg.
Proof. intro n. reflexivity. Qed.
Definition ex_sched : list ev :=
  [EvCall 1 (CIns 7 1 1); EvStep 1; EvStep 1; EvStep 1; EvStep 1; EvSnap 3; EvCall 2 (CIns 8 2 2);
   EvStep 2; EvStep 1; EvStep 1; EvStep 1; EvStep 1; EvStep 1; EvStep 2; EvStep 2; EvStep 2; EvStep 2;
   EvStep 2; EvStep 2; EvStep 2; EvStep 2; EvStep 2; EvStep 3; EvStep 2; EvCall 1 (CDel 7); EvStep 1;
   EvStep 1; EvStep 1; EvStep 1; EvStep 1; EvStep 1; EvStep 1; EvStep 1; EvStep 1; EvStep 1; EvStep 1;
   EvStep 1; EvStep 1; EvStep 1; EvStep 1; EvStep 1; EvStep 1; EvStep 3; EvStep 3; EvStep 2; EvStep 2]%nat.

Example C09_nonvacuous :
  exists st, crun ex_cfg init ex_sched = Some st /\ all_done st = true /\
             st_store st = [(8, (2, 2))] /\
             st_man st = mkMan (Some (3, 3)) [2] /\                      (* pointer at seq 3, segment 1 compacted *)
             st_snaps st = [(3, (3, [(8, (2, 2))]))] /\                  (* the two stale snapshot files are gone *)
             recover (disk_of st) = Some [(8, (2, 2))].
Proof. eexists. split; [vm_compute; reflexivity|]. vm_compute. repeat split. Qed.

(* mid-run non-vacuity of the stronger statement: writer 1 has appended but not applied, the manual
   snapshot is requested and is NOT enabled (the capture needs snapshot_lock exclusively) *)
Example C09_capture_excluded :
  exists st, crun ex_cfg init [EvCall 1 (CIns 7 1 1); EvStep 1; EvStep 1; EvStep 1; EvStep 1; EvSnap 3]%nat = Some st /\
             in_flight st = [mkE 1 (OPut 7 1 1)] /\ st_store st = [] /\
             cstep ex_cfg st (EvStep 3%nat) = None /\
             recover (disk_of st) = Some [(7, (1, 1))].
Proof. eexists. split; [vm_compute; reflexivity|]. vm_compute. repeat split. Qed.

(* ---------------------------------------------------------------------------------------------- *)
(* The known class refutes the property: two snapshots (thread 1 captured at seq 1, thread 2 at seq 2,
   one write in between, rotation after every frame) whose files get the SAME id 4.  Thread 2 saves
   first, thread 1's save replaces the content (last = 1), thread 1 commits (4, 1), thread 2 is not
   stale and commits (4, 2) and compacts against 2.  All calls return; the directory names a snapshot
   at sequence 2 whose file holds sequence 1, the segment with entry 2 is gone: strict recovery
   refuses, the live collection {1, 2} is not recoverable.                                          *)
(* ---------------------------------------------------------------------------------------------- *)
Definition bad_cfg : cfg := mkCfg 0 1 100 (fun _ => 1) (fun n => if n =? 5 then 4 else n).
Definition bad_sched : list ev :=
  [EvCall 3 (CIns 1 1 1); EvStep 3; EvStep 3; EvStep 3; EvStep 3; EvStep 3; EvStep 3; EvStep 3; EvStep 3;
   EvStep 3; EvStep 3; EvSnap 1; EvStep 1; EvCall 3 (CIns 2 2 2); EvStep 3; EvStep 3; EvStep 3; EvStep 3;
   EvStep 3; EvStep 3; EvStep 3; EvStep 3; EvStep 3; EvStep 3; EvSnap 2; EvStep 2; EvStep 2; EvStep 1;
   EvStep 1; EvStep 1; EvStep 1; EvStep 1; EvStep 1; EvStep 1; EvStep 2; EvStep 2; EvStep 2; EvStep 2;
   EvStep 2; EvStep 2]%nat.

Theorem C09_same_file_id_refuted :
  exists (c : cfg) (sched : list ev) (st : state),
    ~ distinct_ids c /\ crun c init sched = Some st /\ all_done st = true /\
    st_store st = [(1, (1, 1)); (2, (2, 2))] /\
    st_man st = mkMan (Some (4, 2)) [3] /\ st_snaps st = [(4, (1, [(1, (1, 1))]))] /\
    recover (disk_of st) = None.
Proof.
  exists bad_cfg, bad_sched. eexists. split.
  - intro H. specialize (H 5). vm_compute in H. discriminate.
  - split; [vm_compute; reflexivity|]. vm_compute. repeat split.
Qed.

Print Assumptions C09_quiescent_exact.
Print Assumptions C09_recover_any_time.
Print Assumptions C09_stale_snapshot_never_wins.
Print Assumptions C09_stale_snapshot_skips.
Print Assumptions C09_no_duplicate_effect.
Print Assumptions C09_same_file_id_refuted.
