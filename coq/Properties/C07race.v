(* C07 (search racing with overwrites) — the hot-tier candidate inside a stored query-cache entry.
   Statements only; proofs in Proofs/HotKnnProofs.v, the model in Model/HotKnn.v.

   Quantified over EVERY interleaving `es` of the searcher's four steps (capture the invalidation
   generation, compute the hot-tier distance together with the mirror's token, validate, store under
   the captured generation) with any number of writers' steps (canonical write, query-cache
   invalidation, mirror refresh with any version) and evictions, from any initial versions.  A write
   is acknowledged only after its invalidation step, so `invalidated` bounds every acknowledged
   overwrite from above. *)
From Coq Require Import List NArith Bool.
From Kyro Require Import Model.HotKnn Proofs.HotKnnProofs.
Import ListNotations.
Open Scope N_scope.

(* The stored entry never holds a hot-tier distance older than the newest version whose invalidation
   has run. *)
Theorem C07_stored_hot_distance_fresh :
  forall (c : N) (m : option N) (es : list ev), fresh (run validate_new (init c m) es) = true.
Proof. exact stored_hot_distance_fresh. Qed.

(* one-step form: every state satisfying the invariant, every event *)
Theorem C07_hot_race_step :
  forall s e, Inv s -> Inv (step validate_new s e).
Proof. exact step_inv. Qed.

(* REGRESSION (defect repaired by fix d5bee05): validating the PEEKED mirror entry while keeping the
   distance computed earlier stores a pre-overwrite distance after the overwrite's invalidation. *)
Theorem C07_old_validation_refuted :
  let s := run validate_old (init 1 (Some 1)) old_race in
  stored s = Some 1 /\ invalidated s = 2 /\ canon s = 2 /\ fresh s = false.
Proof. exact old_validation_stores_a_stale_distance. Qed.

(* non-vacuity: a current candidate is kept and stored; the race trace is handled by dropping it *)
Example C07_hot_race_nonvacuous :
  stored (run validate_new (init 1 (Some 1)) [ECold; EInvalidate; EMirror 2; ECapture; ESearch; EValidate; EStore]) = Some 2
  /\ stored (run validate_new (init 1 (Some 1)) old_race) = None.
Proof. split; [exact a_current_candidate_is_stored|exact (proj1 new_validation_drops_it)]. Qed.

Print Assumptions C07_stored_hot_distance_fresh.
Print Assumptions C07_hot_race_step.
Print Assumptions C07_old_validation_refuted.
