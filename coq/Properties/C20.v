(* C20 — caches and the recent-write tier stay within their configured bounds (document cache and
   recent-write tier parts; the query-result cache bound is proved in Proofs/QCacheProofs.v).
   Statements only; proofs live in Proofs/TieredProofs.v; the model is Model/Tiered.v. *)
From Coq Require Import List NArith ZArith Bool Arith.
From Kyro Require Import Model.TMap Model.Tiered Proofs.TieredProofs.
From Kyro Require Model.QCache Proofs.QCacheInv.
Import ListNotations.

(* the document cache (both sub-caches under the A/B splitter) never exceeds its capacity, in every
   state reachable by ANY history — cache pokes and mirror pokes included *)
Theorem C20_l1a_bound : forall (digest : vec -> dgst) (valid : vec -> bool),
  (forall a b : vec, digest a = digest b -> a = b) ->
  forall (c : config) (docs : list (N * vec * meta)) (ops : list op),
  1 <= cap_a c -> 1 <= cap_b c ->
  length (l1a (run digest valid c (init docs) ops)) <= cap_a c /\
  length (l1b (run digest valid c (init docs) ops)) <= cap_b c.
Proof. exact l1a_bound_explicit. Qed.

(* capacity 0 breaks the bound (VectorCache::insert evicts only when something is there to evict);
   config.rs `validate` refuses capacity 0 *)
Example C20_capacity_zero_unbounded :
  let c := mkCfg 0 1 false 100 4 in
  length (l1a (run id_digest all_valid c (init []) [OInsert 1%N [1%Z] []; OQuery true 1%N])) = 1.
Proof. vm_compute. reflexivity. Qed.

(* the recent-write tier is within its hard limit whenever insert returns (Ok or Err): for EVERY
   state without orphans, whatever its current size ... *)
Theorem C20_hot_bound_after_insert : forall (digest : vec -> dgst) (valid : vec -> bool)
  (c : config) (s : state) (id : N) (v : vec) (m : meta),
  1 <= hard c ->
  no_orphan s ->
  length (hot (fst (step digest valid c s (OInsert id v m)))) <= hard c.
Proof. exact hot_bound_after_insert. Qed.

(* ... hence after every insert of every API history (orphans are unreachable, C04_api_no_orphan) *)
Theorem C20_hot_bound_api : forall (digest : vec -> dgst) (valid : vec -> bool),
  (forall a b : vec, digest a = digest b -> a = b) ->
  forall (c : config) (docs : list (N * vec * meta)) (ops : list op) (s : state) (id : N) (v : vec) (m : meta),
  1 <= hard c ->
  run_guarded digest valid c (init docs) ops = Some s ->
  length (hot (fst (step digest valid c s (OInsert id v m)))) <= hard c.
Proof. exact hot_bound_api. Qed.

(* Known class (needs harness-planted state, unreachable by the API): orphans whose payload the cold
   tier rejects cannot be repaired by the emergency drain; reconcile re-inserts them, and insert
   then adds its own entry past the hard limit. *)
Definition excess_cfg := mkCfg 1 1 false 100 2.
Definition excess_ops : list op :=
  [OPokeHot 3%N [1%Z] [] (0%N, [1%Z]); OPokeHot 4%N [2%Z] [] (0%N, [2%Z]);
   OPokeHot 0%N [1%Z; 0%Z; 0%Z; 0%Z] [] (1%N, [1%Z; 0%Z; 0%Z; 0%Z])].
Theorem C20_hot_bound_orphans_refuted :
  let s := run id_digest dim4_valid excess_cfg (init [(0%N, [1%Z; 0%Z; 0%Z; 0%Z], [])]) excess_ops in
  ~ no_orphan s /\
  step id_digest dim4_valid excess_cfg s (OInsert 1%N [0%Z; 1%Z; 0%Z; 0%Z] []) =
    (fst (step id_digest dim4_valid excess_cfg s (OInsert 1%N [0%Z; 1%Z; 0%Z; 0%Z] [])), RBool true) /\
  length (hot (fst (step id_digest dim4_valid excess_cfg s (OInsert 1%N [0%Z; 1%Z; 0%Z; 0%Z] [])))) = 3.
Proof.
  cbv zeta. split; [|split; vm_compute; reflexivity].
  intros H. apply (H 3%N); vm_compute; congruence.
Qed.

(* whatever is evicted or drained stays readable with the same content: two states with the same
   canonical store answer every read identically, whatever their caches and mirror hold *)
Theorem C20_evicted_still_readable : forall (digest : vec -> dgst),
  (forall a b : vec, digest a = digest b -> a = b) ->
  forall (c : config) (s s' : state) (adm adm' : bool) (id : N) (ids : list N),
  cold s' = cold s ->
  option_map fst (snd (query digest c s' adm' id)) = option_map fst (snd (query digest c s adm id)) /\
  snd (get_doc digest c s' id) = snd (get_doc digest c s id) /\
  snd (get_emb digest c s' id) = snd (get_emb digest c s id) /\
  map strip (snd (bulk digest c s' true ids)) = map strip (snd (bulk digest c s true ids)).
Proof. exact evicted_still_readable. Qed.

(* Query-result cache (QueryHashCache, Model/QCache.v, tied to the real cache by the C07
   correspondence which also compares len() after every step): in every state reached by any
   sequence of cache operations (get, insert, conditional insert, invalidate_doc,
   invalidate_for_insert, clear, ...) the number of entries never exceeds the capacity (>= 1). *)
Theorem C20_qcache_bound : forall (cfg : Kyro.Model.QCache.config) (ops : list Kyro.Model.QCache.op),
  (1 <= Kyro.Model.QCache.c_cap cfg)%nat ->
  (length (Kyro.Model.QCache.s_entries
             (Kyro.Model.QCache.run_state cfg Kyro.Model.QCache.empty ops))
   <= Kyro.Model.QCache.c_cap cfg)%nat.
Proof. exact Kyro.Proofs.QCacheInv.len_bound. Qed.

(* Non-vacuity: a history at capacity 1 / hard limit 1 in which an eviction and an emergency drain
   both happen, and the evicted / drained documents are still answered. *)
Definition ex20_cfg := mkCfg 1 1 false 100 1.
Definition ex20_ops : list op :=
  [OInsert 1%N [1%Z] []; OQuery true 1%N; OInsert 2%N [2%Z] []; OQuery true 2%N].
Example C20_nonvacuous :
  exists s, run_guarded id_digest all_valid ex20_cfg (init []) ex20_ops = Some s /\
            map fst (l1a s) = [2%N] /\ map fst (hot s) = [2%N] /\ n_emerg (ctr s) = 1 /\
            snd (query id_digest ex20_cfg s false 1%N) = Some ([1%Z], TCold).
Proof. eexists. split; [vm_compute; reflexivity|]. vm_compute. auto. Qed.

Print Assumptions C20_l1a_bound.
Print Assumptions C20_hot_bound_after_insert.
Print Assumptions C20_hot_bound_api.
Print Assumptions C20_hot_bound_orphans_refuted.
Print Assumptions C20_evicted_still_readable.
Print Assumptions C20_qcache_bound.
