(* Properties/C15.v — every request gets an answer; invalid input is refused without effect  (PARTIAL).
   Statements only; proofs in Proofs/RequestsProofs.v over Model/Requests.v and the regenerated
   gen/Validators_gen.v.
   Proved on the model: totality of every handler with no crash class (C15_total), the stated status for every
   boundary class, refusal => collection unchanged (whole calls and stream items), non-finite vectors are
   stored on no write path, soundness of the TRANSLATED validators.
   Refuted (witnesses): C15_bulk_search_abort_refuted — one refused request of a BulkSearch stream leaves the
   valid requests after it without any answer (input class C15-bulk-search-aborts-stream-on-invalid-item; the
   positive half is C15_bulk_search_answered_partial: streams without a refused request are fully answered);
   C15_bulk_load_cap_partial_effect_refuted — BulkLoadHnsw beyond its total-document cap is refused after
   earlier chunks were ingested (model level, small constants; excluded from C15_refused_no_effect by premise).
   NOT proved (observed at run time by checks/c15.py): that the real server behaves like the model, liveness
   after a refused request, panic containment. *)
From Coq Require Import List NArith Bool.
From Kyro Require Import Model.ReqBase gen.Validators_gen Model.Requests Proofs.RequestsProofs.
Import ListNotations.
Open Scope N_scope.

Theorem C15_total : forall cfg ds r,
  no_crash (snd (handle cfg ds r)) = true.
Proof. exact handle_total. Qed.

Theorem C15_boundary_insert : forall cfg ds it,
  let refused_with c := h_insert cfg ds it = (ds, Refused c) in
  (i_id it = 0 -> refused_with InvalidArgument)
  /\ (U32_MAX < i_id it -> refused_with InvalidArgument)
  /\ (v_cls (i_vec it) = [] -> refused_with InvalidArgument)
  /\ (MAX_EMBEDDING_DIM < len (v_cls (i_vec it)) -> refused_with InvalidArgument)
  /\ (nf (v_cls (i_vec it)) = true -> refused_with InvalidArgument)
  /\ (insert_passes it -> i_id it <= U32_MAX -> len (v_cls (i_vec it)) <> c_dim cfg -> refused_with Internal)
  /\ (insert_passes it -> i_id it <= U32_MAX -> c_metric cfg = Cosine -> nsq (v_cls (i_vec it)) = SqTiny -> refused_with Internal)
  /\ (insert_passes it -> i_id it <= U32_MAX -> c_metric cfg = Cosine -> nsq (v_cls (i_vec it)) = SqInf -> refused_with Internal).
Proof. exact boundary_insert. Qed.

Theorem C15_boundary_search : forall cfg ds r,
  let refused_with c := h_search cfg ds r = (ds, Refused c) in
  decodable cfg (q_filter r) = true ->
  (q_vec r = [] -> refused_with InvalidArgument)
  /\ (MAX_EMBEDDING_DIM < len (q_vec r) -> refused_with InvalidArgument)
  /\ (nf (q_vec r) = true -> refused_with InvalidArgument)
  /\ (q_k r = 0 -> refused_with InvalidArgument)
  /\ (MAX_KNN_K < q_k r -> refused_with InvalidArgument)
  /\ (10000 < q_ef r -> refused_with InvalidArgument)
  /\ (search_passes r -> len (q_vec r) <> c_dim cfg -> refused_with InvalidArgument)
  /\ (search_passes r -> len (q_vec r) = c_dim cfg -> c_metric cfg = Cosine -> nsq (q_vec r) = SqTiny -> refused_with Internal).
Proof. exact boundary_search. Qed.

Theorem C15_boundary_filter_depth : forall cfg ds,
  (forall r f, q_filter r = Some f -> c_decode_depth cfg < pdepth f -> h_search cfg ds r = (ds, Refused Internal))
  /\ (forall f, c_decode_depth cfg < pdepth f -> h_batch_delete_filter cfg ds f = (ds, Refused Internal))
  /\ (forall f, pdepth (PNot (Some f)) = 2 + pdepth f).
Proof. exact boundary_filter_depth. Qed.

Theorem C15_boundary_ids : forall cfg ds,
  h_query ds 0 = (ds, Refused InvalidArgument)
  /\ (forall id, U32_MAX < id -> h_query ds id = (ds, Refused InvalidArgument))
  /\ (forall m b, h_update ds 0 m b = (ds, Refused InvalidArgument))
  /\ (forall id m b, U32_MAX < id -> h_update ds id m b = (ds, Refused InvalidArgument))
  /\ h_delete ds 0 = (ds, Refused InvalidArgument)
  /\ (forall id, U32_MAX < id -> h_delete ds id = (ds, Refused InvalidArgument))
  /\ (forall ids id, In id ids -> U32_MAX < id -> h_bulk_query cfg ds ids = (ds, Refused InvalidArgument))
  /\ (forall ids id, In id ids -> U32_MAX < id -> h_batch_delete_ids cfg ds ids = (ds, Refused InvalidArgument)).
Proof. exact boundary_ids. Qed.

Theorem C15_boundary_batches : forall cfg ds,
  h_bulk_insert cfg ds [] = (ds, OkInsert true 0 0)
  /\ h_bulk_load cfg ds [] = (ds, OkBulkLoad true 0 0)
  /\ h_bulk_search cfg ds [] = (ds, OkBulkSearch [])
  /\ h_bulk_query cfg ds [] = (ds, OkBulkQuery [])
  /\ h_batch_delete_ids cfg ds [] = (ds, OkBatchDelete 0)
  /\ handle cfg ds RBatchDeleteNone = (ds, Refused InvalidArgument)
  /\ (forall ids, c_max_batch cfg < len ids -> h_bulk_query cfg ds ids = (ds, Refused InvalidArgument))
  /\ (forall ids, c_max_batch cfg < len ids -> h_batch_delete_ids cfg ds ids = (ds, Refused InvalidArgument))
  /\ (forall a it, bi_stopped a = false -> c_max_batch cfg < bi_count a + 1 ->
        bi_step cfg a it = mkBi (bi_ds a) (bi_ins a) (bi_failed a + 1) (bi_count a + 1) true)
  /\ (forall a it, bi_stopped a = true -> bi_step cfg a it = a)
  /\ (forall its ds' c, h_bulk_load cfg ds its = (ds', Refused c) -> c_max_total_load cfg < len its).
Proof. exact boundary_batches. Qed.

Theorem C15_refused_no_effect : forall cfg ds r ds' c,
  handle cfg ds r = (ds', Refused c) ->
  (forall its, r = RBulkLoad its -> len its <= c_max_total_load cfg) ->
  ds' = ds.
Proof. exact refused_no_effect. Qed.

Theorem C15_refused_item_no_effect : forall cfg,
  (forall a it, fst (bi_item_outcome cfg a it) <> ItemStored -> bi_ds (bi_step cfg a it) = bi_ds a)
  /\ (forall a it, bl_valid it = None -> bl_ds (bl_step cfg a it) = bl_ds a)
  /\ (forall ds c p, direct_cold_insert_ok cfg (v_cls (i_vec (snd p))) = false -> fst (cold_load_one cfg (ds, c) p) = ds).
Proof. exact refused_item_no_effect. Qed.

Theorem C15_reads_no_effect : forall cfg ds r,
  match r with RQuery _ | RBulkQuery _ | RSearch _ | RBulkSearch _ | RFlush _ | RBatchDeleteNone => True | _ => False end ->
  fst (handle cfg ds r) = ds.
Proof. exact reads_no_effect. Qed.

Theorem C15_bulk_load_cap_partial_effect_refuted :
  exists cfg ds its ds' c, handle cfg ds (RBulkLoad its) = (ds', Refused c) /\ ds' <> ds.
Proof. exact bulk_load_cap_partial_effect_refuted. Qed.

Theorem C15_nonfinite_refused_everywhere : forall cfg (it : item),
  nf (v_cls (i_vec it)) = true ->
  (forall ds, h_insert cfg ds it = (ds, Refused InvalidArgument))
  /\ (forall a, bi_ds (bi_step cfg a it) = bi_ds a /\ bi_ins (bi_step cfg a it) = bi_ins a)
  /\ (forall ds c id, cold_load_one cfg (ds, c) (id, it) = (ds, (fst c, snd c + 1)))
  /\ tiered_insert_ok cfg (v_cls (i_vec it)) = false /\ direct_cold_insert_ok cfg (v_cls (i_vec it)) = false.
Proof. exact nonfinite_refused_everywhere. Qed.

Theorem C15_validators_sound :
  (forall r u, validate_insert_request r = VOk u ->
     MIN_DOC_ID <= ir_doc_id r /\ ir_embedding r <> [] /\ len (ir_embedding r) <= MAX_EMBEDDING_DIM
     /\ all_finite (ir_embedding r) = true)
  /\ (forall r p, validate_search_request r = VOk p ->
     sr_query_embedding r <> [] /\ len (sr_query_embedding r) <= MAX_EMBEDDING_DIM
     /\ all_finite (sr_query_embedding r) = true
     /\ 1 <= sr_k r <= MAX_KNN_K /\ sr_ef_search r <= 10000
     /\ sr_k r <= search_k p <= 10000
     /\ ef_search_override p = (if sr_ef_search r =? 0 then None else Some (sr_ef_search r)))
  /\ (forall f, 1 <= calculate_oversampling_factor f <= 50)
  /\ (forall f, has_type f = true -> 1 <= estimate_selectivity f <= 50)
  /\ MAX_EMBEDDING_DIM = 4096 /\ MAX_KNN_K = 1000 /\ MIN_DOC_ID = 1.
Proof. exact validators_sound. Qed.

Theorem C15_bulk_search_answered_partial : forall cfg ds rs items,
  len rs <= c_max_batch cfg -> handle cfg ds (RBulkSearch rs) = (ds, OkBulkSearch items) -> all_ok items = true ->
  List.length (delivered items) = List.length rs.
Proof. exact bulk_search_answered_partial. Qed.

Theorem C15_bulk_search_abort_refuted :
  exists cfg rs items,
    snd (handle cfg [] (RBulkSearch rs)) = OkBulkSearch items
    (* the third request is valid and was computed, but the stream carries fewer answers than requests *)
    /\ nth 2 items (SErr NoAnswer) = SOk
    /\ (List.length (delivered items) < List.length rs)%nat.
Proof. exact bulk_search_abort_refuted. Qed.

(* non-vacuity: accepted requests exist and do have an effect *)
Example C15_nonvacuous :
  handle w_cfg [] (RInsert (mkItem 1 (mkVec 1 [FinNZ; Zero]) [])) = ([(1, mkDoc 1 [])], OkInsert true 1 0)
  /\ snd (handle w_cfg [] (RSearch w_ok)) = OkSearch
  /\ validate_insert_request (mkInsertReq 1 [FinNZ; Zero]) = VOk tt
  /\ (exists p, validate_search_request (mkSearchReq [FinNZ] 1000 10000 [110] (Some (PNot (Some (PExact 1 2))))) = VOk p /\ search_k p = 10000).
Proof. repeat split; try (vm_compute; reflexivity). eexists. split; vm_compute; reflexivity. Qed.

Print Assumptions C15_total.
Print Assumptions C15_boundary_insert.
Print Assumptions C15_boundary_search.
Print Assumptions C15_boundary_filter_depth.
Print Assumptions C15_boundary_ids.
Print Assumptions C15_boundary_batches.
Print Assumptions C15_refused_no_effect.
Print Assumptions C15_refused_item_no_effect.
Print Assumptions C15_reads_no_effect.
Print Assumptions C15_bulk_load_cap_partial_effect_refuted.
Print Assumptions C15_nonfinite_refused_everywhere.
Print Assumptions C15_validators_sound.
Print Assumptions C15_bulk_search_answered_partial.
Print Assumptions C15_bulk_search_abort_refuted.
Print Assumptions C15_nonvacuous.
