(* F64Lite — the three IEEE-754 binary64 operations that `compute_search_k` (hnsw_backend.rs) applies to
   POSITIVE FINITE operands, as exact integer arithmetic:  `x as f64` for an unsigned integer,
   `a / b` (round to nearest, ties to even) and `a.ceil() as usize` (saturating cast).
   A positive float is a pair (m, e) meaning m * 2^e with m < 2^53 (m = 0 encodes +0.0).
   Executable, no proofs.  Scope (named in the C06 trusted base): operands are non-negative and every
   intermediate lies in the normal range (no subnormals, no overflow) — true whenever the operands come
   from integers below 2^64, which is the only way SearchK_gen.v uses them.  The library is validated on
   every run against the real function (driver part (i), which includes inputs where the double rounding
   of k / (live/total) lands one ulp above an integer, e.g. k=1 live=1 total=49 -> 50). *)
From Coq Require Import NArith ZArith Bool.
Open Scope bool_scope.
Open Scope Z_scope.

Definition f64 : Set := (Z * Z)%type.   (* (mantissa >= 0, exponent) *)

Definition two_p (e : Z) : Z := Z.pow 2 e.

(* round-to-nearest-even of the positive rational n/d to 53 significant bits *)
Definition rne_ratio (n d : Z) : f64 :=
  if (n <=? 0) || (d <=? 0) then (0, 0) else
  let e0 := Z.log2 n - Z.log2 d - 52 in
  (* n / (d * 2^e0) lies in [2^51, 2^53); make it land in [2^52, 2^53) *)
  let num0 := if e0 <? 0 then n * two_p (- e0) else n in
  let den0 := if e0 <? 0 then d else d * two_p e0 in
  let e := if num0 / den0 <? two_p 52 then e0 - 1 else e0 in
  let num := if e <? 0 then n * two_p (- e) else n in
  let den := if e <? 0 then d else d * two_p e in
  let q := num / den in
  let r := num mod den in
  let q' := if 2 * r <? den then q
            else if den <? 2 * r then q + 1
            else if Z.even q then q else q + 1 in
  (q', e).

(* `x as f64` for an unsigned integer x *)
Definition f64_of_N (x : N) : f64 := rne_ratio (Z.of_N x) 1.

(* a / b for positive finite a, b (scale invariance of rounding away from the range limits) *)
Definition f64_div (a b : f64) : f64 :=
  let '(ma, ea) := a in
  let '(mb, eb) := b in
  let '(q, e) := rne_ratio ma mb in
  (q, e + ea - eb).

Definition usize_max : N := 18446744073709551615%N.

(* `a.ceil() as usize`: the ceiling of a float is a float, and the cast saturates at usize::MAX *)
Definition f64_ceil_to_usize (a : f64) : N :=
  let '(m, e) := a in
  let z := if 0 <=? e then m * two_p e
           else let p := two_p (- e) in (m + p - 1) / p in
  N.min (Z.to_N z) usize_max.
