(* Model of the metadata filter machinery of KyroDB (property C11).  Executable, no proofs.

   engine/src/metadata_filter.rs : matches, matches_exact, matches_range, get_bound_value, matches_in,
                                   matches_and, matches_or, matches_not            (reference semantics)
   engine/src/hnsw_backend.rs    : OrderedF64::from_f64, parse_indexable_numeric, MetadataInvertedIndex
                                   (rebuild_from, insert_doc, remove_doc, replace_doc, bitmap_for_*,
                                   remove_doc_from_all_indexes), compile_filter_to_bitmap,
                                   compile_range_filter_to_bitmap, ids_for_metadata_filter, scan, and the
                                   places the index is maintained: insert (incl. overwrite and the
                                   compaction-on-full path), update_metadata (merge / replace), delete,
                                   batch_delete, compact_tombstones, recovery (store rebuilt from the live
                                   documents in ascending external id order, index rebuilt from it).

   Representation choices (all named in the evidence file):
   * strings are `list N` (UTF-8 bytes); Rust's `String` ordering is byte-wise lexicographic = str_ltb.
   * HashMap<String,String> metadata is an association list with unique keys, built only through
     `mset` (HashMap::insert / extend: later value wins), so uniqueness holds by construction.
   * RoaringTreemap is a duplicate-free list of internal ids with set operations; `bm_iter` is its
     ascending iteration.  Internal ids (u64 / usize) are `nat`, external ids are `N`.
   * HashMap / BTreeMap levels of the index are association lists; a BTreeMap range query is a filter
     on the keys (the results are only ever OR-ed together, so order is irrelevant).
   * DocumentStore is the list of slots (internal_to_external[i], metadata[i]); external_to_internal
     is modelled as the derived lookup `find_live` (first slot carrying that external id).
   * f64: a value is its IEEE-754 bit pattern (Z in [0, 2^64)).  `str::parse::<f64>()` is an
     uninterpreted function `parse` (a Section variable, i.e. every theorem holds for every parse
     function); the harness supplies its graph on the strings it uses, computed by Rust itself.
     The comparison operators are the usual sign-magnitude comparison of bit patterns with NaN
     unordered and -0 = +0 (checked against Rust's own operators on every run), and
     OrderedF64::from_f64 is transcribed on bit patterns. *)
From Coq Require Import List NArith ZArith Bool Arith.
Import ListNotations.

(* ---------------------------------------------------------------- strings *)
Definition str := list N.

Fixpoint str_eqb (a b : str) : bool :=
  match a, b with
  | [], [] => true
  | x :: a', y :: b' => N.eqb x y && str_eqb a' b'
  | _, _ => false
  end.

(* a < b in Rust's String order (byte-wise lexicographic) *)
Fixpoint str_ltb (a b : str) : bool :=
  match a, b with
  | _, [] => false
  | [], _ :: _ => true
  | x :: a', y :: b' => if N.ltb x y then true else if N.eqb x y then str_ltb a' b' else false
  end.
Definition str_leb (a b : str) : bool := negb (str_ltb b a).

(* ---------------------------------------------------------------- association maps *)
Section AMap.
  Context {K V : Type} (eqb : K -> K -> bool).
  Fixpoint aget (k : K) (m : list (K * V)) : option V :=
    match m with
    | [] => None
    | (k', v) :: r => if eqb k k' then Some v else aget k r
    end.
  Fixpoint aset (k : K) (v : V) (m : list (K * V)) : list (K * V) :=
    match m with
    | [] => [(k, v)]
    | (k', v') :: r => if eqb k k' then (k, v) :: r else (k', v') :: aset k v r
    end.
  Definition adel (k : K) (m : list (K * V)) : list (K * V) :=
    filter (fun kv => negb (eqb k (fst kv))) m.
  Definition akeys (m : list (K * V)) : list K := map fst m.
End AMap.

(* ---------------------------------------------------------------- metadata (HashMap<String,String>) *)
Definition meta := list (str * str).
Definition mget (k : str) (m : meta) : option str := aget str_eqb k m.
Definition mset (k v : str) (m : meta) : meta := aset str_eqb k v m.
(* HashMap::extend(iter) / HashMap::from(iter): insert one by one, later wins *)
Definition mextend (m : meta) (l : list (str * str)) : meta :=
  fold_left (fun acc kv => mset (fst kv) (snd kv) acc) l m.
Definition meta_of_list (l : list (str * str)) : meta := mextend [] l.

(* ---------------------------------------------------------------- filter AST = proto/kyrodb.proto *)
Inductive bound := Gte (v : str) | Lte (v : str) | Gt (v : str) | Lt (v : str).

Inductive mfilter :=
| FNone                                   (* MetadataFilter { filter_type: None } *)
| FExact (k v : str)                      (* ExactMatch *)
| FRange (k : str) (b : option bound)     (* RangeMatch, oneof bound may be unset *)
| FIn (k : str) (vs : list str)           (* InMatch *)
| FAnd (fs : list mfilter)                 (* AndFilter *)
| FOr (fs : list mfilter)                  (* OrFilter *)
| FNot (f : option mfilter).               (* NotFilter { filter: Option<Box<..>> } *)

(* get_bound_value / range_bound_value *)
Definition bound_value (b : option bound) : str :=
  match b with
  | Some (Gte v) | Some (Lte v) | Some (Gt v) | Some (Lt v) => v
  | None => []
  end.

(* ---------------------------------------------------------------- f64 on bit patterns *)
Definition two63 : Z := 9223372036854775808.
Definition two64 : Z := 18446744073709551616.
Definition inf_bits : Z := 9218868437227405312.   (* 0x7FF0_0000_0000_0000 *)
Definition f64_norm (z : Z) : Z := (z mod two64)%Z.
Definition f64_mag (b : Z) : Z := (b mod two63)%Z.
Definition f64_neg (b : Z) : bool := (two63 <=? b)%Z.
Definition f64_is_nan (b : Z) : bool := (inf_bits <? f64_mag b)%Z.
(* signed magnitude: strictly monotone in the represented value on non-NaN, -0 and +0 both 0 *)
Definition f64_sval (b : Z) : Z := if f64_neg b then (- f64_mag b)%Z else f64_mag b.
Definition f64_ord (a b : Z) : bool := negb (f64_is_nan a) && negb (f64_is_nan b).
Definition f64_lt (a b : Z) : bool := f64_ord a b && (f64_sval a <? f64_sval b)%Z.
Definition f64_le (a b : Z) : bool := f64_ord a b && (f64_sval a <=? f64_sval b)%Z.
Definition f64_gt (a b : Z) : bool := f64_lt b a.
Definition f64_ge (a b : Z) : bool := f64_le b a.
Definition f64_eq (a b : Z) : bool := f64_ord a b && (f64_sval a =? f64_sval b)%Z.

(* OrderedF64::from_f64 on bit patterns:
     let value = if value == 0.0 { 0.0 } else { value };
     let bits = value.to_bits();
     if (bits >> 63) == 0 { bits | (1 << 63) } else { !bits }                                  *)
Definition okey (value : Z) : Z :=
  let value := if f64_eq value 0 then 0%Z else value in
  if (value <? two63)%Z then (value + two63)%Z      (* top bit clear: bits | 1<<63 = bits + 2^63 *)
  else (two64 - 1 - value)%Z.                       (* !bits = 2^64 - 1 - bits *)

(* ---------------------------------------------------------------- bitmaps (RoaringTreemap) *)
Definition bitmap := list nat.
Definition bm_mem (i : nat) (b : bitmap) : bool := existsb (Nat.eqb i) b.
Definition bm_insert (i : nat) (b : bitmap) : bitmap := if bm_mem i b then b else i :: b.
Definition bm_remove (i : nat) (b : bitmap) : bitmap := filter (fun j => negb (Nat.eqb i j)) b.
Definition bm_or (a b : bitmap) : bitmap := a ++ filter (fun j => negb (bm_mem j a)) b.
Definition bm_and (a b : bitmap) : bitmap := filter (fun j => bm_mem j b) a.
Definition bm_diff (a b : bitmap) : bitmap := filter (fun j => negb (bm_mem j b)) a.
Definition bm_is_empty (b : bitmap) : bool := match b with [] => true | _ => false end.
Fixpoint sorted_insert (i : nat) (l : list nat) : list nat :=
  match l with
  | [] => [i]
  | j :: r => if i <? j then i :: l else if i =? j then l else j :: sorted_insert i r
  end.
(* ascending iteration *)
Definition bm_iter (b : bitmap) : list nat := fold_right sorted_insert [] b.

(* one- and two-level posting maps: entry(k).or_default()... and get_mut(k) ... remove-if-empty *)
Section Postings.
  Context {K1 K2 : Type} (eq1 : K1 -> K1 -> bool) (eq2 : K2 -> K2 -> bool).
  Definition get1 (k : K2) (m : list (K2 * bitmap)) : bitmap :=
    match aget eq2 k m with Some b => b | None => [] end.
  Definition getm (k : K1) (m : list (K1 * list (K2 * bitmap))) : list (K2 * bitmap) :=
    match aget eq1 k m with Some x => x | None => [] end.
  Definition get2 (k : K1) (v : K2) (m : list (K1 * list (K2 * bitmap))) : bitmap :=
    get1 v (getm k m).
  Definition add1 (k : K2) (i : nat) (m : list (K2 * bitmap)) : list (K2 * bitmap) :=
    aset eq2 k (bm_insert i (get1 k m)) m.
  Definition rem1 (k : K2) (i : nat) (m : list (K2 * bitmap)) : list (K2 * bitmap) :=
    match aget eq2 k m with
    | None => m
    | Some b => let b' := bm_remove i b in
                if bm_is_empty b' then adel eq2 k m else aset eq2 k b' m
    end.
  Definition add2 (k : K1) (v : K2) (i : nat) (m : list (K1 * list (K2 * bitmap))) :=
    aset eq1 k (add1 v i (getm k m)) m.
  Definition rem2 (k : K1) (v : K2) (i : nat) (m : list (K1 * list (K2 * bitmap))) :=
    match aget eq1 k m with
    | None => m
    | Some values =>
        let values' := rem1 v i values in
        match values' with [] => adel eq1 k m | _ => aset eq1 k values' m end
    end.
  (* union of the postings of every key of the inner map satisfying p; a HashMap/BTreeMap holds each
     key once with its current value, hence iteration = keys + lookup *)
  Definition union_where (p : K2 -> bool) (m : list (K2 * bitmap)) : bitmap :=
    fold_left (fun acc k => if p k then bm_or acc (get1 k m) else acc) (akeys m) [].
  (* remove_doc_from_all_indexes, one two-level map *)
  Definition strip1 (i : nat) (m : list (K2 * bitmap)) : list (K2 * bitmap) :=
    filter (fun e => negb (bm_is_empty (snd e))) (map (fun e => (fst e, bm_remove i (snd e))) m).
  Definition strip2 (i : nat) (m : list (K1 * list (K2 * bitmap))) :=
    filter (fun kv => match snd kv with [] => false | _ => true end)
           (map (fun kv => (fst kv, strip1 i (snd kv))) m).
End Postings.

(* ---------------------------------------------------------------- MetadataInvertedIndex *)
Record index := mkIndex {
  alive   : bitmap;
  by_kv   : list (str * list (str * bitmap));     (* by_key_value *)
  by_lex  : list (str * list (str * bitmap));     (* by_key_lex (BTreeMap inside) *)
  by_num  : list (str * list (Z * bitmap));       (* by_key_numeric (BTreeMap<OrderedF64,_> inside) *)
  numdocs : list (str * bitmap)                   (* numeric_docs_by_key *)
}.
Definition empty_index : index := mkIndex [] [] [] [] [].

Definition slot := (option N * meta)%type.        (* internal_to_external[i], metadata[i] *)

Section WithParse.
Variable parse : str -> option Z.                 (* str::parse::<f64>().ok() as f64 bits *)

(* parse_indexable_numeric *)
Definition parse_num (s : str) : option Z := option_map f64_norm (parse s).

(* ------------------------------------------------------------- reference semantics *)
Definition matches_range (k : str) (b : option bound) (m : meta) : bool :=
  match mget k m with
  | None => false
  | Some val =>
      match parse_num val, parse_num (bound_value b) with
      | Some x, Some y =>
          match b with
          | Some (Gte _) => f64_ge x y
          | Some (Lte _) => f64_le x y
          | Some (Gt _) => f64_gt x y
          | Some (Lt _) => f64_lt x y
          | None => true
          end
      | _, _ =>
          match b with
          | Some (Gte v) => str_leb v val
          | Some (Lte v) => str_leb val v
          | Some (Gt v) => str_ltb v val
          | Some (Lt v) => str_ltb val v
          | None => true
          end
      end
  end.

Fixpoint matches (f : mfilter) (m : meta) : bool :=
  match f with
  | FNone => true
  | FExact k v => match mget k m with Some x => str_eqb x v | None => false end
  | FRange k b => matches_range k b m
  | FIn k vs => match mget k m with Some x => existsb (fun v => str_eqb v x) vs | None => false end
  | FAnd fs => forallb (fun g => matches g m) fs
  | FOr fs => match fs with [] => false | _ => existsb (fun g => matches g m) fs end
  | FNot o => match o with Some g => negb (matches g m) | None => false end
  end.

(* ------------------------------------------------------------- index maintenance *)
Definition insert_pair (i : nat) (ix : index) (kv : str * str) : index :=
  let k := fst kv in let v := snd kv in
  let ix := mkIndex (alive ix) (add2 str_eqb str_eqb k v i (by_kv ix))
                    (add2 str_eqb str_eqb k v i (by_lex ix)) (by_num ix) (numdocs ix) in
  match parse_num v with
  | Some n =>
      let ix := mkIndex (alive ix) (by_kv ix) (by_lex ix) (by_num ix) (add1 str_eqb k i (numdocs ix)) in
      if f64_is_nan n then ix
      else mkIndex (alive ix) (by_kv ix) (by_lex ix)
                   (add2 str_eqb Z.eqb k (okey n) i (by_num ix)) (numdocs ix)
  | None => ix
  end.

Definition remove_pair (i : nat) (ix : index) (kv : str * str) : index :=
  let k := fst kv in let v := snd kv in
  let ix := mkIndex (alive ix) (rem2 str_eqb str_eqb k v i (by_kv ix))
                    (rem2 str_eqb str_eqb k v i (by_lex ix)) (by_num ix) (numdocs ix) in
  match parse_num v with
  | Some n =>
      let ix := if f64_is_nan n then ix
                else mkIndex (alive ix) (by_kv ix) (by_lex ix)
                             (rem2 str_eqb Z.eqb k (okey n) i (by_num ix)) (numdocs ix) in
      mkIndex (alive ix) (by_kv ix) (by_lex ix) (by_num ix) (rem1 str_eqb k i (numdocs ix))
  | None => ix
  end.

Definition remove_doc_from_all_indexes (ix : index) (i : nat) : index :=
  mkIndex (bm_remove i (alive ix)) (strip2 i (by_kv ix)) (strip2 i (by_lex ix))
          (strip2 i (by_num ix)) (strip1 i (numdocs ix)).

Definition insert_doc (ix : index) (i : nat) (m : meta) : index :=
  let ix := if bm_mem i (alive ix) then remove_doc_from_all_indexes ix i else ix in
  let ix := mkIndex (bm_insert i (alive ix)) (by_kv ix) (by_lex ix) (by_num ix) (numdocs ix) in
  fold_left (insert_pair i) m ix.

Definition remove_doc (ix : index) (i : nat) (m : meta) : index :=
  let ix := mkIndex (bm_remove i (alive ix)) (by_kv ix) (by_lex ix) (by_num ix) (numdocs ix) in
  fold_left (remove_pair i) m ix.

Definition replace_doc (ix : index) (i : nat) (old new : meta) : index :=
  insert_doc (remove_doc ix i old) i new.

Definition indexed (sl : list slot) : list (nat * slot) := combine (seq 0 (length sl)) sl.

Definition rebuild_step (ix : index) (p : nat * slot) : index :=
  match snd p with
  | (Some _, m) => insert_doc ix (fst p) m
  | (None, _) => ix
  end.
Definition rebuild_from (sl : list slot) : index := fold_left rebuild_step (indexed sl) empty_index.

(* ------------------------------------------------------------- lookups *)
Definition bitmap_for_exact (ix : index) (k v : str) : bitmap := get2 str_eqb str_eqb k v (by_kv ix).
Definition bitmap_for_key_presence (ix : index) (k : str) : bitmap :=
  union_where str_eqb (fun _ => true) (getm str_eqb k (by_kv ix)).
Definition bitmap_for_range_lex (ix : index) (k : str) (b : bound) : bitmap :=
  let values := getm str_eqb k (by_lex ix) in
  match b with
  | Gte v => union_where str_eqb (fun x => str_leb v x) values
  | Lte v => union_where str_eqb (fun x => str_leb x v) values
  | Gt v => union_where str_eqb (fun x => str_ltb v x) values
  | Lt v => union_where str_eqb (fun x => str_ltb x v) values
  end.
Definition bitmap_for_range_numeric (ix : index) (k : str) (b : bound) (bound_num : Z) : bitmap :=
  if f64_is_nan bound_num then []
  else
    let values := getm str_eqb k (by_num ix) in
    let nk := okey bound_num in
    match b with
    | Gte _ => union_where Z.eqb (fun z => (nk <=? z)%Z) values
    | Lte _ => union_where Z.eqb (fun z => (z <=? nk)%Z) values
    | Gt _ => union_where Z.eqb (fun z => (nk <? z)%Z) values
    | Lt _ => union_where Z.eqb (fun z => (z <? nk)%Z) values
    end.

Definition compile_range (ix : index) (k : str) (ob : option bound) : option bitmap :=
  match ob with
  | None => Some (bitmap_for_key_presence ix k)
  | Some b =>
      let out := bitmap_for_range_lex ix k b in
      match parse_num (bound_value ob) with
      | Some bound_num =>
          let out := match aget str_eqb k (numdocs ix) with
                     | Some nd => bm_diff out nd
                     | None => out
                     end in
          Some (bm_or out (bitmap_for_range_numeric ix k b bound_num))
      | None => Some out
      end
  end.

(* `?` on a sub-filter: the first uncompilable sub-filter makes the whole filter uncompilable *)
Definition and_step (c : mfilter -> option bitmap) (acc : option bitmap) (g : mfilter) : option bitmap :=
  match acc with
  | None => None
  | Some a => match c g with Some b => Some (bm_and a b) | None => None end
  end.
Definition or_step (c : mfilter -> option bitmap) (acc : option bitmap) (g : mfilter) : option bitmap :=
  match acc with
  | None => None
  | Some a => match c g with Some b => Some (bm_or a b) | None => None end
  end.

Fixpoint compile (ix : index) (f : mfilter) : option bitmap :=
  match f with
  | FNone => Some (alive ix)
  | FExact k v => Some (bitmap_for_exact ix k v)
  | FIn k vs => Some (fold_left (fun acc v => bm_or acc (bitmap_for_exact ix k v)) vs [])
  | FAnd fs =>
      match fs with
      | [] => Some (alive ix)
      | first :: rest => fold_left (and_step (compile ix)) rest (compile ix first)
      end
  | FOr fs =>
      match fs with
      | [] => Some []
      | _ => fold_left (or_step (compile ix)) fs (Some [])
      end
  | FNot o =>
      match o with
      | None => None
      | Some g => match compile ix g with
                  | Some b => Some (bm_diff (alive ix) b)
                  | None => None
                  end
      end
  | FRange k b => compile_range ix k b
  end.

(* ------------------------------------------------------------- store + index = HnswBackend (metadata view) *)
Record state := mkState { slots : list slot; idx : index; cap : nat }.
Definition init (c : nat) : state := mkState [] empty_index c.

Definition slot_at (i : nat) (sl : list slot) : slot := nth i sl (None, []).
Definition ext_at (i : nat) (sl : list slot) : option N := fst (slot_at i sl).
Definition meta_at (i : nat) (sl : list slot) : meta := snd (slot_at i sl).
Definition is_live_slot (s : slot) : bool := match fst s with Some _ => true | None => false end.
Definition ext_is (d : N) (s : slot) : bool := match fst s with Some e => N.eqb e d | None => false end.
(* external_to_internal.get(&doc_id) *)
Fixpoint find_live (d : N) (sl : list slot) : option nat :=
  match sl with
  | [] => None
  | s :: r => if ext_is d s then Some 0 else option_map S (find_live d r)
  end.
Fixpoint set_nth (i : nat) (x : slot) (sl : list slot) : list slot :=
  match sl, i with
  | [], _ => []
  | _ :: r, 0 => x :: r
  | s :: r, S i' => s :: set_nth i' x r
  end.
(* internal_to_external[i] = None; metadata[i].clear() *)
Definition tombstone (i : nat) (sl : list slot) : list slot := set_nth i (None, []) sl.

(* scan *)
Definition scan (sl : list slot) (p : meta -> bool) : list N :=
  flat_map (fun s => match fst s with
                     | Some d => if p (snd s) then [d] else []
                     | None => []
                     end) sl.

(* ids_for_metadata_filter *)
Definition ids_of_bitmap (sl : list slot) (b : bitmap) : list N :=
  flat_map (fun i => match ext_at i sl with Some d => [d] | None => [] end) (bm_iter b).
Definition ids_for_filter (s : state) (f : mfilter) : list N :=
  match compile (idx s) f with
  | Some b => ids_of_bitmap (slots s) (bm_and b (alive (idx s)))
  | None => scan (slots s) (matches f)
  end.

(* compact_tombstones *)
Definition compact (s : state) : state :=
  if forallb is_live_slot (slots s) then s
  else let sl := filter is_live_slot (slots s) in mkState sl (rebuild_from sl) (cap s).

(* recovery: documents sorted by external id, fresh store, index rebuilt *)
Definition slot_key (s : slot) : N := match fst s with Some d => d | None => 0%N end.
Fixpoint slot_insert (x : slot) (l : list slot) : list slot :=
  match l with
  | [] => [x]
  | y :: r => if N.leb (slot_key x) (slot_key y) then x :: l else y :: slot_insert x r
  end.
Definition sort_slots (l : list slot) : list slot := fold_right slot_insert [] l.
Definition recover (s : state) : state :=
  let sl := sort_slots (filter is_live_slot (slots s)) in mkState sl (rebuild_from sl) (cap s).

(* insert (upsert) *)
Definition do_insert (s : state) (d : N) (raw : list (str * str)) : state * bool :=
  let m := meta_of_list raw in
  (* index.is_full(): one compaction attempt when there are tombstones, then "HNSW index full" *)
  let s := if cap s <=? length (slots s) then compact s else s in
  if cap s <=? length (slots s) then (s, false)
  else
    let old := find_live d (slots s) in
    let internal := length (slots s) in
    let sl := slots s ++ [(Some d, m)] in
    let sl := match old with Some o => tombstone o sl | None => sl end in
    let ix := insert_doc (idx s) internal m in
    let ix := match old with Some o => remove_doc ix o (meta_at o (slots s)) | None => ix end in
    (mkState sl ix (cap s), true).

(* update_metadata *)
Definition do_update (s : state) (d : N) (raw : list (str * str)) (merge : bool) : state * bool :=
  match find_live d (slots s) with
  | None => (s, false)
  | Some i =>
      let old := meta_at i (slots s) in
      let updated := if merge then mextend old raw else meta_of_list raw in
      (mkState (set_nth i (ext_at i (slots s), updated) (slots s))
               (replace_doc (idx s) i old updated) (cap s), true)
  end.

(* delete *)
Definition do_delete (s : state) (d : N) : state * bool :=
  match find_live d (slots s) with
  | None => (s, false)
  | Some i =>
      match ext_at i (slots s) with
      | None => (s, false)
      | Some _ =>
          (mkState (tombstone i (slots s)) (remove_doc (idx s) i (meta_at i (slots s))) (cap s), true)
      end
  end.

(* batch_delete: first pass collects (doc_id, internal_id, old metadata); second pass tombstones the
   store; third pass removes the postings *)
Definition bd_collect (sl : list slot) (ids : list N) : list (N * nat * meta) :=
  flat_map (fun d => match find_live d sl with
                     | Some i => match ext_at i sl with
                                 | Some _ => [(d, i, meta_at i sl)]
                                 | None => []
                                 end
                     | None => []
                     end) ids.
Definition bd_store_step (acc : list slot * list (nat * meta)) (e : N * nat * meta) :=
  match e with
  | (d, i, old) =>
      match ext_at i (fst acc) with
      | Some d' => if N.eqb d' d then (tombstone i (fst acc), snd acc ++ [(i, old)]) else acc
      | None => acc
      end
  end.
Definition do_batch_delete (s : state) (ids : list N) : state * nat :=
  let deletes := bd_collect (slots s) ids in
  let r := fold_left bd_store_step deletes (slots s, []) in
  let ix := fold_left (fun ix e => remove_doc ix (fst e) (snd e)) (snd r) (idx s) in
  (mkState (fst r) ix (cap s), length (snd r)).

(* TieredEngine::batch_delete_by_metadata_filter, cold-tier part: ids, sort_unstable, dedup, batch_delete *)
Fixpoint nsorted_insert (x : N) (l : list N) : list N :=
  match l with
  | [] => [x]
  | y :: r => if N.ltb x y then x :: l else if N.eqb x y then l else y :: nsorted_insert x r
  end.
Definition sort_dedup (l : list N) : list N := fold_right nsorted_insert [] l.
Definition do_batch_delete_filter (s : state) (f : mfilter) : state * nat :=
  do_batch_delete s (sort_dedup (ids_for_filter s f)).

Inductive op :=
| OInsert (d : N) (raw : list (str * str))
| OUpdate (d : N) (raw : list (str * str)) (merge : bool)
| ODelete (d : N)
| OBatchDelete (ids : list N)
| OBatchDeleteFilter (f : mfilter)
| OCompact
| ORecover.

Inductive out := RBool (b : bool) | RCount (n : nat) | RUnit.

Definition step (s : state) (o : op) : state * out :=
  match o with
  | OInsert d raw => let r := do_insert s d raw in (fst r, RBool (snd r))
  | OUpdate d raw mg => let r := do_update s d raw mg in (fst r, RBool (snd r))
  | ODelete d => let r := do_delete s d in (fst r, RBool (snd r))
  | OBatchDelete ids => let r := do_batch_delete s ids in (fst r, RCount (snd r))
  | OBatchDeleteFilter f => let r := do_batch_delete_filter s f in (fst r, RCount (snd r))
  | OCompact => (compact s, RUnit)
  | ORecover => (recover s, RUnit)
  end.

Definition run (s : state) (ops : list op) : state * list out :=
  fold_left (fun acc o => let r := step (fst acc) o in (fst r, snd acc ++ [snd r])) ops (s, []).
Definition run_state (s : state) (ops : list op) : state := fold_left (fun st o => fst (step st o)) ops s.

(* live documents (external id, metadata) in internal order *)
Definition live_docs (sl : list slot) : list (N * meta) :=
  flat_map (fun s => match fst s with Some d => [(d, snd s)] | None => [] end) sl.

End WithParse.

(* ---------------------------------------------------------------- correspondence helpers (cases.v) *)
Fixpoint list_eqb {A} (e : A -> A -> bool) (a b : list A) : bool :=
  match a, b with
  | [], [] => true
  | x :: a', y :: b' => e x y && list_eqb e a' b'
  | _, _ => false
  end.
Definition out_eqb (a b : out) : bool :=
  match a, b with
  | RBool x, RBool y => Bool.eqb x y
  | RCount x, RCount y => Nat.eqb x y
  | RUnit, RUnit => true
  | _, _ => false
  end.
(* parse function given by its graph on the strings of a case (computed by Rust) *)
Definition parse_tbl (t : list (str * option Z)) (s : str) : option Z :=
  match aget str_eqb s t with Some r => r | None => None end.

(* one correspondence case: (id, capacity, history, observed results of the history,
   queries (qid, filter, observed ids_for_metadata_filter, observed scan(matches)))  — all observations
   come from the real HnswBackend; the result lists the (id, qid) that disagree (qid 999999 = the
   per-operation results of the history disagree) *)
Definition ccase := (N * nat * list op * list out * list (N * mfilter * list N * list N))%type.
Definition check_case (P : str -> option Z) (c : ccase) : list (N * N) :=
  match c with
  | (id, cp, ops, outs, qs) =>
      let r := run P (init cp) ops in
      let s := fst r in
      (if list_eqb out_eqb (snd r) outs then [] else [(id, 999999%N)]) ++
      flat_map (fun q => match q with
                         | (qid, f, oi, os) =>
                             if list_eqb N.eqb (ids_for_filter P s f) oi
                                && list_eqb N.eqb (scan (slots s) (matches P f)) os
                             then [] else [(id, qid)]
                         end) qs
  end.
Definition case_queries (c : ccase) : nat := match c with (_, _, _, _, qs) => length qs end.
(* f64 comparison rows observed in Rust: (bits a, bits b, a<b, a<=b, a>b, a>=b, a==b) *)
Definition f64_row_ok (r : Z * Z * bool * bool * bool * bool * bool) : bool :=
  match r with
  | (a, b, lt, le, gt, ge, eq) =>
      Bool.eqb (f64_lt a b) lt && Bool.eqb (f64_le a b) le && Bool.eqb (f64_gt a b) gt
      && Bool.eqb (f64_ge a b) ge && Bool.eqb (f64_eq a b) eq
  end.
