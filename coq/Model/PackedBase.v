(* C17 — vocabulary of the index models that harness/p/xl17 regenerates from engine/src/ann_backend.rs
   (coq/gen/Packed_gen.v).  No proofs here.

   A generated method  M : S -> (N -> N -> N) -> (N -> bool) -> args -> mres S  returns
     - the memory accesses it performs, in program order, each with the length the array has AT THAT
       MOMENT (so a write that follows an `extend` is judged against the extended length),
     - the state afterwards (scalar fields and Vec LENGTHS only; contents are not state:
       every read of an array element goes through `rd arr idx`, an ARBITRARY function), and
     - its result: Some v (returned a number / Some(v) / () as 0) or None (returned None, or stopped
       at a `?`, let-else, `.expect`).
   `nd k` decides the k-th condition the translator could not express (it depends on array contents
   or on fields outside the model); theorems quantify over every `nd` and every `rd`. *)
From Coq Require Import NArith List Bool.
From Kyro Require Import Model.Strided.
Import ListNotations.
Open Scope N_scope.

Definition usize_max : N := 18446744073709551615.
Definition sat_mul (a b : N) : N := N.min (a * b) usize_max.
Definition sat_add (a b : N) : N := N.min (a + b) usize_max.
(* usize::div_ceil as implemented in core: d = a / b, r = a % b, if r > 0 { d + 1 } else { d } *)
Definition div_ceil (a b : N) : N := if a mod b =? 0 then a / b else a / b + 1.
Definition as_u32 (x : N) : N := x mod 4294967296.
Definition as_u16 (x : N) : N := x mod 65536.

Record pacc : Type := mk_pacc {
  pa_unchecked : bool;   (* true: get_unchecked / raw pointer (out of bounds = undefined behaviour);
                            false: bounds-checked by Rust (out of bounds = panic) *)
  pa_arr : N;            (* which Vec of the struct (ids are listed in Packed_gen) *)
  pa_off : N;
  pa_width : N;          (* in elements; a width-0 access only requires off <= length (pointer one past) *)
  pa_alen : N            (* length of that Vec at the moment of the access *)
}.

Definition pacc_ok (a : pacc) : bool := pa_off a + pa_width a <=? pa_alen a.
(* the memory-safety obligation: only unchecked accesses can be undefined behaviour *)
Definition pacc_safe (a : pacc) : bool := negb (pa_unchecked a) || pacc_ok a.

Definition mres (S : Type) : Type := (list pacc * S * option N)%type.

Definition m_pre {S : Type} (l : list pacc) (r : mres S) : mres S :=
  let '(a, s, v) := r in (l ++ a, s, v).
Definition m_accs {S : Type} (r : mres S) : list pacc := fst (fst r).
Definition m_state {S : Type} (r : mres S) : S := snd (fst r).
Definition m_val {S : Type} (r : mres S) : option N := snd r.
Definition opt_or (o : option N) (d : N) : N := match o with Some v => v | None => d end.
Definition b2n (b : bool) : N := if b then 1 else 0.
