(* Model of engine/src/tiered_engine.rs (point-lookup side): L1a document cache(s) (vector_cache.rs +
   lru_index.rs behind a CacheStrategy; the A/B splitter routes by id parity to two caches), the
   hot-tier recent-write mirror (hot_tier.rs) and the canonical cold tier (hnsw_backend.rs
   DocumentStore: embedding, metadata, version; digest = digest(embedding)).
   Executable, NO proofs (Proofs/TieredProofs.v).  Used by C04, C20 and (opx, filter_delete) C11.

   Abstractions (stated in checks/meta/C04.json):
   * `digest : vec -> dgst` is a Section variable (coherence.rs digest_embedding, 128-bit Murmur3);
     the theorems assume it injective (`digest_inj`).
   * `valid : vec -> bool` is a Section variable: the vectors HnswBackend::insert accepts (dimension,
     finiteness, normalisable).  A rejected insert leaves the in-memory cold tier untouched.
     Accepted vectors are stored bit-for-bit (Euclidean metric, or already-normalised under
     Cosine/InnerProduct: normalize_in_place_if_needed is the identity on them).
   * cache admission (`CacheStrategy::should_cache`) is an input: OQuery carries the decision.
   * not modelled: "index full", age-based drain (max_age is set to 1 h by the harness), circuit
     breakers (never opened: no timed searches), the query-result cache L1b (C07), statistics other
     than the four counters below, u64 saturation of versions. *)
From Coq Require Import List NArith ZArith Bool Arith.
From Kyro Require Import Model.TMap.
Import ListNotations.

Definition vec := list Z.            (* f32 bit patterns, never interpreted *)
Definition meta := list (N * N).     (* interned key -> interned value, ascending keys *)
Definition dgst := list Z.
Definition token := (N * dgst)%type. (* VectorCoherenceToken { version, digest } *)

Record crec := mkC { c_vec : vec; c_meta : meta; c_ver : N }.
Record lent := mkL { l_vec : vec; l_tok : token }.                 (* CachedVector *)
Record hent := mkH { h_vec : vec; h_meta : meta; h_tok : token }.  (* HotDocument *)

Record config := mkCfg {
  cap_a : nat;   (* capacity of the (first) VectorCache *)
  cap_b : nat;   (* capacity of the second VectorCache (A/B only) *)
  ab    : bool;  (* AbTestSplitter: even ids -> cache A, odd ids -> cache B *)
  soft  : nat;   (* hot_tier_max_size *)
  hard  : nat    (* hot_tier_hard_limit *)
}.

Record counters := mkCt {
  n_inserts : nat;  (* stats.total_inserts *)
  n_emerg   : nat;  (* stats.hot_tier_emergency_evictions *)
  n_fail    : nat;  (* stats.hot_tier_flush_failures *)
  n_flush   : nat   (* HotTierStats.total_flushes (every drain_for_flush) *)
}.

Record state := mkS {
  cold : list (N * crec);
  l1a  : list (N * lent);   (* MRU first *)
  l1b  : list (N * lent);
  hot  : list (N * hent);
  ctr  : counters
}.

Inductive tier := TCache | THot | TCold.
Inductive cvs := CMatch | CTokMis | CCorrupt | CMissing.   (* CanonicalVectorState *)

(* ---------- decidable equalities ---------- *)
Fixpoint list_eqb {A} (e : A -> A -> bool) (a b : list A) : bool :=
  match a, b with
  | [], [] => true
  | x :: r, y :: q => e x y && list_eqb e r q
  | _, _ => false
  end.
Definition vec_eqb : vec -> vec -> bool := list_eqb Z.eqb.
(* f32 `==` on bit patterns (Vec<f32> PartialEq): NaN differs from everything, -0.0 == +0.0 *)
Definition f32_is_nan (z : Z) : bool := Z.eqb (Z.land (Z.shiftr z 23) 255) 255 && negb (Z.eqb (Z.land z 8388607) 0).
Definition f32_is_zero (z : Z) : bool := Z.eqb (Z.land z 2147483647) 0.
Definition f32_feqb (a b : Z) : bool := (f32_is_zero a && f32_is_zero b) || (Z.eqb a b && negb (f32_is_nan a)).
Definition vec_feqb : vec -> vec -> bool := list_eqb f32_feqb.
Definition tok_eqb (a b : token) : bool := N.eqb (fst a) (fst b) && vec_eqb (snd a) (snd b).
Definition pairN_eqb (a b : N * N) : bool := N.eqb (fst a) (fst b) && N.eqb (snd a) (snd b).
Definition meta_eqb : meta -> meta -> bool := list_eqb pairN_eqb.

(* ---------- metadata (HashMap<String,String>) kept as an ascending association list ---------- *)
Fixpoint meta_set (k v : N) (m : meta) : meta :=
  match m with
  | [] => [(k, v)]
  | (k0, v0) :: r =>
      if N.eqb k0 k then (k, v) :: r
      else if N.ltb k k0 then (k, v) :: (k0, v0) :: r
      else (k0, v0) :: meta_set k v r
  end.
(* HashMap::extend: later bindings win *)
Definition meta_merge (old new : meta) : meta := fold_left (fun acc kv => meta_set (fst kv) (snd kv) acc) new old.
Definition meta_canon (m : meta) : meta := meta_merge [] m.

(* ---------- field updates ---------- *)
Definition set_cold (s : state) (x : list (N * crec)) := mkS x (l1a s) (l1b s) (hot s) (ctr s).
Definition set_l1a (s : state) (x : list (N * lent)) := mkS (cold s) x (l1b s) (hot s) (ctr s).
Definition set_l1b (s : state) (x : list (N * lent)) := mkS (cold s) (l1a s) x (hot s) (ctr s).
Definition set_hot (s : state) (x : list (N * hent)) := mkS (cold s) (l1a s) (l1b s) x (ctr s).
Definition set_ctr (s : state) (x : counters) := mkS (cold s) (l1a s) (l1b s) (hot s) x.
Definition bump_ins (s : state) := let c := ctr s in set_ctr s (mkCt (S (n_inserts c)) (n_emerg c) (n_fail c) (n_flush c)).
Definition bump_emerg (s : state) := let c := ctr s in set_ctr s (mkCt (n_inserts c) (S (n_emerg c)) (n_fail c) (n_flush c)).
Definition bump_fail (s : state) := let c := ctr s in set_ctr s (mkCt (n_inserts c) (n_emerg c) (S (n_fail c)) (n_flush c)).
Definition bump_flush (s : state) := let c := ctr s in set_ctr s (mkCt (n_inserts c) (n_emerg c) (n_fail c) (S (n_flush c))).

(* ---------- VectorCache (vector_cache.rs + lru_index.rs), MRU first ---------- *)
(* get: hit promotes to MRU *)
Definition lru_get (k : N) (l : list (N * lent)) : list (N * lent) * option lent :=
  match lookup k l with
  | Some e => ((k, e) :: remove k l, Some e)
  | None => (l, None)
  end.
(* insert: existing key is replaced and promoted; otherwise evict the LRU entry when
   len >= capacity (pop_lru on an empty index is a no-op), then insert as MRU *)
Definition lru_insert (cap : nat) (k : N) (e : lent) (l : list (N * lent)) : list (N * lent) :=
  if mem k l then (k, e) :: remove k l
  else (k, e) :: (if cap <=? length l then removelast l else l).

(* ---------- metadata filters over the interned metadata (C11 at the tiered level) ----------
   proto MetadataFilter restricted to the shapes that need no string parsing (Range is backend-level,
   Model/Filter.v); `tmatch` transcribes metadata_filter.rs `matches`: a missing key never matches,
   AND of nothing is true, OR of nothing is false, NOT without operand is false, an unset
   filter_type matches everything.  HashMap::get = first binding of the key. *)
Inductive tfilter :=
| TAll                          (* MetadataFilter { filter_type: None } *)
| TExact (k v : N)              (* ExactMatch *)
| TIn (k : N) (vs : list N)     (* InMatch *)
| TNot (f : tfilter)            (* NotFilter { filter: Some(f) } *)
| TNotNone                      (* NotFilter { filter: None } *)
| TAnd (fs : list tfilter)      (* AndFilter *)
| TOr (fs : list tfilter).      (* OrFilter *)

Fixpoint tmatch (f : tfilter) (m : meta) : bool :=
  match f with
  | TAll => true
  | TExact k v => match lookup k m with Some x => N.eqb x v | None => false end
  | TIn k vs => match lookup k m with Some x => existsb (N.eqb x) vs | None => false end
  | TNot g => negb (tmatch g m)
  | TNotNone => false
  | TAnd fs => forallb (fun g => tmatch g m) fs
  | TOr fs => existsb (fun g => tmatch g m) fs
  end.

Section Engine.
  Variable digest : vec -> dgst.
  Variable valid : vec -> bool.
  Variable c : config.

  (* AbTestSplitter::get_strategy *)
  Definition route (id : N) : bool := ab c && N.odd id.

  Definition l1_get (s : state) (id : N) : state * option lent :=
    if route id then let '(l, r) := lru_get id (l1b s) in (set_l1b s l, r)
    else let '(l, r) := lru_get id (l1a s) in (set_l1a s l, r).
  Definition l1_peek (s : state) (id : N) : option lent :=
    if route id then lookup id (l1b s) else lookup id (l1a s).
  Definition l1_insert (s : state) (id : N) (e : lent) : state :=
    if route id then set_l1b s (lru_insert (cap_b c) id e (l1b s))
    else set_l1a s (lru_insert (cap_a c) id e (l1a s)).
  (* CacheStrategy::invalidate — the splitter invalidates in BOTH caches *)
  Definition l1_invalidate (s : state) (id : N) : state :=
    if ab c then set_l1b (set_l1a s (remove id (l1a s))) (remove id (l1b s))
    else set_l1a s (remove id (l1a s)).

  (* ---------- cold tier (HnswBackend, in-memory view) ---------- *)
  Definition cold_token (s : state) (id : N) : option token :=
    match lookup id (cold s) with
    | Some r => Some (c_ver r, digest (c_vec r))
    | None => None
    end.
  (* HnswBackend::insert: version = prior live version + 1, a fresh id (or a deleted one) starts at 1 *)
  Definition cold_insert (cd : list (N * crec)) (id : N) (v : vec) (m : meta) : option (list (N * crec)) :=
    if valid v then
      let ver := match lookup id cd with Some r => N.succ (c_ver r) | None => 1%N end in
      Some (put id (mkC v (meta_canon m) ver) cd)
    else None.

  (* TieredEngine::canonical_vector_state *)
  Definition canon_state (s : state) (id : N) (v : vec) (t : token) : cvs :=
    match cold_token s id with
    | None => CMissing
    | Some ct =>
        if negb (tok_eqb ct t) then CTokMis
        else if negb (vec_eqb (digest v) (snd t)) then CCorrupt
        else CMatch
    end.

  (* discard_stale_hot_mirror: hot_tier.delete + cache_strategy.invalidate (+ query cache clear) *)
  Definition discard (s : state) (id : N) : state :=
    l1_invalidate (set_hot s (remove id (hot s))) id.

  (* hot-tier probe shared by the read paths: Match -> serve; TokenMismatch/LocalCorruption ->
     discard the mirror; Missing -> leave it *)
  Definition hot_probe (s : state) (id : N) : state * option hent :=
    match lookup id (hot s) with
    | Some h =>
        match canon_state s id (h_vec h) (h_tok h) with
        | CMatch => (s, Some h)
        | CMissing => (s, None)
        | _ => (discard s id, None)
        end
    | None => (s, None)
    end.

  (* ---------- reads ---------- *)
  (* query_with_source; adm = the should_cache decision (consulted on a hot or cold hit only) *)
  Definition query (s : state) (adm : bool) (id : N) : state * option (vec * tier) :=
    let '(s1, g) := l1_get s id in
    let cache_res : vec + state :=
      match g with
      | Some e =>
          match canon_state s1 id (l_vec e) (l_tok e) with
          | CMatch => inl (l_vec e)
          | _ => inr (l1_invalidate s1 id)
          end
      | None => inr s1
      end in
    match cache_res with
    | inl v => (s1, Some (v, TCache))
    | inr s2 =>
        match hot_probe s2 id with
        | (s3, Some h) =>
            ((if adm then l1_insert s3 id (mkL (h_vec h) (h_tok h)) else s3), Some (h_vec h, THot))
        | (s3, None) =>
            match lookup id (cold s3) with
            | Some r =>
                ((if adm then l1_insert s3 id (mkL (c_vec r) (c_ver r, digest (c_vec r))) else s3),
                 Some (c_vec r, TCold))
            | None => (s3, None)
            end
        end
    end.

  (* get_document_with_metadata *)
  Definition get_doc (s : state) (id : N) : state * option (vec * meta) :=
    match lookup id (cold s) with
    | Some r0 =>
        match hot_probe s id with
        | (s1, Some h) => (s1, Some (h_vec h, c_meta r0))
        | (s1, None) =>
            match lookup id (cold s1) with
            | Some r => (s1, Some (c_vec r, c_meta r0))
            | None => (s1, None)
            end
        end
    | None => (s, None)
    end.

  (* get_embedding_cache_aware: peek (no LRU promotion) *)
  Definition get_emb (s : state) (id : N) : state * option vec :=
    let cache_res : vec + state :=
      match l1_peek s id with
      | Some e =>
          match canon_state s id (l_vec e) (l_tok e) with
          | CMatch => inl (l_vec e)
          | _ => inr (l1_invalidate s id)
          end
      | None => inr s
      end in
    match cache_res with
    | inl v => (s, Some v)
    | inr s1 =>
        match hot_probe s1 id with
        | (s2, Some h) => (s2, Some (h_vec h))
        | (s2, None) => (s2, match lookup id (cold s2) with Some r => Some (c_vec r) | None => None end)
        end
    end.

  Definition get_meta (s : state) (id : N) : option meta :=
    match lookup id (cold s) with Some r => Some (c_meta r) | None => None end.
  Definition exists_ (s : state) (id : N) : bool :=
    match cold_token s id with Some _ => true | None => false end.

  (* bulk_query_with_source: hot tier snapshot first (bulk_fetch_with_coherence), validated entry by
     entry, the rest from cold_tier.bulk_fetch; the L1a cache is not consulted *)
  Definition bulk_one (s : state) (id : N) (oh : option hent) : state * option (vec * meta * tier) :=
    match oh with
    | Some h =>
        match canon_state s id (h_vec h) (h_tok h) with
        | CMatch =>
            match lookup id (cold s) with
            | Some r => (s, Some (h_vec h, c_meta r, THot))
            | None => (s, None)
            end
        | CMissing => (s, None)
        | _ => (discard s id, None)
        end
    | None => (s, None)
    end.
  Fixpoint bulk_hot (s : state) (snap : list (N * option hent)) : state * list (option (vec * meta * tier)) :=
    match snap with
    | [] => (s, [])
    | (id, oh) :: r =>
        let '(s1, x) := bulk_one s id oh in
        let '(s2, xs) := bulk_hot s1 r in
        (s2, x :: xs)
    end.
  Definition bulk_fill (s : state) (inc : bool) (p : N * option (vec * meta * tier)) : option (vec * meta * tier) :=
    let r := match snd p with
             | Some x => Some x
             | None => match lookup (fst p) (cold s) with
                       | Some r => Some (c_vec r, c_meta r, TCold)
                       | None => None
                       end
             end in
    match r with
    | Some (v, m, t) => Some ((if inc then v else []), m, t)
    | None => None
    end.
  Definition bulk (s : state) (inc : bool) (ids : list N) : state * list (option (vec * meta * tier)) :=
    let snap := map (fun id => (id, lookup id (hot s))) ids in
    let '(s1, part) := bulk_hot s snap in
    (s1, map (bulk_fill s1 inc) (combine ids part)).

  (* ---------- drain / reconcile ---------- *)
  (* reconcile_drained_hot_tier_documents, one drained document.  A live cold record stays
     authoritative (only an embedding divergence — f32 `!=` — invalidates L1a); a missing cold record is
     repaired from the mirror; a failed repair is queued for re-insertion. *)
  Definition reconcile_one (acc : state * nat * list (N * hent)) (d : N * hent) : state * nat * list (N * hent) :=
    let '(s, succ, failed) := acc in
    match lookup (fst d) (cold s) with
    | Some r =>
        ((if negb (vec_feqb (c_vec r) (h_vec (snd d))) then l1_invalidate s (fst d) else s), S succ, failed)
    | None =>
        match cold_insert (cold s) (fst d) (h_vec (snd d)) (h_meta (snd d)) with
        | Some cd => (set_cold s cd, S succ, failed)
        | None => (s, succ, failed ++ [d])
        end
    end.
  Definition reinsert (failed : list (N * hent)) (h : list (N * hent)) : list (N * hent) :=
    fold_left (fun acc d => put (fst d) (snd d) acc) failed h.
  (* result: Some n = Ok(n), None = Err (every drained document failed) *)
  Definition reconcile (s : state) (docs : list (N * hent)) : state * option nat :=
    let '(s1, succ, failed) := fold_left reconcile_one docs (s, 0, []) in
    match failed with
    | [] => (s1, Some succ)
    | _ :: _ =>
        let s2 := bump_fail (set_hot s1 (reinsert failed (hot s1))) in
        (s2, if Nat.eqb succ 0 then None else Some succ)
    end.
  (* HotTier::drain_for_flush then reconcile (shared by emergency_flush_hot_tier and flush_hot_tier) *)
  Definition drain_reconcile (s : state) : state * option nat :=
    let docs := hot s in
    let s1 := bump_flush (set_hot s []) in
    match docs with
    | [] => (s1, Some 0)
    | _ :: _ => reconcile s1 docs
    end.
  Definition needs_flush (s : state) : bool := soft c <=? length (hot s).
  Definition flush (s : state) (force : bool) : state * option nat :=
    if negb force && negb (needs_flush s) then (s, Some 0) else drain_reconcile s.

  (* audit_hot_tier_coherence *)
  Definition stale_entry (s : state) (d : N * hent) : bool :=
    match canon_state s (fst d) (h_vec (snd d)) (h_tok (snd d)) with CMatch => false | _ => true end.
  Definition audit (s : state) : state :=
    fold_left (fun acc d => l1_invalidate (set_hot acc (remove (fst d) (hot acc))) (fst d))
              (filter (stale_entry s) (hot s)) s.
  (* one tick of spawn_flush_task: audit_hot_tier_coherence_if_due (due), then the threshold drain *)
  Definition tick (s : state) : state :=
    let s1 := audit s in
    if needs_flush s1 then fst (flush s1 false) else s1.

  (* ---------- writes ---------- *)
  Definition insert (s : state) (id : N) (v : vec) (m : meta) : state * bool :=
    let '(s1, ok) :=
      if hard c <=? length (hot s) then
        let '(s0, r) := drain_reconcile s in
        (bump_emerg s0, match r with Some _ => true | None => false end)
      else (s, true) in
    if negb ok then (s1, false)
    else
      let s2 := l1_invalidate s1 id in
      match cold_insert (cold s2) id v m with
      | None => (s2, false)
      | Some cd =>
          let s3 := set_cold s2 cd in
          let t := match cold_token s3 id with Some t => t | None => (0%N, []) end in
          (bump_ins (set_hot s3 (put id (mkH v (meta_canon m) t) (hot s3))), true)
      end.

  Definition delete (s : state) (id : N) : state * bool :=
    let cold_deleted := mem id (cold s) in
    let hot_deleted := mem id (hot s) in
    let s1 := set_hot (set_cold s (remove id (cold s))) (remove id (hot s)) in
    if negb cold_deleted && negb hot_deleted then (s1, false)
    else (l1_invalidate s1 id, true).

  Definition batch_delete (s : state) (ids : list N) : state * nat :=
    let u := sort_dedup ids in
    let n := length (filter (fun id => mem id (hot s) || mem id (cold s)) u) in
    if Nat.eqb n 0 then (s, 0)
    else
      let s1 := set_hot (set_cold s (remove_all u (cold s))) (remove_all u (hot s)) in
      (fold_left l1_invalidate u s1, n).

  Definition apply_meta (old new : meta) (merge : bool) : meta :=
    if merge then meta_merge old new else meta_canon new.
  Definition update_meta (s : state) (id : N) (m : meta) (merge : bool) : state * bool :=
    match lookup id (cold s) with
    | None => (s, false)
    | Some r =>
        let s1 := set_cold s (put id (mkC (c_vec r) (apply_meta (c_meta r) m merge) (c_ver r)) (cold s)) in
        let s2 := match lookup id (hot s1) with
                  | Some h => set_hot s1 (put id (mkH (h_vec h) (apply_meta (h_meta h) m merge) (h_tok h)) (hot s1))
                  | None => s1
                  end in
        (s2, true)
    end.

  (* bulk_load_cold_tier: cold_tier.insert per document, then invalidate_caches_after_bulk_load:
     L1a invalidation of every listed id and hot_tier.batch_delete of every listed id (whether or
     not its individual cold insert succeeded) — the hot tier is bypassed and the recent-write
     mirrors of the loaded ids are dropped (repo commit b64dfda) *)
  Definition bulk_load_one (acc : state * nat * nat) (d : N * vec * meta) : state * nat * nat :=
    let '(s, loaded, failed) := acc in
    let '(id, v, m) := d in
    match cold_insert (cold s) id v m with
    | Some cd => (set_cold s cd, S loaded, failed)
    | None => (s, loaded, S failed)
    end.
  Definition bulk_load (s : state) (docs : list (N * vec * meta)) : state * (nat * nat) :=
    let '(s1, loaded, failed) := fold_left bulk_load_one docs (s, 0, 0) in
    let ids := map (fun d => fst (fst d)) docs in
    let s2 := fold_left l1_invalidate ids s1 in
    (set_hot s2 (remove_all ids (hot s2)), (loaded, failed)).

  (* harness-owned handles: CacheStrategy::insert_cached on a (sub-)strategy, HotTier::insert_with_coherence *)
  Definition poke_l1 (s : state) (b : bool) (id : N) (v : vec) (t : token) : state :=
    if b then set_l1b s (lru_insert (cap_b c) id (mkL v t) (l1b s))
    else set_l1a s (lru_insert (cap_a c) id (mkL v t) (l1a s)).
  Definition poke_hot (s : state) (id : N) (v : vec) (m : meta) (t : token) : state :=
    set_hot s (put id (mkH v (meta_canon m) t) (hot s)).

  (* ---------- operations and observations ---------- *)
  Inductive op :=
  | OQuery (adm : bool) (id : N)
  | OGetDoc (id : N)
  | OEmb (id : N)
  | OGetMeta (id : N)
  | OExists (id : N)
  | OBulk (inc : bool) (ids : list N)
  | OInsert (id : N) (v : vec) (m : meta)
  | ODelete (id : N)
  | OBatchDelete (ids : list N)
  | OUpdMeta (id : N) (m : meta) (merge : bool)
  | OBulkLoad (docs : list (N * vec * meta))
  | OFlush (force : bool)
  | OAudit
  | OTick
  | OPokeL1 (b : bool) (id : N) (v : vec) (t : token)
  | OPokeHot (id : N) (v : vec) (m : meta) (t : token).

  Inductive out :=
  | RQuery (r : option (vec * tier))
  | RDoc (r : option (vec * meta))
  | RVec (r : option vec)
  | RMeta (r : option meta)
  | RBool (b : bool)
  | RBulk (r : list (option (vec * meta * tier)))
  | RCount (r : option nat)
  | RLoad (loaded failed : nat)
  | RNone.

  Definition step (s : state) (o : op) : state * out :=
    match o with
    | OQuery adm id => let '(s1, r) := query s adm id in (s1, RQuery r)
    | OGetDoc id => let '(s1, r) := get_doc s id in (s1, RDoc r)
    | OEmb id => let '(s1, r) := get_emb s id in (s1, RVec r)
    | OGetMeta id => (s, RMeta (get_meta s id))
    | OExists id => (s, RBool (exists_ s id))
    | OBulk inc ids => let '(s1, r) := bulk s inc ids in (s1, RBulk r)
    | OInsert id v m => let '(s1, b) := insert s id v m in (s1, RBool b)
    | ODelete id => let '(s1, b) := delete s id in (s1, RBool b)
    | OBatchDelete ids => let '(s1, n) := batch_delete s ids in (s1, RCount (Some n))
    | OUpdMeta id m merge => let '(s1, b) := update_meta s id m merge in (s1, RBool b)
    | OBulkLoad docs => let '(s1, lf) := bulk_load s docs in (s1, RLoad (fst lf) (snd lf))
    | OFlush force => let '(s1, r) := flush s force in (s1, RCount r)
    | OAudit => (audit s, RNone)
    | OTick => (tick s, RNone)
    | OPokeL1 b id v t => (poke_l1 s b id v t, RNone)
    | OPokeHot id v m t => (poke_hot s id v m t, RNone)
    end.

  Definition run (s : state) (ops : list op) : state := fold_left (fun acc o => fst (step acc o)) ops s.

  (* initial documents of TieredEngine::new get ids 0.. and version 1 *)
  Definition init (docs : list (N * vec * meta)) : state :=
    mkS (map (fun d => (fst (fst d), mkC (snd (fst d)) (meta_canon (snd d)) 1%N)) docs) [] [] [] (mkCt 0 0 0 0).

  (* ---------- canonical snapshot compared with the implementation after every operation ---------- *)
  Definition snapshot : Type :=
    (list (N * (vec * meta * N)) * list (N * (vec * meta * token)) *
     list (N * (vec * token)) * list (N * (vec * token)) * (nat * nat * nat * nat))%type.
  Definition snap (s : state) : snapshot :=
    (sort_keys (map (fun p => (fst p, (c_vec (snd p), c_meta (snd p), c_ver (snd p)))) (cold s)),
     sort_keys (map (fun p => (fst p, (h_vec (snd p), h_meta (snd p), h_tok (snd p)))) (hot s)),
     sort_keys (map (fun p => (fst p, (l_vec (snd p), l_tok (snd p)))) (l1a s)),
     sort_keys (map (fun p => (fst p, (l_vec (snd p), l_tok (snd p)))) (l1b s)),
     (n_inserts (ctr s), n_emerg (ctr s), n_fail (ctr s), n_flush (ctr s))).

  Fixpoint trace (s : state) (ops : list op) : list (out * snapshot) :=
    match ops with
    | [] => []
    | o :: r => let '(s1, x) := step s o in (x, snap s1) :: trace s1 r
    end.

  (* ---------- filtered batch delete (TieredEngine::batch_delete_by_metadata_filter, C11) ----------
     The operation lives in an EXTENDED operation type `opx` (every `op` above, plus the filtered
     delete) so that `op`, `step`, `run`, `trace` and every C04/C20 statement about them stay exactly
     what they were: C04_refines_map quantifies over every `op` from any orphan-free state (planted
     mirrors allowed), and no specification over the canonical map alone can describe a delete that
     selects by MIRROR metadata.  Proofs/TieredFilterProofs.v, Properties/C11tier.v. *)
  (* hot_tier.scan(|meta| metadata_filter::matches(filter, meta)): the predicate sees the metadata
     stored in the MIRROR entry (HotDocument.metadata), not the canonical one *)
  Definition hot_scan (s : state) (f : tfilter) : list N :=
    filter (fun id => match lookup id (hot s) with Some h => tmatch f (h_meta h) | None => false end)
           (map fst (hot s)).
  (* cold_tier.ids_for_metadata_filter(filter): the live documents whose stored metadata matches
     (inverted-index fast path = scan(matches): C11_filter_exact at the backend level) *)
  Definition cold_filter_ids (s : state) (f : tfilter) : list N :=
    filter (fun id => match lookup id (cold s) with Some r => tmatch f (c_meta r) | None => false end)
           (map fst (cold s)).
  (* all_ids = hot_ids; extend(cold_ids); sort_unstable; dedup; self.batch_delete(&all_ids) *)
  Definition filter_delete (s : state) (f : tfilter) : state * nat :=
    batch_delete s (sort_dedup (hot_scan s f ++ cold_filter_ids s f)).

  Inductive opx :=
  | OApi (o : op)
  | OFilterDelete (f : tfilter).

  Definition stepx (s : state) (o : opx) : state * out :=
    match o with
    | OApi o => step s o
    | OFilterDelete f => let '(s1, n) := filter_delete s f in (s1, RCount (Some n))
    end.
  Definition runx (s : state) (ops : list opx) : state := fold_left (fun acc o => fst (stepx acc o)) ops s.
  Fixpoint tracex (s : state) (ops : list opx) : list (out * snapshot) :=
    match ops with
    | [] => []
    | o :: r => let '(s1, x) := stepx s o in (x, snap s1) :: tracex s1 r
    end.

  (* VARIANT, NOT THE CODE (regression witness C11tier_mirror_merge_variant_refuted): the hot-tier half
     of update_metadata treats a replace like a merge, so the mirror keeps the keys the replace
     dropped from the canonical record. *)
  Definition update_meta_mirror_merges (s : state) (id : N) (m : meta) (merge : bool) : state * bool :=
    match lookup id (cold s) with
    | None => (s, false)
    | Some r =>
        let s1 := set_cold s (put id (mkC (c_vec r) (apply_meta (c_meta r) m merge) (c_ver r)) (cold s)) in
        let s2 := match lookup id (hot s1) with
                  | Some h => set_hot s1 (put id (mkH (h_vec h) (meta_merge (h_meta h) m) (h_tok h)) (hot s1))
                  | None => s1
                  end in
        (s2, true)
    end.
  Definition stepx_mirror_merges (s : state) (o : opx) : state * out :=
    match o with
    | OApi (OUpdMeta id m merge) => let '(s1, b) := update_meta_mirror_merges s id m merge in (s1, RBool b)
    | _ => stepx s o
    end.
  Definition runx_mirror_merges (s : state) (ops : list opx) : state :=
    fold_left (fun acc o => fst (stepx_mirror_merges acc o)) ops s.
End Engine.

(* ---------- equality of observations (evaluated by vm_compute in the cases files) ---------- *)
Definition opt_eqb {A} (e : A -> A -> bool) (a b : option A) : bool :=
  match a, b with
  | Some x, Some y => e x y
  | None, None => true
  | _, _ => false
  end.
Definition tier_eqb (a b : tier) : bool :=
  match a, b with TCache, TCache | THot, THot | TCold, TCold => true | _, _ => false end.
Definition vmt_eqb (a b : vec * meta * tier) : bool :=
  vec_eqb (fst (fst a)) (fst (fst b)) && meta_eqb (snd (fst a)) (snd (fst b)) && tier_eqb (snd a) (snd b).
Definition out_eqb (a b : out) : bool :=
  match a, b with
  | RQuery x, RQuery y => opt_eqb (fun p q => vec_eqb (fst p) (fst q) && tier_eqb (snd p) (snd q)) x y
  | RDoc x, RDoc y => opt_eqb (fun p q => vec_eqb (fst p) (fst q) && meta_eqb (snd p) (snd q)) x y
  | RVec x, RVec y => opt_eqb vec_eqb x y
  | RMeta x, RMeta y => opt_eqb meta_eqb x y
  | RBool x, RBool y => Bool.eqb x y
  | RBulk x, RBulk y => list_eqb (opt_eqb vmt_eqb) x y
  | RCount x, RCount y => opt_eqb Nat.eqb x y
  | RLoad a1 a2, RLoad b1 b2 => Nat.eqb a1 b1 && Nat.eqb a2 b2
  | RNone, RNone => true
  | _, _ => false
  end.
Definition keyed_eqb {A} (e : A -> A -> bool) : list (N * A) -> list (N * A) -> bool :=
  list_eqb (fun p q => N.eqb (fst p) (fst q) && e (snd p) (snd q)).
Definition snap_eqb (a b : snapshot) : bool :=
  let '(ca, ha, la, lb, (i1, e1, f1, d1)) := a in
  let '(cb, hb, ma, mb, (i2, e2, f2, d2)) := b in
  keyed_eqb (fun p q => vec_eqb (fst (fst p)) (fst (fst q)) && meta_eqb (snd (fst p)) (snd (fst q)) && N.eqb (snd p) (snd q)) ca cb &&
  keyed_eqb (fun p q => vec_eqb (fst (fst p)) (fst (fst q)) && meta_eqb (snd (fst p)) (snd (fst q)) && tok_eqb (snd p) (snd q)) ha hb &&
  keyed_eqb (fun p q => vec_eqb (fst p) (fst q) && tok_eqb (snd p) (snd q)) la ma &&
  keyed_eqb (fun p q => vec_eqb (fst p) (fst q) && tok_eqb (snd p) (snd q)) lb mb &&
  Nat.eqb i1 i2 && Nat.eqb e1 e2 && Nat.eqb f1 f2 && Nat.eqb d1 d2.
(* index of the first step whose observation differs (None = the whole trace agrees) *)
Fixpoint first_diff (k : nat) (a b : list (out * snapshot)) : option nat :=
  match a, b with
  | [], [] => None
  | (o1, s1) :: r, (o2, s2) :: q => if out_eqb o1 o2 && snap_eqb s1 s2 then first_diff (S k) r q else Some k
  | _, _ => Some k
  end.
