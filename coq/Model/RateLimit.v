(* Model of engine/src/rate_limiter.rs: TokenBucket and RateLimiter::check_limit.
   Executable, no proofs.  Time and tokens are exact rationals (the code uses f64; on the dyadic
   grid used by the correspondence check every intermediate is exact, see DESIGN.md C19). *)
From Coq Require Import QArith Qminmax List NArith Bool.
Import ListNotations.
Open Scope Q_scope.

Record bucket := mkBucket {
  b_cap    : Q;   (* capacity = max_qps *)
  b_rate   : Q;   (* refill_rate = max_qps *)
  b_tokens : Q;
  b_last   : Q    (* last_refill *)
}.

(* TokenBucket::new *)
Definition bucket_new (qps : N) (now : Q) : bucket :=
  let c := inject_Z (Z.of_N qps) in mkBucket c c c now.

(* TokenBucket::refill *)
Definition refill (b : bucket) (now : Q) : bucket :=
  let elapsed := now - b_last b in
  if Qlt_le_dec 0 elapsed
  then mkBucket (b_cap b) (b_rate b) (Qmin (b_tokens b + elapsed * b_rate b) (b_cap b)) now
  else b.

(* TokenBucket::try_consume *)
Definition try_consume (b : bucket) (now : Q) : bucket * bool :=
  let b1 := refill b now in
  if Qle_bool 1 (b_tokens b1)
  then (mkBucket (b_cap b1) (b_rate b1) (b_tokens b1 - 1) (b_last b1), true)
  else (b1, false).

(* TokenBucket::refund_one *)
Definition refund_one (b : bucket) : bucket :=
  mkBucket (b_cap b) (b_rate b) (Qmin (b_tokens b + 1) (b_cap b)) (b_last b).

(* TokenBucket::available_tokens *)
Definition available (b : bucket) (now : Q) : bucket * Q :=
  let b1 := refill b now in (b1, b_tokens b1).

(* ---------- RateLimiter: tenants are numbered; buckets are created lazily ---------- *)

Definition tenants := list (N * bucket).

Fixpoint t_get (ts : tenants) (t : N) : option bucket :=
  match ts with
  | [] => None
  | (k, b) :: r => if N.eqb k t then Some b else t_get r t
  end.

Fixpoint t_set (ts : tenants) (t : N) (b : bucket) : tenants :=
  match ts with
  | [] => [(t, b)]
  | (k, b0) :: r => if N.eqb k t then (k, b) :: r else (k, b0) :: t_set r t b
  end.

Record limiter := mkLimiter {
  l_now     : Q;
  l_tenants : tenants;
  l_global  : option bucket
}.

Definition limiter_new (global_qps : option N) (now : Q) : limiter :=
  mkLimiter now [] (match global_qps with Some q => Some (bucket_new q now) | None => None end).

(* RateLimiter::check_limit, run alone (sequential composition of its atomic bucket steps).
   An existing bucket is used whatever max_qps says (release behaviour; the debug build asserts). *)
Definition check_limit (l : limiter) (t : N) (qps : N) : limiter * bool :=
  let now := l_now l in
  let b0 := match t_get (l_tenants l) t with Some b => b | None => bucket_new qps now end in
  let '(b1, ok) := try_consume b0 now in
  if negb ok then (mkLimiter now (t_set (l_tenants l) t b1) (l_global l), false)
  else match l_global l with
       | None => (mkLimiter now (t_set (l_tenants l) t b1) None, true)
       | Some g =>
           let '(g1, gok) := try_consume g now in
           if gok then (mkLimiter now (t_set (l_tenants l) t b1) (Some g1), true)
           else (mkLimiter now (t_set (l_tenants l) t (refund_one b1)) (Some g1), false)
       end.

(* RateLimiter::available_tokens *)
Definition available_tokens (l : limiter) (t : N) : limiter * option Q :=
  match t_get (l_tenants l) t with
  | None => (l, None)
  | Some b => let '(b1, q) := available b (l_now l) in
              (mkLimiter (l_now l) (t_set (l_tenants l) t b1) (l_global l), Some q)
  end.

(* ---------- sequential operation language used by the correspondence check ---------- *)

Inductive op :=
| OAdvance (dt : Q)
| OCheck (t : N) (qps : N)
| OAvail (t : N).

Inductive obs :=
| BNone
| BBool (b : bool)
| BTokens (q : option Q).

Definition step (l : limiter) (o : op) : limiter * obs :=
  match o with
  | OAdvance dt => (mkLimiter (l_now l + dt) (l_tenants l) (l_global l), BNone)
  | OCheck t qps => let '(l1, b) := check_limit l t qps in (l1, BBool b)
  | OAvail t => let '(l1, q) := available_tokens l t in (l1, BTokens q)
  end.

Fixpoint run (l : limiter) (ops : list op) : list obs :=
  match ops with
  | [] => []
  | o :: r => let '(l1, x) := step l o in x :: run l1 r
  end.

Definition obs_eqb (a b : obs) : bool :=
  match a, b with
  | BNone, BNone => true
  | BBool x, BBool y => Bool.eqb x y
  | BTokens None, BTokens None => true
  | BTokens (Some x), BTokens (Some y) => Qeq_bool x y
  | _, _ => false
  end.

Fixpoint obs_list_eqb (a b : list obs) : bool :=
  match a, b with
  | [], [] => true
  | x :: r, y :: s => obs_eqb x y && obs_list_eqb r s
  | _, _ => false
  end.

(* ---------- concurrent semantics: interleaving of the atomic (mutex-protected) bucket steps
   of any number of in-flight check_limit calls.  Each call c runs the program
     TTry c t ; [GTry c ; [Refund c]]                                                      ---------- *)

Inductive cstatus :=
| CTenantOk (t : N)      (* tenant token taken, global not yet tried *)
| CNeedRefund (t : N)    (* global refused, refund pending *)
| CDone (t : N) (r : bool).

Inductive ev :=
| Tick (dt : Q)
| TTry (c : nat) (t : N) (qps : N)
| GTry (c : nat)
| Refund (c : nat).

Record cstate := mkC {
  c_lim   : limiter;
  c_calls : list (nat * cstatus)
}.

Fixpoint call_get (cs : list (nat * cstatus)) (c : nat) : option cstatus :=
  match cs with
  | [] => None
  | (k, s) :: r => if Nat.eqb k c then Some s else call_get r c
  end.

Fixpoint call_set (cs : list (nat * cstatus)) (c : nat) (s : cstatus) : list (nat * cstatus) :=
  match cs with
  | [] => [(c, s)]
  | (k, s0) :: r => if Nat.eqb k c then (k, s) :: r else (k, s0) :: call_set r c s
  end.

(* None = the event is not enabled (does not follow its call's program, or dt < 0). *)
Definition cstep (s : cstate) (e : ev) : option cstate :=
  let l := c_lim s in
  let now := l_now l in
  match e with
  | Tick dt =>
      if Qle_bool 0 dt
      then Some (mkC (mkLimiter (now + dt) (l_tenants l) (l_global l)) (c_calls s))
      else None
  | TTry c t qps =>
      match call_get (c_calls s) c with
      | Some _ => None
      | None =>
          let b0 := match t_get (l_tenants l) t with Some b => b | None => bucket_new qps now end in
          let '(b1, ok) := try_consume b0 now in
          let l1 := mkLimiter now (t_set (l_tenants l) t b1) (l_global l) in
          let st := if ok then match l_global l with
                               | None => CDone t true
                               | Some _ => CTenantOk t
                               end
                    else CDone t false in
          Some (mkC l1 (call_set (c_calls s) c st))
      end
  | GTry c =>
      match call_get (c_calls s) c, l_global l with
      | Some (CTenantOk t), Some g =>
          let '(g1, gok) := try_consume g now in
          let l1 := mkLimiter now (l_tenants l) (Some g1) in
          Some (mkC l1 (call_set (c_calls s) c (if gok then CDone t true else CNeedRefund t)))
      | _, _ => None
      end
  | Refund c =>
      match call_get (c_calls s) c with
      | Some (CNeedRefund t) =>
          match t_get (l_tenants l) t with
          | Some b =>
              Some (mkC (mkLimiter now (t_set (l_tenants l) t (refund_one b)) (l_global l))
                        (call_set (c_calls s) c (CDone t false)))
          | None => None
          end
      | _ => None
      end
  end.

Fixpoint crun (s : cstate) (evs : list ev) : option cstate :=
  match evs with
  | [] => Some s
  | e :: r => match cstep s e with Some s1 => crun s1 r | None => None end
  end.

Fixpoint elapsed (evs : list ev) : Q :=
  match evs with
  | [] => 0
  | Tick dt :: r => dt + elapsed r
  | _ :: r => elapsed r
  end.

Fixpoint count_calls (p : cstatus -> bool) (cs : list (nat * cstatus)) : nat :=
  match cs with
  | [] => O
  | (_, st) :: r => if p st then S (count_calls p r) else count_calls p r
  end.

(* call returned `true` for tenant t *)
Definition is_admitted (t : N) (st : cstatus) : bool :=
  match st with CDone t' true => N.eqb t' t | _ => false end.
Definition is_admitted_any (st : cstatus) : bool :=
  match st with CDone _ true => true | _ => false end.

Definition admitted_t (cs : list (nat * cstatus)) (t : N) : nat := count_calls (is_admitted t) cs.
Definition admitted_all (cs : list (nat * cstatus)) : nat := count_calls is_admitted_any cs.

Definition cinit (global_qps : option N) : cstate := mkC (limiter_new global_qps 0) [].
