(* Byte-level model of the WAL segment format and of WalReader::open / read_all / read_all_strict
   and of the snapshot file envelope (engine/src/persistence.rs).  Executable, no proofs.

     segment  = magic(4, LE 0x57414C00) ++ frame*
     frame    = len(4, LE) ++ payload(len bytes, bincode of WalEntry) ++ crc32(payload)(4, LE)
     snapshot = magic(4, LE 0x534E4150) ++ size(8, LE) ++ data(size bytes) ++ crc32(data)(4, LE)

   Bytes are N in 0..255.  The checksum and "bincode deserialises" are parameters of the reader
   (Section variables): theorems quantify over them; the correspondence check instantiates `crc`
   with the executable CRC-32 below and `deser_ok` with the set of payloads the engine's own
   bincode accepted. *)
From Coq Require Import List NArith Bool Arith.
Import ListNotations.
Open Scope N_scope.

Definition bytes := list N.

Definition le_n (bs : bytes) : N :=
  fold_right (fun b acc => b + 256 * acc) 0 bs.

Fixpoint to_le (n : nat) (v : N) : bytes :=
  match n with
  | O => []
  | S k => (v mod 256) :: to_le k (v / 256)
  end.

(* read_exact n: Some (chunk, rest) when at least n bytes remain, None = UnexpectedEof *)
Definition take (n : N) (bs : bytes) : option (bytes * bytes) :=
  if N.of_nat (length bs) <? n then None
  else Some (firstn (N.to_nat n) bs, skipn (N.to_nat n) bs).

Definition wal_magic : bytes := [0; 76; 65; 87].          (* 0x57414C00 little endian *)
Definition snap_magic : bytes := [80; 65; 78; 83].        (* 0x534E4150 little endian *)
Definition max_wal_entry : N := 104857600.                (* 100 MiB *)

Fixpoint bytes_eqb (a b : bytes) : bool :=
  match a, b with
  | [], [] => true
  | x :: r, y :: s => N.eqb x y && bytes_eqb r s
  | _, _ => false
  end.

(* ---------------- executable CRC-32 (IEEE, reflected, as crc32fast::hash) ---------------- *)
Fixpoint crc_bit (n : nat) (c : N) : N :=
  match n with
  | O => c
  | S k => crc_bit k (if N.testbit c 0 then N.lxor (N.shiftr c 1) 3988292384 else N.shiftr c 1)
  end.

Definition crc32 (bs : bytes) : N :=
  N.lxor (fold_left (fun c b => crc_bit 8 (N.lxor c b)) bs 4294967295) 4294967295.

Section Reader.
  Variable crc : bytes -> N.
  Variable deser_ok : bytes -> bool.

  Definition frame (p : bytes) : bytes :=
    to_le 4 (N.of_nat (length p)) ++ p ++ to_le 4 (crc p).

  Definition segment (ps : list bytes) : bytes := wal_magic ++ concat (map frame ps).

  (* the loop of WalReader::read_all; result = (entries in order, corrupted_entries) *)
  Fixpoint read_frames (fuel : nat) (bs : bytes) : list bytes * N :=
    match fuel with
    | O => ([], 0)
    | S f =>
        match take 4 bs with
        | None => ([], 0)                                          (* EOF: clean end or torn tail *)
        | Some (szb, r1) =>
            let size := le_n szb in
            if (size =? 0) || (max_wal_entry <? size) then ([], 1)  (* invalid size: stop, corrupted *)
            else match take size r1 with
                 | None => ([], 0)                                  (* EOF inside payload: torn tail *)
                 | Some (payload, r2) =>
                     match take 4 r2 with
                     | None => ([], 0)                              (* EOF inside checksum: torn tail *)
                     | Some (ckb, r3) =>
                         let '(es, c) := read_frames f r3 in
                         if le_n ckb =? crc payload
                         then if deser_ok payload then (payload :: es, c) else (es, c + 1)
                         else (es, c + 1)
                     end
                 end
        end
    end.

  Inductive rd :=
  | RdErrMagic            (* open failed: short file or wrong magic *)
  | RdErrCorrupt (c : N)  (* strict: corrupted frames observed *)
  | RdOk (es : list bytes).

  (* WalReader::open + read_all: (entries, corrupted) or open error *)
  Definition read_all (file : bytes) : option (list bytes * N) :=
    match take 4 file with
    | None => None
    | Some (m, r) => if bytes_eqb m wal_magic then Some (read_frames (S (length r)) r) else None
    end.

  (* WalReader::open + read_all_strict *)
  Definition read_all_strict (file : bytes) : rd :=
    match read_all file with
    | None => RdErrMagic
    | Some (es, c) => if c =? 0 then RdOk es else RdErrCorrupt c
    end.

  (* ---------------- snapshot envelope: Snapshot::load up to (and excluding) bincode ---------------- *)
  Definition snapshot_file (data : bytes) : bytes :=
    snap_magic ++ to_le 8 (N.of_nat (length data)) ++ data ++ to_le 4 (crc data).

  Definition snapshot_load (file : bytes) : option bytes :=
    match take 4 file with
    | None => None
    | Some (m, r) =>
        if negb (bytes_eqb m snap_magic) then None
        else match take 8 r with
             | None => None
             | Some (szb, r1) =>
                 match take (le_n szb) r1 with
                 | None => None
                 | Some (data, r2) =>
                     match take 4 r2 with
                     | None => None
                     | Some (ckb, _) => if le_n ckb =? crc data then Some data else None
                     end
                 end
             end
    end.
End Reader.

(* ---------------- comparison helpers for the correspondence check ---------------- *)
Fixpoint mem_bytes (p : bytes) (l : list bytes) : bool :=
  match l with [] => false | q :: r => bytes_eqb p q || mem_bytes p r end.

Fixpoint list_bytes_eqb (a b : list bytes) : bool :=
  match a, b with
  | [], [] => true
  | x :: r, y :: s => bytes_eqb x y && list_bytes_eqb r s
  | _, _ => false
  end.

(* observation of the implementation: None = open error; Some (entries, corrupted) from read_all *)
Definition obs_eqb (a b : option (list bytes * N)) : bool :=
  match a, b with
  | None, None => true
  | Some (e1, c1), Some (e2, c2) => list_bytes_eqb e1 e2 && (c1 =? c2)
  | _, _ => false
  end.
