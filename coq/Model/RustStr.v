(* Gallina meaning of the Rust `str`/`String` operations the translator (harness/p/translator) may emit.
   A string is the list of its Unicode scalar values (so `trim` can follow Rust's definition, which
   removes every char with the Unicode White_Space property, not only ASCII blanks).
   No proofs here (Model/ must evaluate even when a proof breaks); lemmas are in Proofs/ConfigProofs.v.
   This file is part of the translator's trusted base; it is exercised on every run by the c18 driver
   (case / whitespace / non-ASCII-whitespace variants of the environment name on the real code). *)
From Coq Require Import Bool List NArith.
Import ListNotations.
Open Scope N_scope.

Definition str := list N.

(* char::is_whitespace — Unicode White_Space *)
Definition is_ws (c : N) : bool :=
  ((9 <=? c) && (c <=? 13)) || (c =? 32) || (c =? 133) || (c =? 160) || (c =? 5760) ||
  ((8192 <=? c) && (c <=? 8202)) || (c =? 8232) || (c =? 8233) || (c =? 8239) || (c =? 8287) ||
  (c =? 12288).

Fixpoint drop_ws (s : str) : str :=
  match s with
  | [] => []
  | c :: t => if is_ws c then drop_ws t else s
  end.

Definition str_trim_start (s : str) : str := drop_ws s.
Definition str_trim_end (s : str) : str := rev (drop_ws (rev s)).
Definition str_trim (s : str) : str := str_trim_end (str_trim_start s).

(* u8/char::to_ascii_lowercase: only 'A'..'Z' change *)
Definition ascii_lower (c : N) : N := if (65 <=? c) && (c <=? 90) then c + 32 else c.
Definition ascii_upper (c : N) : N := if (97 <=? c) && (c <=? 122) then c - 32 else c.
Definition str_to_ascii_lowercase (s : str) : str := map ascii_lower s.
Definition str_to_ascii_uppercase (s : str) : str := map ascii_upper s.

Fixpoint str_eqb (a b : str) : bool :=
  match a, b with
  | [], [] => true
  | x :: a', y :: b' => (x =? y) && str_eqb a' b'
  | _, _ => false
  end.

Definition str_is_empty (s : str) : bool := match s with [] => true | _ => false end.
