(* C17 — loop combinators the SIMD translator (harness/p/xl17) targets.  No proofs here.

   An access is (offset, width), both counted in f32 lanes, relative to the start of a slice.
   `strided lo c hi step body` is the list of accesses of the Rust loops
       for i in lo..hi                     (c = 1, step = 1)
       for i in (lo..hi).step_by(s)        (c = 1, step = s)
       let mut i = lo; while i + c <= hi { body; i += step }        (c, step as written)
       let mut i = lo; while i <  hi { body; i += step }            (c = 1)
   i.e. it runs body at i = lo, lo+step, lo+2*step, ... while i + c <= hi.
   `strided_end` is the value of the index variable after such a `while` loop (Rust `for` loops
   do not leak their variable).  The recursion is structural on a fuel computed from the bounds
   (hi + 1 - lo iterations always suffice because step >= 1); nothing is cut short by the fuel. *)
From Coq Require Import NArith List.
Import ListNotations.
Open Scope N_scope.

Definition access : Type := (N * N)%type.

Fixpoint strided_go (fuel : nat) (i c hi : N) (step : positive) (body : N -> list access) : list access :=
  match fuel with
  | O => []
  | S f => if i + c <=? hi then body i ++ strided_go f (i + Npos step) c hi step body else []
  end.

Definition strided (lo c hi : N) (step : positive) (body : N -> list access) : list access :=
  strided_go (N.to_nat (hi + 1 - lo)) lo c hi step body.

Fixpoint strided_end_go (fuel : nat) (i c hi : N) (step : positive) : N :=
  match fuel with
  | O => i
  | S f => if i + c <=? hi then strided_end_go f (i + Npos step) c hi step else i
  end.

Definition strided_end (lo c hi : N) (step : positive) : N :=
  strided_end_go (N.to_nat (hi + 1 - lo)) lo c hi step.

(* usize subtraction as compiled in release mode (wrapping); a debug build would panic instead.
   Modelling it as truncated subtraction would hide an `i - 1` underflow. *)
Definition two64 : N := 18446744073709551616.
Definition wsub (a b : N) : N := if b <=? a then a - b else a + two64 - b.

(* a fixed-size local array written by a vector store: (array length, offset, width) *)
Definition local_store : Type := (N * N * N)%type.

Definition in_bounds (len : N) (a : access) : Prop := let '(o, w) := a in o + w <= len.
Definition in_boundsb (len : N) (a : access) : bool := let '(o, w) := a in o + w <=? len.
Definition local_ok (s : local_store) : bool := let '(alen, o, w) := s in o + w <=? alen.
