(* TMap — association lists over N keys used by Model/Tiered.v (C04/C20).
   `lookup` returns the FIRST binding; `remove` drops EVERY binding of the key; `put` = cons after
   remove.  Nothing here assumes unique keys, so theorems stated over arbitrary lists (arbitrary
   cache contents) stay meaningful.  Executable, no proofs. *)
From Coq Require Import List NArith Bool.
Import ListNotations.

Section TMap.
  Context {A : Type}.

  Fixpoint lookup (k : N) (l : list (N * A)) : option A :=
    match l with
    | [] => None
    | (k0, a) :: r => if N.eqb k0 k then Some a else lookup k r
    end.

  Fixpoint remove (k : N) (l : list (N * A)) : list (N * A) :=
    match l with
    | [] => []
    | (k0, a) :: r => if N.eqb k0 k then remove k r else (k0, a) :: remove k r
    end.

  Definition put (k : N) (a : A) (l : list (N * A)) : list (N * A) := (k, a) :: remove k l.

  Definition mem (k : N) (l : list (N * A)) : bool :=
    match lookup k l with Some _ => true | None => false end.

  Definition remove_all (ks : list N) (l : list (N * A)) : list (N * A) :=
    fold_left (fun acc k => remove k acc) ks l.

  (* insertion sort by key (stable) — only used to canonicalise snapshots for comparison *)
  Fixpoint ins_sorted (p : N * A) (l : list (N * A)) : list (N * A) :=
    match l with
    | [] => [p]
    | q :: r => if N.leb (fst p) (fst q) then p :: q :: r else q :: ins_sorted p r
    end.

  Definition sort_keys (l : list (N * A)) : list (N * A) := fold_right ins_sorted [] l.
End TMap.

(* sorted, duplicate-free list of ids (Vec::sort_unstable + dedup) *)
Fixpoint ins_id (k : N) (l : list N) : list N :=
  match l with
  | [] => [k]
  | q :: r => if N.eqb k q then q :: r else if N.ltb k q then k :: q :: r else q :: ins_id k r
  end.
Definition sort_dedup (l : list N) : list N := fold_right ins_id [] l.
