(* Knn — executable model of KyroDB's k-NN search paths (property C06).  NO proofs here.

   Modelled line by line:
     hnsw_backend.rs   knn_search_with_ef_cancel, knn_search_batch (validation, compute_search_k, tombstone
                       filter + internal->external remap + stop at k)
     hot_tier.rs       knn_search_with_cancel (bounded max-heap scan, final sort by (distance, id))
     tiered_engine.rs  filter_hot_knn_results_to_canonical, canonical_vector_state, merge_knn_results,
                       filter_search_results_to_canonical, knn_search / knn_search_with_ef /
                       knn_search_with_ef_detailed_scoped, knn_search_with_timeouts_with_ef_scoped
   compute_search_k is NOT written here: it is imported from gen/SearchK_gen.v (regenerated from /repo).

   Abstractions (each named in the C06 trusted base):
     * distances are an abstract type with a decidable total preorder `dle` (no NaN; f32 kernels not modelled);
       `metric q v` is THE user-visible distance of the configured metric, the same function in both tiers;
     * the ANN index is an ORACLE `ann q search_k : option (list (internal id * distance))` — any function;
       the theorems assume only the AnnBackend contract (ascending, duplicate-free, at most search_k entries,
       true distances);  `exact_ann` below is the exhaustive instance used in the correspondence;
     * std BinaryHeap is modelled by its contract: a bag kept as an ascending list, push = ordered insert,
       peek/pop = the maximum (last element);
     * HashMap iteration order is a parameter `order` (any permutation); sort_by is a stable insertion sort;
     * timeouts, panics, circuit breakers and semaphores of the timed path are explicit inputs (`tenv`), and
       a response says explicitly whether it was produced under degradation (`r_degraded`). *)
From Coq Require Import List NArith Bool Arith.
From Kyro Require Import gen.SearchK_gen.
Import ListNotations.

(* ---------------------------------------------------------------- generic: stable insertion sort *)
Section Sort.
  Variable A : Type.
  Variable le : A -> A -> bool.
  Fixpoint ins (x : A) (l : list A) : list A :=
    match l with
    | [] => [x]
    | a :: t => if le x a then x :: a :: t else a :: ins x t
    end.
  (* inserting from the right end, each element in front of its ties: a stable sort *)
  Definition stable_sort (l : list A) : list A := fold_right ins [] l.
End Sort.
Arguments ins {A} le x l.
Arguments stable_sort {A} le l.

Inductive err : Set :=
  EEmptyQuery | EKZero | EKTooLarge | EDim | ENormalize | EBackend | EQueueSaturated | EWorkerSaturated.
Inductive outcome (A : Type) : Type := Ok (a : A) | Err (e : err).
Arguments Ok {A} a.
Arguments Err {A} e.

(* what request validation / normalisation finds out about the query vector *)
Inductive qcheck : Set := QOk | QEmpty | QDim | QNorm.

Inductive path : Set := CacheHit | HotTierOnly | ColdTierOnly | HotAndCold | Degraded.

Section Knn.
  Variables vec dist dg : Type.
  Variable dle : dist -> dist -> bool.        (* total preorder on distances *)
  Variable dfin : dist -> bool.               (* f32::is_finite *)
  Variable metric : vec -> vec -> dist.       (* query -> stored vector -> reported distance *)
  Variable digest : vec -> dg.                (* coherence::digest_embedding *)
  Variable dg_eqb : dg -> dg -> bool.

  Definition res : Type := (N * dist)%type.   (* SearchResult { doc_id, distance } *)

  (* partial_cmp on the distance only (merge, timed path) *)
  Definition rle (a b : res) : bool := dle (snd a) (snd b).
  (* TopKCandidate::cmp — total_cmp on the distance, then the doc id *)
  Definition dlt (a b : dist) : bool := negb (dle b a).
  Definition cand_le (a b : res) : bool :=
    if dlt (snd a) (snd b) then true
    else if dlt (snd b) (snd a) then false
    else (fst a <=? fst b)%N.
  Definition cand_lt (a b : res) : bool := negb (cand_le b a).

  (* ------------------------------------------------------------ cold tier: HnswBackend *)
  (* one internal slot of DocStore: internal id = position; cs_ext = None is a tombstone *)
  Record cslot : Type := mk_cslot { cs_ext : option N; cs_vec : vec; cs_ver : N; cs_dg : dg }.
  Definition cstore : Type := list cslot.

  Definition is_live (s : cslot) : bool := match cs_ext s with Some _ => true | None => false end.
  Definition live_docs (s : cstore) : N := N.of_nat (length (filter is_live s)).   (* external_to_internal.len() *)
  Definition total_slots (s : cstore) : N := N.of_nat (length s).                   (* internal_to_external.len() *)

  (* the remap loop of knn_search_with_ef_cancel: skip tombstones / out-of-range ids, push, stop once
     mapped.len() >= k (the check comes AFTER the push) *)
  Fixpoint remap (s : cstore) (k : nat) (len : nat) (raw : list (N * dist)) : list res :=
    match raw with
    | [] => []
    | (i, d) :: t =>
        match nth_error s (N.to_nat i) with
        | Some sl =>
            match cs_ext sl with
            | Some ext => (ext, d) :: (if (k <=? S len)%nat then [] else remap s k (S len) t)
            | None => remap s k len t
            end
        | None => remap s k len t
        end
    end.

  Definition ann_t : Type := vec -> N -> option (list (N * dist)).

  Definition cold_search (ann : ann_t) (s : cstore) (qc : qcheck) (q : vec) (k : N) : outcome (list res) :=
    match qc with
    | QEmpty => Err EEmptyQuery
    | _ =>
      if (k =? 0)%N then Err EKZero
      else if (10000 <? k)%N then Err EKTooLarge
      else match qc with
           | QDim => Err EDim
           | QNorm => Err ENormalize
           | _ =>
             let search_k := compute_search_k k (live_docs s) (total_slots s) in
             match ann q search_k with
             | None => Err EBackend
             | Some raw => Ok (remap s (N.to_nat k) 0 raw)
             end
           end
    end.

  (* knn_search_batch: validation of k and of every dimension first, one search_k for the batch *)
  Fixpoint batch_map (ann : ann_t) (s : cstore) (k search_k : N) (qs : list (qcheck * vec))
    : outcome (list (list res)) :=
    match qs with
    | [] => Ok []
    | (qc, q) :: t =>
        match qc with
        | QNorm => Err ENormalize
        | _ => match ann q search_k with
               | None => Err EBackend
               | Some raw =>
                   match batch_map ann s k search_k t with
                   | Ok rs => Ok (remap s (N.to_nat k) 0 raw :: rs)
                   | Err e => Err e
                   end
               end
        end
    end.
  Definition dim_bad (qc : qcheck) : bool := match qc with QDim | QEmpty => true | _ => false end.
  Definition cold_search_batch (ann : ann_t) (s : cstore) (qs : list (qcheck * vec)) (k : N)
    : outcome (list (list res)) :=
    match qs with
    | [] => Ok []
    | _ =>
      if (k =? 0)%N then Err EKZero
      else if (10000 <? k)%N then Err EKTooLarge
      else if existsb (fun x => dim_bad (fst x)) qs then Err EDim
      else batch_map ann s k (compute_search_k k (live_docs s) (total_slots s)) qs
    end.

  (* the exhaustive oracle instance: the search_k nearest SLOTS (tombstones stay in the graph) *)
  Fixpoint indexed (s : cstore) (i : N) : list (N * cslot) :=
    match s with [] => [] | sl :: t => (i, sl) :: indexed t (i + 1)%N end.
  Definition exact_ann (s : cstore) : ann_t := fun q search_k =>
    Some (firstn (N.to_nat search_k)
            (stable_sort rle (map (fun p => (fst p, metric q (cs_vec (snd p)))) (indexed s 0%N)))).

  (* an oracle that does not see some slots (an ANN search that missed them) but is otherwise exhaustive *)
  Definition exact_ann_vis (vis : N -> bool) (s : cstore) : ann_t := fun q search_k =>
    Some (firstn (N.to_nat search_k)
            (filter (fun p => vis (fst p))
               (stable_sort rle (map (fun p => (fst p, metric q (cs_vec (snd p)))) (indexed s 0%N))))).

  (* ------------------------------------------------------------ hot tier *)
  (* a mirror entry: HotDocument { embedding, coherence = (version, digest) } under its doc id *)
  Record hentry : Type := mk_hentry { h_id : N; h_vec : vec; h_ver : N; h_dg : dg }.
  Definition hot : Type := list hentry.      (* HashMap<u64, HotDocument>: iteration order arbitrary *)

  (* BinaryHeap<TopKCandidate> by contract: ascending list, maximum last *)
  Definition heap : Type := list res.
  Definition heap_push (x : res) (h : heap) : heap := ins cand_le x h.
  Definition heap_peek (h : heap) : option res := match h with [] => None | a :: t => Some (last t a) end.
  Definition heap_pop (h : heap) : heap := removelast h.

  Definition hot_step (k : nat) (h : heap) (c : res) : heap :=
    if negb (dfin (snd c)) then h                                   (* if !distance.is_finite() { continue } *)
    else if (length h <? k)%nat then heap_push c h                  (* top_heap.len() < k: push *)
    else match heap_peek h with
         | Some worst => if cand_lt c worst then heap_push c (heap_pop h) else h
         | None => h
         end.

  Definition hot_cands (q : vec) (hs : hot) : list res := map (fun e => (h_id e, metric q (h_vec e))) hs.

  Definition hot_knn (k : nat) (q : vec) (hs : hot) : list res :=
    if (k =? 0)%nat then []
    else
      let h := fold_left (hot_step k) (hot_cands q hs) [] in
      (* while let Some(item) = pop(): descending; then sort_by (distance, id) *)
      stable_sort cand_le (rev h).

  (* the specification: the k smallest finite candidates by (distance, id) *)
  Definition topk_spec (k : nat) (l : list res) : list res :=
    firstn k (stable_sort cand_le (filter (fun c => dfin (snd c)) l)).

  (* ------------------------------------------------------------ tiered engine *)
  Record engine : Type := mk_engine { e_cold : cstore; e_hot : hot }.

  Definition tok_eqb (a b : N * dg) : bool := (fst a =? fst b)%N && dg_eqb (snd a) (snd b).
  Definition ext_is (id : N) (sl : cslot) : bool :=
    match cs_ext sl with Some e => (e =? id)%N | None => false end.
  (* external_to_internal.get(doc_id) -> the live slot *)
  Definition cold_slot (s : cstore) (id : N) : option cslot := find (ext_is id) s.
  Definition cold_token (s : cstore) (id : N) : option (N * dg) :=
    match cold_slot s id with Some sl => Some (cs_ver sl, cs_dg sl) | None => None end.
  Definition cold_exists (s : cstore) (id : N) : bool :=
    match cold_slot s id with Some _ => true | None => false end.

  Inductive cvstate : Set := Match | TokenMismatch | LocalCorruption | Missing.
  Definition canonical_vector_state (s : cstore) (e : hentry) : cvstate :=
    match cold_token s (h_id e) with
    | Some t =>
        if negb (tok_eqb t (h_ver e, h_dg e)) then TokenMismatch
        else if negb (dg_eqb (digest (h_vec e)) (h_dg e)) then LocalCorruption
        else Match
    | None => Missing
    end.

  Definition hot_find (hs : hot) (id : N) : option hentry := find (fun e => (h_id e =? id)%N) hs.
  Definition hot_remove (hs : hot) (id : N) : hot := filter (fun e => negb (h_id e =? id)%N) hs.

  (* ------------------------------------------------------------ writes (what creates and removes mirrors)
     HnswBackend::insert as far as tokens are concerned: the previous live slot of the id is tombstoned, a new
     slot is appended with version = previous version + 1 (1 after a delete or for a new id) and the digest of
     the vector.  `accept = false`: the cold tier refused the write (index full, non-finite, ...): no change. *)
  Definition tombstone (id : N) (sl : cslot) : cslot :=
    if ext_is id sl then mk_cslot None (cs_vec sl) (cs_ver sl) (cs_dg sl) else sl.
  Definition next_version (s : cstore) (id : N) : N :=
    match cold_slot s id with Some sl => (cs_ver sl + 1)%N | None => 1%N end.
  Definition cold_insert (s : cstore) (id : N) (v : vec) : cstore :=
    map (tombstone id) s ++ [mk_cslot (Some id) v (next_version s id) (digest v)].
  Definition cold_delete (s : cstore) (id : N) : cstore := map (tombstone id) s.

  Inductive wop : Type :=
  | WInsert (id : N) (v : vec) (accept : bool)        (* TieredEngine::insert *)
  | WDelete (id : N)                                   (* TieredEngine::delete *)
  | WBulkLoad (docs : list (N * vec * bool))           (* bulk_load_cold_tier: (id, vector, accepted) *)
  | WFlush                                             (* flush_hot_tier(force) / emergency drain *)
  | WCompact                                           (* compact_tombstones (inside a cold insert) *)
  | WDiscard (ids : list N).                           (* mirrors removed by a search / audit (they only remove) *)

  Definition hot_remove_all (hs : hot) (ids : list N) : hot :=
    filter (fun e => negb (existsb (fun i => (h_id e =? i)%N) ids)) hs.

  Definition wstep (e : engine) (o : wop) : engine :=
    let s := e_cold e in
    let hs := e_hot e in
    match o with
    | WInsert id v true =>
        (* cold_tier.insert, then hot_tier.insert_with_coherence(id, v, current_coherence_token(id)) *)
        let s' := cold_insert s id v in
        mk_engine s' (hot_remove hs id ++ [mk_hentry id v (next_version s id) (digest v)])
    | WInsert _ _ false => e
    | WDelete id => mk_engine (cold_delete s id) (hot_remove hs id)
    | WBulkLoad docs =>
        (* per-document cold insert; then invalidate_caches_after_bulk_load drops the mirrors of EVERY
           loaded id (repo commit b64dfda; before it the mirrors stayed, with outdated tokens) *)
        let s' := fold_left (fun acc d => match d with (id, v, true) => cold_insert acc id v | _ => acc end) docs s in
        mk_engine s' (hot_remove_all hs (map (fun d => fst (fst d)) docs))
    | WFlush =>
        (* drain: a mirror without canonical record is written back to the cold tier; all mirrors evicted *)
        let s' := fold_left (fun acc h => if cold_exists acc (h_id h) then acc else cold_insert acc (h_id h) (h_vec h)) hs s in
        mk_engine s' []
    | WCompact => mk_engine (filter is_live s) hs
    | WDiscard ids => mk_engine s (hot_remove_all hs ids)
    end.
  Definition wrun (e : engine) (ops : list wop) : engine := fold_left wstep ops e.

  (* filter_hot_knn_results_to_canonical: per candidate peek the mirror, compare tokens, discard stale
     mirrors from the hot tier as a side effect *)
  Definition filter_hot_step (s : cstore) (st : list res * hot) (r : res) : list res * hot :=
    let '(acc, hs) := st in
    match hot_find hs (fst r) with
    | None => (acc, hs)
    | Some e =>
        match canonical_vector_state s e with
        | Match => (acc ++ [r], hs)
        | TokenMismatch | LocalCorruption => (acc, hot_remove hs (fst r))
        | Missing => (acc, hs)
        end
    end.
  Definition filter_hot (s : cstore) (hs : hot) (rs : list res) : list res * hot :=
    fold_left (filter_hot_step s) rs ([], hs).

  (* merge_knn_results: HashMap insert for hot (overwrites), entry().or_insert for cold, then sort, truncate *)
  Fixpoint map_insert (i : N) (d : dist) (m : list res) : list res :=
    match m with
    | [] => [(i, d)]
    | (j, e) :: t => if (i =? j)%N then (i, d) :: t else (j, e) :: map_insert i d t
    end.
  Fixpoint map_or_insert (i : N) (d : dist) (m : list res) : list res :=
    match m with
    | [] => [(i, d)]
    | (j, e) :: t => if (i =? j)%N then (j, e) :: t else (j, e) :: map_or_insert i d t
    end.
  Definition merge_map (hot_r cold_r : list res) : list res :=
    fold_left (fun m r => map_or_insert (fst r) (snd r) m) cold_r
      (fold_left (fun m r => map_insert (fst r) (snd r) m) hot_r []).
  Definition merge_knn (order : list res -> list res) (hot_r cold_r : list res) (k : nat) : list res :=
    firstn k (stable_sort rle (order (merge_map hot_r cold_r))).

  (* filter_search_results_to_canonical: keep results whose id still exists; report whether any was pruned *)
  Definition filter_cached (s : cstore) (c : list res) : list res * bool :=
    let f := filter (fun r => cold_exists s (fst r)) c in
    (f, negb (length f =? length c)%nat).

  (* `cacheable = ef_search_override.is_none()`; a hit is served only when nothing had to be pruned *)
  Definition cache_lookup (s : cstore) (ef : option N) (cache : option (list res)) : option (list res) :=
    match ef with
    | Some _ => None
    | None => match cache with
              | Some c => let '(f, pruned) := filter_cached s c in if pruned then None else Some f
              | None => None
              end
    end.

  Record response : Type := mk_response { r_results : list res; r_path : path; r_degraded : bool }.

  Definition is_nil {A} (l : list A) : bool := match l with [] => true | _ => false end.

  (* knn_search_with_ef_detailed_scoped.  `cache` is what query_cache.get_scoped returns (consulted only
     when there is no ef override).  Returns the response and the engine (stale mirrors are discarded). *)
  Definition tiered_search (order : list res -> list res) (ann : ann_t) (e : engine)
             (qc : qcheck) (q : vec) (k : N) (ef : option N) (cache : option (list res))
    : outcome response * engine :=
    match qc with
    | QEmpty => (Err EEmptyQuery, e)
    | _ =>
      if (k =? 0)%N then (Err EKZero, e)
      else if (10000 <? k)%N then (Err EKTooLarge, e)
      else match qc with
      | QDim => (Err EDim, e)
      | QNorm => (Err ENormalize, e)
      | _ =>
        let s := e_cold e in
        let cold_has_docs := negb (live_docs s =? 0)%N in
        match cache_lookup s ef cache with
        | Some f => (Ok (mk_response f CacheHit false), e)
        | None =>
          let '(hot_r, hs') := filter_hot s (e_hot e) (hot_knn (N.to_nat (k * 2)) q (e_hot e)) in
          let e' := mk_engine s hs' in
          let cold_o := if cold_has_docs then cold_search ann s QOk q (k * 2) else Ok [] in
          match cold_o with
          | Err er => (Err er, e')
          | Ok cold_r =>
            let merged := merge_knn order hot_r cold_r (N.to_nat k) in
            let p := match is_nil hot_r, is_nil cold_r, cold_has_docs with
                     | false, false, _ => HotAndCold
                     | false, true, _ => HotTierOnly
                     | true, false, _ => ColdTierOnly
                     | true, true, true => HotAndCold
                     | true, true, false => HotTierOnly
                     end in
            (Ok (mk_response merged p false), e')
          end
        end
      end
    end.

  (* knn_search (no override: the query cache is consulted) and knn_search_with_ef *)
  Definition knn_search order ann e qc q k cache := tiered_search order ann e qc q k None cache.
  Definition knn_search_with_ef order ann e qc q k ef cache := tiered_search order ann e qc q k ef cache.

  (* ---- the timed path: environment outcomes are inputs *)
  Inductive task_out : Set := TRun | TPanic | TTimeout.
  Record tenv : Set := mk_tenv {
    t_query_permit : bool;      (* query_semaphore.try_acquire() *)
    t_hot_closed : bool;        (* hot_tier_circuit_breaker.is_closed() *)
    t_hot_worker : bool;        (* search_worker_semaphore permit for the hot scan *)
    t_hot_out : task_out;
    t_cold_closed : bool;
    t_cold_worker : bool;
    t_cold_out : task_out
  }.
  Definition calm : tenv := mk_tenv true true true TRun true true TRun.

  (* Layer 2 of the timed path: (hot_results, hot tier afterwards, partial, hot_accessed) *)
  Definition timed_hot (s : cstore) (hs : hot) (q : vec) (k : N) (t : tenv) : list res * hot * bool * bool :=
    if t_hot_closed t then
      if t_hot_worker t then
        match t_hot_out t with
        | TRun => let '(r, h) := filter_hot s hs (hot_knn (N.to_nat (k * 2)) q hs) in (r, h, false, true)
        | _ => ([], hs, true, true)          (* panic / timeout: partial = true *)
        end
      else ([], hs, true, true)              (* worker queue saturated: skip the hot tier *)
    else ([], hs, true, false).              (* breaker open *)

  (* Layer 3 and the final assembly *)
  Definition timed_finish (order : list res -> list res) (ann : ann_t) (s : cstore) (q : vec) (k : N) (t : tenv)
             (l2 : list res * hot * bool * bool) : outcome response * engine :=
    let '(hot_r, hs', partial1, hot_accessed) := l2 in
    let e' := mk_engine s hs' in
    let cold_has_docs := negb (live_docs s =? 0)%N in
    if cold_has_docs && t_cold_closed t then
      if negb (t_cold_worker t) then
        if is_nil hot_r then (Err EWorkerSaturated, e')
        else (Ok (mk_response (firstn (N.to_nat k) (stable_sort rle hot_r)) HotTierOnly true), e')
      else
        let '(cold_r, partial2) :=
          match t_cold_out t with
          | TRun => match cold_search ann s QOk q (k * 2) with
                    | Ok c => (c, partial1)
                    | Err _ => ([], true)
                    end
          | _ => ([], true)
          end in
        let results := if negb (is_nil hot_r) && negb (is_nil cold_r)
                       then merge_knn order hot_r cold_r (N.to_nat k)
                       else if negb (is_nil cold_r) then cold_r else hot_r in
        let results := firstn (N.to_nat k) (stable_sort rle results) in
        (Ok (mk_response results (if hot_accessed then HotAndCold else ColdTierOnly) partial2), e')
    else
      let partial2 := if cold_has_docs then true else partial1 in
      let results := firstn (N.to_nat k) (stable_sort rle hot_r) in
      (Ok (mk_response results (if hot_accessed then HotTierOnly else Degraded) partial2), e').

  Definition timed_search (order : list res -> list res) (ann : ann_t) (e : engine)
             (qc : qcheck) (q : vec) (k : N) (ef : option N) (cache : option (list res)) (t : tenv)
    : outcome response * engine :=
    match qc with
    | QEmpty => (Err EEmptyQuery, e)
    | _ =>
      if (k =? 0)%N then (Err EKZero, e)
      else if (10000 <? k)%N then (Err EKTooLarge, e)
      else match qc with
      | QDim => (Err EDim, e)
      | _ =>
        if negb (t_query_permit t) then (Err EQueueSaturated, e)
        else match qc with
        | QNorm => (Err ENormalize, e)
        | _ =>
          let s := e_cold e in
          match cache_lookup s ef cache with
          | Some f => (Ok (mk_response f CacheHit false), e)
          | None => timed_finish order ann s q k t (timed_hot s (e_hot e) q k t)
          end
        end
      end
    end.

  (* ------------------------------------------------------------ checkers used by the correspondence *)
  (* `obs` is an admissible answer for "the first k of `full` sorted by rle" modulo the order inside a class
     of equal distances: same length, sorted, duplicate-free ids, every entry occurs in `full`, and nothing
     left out is strictly closer than the last entry returned. *)
  Definition res_mem (eqd : dist -> dist -> bool) (r : res) (l : list res) : bool :=
    existsb (fun x => (fst x =? fst r)%N && eqd (snd x) (snd r)) l.
  Fixpoint sorted_b (l : list res) : bool :=
    match l with
    | a :: ((b :: _) as t) => rle a b && sorted_b t
    | _ => true
    end.
  Fixpoint nodup_ids (l : list res) : bool :=
    match l with
    | [] => true
    | a :: t => negb (existsb (fun x => (fst x =? fst a)%N) t) && nodup_ids t
    end.
  Definition topk_modulo_ties (eqd : dist -> dist -> bool) (k : nat) (full obs : list res) : bool :=
    (length obs =? Nat.min k (length full))%nat
    && sorted_b obs && nodup_ids obs
    && forallb (fun r => res_mem eqd r full) obs
    && match rev obs with
       | [] => true
       | lastr :: _ =>
           forallb (fun x => existsb (fun r => (fst r =? fst x)%N) obs || rle lastr x) full
       end.
End Knn.

(* type parameters implicit *)
Arguments mk_cslot {vec dg} _ _ _ _.
Arguments cs_ext {vec dg} _. Arguments cs_vec {vec dg} _. Arguments cs_ver {vec dg} _. Arguments cs_dg {vec dg} _.
Arguments mk_hentry {vec dg} _ _ _ _.
Arguments h_id {vec dg} _. Arguments h_vec {vec dg} _. Arguments h_ver {vec dg} _. Arguments h_dg {vec dg} _.
Arguments mk_engine {vec dg} _ _.
Arguments e_cold {vec dg} _. Arguments e_hot {vec dg} _.
Arguments mk_response {dist} _ _ _.
Arguments r_results {dist} _. Arguments r_path {dist} _. Arguments r_degraded {dist} _.
Arguments rle {dist} dle a b. Arguments dlt {dist} dle a b.
Arguments cand_le {dist} dle a b. Arguments cand_lt {dist} dle a b.
Arguments is_live {vec dg} s. Arguments live_docs {vec dg} s. Arguments total_slots {vec dg} s.
Arguments remap {vec dist dg} s k len raw.
Arguments cold_search {vec dist dg} ann s qc q k.
Arguments batch_map {vec dist dg} ann s k search_k qs.
Arguments cold_search_batch {vec dist dg} ann s qs k.
Arguments indexed {vec dg} s i.
Arguments exact_ann {vec dist dg} dle metric s.
Arguments exact_ann_vis {vec dist dg} dle metric vis s.
Arguments heap_push {dist} dle x h. Arguments heap_peek {dist} h. Arguments heap_pop {dist} h.
Arguments hot_step {dist} dle dfin k h c.
Arguments hot_cands {vec dist dg} metric q hs.
Arguments hot_knn {vec dist dg} dle dfin metric k q hs.
Arguments topk_spec {dist} dle dfin k l.
Arguments tok_eqb {dg} dg_eqb a b.
Arguments ext_is {vec dg} id sl. Arguments cold_slot {vec dg} s id.
Arguments cold_token {vec dg} s id. Arguments cold_exists {vec dg} s id.
Arguments canonical_vector_state {vec dg} digest dg_eqb s e.
Arguments hot_find {vec dg} hs id. Arguments hot_remove {vec dg} hs id.
Arguments tombstone {vec dg} id sl. Arguments next_version {vec dg} s id.
Arguments cold_insert {vec dg} digest s id v. Arguments cold_delete {vec dg} s id.
Arguments WInsert {vec} id v accept. Arguments WDelete {vec} id. Arguments WBulkLoad {vec} docs.
Arguments WFlush {vec}. Arguments WCompact {vec}. Arguments WDiscard {vec} ids.
Arguments hot_remove_all {vec dg} hs ids.
Arguments wstep {vec dg} digest e o. Arguments wrun {vec dg} digest e ops.
Arguments filter_hot_step {vec dist dg} digest dg_eqb s st r.
Arguments filter_hot {vec dist dg} digest dg_eqb s hs rs.
Arguments map_insert {dist} i d m. Arguments map_or_insert {dist} i d m.
Arguments merge_map {dist} hot_r cold_r.
Arguments merge_knn {dist} dle order hot_r cold_r k.
Arguments filter_cached {vec dist dg} s c.
Arguments cache_lookup {vec dist dg} s ef cache.
Arguments tiered_search {vec dist dg} dle dfin metric digest dg_eqb order ann e qc q k ef cache.
Arguments knn_search {vec dist dg} dle dfin metric digest dg_eqb order ann e qc q k cache.
Arguments knn_search_with_ef {vec dist dg} dle dfin metric digest dg_eqb order ann e qc q k ef cache.
Arguments timed_hot {vec dist dg} dle dfin metric digest dg_eqb s hs q k t.
Arguments timed_finish {vec dist dg} dle order ann s q k t l2.
Arguments timed_search {vec dist dg} dle dfin metric digest dg_eqb order ann e qc q k ef cache t.
Arguments res_mem {dist} eqd r l. Arguments sorted_b {dist} dle l. Arguments nodup_ids {dist} l.
Arguments topk_modulo_ties {dist} dle eqd k full obs.

(* ------------------------------------------------------------------ correspondence evaluators (cases_*.v)
   The C06 driver instantiates the model with integer distance keys (exact squared L2 scaled by 16 for
   Euclidean; the f64 reference distance in units of 1e-9 for cosine / inner product), a "vector" being the
   pair (its key for this query, the number of its bit pattern in the driver's vector pool), digest = that
   number, and runs it with the exhaustive oracle.  Model and observation must agree as lists sorted by key
   modulo the order inside classes of keys closer than `slack`. *)
From Coq Require Import ZArith.
Definition zres : Type := (N * Z)%type.
Definition zvec : Type := (Z * N)%type.
Definition zmetric (q v : zvec) : Z := fst v.
Definition zdigest (v : zvec) : N := snd v.

Definition keys_close (slack : Z) (a b : list zres) : bool :=
  (length a =? length b)%nat
  && forallb (fun p => (Z.abs (snd (fst p) - snd (snd p)) <=? slack)%Z) (combine a b).
Definition ids_in (l : list zres) (i : N) : bool := existsb (fun x => (fst x =? i)%N) l.
Definition lastkey (l : list zres) : option Z := match rev l with [] => None | x :: _ => Some (snd x) end.
(* every element of a that is missing from b ties (within slack) with, or lies beyond, the last key of b *)
Definition extra_ok (slack : Z) (a b : list zres) : bool :=
  match lastkey b with
  | None => forallb (fun x => ids_in b (fst x)) a
  | Some lk => forallb (fun x => ids_in b (fst x) || (lk - slack <=? snd x)%Z) a
  end.
Definition same_modulo_ties (slack : Z) (model obs : list zres) : bool :=
  keys_close slack model obs && extra_ok slack obs model && extra_ok slack model obs && nodup_ids obs.

Inductive ckind : Set := KBackend | KTiered | KTimed.
Record ecase : Type := mk_ecase {
  c_id : N; c_kind : ckind; c_k : N; c_slack : Z;
  c_cold : cstore zvec N; c_hot : hot zvec N; c_obs : list zres
}.
Definition zq : zvec := (0%Z, 0%N).
Definition model_results_with (ann : ann_t zvec Z) (c : ecase) : option (list zres) :=
  match c_kind c with
  | KBackend => match cold_search ann (c_cold c) QOk zq (c_k c) with Ok out => Some out | Err _ => None end
  | KTiered =>
      match tiered_search Z.leb (fun _ => true) zmetric zdigest N.eqb (fun l => l) ann
              (mk_engine (c_cold c) (c_hot c)) QOk zq (c_k c) (Some 1%N) None with
      | (Ok r, _) => Some (r_results r) | _ => None end
  | KTimed =>
      match timed_search Z.leb (fun _ => true) zmetric zdigest N.eqb (fun l => l) ann
              (mk_engine (c_cold c) (c_hot c)) QOk zq (c_k c) (Some 1%N) None calm with
      | (Ok r, _) => Some (r_results r) | _ => None end
  end.
Definition model_results (c : ecase) : option (list zres) :=
  model_results_with (exact_ann Z.leb zmetric (c_cold c)) c.
Definition ecase_ok (c : ecase) : bool :=
  match model_results c with Some m => same_modulo_ties (c_slack c) m (c_obs c) | None => false end.
(* Second chance for a case that disagrees with the exhaustive oracle: is the observation what the model
   yields when the ANN search simply did not reach the live slots of the documents that are absent from the
   observation?  (Sound but incomplete graph search — ANN completeness is not part of C06; such cases are
   counted and bounded by the check, not accepted silently.) *)
Definition slot_visible (c : ecase) (i : N) : bool :=
  match nth_error (c_cold c) (N.to_nat i) with
  | Some sl => match cs_ext sl with Some e => ids_in (c_obs c) e | None => true end
  | None => true
  end.
Definition ecase_ok_incomplete_ann (c : ecase) : bool :=
  match model_results_with (exact_ann_vis Z.leb zmetric (slot_visible c) (c_cold c)) c with
  | Some m => same_modulo_ties (c_slack c) m (c_obs c) | None => false end.

(* merge differential: obs must be an admissible truncation of the model's merged map, and carry the same
   distance sequence as the model's own output *)
Definition merge_case_ok (hot_r cold_r : list (N * N)) (k : nat) (obs : list (N * N)) : bool :=
  topk_modulo_ties N.leb N.eqb k (merge_map hot_r cold_r) obs
  && forallb (fun p => (snd (fst p) =? snd (snd p))%N) (combine (merge_knn N.leb (fun l => l) hot_r cold_r k) obs)
  && (length (merge_knn N.leb (fun l => l) hot_r cold_r k) =? length obs)%nat.

(* compact literal form of an engine case: everything a Z (ext = -1 for a tombstone; fresh = 1 / 0) *)
Definition raw_ecase : Type :=
  (Z * Z * Z * Z * list (Z * Z * Z) * list (Z * Z * Z * Z) * list (Z * Z))%type.
Definition ecase_of_raw (r : raw_ecase) : ecase :=
  match r with
  | (id, kind, k, slack, cold, hotl, obs) =>
      mk_ecase (Z.to_N id)
        (if (kind =? 0)%Z then KBackend else if (kind =? 1)%Z then KTiered else KTimed)
        (Z.to_N k) slack
        (map (fun s => match s with (e, key, v) =>
                mk_cslot (if (e <? 0)%Z then None else Some (Z.to_N e)) (key, Z.to_N v) 1%N (Z.to_N v) end) cold)
        (map (fun h => match h with (i, key, v, f) =>
                mk_hentry (Z.to_N i) (key, Z.to_N v) (Z.to_N f) (Z.to_N v) end) hotl)
        (map (fun o => (Z.to_N (fst o), snd o)) obs)
  end.
