(* Model/Periodic.v — the timed core of WalWriter::perform_fsync under FsyncPolicy::Periodic(interval_ms)
   (engine/src/persistence.rs).  Time is in milliseconds; an event `dt` is "dt ms after the previous
   event an append is written and acknowledged".  The writer remembers the instant of its last
   fdatasync (`last_fsync`, initialised when the writer is created); an append syncs iff
   interval_ms == 0 || last_fsync.elapsed() >= interval_ms, and then sets last_fsync to now.  Nothing
   else ever syncs under this policy (no background flusher; `sync_wal` has no periodic caller).
   `p_durable` / `p_pending`: acknowledgement times of the appended entries that are / are not yet
   covered by an fdatasync, oldest first; a power loss may drop exactly the pending ones
   (Model/Crash.v: un-synced content is lost as a suffix). *)
From Coq Require Import List NArith Bool.
Import ListNotations.
Open Scope N_scope.

Record pst := mkP { p_now : N; p_last : N; p_durable : list N; p_pending : list N }.

Definition pinit (t0 : N) : pst := mkP t0 t0 [] [].

Definition due (iv : N) (s : pst) (t : N) : bool := (iv =? 0) || (iv <=? t - p_last s).

Definition pstep (iv : N) (s : pst) (dt : N) : pst :=
  let t := p_now s + dt in
  if due iv s t then mkP t t (p_durable s ++ p_pending s ++ [t]) []
  else mkP t (p_last s) (p_durable s) (p_pending s ++ [t]).

Definition prun (iv t0 : N) (evs : list N) : pst := fold_left (pstep iv) evs (pinit t0).

(* acknowledgement times of all appended entries, oldest first *)
Definition acked (s : pst) : list N := p_durable s ++ p_pending s.
