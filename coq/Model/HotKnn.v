(* HotKnn.v — interleaving model of ONE hot-tier k-NN candidate of TieredEngine's search against
   concurrent overwrites of the same document (C07, neighbour of C05/C06).  Executable, NO proofs.

   engine/src/tiered_engine.rs
     search:  g  := query_cache.invalidation_generation()                       (ECapture)
              hot_tier.knn_search_with_coherence(q, 2k)   -- distance AND token of the mirror entry,
                                                             read under one lock   (ESearch)
              filter_hot_knn_results_to_canonical: peek the mirror again; drop the candidate when
                 its token differs from the searched one; then compare with the canonical token
                                                                                  (EValidate)
              ... cold search, merge ...
              query_cache.insert_with_k_scoped_if_generation(.., g)              (EStore)
     insert (overwrite):  cold_tier.insert                                        (ECold)
                          query_cache.invalidate_doc; invalidate_for_insert       (EInvalidate)
                          hot_tier.insert_with_coherence(new vector, new token)   (EMirror v)
   Versions stand for (vector, token): version v of the document has its own vector, hence its own
   distance to the query.  `mirror` is the version held by the hot-tier entry, `canon` the canonical
   one.  Writers are arbitrary: any number of them, their three steps interleaved in any way with the
   searcher's four (EMirror carries the version it installs; EDrop is an eviction / discard).

   `validate_old` is the check before fix d5bee05 (peek again, compare the PEEKED token with the
   canonical one, keep the distance computed earlier), kept as a labelled regression model. *)
From Coq Require Import List NArith Bool.
Import ListNotations.
Open Scope N_scope.

Inductive ev :=
| ECapture | ESearch | EValidate | EStore          (* the searcher, in this order *)
| ECold | EInvalidate | EMirror (v : N) | EDrop.    (* writers / evictions *)

Record st := {
  canon : N;                 (* canonical version *)
  mirror : option N;         (* version held by the hot-tier mirror *)
  gen : N;                   (* query-cache invalidation generation *)
  invalidated : N;           (* ghost: the newest canonical version whose invalidation has run *)
  s_gen : option N;          (* searcher: generation captured at the start *)
  s_dist : option N;         (* searcher: version the candidate's DISTANCE was computed from *)
  s_kept : option N;         (* searcher: version of the distance that survived validation *)
  stored : option N          (* version of the hot candidate's distance inside the stored cache entry *)
}.

Definition init (c : N) (m : option N) : st :=
  {| canon := c; mirror := m; gen := 0; invalidated := c; s_gen := None; s_dist := None; s_kept := None; stored := None |}.

Definition optN_eqb (a b : option N) : bool :=
  match a, b with Some x, Some y => x =? y | None, None => true | _, _ => false end.

Definition validate_new (s : st) : option N :=
  match s_dist s, mirror s with
  | Some d, Some m => if (m =? d) && (m =? canon s) then Some d else None
  | _, _ => None
  end.

Definition validate_old (s : st) : option N :=
  match s_dist s, mirror s with
  | Some d, Some m => if m =? canon s then Some d else None     (* vouches for d although it checked m *)
  | _, _ => None
  end.

Definition step (validate : st -> option N) (s : st) (e : ev) : st :=
  match e with
  | ECapture => {| canon := canon s; mirror := mirror s; gen := gen s; invalidated := invalidated s;
                   s_gen := Some (gen s); s_dist := None; s_kept := None; stored := stored s |}
  | ESearch => {| canon := canon s; mirror := mirror s; gen := gen s; invalidated := invalidated s;
                  s_gen := s_gen s; s_dist := mirror s; s_kept := None; stored := stored s |}
  | EValidate => {| canon := canon s; mirror := mirror s; gen := gen s; invalidated := invalidated s;
                    s_gen := s_gen s; s_dist := s_dist s; s_kept := validate s; stored := stored s |}
  | EStore => {| canon := canon s; mirror := mirror s; gen := gen s; invalidated := invalidated s;
                 s_gen := None; s_dist := None; s_kept := None;
                 stored := match s_gen s, s_kept s with
                           | Some g, Some d => if g =? gen s then Some d else stored s
                           | _, _ => stored s
                           end |}
  | ECold => {| canon := canon s + 1; mirror := mirror s; gen := gen s; invalidated := invalidated s;
                s_gen := s_gen s; s_dist := s_dist s; s_kept := s_kept s; stored := stored s |}
  | EInvalidate =>
      (* invalidate_doc / invalidate_for_insert: bump the generation; an entry holding a distance of
         an older version of this document is removed (C07's entry-level theorems) *)
      {| canon := canon s; mirror := mirror s; gen := gen s + 1; invalidated := canon s;
         s_gen := s_gen s; s_dist := s_dist s; s_kept := s_kept s;
         stored := match stored s with Some d => if d =? canon s then Some d else None | None => None end |}
  | EMirror v => {| canon := canon s; mirror := Some v; gen := gen s; invalidated := invalidated s;
                    s_gen := s_gen s; s_dist := s_dist s; s_kept := s_kept s; stored := stored s |}
  | EDrop => {| canon := canon s; mirror := None; gen := gen s; invalidated := invalidated s;
                s_gen := s_gen s; s_dist := s_dist s; s_kept := s_kept s; stored := stored s |}
  end.

Definition run (validate : st -> option N) (s : st) (es : list ev) : st := fold_left (step validate) es s.

(* "every write whose invalidation has run is reflected": the stored hot distance is not older than
   the newest invalidated version *)
Definition fresh (s : st) : bool :=
  match stored s with Some d => invalidated s <=? d | None => true end.
