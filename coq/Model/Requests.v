(* Model/Requests.v — C15: every RPC of engine/src/bin/kyrodb_server.rs as a TOTAL function
       request -> collection -> collection * response
   over requests whose fields are value classes (Model/ReqBase.v).  NO proofs in this file.

   The two request validators are NOT written here: the handlers call gen/Validators_gen.v, regenerated from
   /repo on every run (validate_insert_request, validate_search_request, calculate_oversampling_factor).
   Modelled from the code, in the order the code performs the checks:
     insert            validate_insert_request; TenantIdMapper::to_global_doc_id; TieredEngine::insert
                       (normalize_in_place_if_needed) -> HnswBackend::insert (dimension, normalize, finiteness
                       pre-flight, norm check); engine Err -> Status::internal
     bulk_insert       per item: batch_count > MAX_BATCH_SIZE (fail + break), doc_id < MIN_DOC_ID, empty,
                       len > MAX_EMBEDDING_DIM, id mapping, engine insert; counts only
     bulk_load_hnsw    per item: total_received > MAX_TOTAL_BULK_LOAD_DOCUMENTS (whole call refused, earlier
                       chunks stay ingested), doc_id, empty, len, id mapping; chunks of MAX_BATCH_SIZE through
                       HnswBackend::insert directly (bulk_load_cold_tier)
     query / update_metadata   doc_id == 0, id mapping         delete   doc_id < MIN_DOC_ID, id mapping
     bulk_query / batch_delete(ids)   len > MAX_BATCH_SIZE, every id mapped before anything else happens
     batch_delete(filter)      metadata_filter::matches        batch_delete(none)   INVALID_ARGUMENT
     search            validate_search_request; engine: dimension (-> INVALID_ARGUMENT via
                       classify_search_error_message), normalize_query_for_search (zero norm -> INTERNAL)
     bulk_search       per-request results of handle_search_requests_batch (validator per request; the engine
                       fails a whole group = same (search_k, ef, namespace, filter)); since /repo b58b923 a refused
                       request is answered in-band (SearchResponse.error) and the stream goes on; the stream is
                       ended by a CALL-level status only for a message that does not decode (INTERNAL) or past
                       MAX_BATCH_SIZE (RESOURCE_EXHAUSTED, after the accepted requests were answered)
     decoding          a filter nested deeper than prost's recursion limit is refused by the codec: INTERNAL
     flush_hot_tier    no input to validate
   The collection is the tenant's view: local id -> (vector tag, public metadata).  One authenticated tenant.
   NOT modelled: authentication / other tenants (C10), quota (C14; max_vectors is never reached here), rate
   limiting (C19), namespaces as selectors, reserved metadata keys, legacy `metadata_filters`, Search hits,
   bounded Range filters on keys that documents carry (C11), index-full / disk / WAL failures, and the 2 ms
   batching window of bulk_search (a stream is one batch; BULK_SEARCH_BATCH_SIZE = 128 only matters for
   which requests share an engine failure). *)
From Coq Require Import List NArith Bool.
From Kyro Require Import Model.ReqBase gen.Validators_gen.
Import ListNotations.
Open Scope N_scope.

(* ---------------------------------------------------------------- configuration *)
Inductive metric := Euclid | Cosine.           (* Cosine also stands for InnerProduct: same normalisation code *)
Record config := mkCfg {
  c_dim : N;                 (* hnsw.dimension *)
  c_metric : metric;
  c_max_batch : N;           (* MAX_BATCH_SIZE = 10000 (read from kyrodb_server.rs by the harness) *)
  c_max_total_load : N;      (* MAX_TOTAL_BULK_LOAD_DOCUMENTS = 10_000_000 *)
  c_decode_depth : N         (* prost RECURSION_LIMIT = 100 *)
}.

(* ---------------------------------------------------------------- metadata (interned strings) *)
Definition meta := list (N * N).               (* key -> value; keys unique, sorted by the harness *)
Fixpoint mget (m : meta) (k : N) : option N :=
  match m with [] => None | (k', v) :: r => if k =? k' then Some v else mget r k end.
Fixpoint mset (m : meta) (k v : N) : meta :=
  match m with
  | [] => [(k, v)]
  | (k', v') :: r => if k =? k' then (k, v) :: r else if k <? k' then (k, v) :: m else (k', v') :: mset r k v
  end.
Definition mextend (old new : meta) : meta := fold_left (fun acc kv => mset acc (fst kv) (snd kv)) new old.

(* metadata_filter::matches *)
Fixpoint pmatches (f : pfilter) (m : meta) : bool :=
  match f with
  | PNone => true
  | PExact k v => match mget m k with Some x => x =? v | None => false end
  | PRange k bounded => match mget m k with
                        | None => false
                        | Some _ => negb bounded   (* bound: None => true; a real bound on a present key is outside the model (C11) *)
                        end
  | PIn k vs => match mget m k with Some x => existsb (N.eqb x) vs | None => false end
  | PAnd fs => forallb (fun g => pmatches g m) fs
  | POr fs => match fs with [] => false | _ => existsb (fun g => pmatches g m) fs end
  | PNot None => false
  | PNot (Some g) => negb (pmatches g m)
  end.

(* nesting levels of protobuf messages below the field that carries the MetadataFilter *)
Fixpoint pdepth (f : pfilter) : N :=
  match f with
  | PNone => 1
  | PExact _ _ | PRange _ _ | PIn _ _ => 2
  | PAnd fs | POr fs => 2 + fold_right (fun g acc => N.max (pdepth g) acc) 0 fs
  | PNot None => 2
  | PNot (Some g) => 2 + pdepth g
  end.
Definition decodable (cfg : config) (f : option pfilter) : bool :=
  match f with None => true | Some g => pdepth g <=? c_decode_depth cfg end.

Fixpoint list_eqb {A} (e : A -> A -> bool) (a b : list A) : bool :=
  match a, b with [], [] => true | x :: a', y :: b' => e x y && list_eqb e a' b' | _, _ => false end.
Fixpoint pfilter_eqb (a b : pfilter) : bool :=
  match a, b with
  | PNone, PNone => true
  | PExact k v, PExact k' v' => (k =? k') && (v =? v')
  | PRange k bd, PRange k' bd' => (k =? k') && Bool.eqb bd bd'
  | PIn k vs, PIn k' vs' => (k =? k') && list_eqb N.eqb vs vs'
  | PAnd fs, PAnd gs | POr fs, POr gs =>
      (fix go (l1 l2 : list pfilter) : bool :=
         match l1, l2 with
         | [], [] => true
         | x :: r, y :: s => pfilter_eqb x y && go r s
         | _, _ => false
         end) fs gs
  | PNot None, PNot None => true
  | PNot (Some f), PNot (Some g) => pfilter_eqb f g
  | _, _ => false
  end.

(* ---------------------------------------------------------------- the collection *)
Record vecv := mkVec { v_tag : N; v_cls : list fclass }.     (* tag = identity of the concrete f32 vector *)
Record doc := mkDoc { d_vtag : N; d_meta : meta }.
Definition coll := list (N * doc).                            (* tenant-local id -> document; keys unique *)
Fixpoint dget (ds : coll) (id : N) : option doc :=
  match ds with [] => None | (i, d) :: r => if id =? i then Some d else dget r id end.
Fixpoint dset (ds : coll) (id : N) (d : doc) : coll :=
  match ds with
  | [] => [(id, d)]
  | (i, d') :: r => if id =? i then (id, d) :: r else (i, d') :: dset r id d
  end.
Definition dremove (ds : coll) (id : N) : coll := filter (fun p => negb (id =? fst p)) ds.
Definition dexists (ds : coll) (id : N) : bool := match dget ds id with Some _ => true | None => false end.
Definition census (ds : coll) (ids : list N) : list (N * option doc) := map (fun id => (id, dget ds id)) ids.

(* ---------------------------------------------------------------- requests *)
Record item := mkItem { i_id : N; i_vec : vecv; i_meta : meta }.
Record sreq := mkSreq { q_vec : list fclass; q_k : N; q_ef : N; q_ns : bytes; q_filter : option pfilter }.
Inductive request :=
| RInsert (it : item)
| RBulkInsert (its : list item)
| RBulkLoad (its : list item)
| RQuery (id : N)
| RBulkQuery (ids : list N)
| RSearch (s : sreq)
| RBulkSearch (ss : list sreq)
| RUpdateMeta (id : N) (m : meta) (merge : bool)
| RDelete (id : N)
| RBatchDeleteIds (ids : list N)
| RBatchDeleteFilter (f : pfilter)
| RBatchDeleteNone
| RFlush (force : bool).

(* status classes.  Unknown / Transport / NoAnswer are the CRASH classes: an observation can carry them, no
   handler produces them (C15_total). *)
Inductive status := InvalidArgument | Internal | ResourceExhausted | Unknown | Transport | NoAnswer.
Definition is_crash (c : status) : bool := match c with Unknown | Transport | NoAnswer => true | _ => false end.
Inductive sitem := SOk | SErr (c : status).
Inductive response :=
| Refused (c : status)                                   (* the whole call is answered with a non-OK status *)
| OkInsert (success : bool) (inserted failed : N)        (* Insert / BulkInsert: per-item outcomes as counts *)
| OkBulkLoad (success : bool) (loaded failed : N)
| OkQuery (found : bool)
| OkBulkQuery (found : list bool)
| OkSearch
| OkBulkSearch (items : list sitem) (final : option status)   (* one item per answered request, in order; the status that ended the stream early, if any *)
| OkExisted (existed : bool)
| OkBatchDelete (deleted : N)
| OkFlush.

Definition sitem_no_crash (i : sitem) : bool := match i with SOk => true | SErr c => negb (is_crash c) end.
Definition no_crash (r : response) : bool :=
  match r with
  | Refused c => negb (is_crash c)
  | OkBulkSearch items final => forallb sitem_no_crash items && match final with Some c => negb (is_crash c) | None => true end
  | _ => true
  end.
(* is the whole call refused? *)
Definition refused (r : response) : bool := match r with Refused _ => true | _ => false end.

(* ---------------------------------------------------------------- TenantIdMapper::to_global_doc_id *)
Definition U32_MAX : N := 4294967295.
Definition map_doc_id (id : N) : option N := if U32_MAX <? id then None else Some id.
Fixpoint map_ids (ids : list N) : option (list N) :=
  match ids with
  | [] => Some []
  | i :: r => match map_doc_id i, map_ids r with Some g, Some gs => Some (g :: gs) | _, _ => None end
  end.

(* ---------------------------------------------------------------- the engine's acceptance of a vector *)
Definition has_cls (c : fclass) (v : list fclass) : bool := existsb (fclass_eqb c) v.
(* class of simd::sum_squares_f32 *)
Inductive sq_class := SqNaN | SqInf | SqOrd | SqTiny.
Definition nsq (v : list fclass) : sq_class :=
  if has_cls NaN v then SqNaN
  else if has_cls PInf v || has_cls NInf v || has_cls Huge v then SqInf
  else if has_cls FinNZ v then SqOrd
  else SqTiny.
(* a vector inside the engine: component classes + "norm_sq is known to lie in [0.98, 1.02]" *)
Record evec := mkEvec { e_cls : list fclass; e_unit : bool }.
Definition scale_by_zero (c : fclass) : fclass := match c with NaN | PInf | NInf => NaN | _ => Zero end.
(* normalize_in_place_if_needed (tiered_engine.rs and hnsw_backend.rs: same text); None = Err *)
Definition normalize (m : metric) (v : evec) : option evec :=
  match m with
  | Euclid => Some v
  | Cosine =>
      if e_unit v then Some v
      else match nsq (e_cls v) with
           | SqTiny => None                                              (* norm_sq <= f32::EPSILON *)
           | SqOrd => Some (mkEvec (e_cls v) true)                       (* in range, or scaled to unit norm *)
           | SqInf => Some (mkEvec (map scale_by_zero (e_cls v)) false)  (* inv_norm = 1/sqrt(inf) = 0 *)
           | SqNaN => Some (mkEvec (map (fun _ => NaN) (e_cls v)) false)
           end
  end.
(* HnswBackend::insert up to the WAL append: dimension, normalize, finiteness pre-flight, norm check *)
Definition cold_insert_ok (cfg : config) (v : evec) : bool :=
  if negb (len (e_cls v) =? c_dim cfg) then false
  else match normalize (c_metric cfg) v with
       | None => false
       | Some w =>
           if existsb (fun c => negb (fc_is_finite c)) (e_cls w) then false
           else match c_metric cfg with Euclid => true | Cosine => e_unit w end
       end.
(* TieredEngine::insert: normalize, then the cold tier *)
Definition tiered_insert_ok (cfg : config) (v : list fclass) : bool :=
  match normalize (c_metric cfg) (mkEvec v false) with
  | None => false
  | Some w => cold_insert_ok cfg w
  end.
Definition direct_cold_insert_ok (cfg : config) (v : list fclass) : bool := cold_insert_ok cfg (mkEvec v false).

Definition store (ds : coll) (id : N) (it : item) : coll := dset ds id (mkDoc (v_tag (i_vec it)) (i_meta it)).

(* ---------------------------------------------------------------- Insert *)
Definition h_insert (cfg : config) (ds : coll) (it : item) : coll * response :=
  match validate_insert_request (mkInsertReq (i_id it) (v_cls (i_vec it))) with
  | VErr _ => (ds, Refused InvalidArgument)
  | VOk _ =>
      match map_doc_id (i_id it) with
      | None => (ds, Refused InvalidArgument)
      | Some id =>
          if tiered_insert_ok cfg (v_cls (i_vec it)) then (store ds id it, OkInsert true 1 0)
          else (ds, Refused Internal)
      end
  end.

(* ---------------------------------------------------------------- BulkInsert *)
(* one stream item.  Accumulator: collection, inserted, failed, batch_count, loop left by `break` *)
Record bi_acc := mkBi { bi_ds : coll; bi_ins : N; bi_failed : N; bi_count : N; bi_stopped : bool }.
Inductive item_outcome := ItemStored | ItemFailed | ItemIgnored.
Definition bi_item_outcome (cfg : config) (a : bi_acc) (it : item) : item_outcome * coll :=
  if bi_stopped a then (ItemIgnored, bi_ds a)
  else if c_max_batch cfg <? bi_count a + 1 then (ItemFailed, bi_ds a)
  else if i_id it <? MIN_DOC_ID then (ItemFailed, bi_ds a)
  else if is_nil (v_cls (i_vec it)) then (ItemFailed, bi_ds a)
  else if MAX_EMBEDDING_DIM <? len (v_cls (i_vec it)) then (ItemFailed, bi_ds a)
  else match map_doc_id (i_id it) with
       | None => (ItemFailed, bi_ds a)
       | Some id =>
           if tiered_insert_ok cfg (v_cls (i_vec it)) then (ItemStored, store (bi_ds a) id it)
           else (ItemFailed, bi_ds a)
       end.
Definition bi_step (cfg : config) (a : bi_acc) (it : item) : bi_acc :=
  if bi_stopped a then a
  else
    let '(o, ds) := bi_item_outcome cfg a it in
    let stop := c_max_batch cfg <? bi_count a + 1 in
    match o with
    | ItemStored => mkBi ds (bi_ins a + 1) (bi_failed a) (bi_count a + 1) stop
    | _ => mkBi ds (bi_ins a) (bi_failed a + 1) (bi_count a + 1) stop
    end.
Definition h_bulk_insert (cfg : config) (ds : coll) (its : list item) : coll * response :=
  let a := fold_left (bi_step cfg) its (mkBi ds 0 0 0 false) in
  (bi_ds a, OkInsert (bi_failed a =? 0) (bi_ins a) (bi_failed a)).

(* ---------------------------------------------------------------- BulkLoadHnsw *)
(* bulk_load_cold_tier: per-document cold-tier insert with accounting *)
Definition cold_load_one (cfg : config) (acc : coll * (N * N)) (p : N * item) : coll * (N * N) :=
  let '(ds, (loaded, failed)) := acc in
  if direct_cold_insert_ok cfg (v_cls (i_vec (snd p))) then (store ds (fst p) (snd p), (loaded + 1, failed))
  else (ds, (loaded, failed + 1)).
Definition ingest (cfg : config) (ds : coll) (batch : list (N * item)) : coll * (N * N) :=
  fold_left (cold_load_one cfg) batch (ds, (0, 0)).
Record bl_acc := mkBl {
  bl_ds : coll; bl_pending : list (N * item); bl_loaded : N; bl_failed_ins : N; bl_verr : N;
  bl_received : N; bl_refused : bool       (* `return Err(Status::resource_exhausted(..))` taken *)
}.
Definition bl_valid (it : item) : option N :=
  if i_id it <? MIN_DOC_ID then None
  else if is_nil (v_cls (i_vec it)) then None
  else if MAX_EMBEDDING_DIM <? len (v_cls (i_vec it)) then None
  else map_doc_id (i_id it).
Definition bl_step (cfg : config) (a : bl_acc) (it : item) : bl_acc :=
  if bl_refused a then a
  else
    let received := bl_received a + 1 in
    if c_max_total_load cfg <? received
    then mkBl (bl_ds a) (bl_pending a) (bl_loaded a) (bl_failed_ins a) (bl_verr a) received true
    else match bl_valid it with
         | None => mkBl (bl_ds a) (bl_pending a) (bl_loaded a) (bl_failed_ins a) (bl_verr a + 1) received false
         | Some id =>
             let pending := bl_pending a ++ [(id, it)] in
             if c_max_batch cfg <=? len pending
             then let '(ds, (l, f)) := ingest cfg (bl_ds a) pending in
                  mkBl ds [] (bl_loaded a + l) (bl_failed_ins a + f) (bl_verr a) received false
             else mkBl (bl_ds a) pending (bl_loaded a) (bl_failed_ins a) (bl_verr a) received false
         end.
Definition h_bulk_load (cfg : config) (ds : coll) (its : list item) : coll * response :=
  let a := fold_left (bl_step cfg) its (mkBl ds [] 0 0 0 0 false) in
  if bl_refused a then (bl_ds a, Refused ResourceExhausted)
  else
    let '(ds', (l, f)) := match bl_pending a with [] => (bl_ds a, (0, 0)) | p => ingest cfg (bl_ds a) p end in
    let failed := bl_failed_ins a + f + bl_verr a in
    (ds', OkBulkLoad (failed =? 0) (bl_loaded a + l) failed).

(* ---------------------------------------------------------------- Query / BulkQuery *)
Definition h_query (ds : coll) (id : N) : coll * response :=
  if id =? 0 then (ds, Refused InvalidArgument)
  else match map_doc_id id with
       | None => (ds, Refused InvalidArgument)
       | Some g => (ds, OkQuery (dexists ds g))
       end.
Definition h_bulk_query (cfg : config) (ds : coll) (ids : list N) : coll * response :=
  if c_max_batch cfg <? len ids then (ds, Refused InvalidArgument)
  else match map_ids ids with
       | None => (ds, Refused InvalidArgument)
       | Some gs => (ds, OkBulkQuery (map (dexists ds) gs))
       end.

(* ---------------------------------------------------------------- Search / BulkSearch *)
Definition sview (r : sreq) : search_req := mkSearchReq (q_vec r) (q_k r) (q_ef r) (q_ns r) (q_filter r).
(* knn_search_*: dimension, then normalize_query_for_search (tiered_engine.rs), then the cold tier's own
   normalize_query_if_needed (hnsw_backend.rs).  A query whose squared norm overflows is refused by the first
   ("invalid query embedding: norm is not finite", INVALID_ARGUMENT on both paths; /repo 524db30 — before
   that repair it was scaled to all-zero, the cold tier's "norm is zero" refusal failed the group on the BATCH
   path and was absorbed on the single-Search path, where it also counted as a cold-tier breaker failure).
   (empty / k are re-checked but cannot fail after the validator.)  None = the engine answers *)
Definition engine_search_err (cfg : config) (batch : bool) (r : sreq) : option status :=
  if negb (len (q_vec r) =? c_dim cfg) then Some InvalidArgument     (* "dimension mismatch" -> Validation *)
  else match c_metric cfg with
       | Euclid => None
       | Cosine => match nsq (q_vec r) with
                   | SqTiny => Some Internal
                   | SqInf => Some InvalidArgument
                   | _ => None
                   end
       end.
Definition h_search (cfg : config) (ds : coll) (r : sreq) : coll * response :=
  if negb (decodable cfg (q_filter r)) then (ds, Refused Internal)
  else match validate_search_request (sview r) with
       | VErr _ => (ds, Refused InvalidArgument)
       | VOk _ => match engine_search_err cfg false r with
                  | Some c => (ds, Refused c)
                  | None => (ds, OkSearch)
                  end
       end.

Definition opt_eqb {A} (e : A -> A -> bool) (a b : option A) : bool :=
  match a, b with None, None => true | Some x, Some y => e x y | _, _ => false end.
(* BatchSearchKey: (search_k, ef_search_override, hash(tenant, namespace, encoded filter)) *)
Definition same_group (a b : sreq) : bool :=
  match validate_search_request (sview a), validate_search_request (sview b) with
  | VOk pa, VOk pb =>
      (search_k pa =? search_k pb) && opt_eqb N.eqb (ef_search_override pa) (ef_search_override pb)
      && list_eqb N.eqb (q_ns a) (q_ns b) && opt_eqb pfilter_eqb (q_filter a) (q_filter b)
  | _, _ => false
  end.
(* knn_search_batch_with_ef_detailed_scoped fails the whole group at its first bad query.  `bad` is the
   sub-list (in stream order) of the requests that reach the engine and are refused by it. *)
Definition engine_bad (cfg : config) (x : sreq) : bool :=
  decodable cfg (q_filter x) && v_is_ok (validate_search_request (sview x))
  && match engine_search_err cfg true x with Some _ => true | None => false end.
Fixpoint group_err (cfg : config) (r : sreq) (bad : list sreq) : option status :=
  match bad with
  | [] => None
  | x :: rest => if same_group r x then engine_search_err cfg true x else group_err cfg r rest
  end.
Definition search_item (cfg : config) (bad : list sreq) (r : sreq) : sitem :=
  match validate_search_request (sview r) with
  | VErr _ => SErr InvalidArgument
  | VOk _ => match group_err cfg r bad with Some c => SErr c | None => SOk end
  end.
Definition take {A} (n : N) (l : list A) : list A := firstn (N.to_nat n) l.
(* the messages read before one fails to decode *)
Fixpoint decodable_prefix (cfg : config) (rs : list sreq) : list sreq :=
  match rs with
  | [] => []
  | r :: rest => if decodable cfg (q_filter r) then r :: decodable_prefix cfg rest else []
  end.
Definition all_decodable (cfg : config) (rs : list sreq) : bool := forallb (fun r => decodable cfg (q_filter r)) rs.
(* The server reads at most MAX_BATCH_SIZE + 1 messages.  An undecodable one among the first MAX_BATCH_SIZE
   ends the stream with INTERNAL ("stream error"); otherwise a (MAX_BATCH_SIZE+1)-th message ends it with
   RESOURCE_EXHAUSTED after the accepted requests were answered.  `items` are the answers the server
   produces for the requests read before that point (a stream is one batch); when the stream is ended by a
   status, answers still buffered may be lost in transport (see stream_ok). *)
Definition h_bulk_search (cfg : config) (ds : coll) (rs : list sreq) : coll * response :=
  let counted := take (c_max_batch cfg) rs in
  let readable := decodable_prefix cfg counted in
  let bad := filter (engine_bad cfg) readable in
  let outs := map (search_item cfg bad) readable in
  let final := if negb (all_decodable cfg counted) then Some Internal
               else if c_max_batch cfg <? len rs then Some ResourceExhausted
               else None in
  (ds, OkBulkSearch outs final).

(* ---------------------------------------------------------------- UpdateMetadata / Delete / BatchDelete *)
Definition h_update (ds : coll) (id : N) (m : meta) (merge : bool) : coll * response :=
  if id =? 0 then (ds, Refused InvalidArgument)
  else match map_doc_id id with
       | None => (ds, Refused InvalidArgument)
       | Some g =>
           match dget ds g with
           | None => (ds, OkExisted false)
           | Some d => (dset ds g (mkDoc (d_vtag d) (if merge then mextend (d_meta d) m else m)), OkExisted true)
           end
       end.
Definition h_delete (ds : coll) (id : N) : coll * response :=
  if id <? MIN_DOC_ID then (ds, Refused InvalidArgument)
  else match map_doc_id id with
       | None => (ds, Refused InvalidArgument)
       | Some g => (dremove ds g, OkExisted (dexists ds g))
       end.
Fixpoint nodup_N (l : list N) : list N :=
  match l with [] => [] | x :: r => if existsb (N.eqb x) r then nodup_N r else x :: nodup_N r end.
Definition delete_all (ds : coll) (gs : list N) : coll * response :=
  let u := nodup_N gs in
  (filter (fun p => negb (existsb (N.eqb (fst p)) u)) ds, OkBatchDelete (len (filter (dexists ds) u))).
Definition h_batch_delete_ids (cfg : config) (ds : coll) (ids : list N) : coll * response :=
  if c_max_batch cfg <? len ids then (ds, Refused InvalidArgument)
  else match map_ids ids with
       | None => (ds, Refused InvalidArgument)
       | Some gs => delete_all ds (filter (dexists ds) gs)
       end.
Definition h_batch_delete_filter (cfg : config) (ds : coll) (f : pfilter) : coll * response :=
  if negb (decodable cfg (Some f)) then (ds, Refused Internal)
  else delete_all ds (map fst (filter (fun p => pmatches f (d_meta (snd p))) ds)).

(* ---------------------------------------------------------------- the server step *)
Definition handle (cfg : config) (ds : coll) (r : request) : coll * response :=
  match r with
  | RInsert it => h_insert cfg ds it
  | RBulkInsert its => h_bulk_insert cfg ds its
  | RBulkLoad its => h_bulk_load cfg ds its
  | RQuery id => h_query ds id
  | RBulkQuery ids => h_bulk_query cfg ds ids
  | RSearch s => h_search cfg ds s
  | RBulkSearch ss => h_bulk_search cfg ds ss
  | RUpdateMeta id m merge => h_update ds id m merge
  | RDelete id => h_delete ds id
  | RBatchDeleteIds ids => h_batch_delete_ids cfg ds ids
  | RBatchDeleteFilter f => h_batch_delete_filter cfg ds f
  | RBatchDeleteNone => (ds, Refused InvalidArgument)
  | RFlush _ => (ds, OkFlush)
  end.

(* ---------------------------------------------------------------- comparison with observations *)
(* a script step: a request, or a restart of the server process (the collection must be unchanged) *)
Inductive op := OReq (r : request) | ORestart.
(* what the harness saw: the answer, then the census of the id pool *)
Inductive obs_resp :=
| ObsResp (r : response)                                  (* everything but BulkSearch; restart = OkFlush *)
| ObsStream (items : list sitem) (final : option status). (* BulkSearch: items received in order (Ok, or Ok carrying a per-item failure), terminating status *)
Definition status_eqb (a b : status) : bool :=
  match a, b with
  | InvalidArgument, InvalidArgument | Internal, Internal | ResourceExhausted, ResourceExhausted
  | Unknown, Unknown | Transport, Transport | NoAnswer, NoAnswer => true
  | _, _ => false
  end.
Definition sitem_eqb (a b : sitem) : bool :=
  match a, b with SOk, SOk => true | SErr x, SErr y => status_eqb x y | _, _ => false end.
Definition response_eqb (a b : response) : bool :=
  match a, b with
  | Refused x, Refused y => status_eqb x y
  | OkInsert s i f, OkInsert s' i' f' => Bool.eqb s s' && (i =? i') && (f =? f')
  | OkBulkLoad s i f, OkBulkLoad s' i' f' => Bool.eqb s s' && (i =? i') && (f =? f')
  | OkQuery b, OkQuery b' => Bool.eqb b b'
  | OkBulkQuery l, OkBulkQuery l' => list_eqb Bool.eqb l l'
  | OkSearch, OkSearch => true
  | OkBulkSearch l f, OkBulkSearch l' f' => list_eqb sitem_eqb l l' && opt_eqb status_eqb f f'
  | OkExisted b, OkExisted b' => Bool.eqb b b'
  | OkBatchDelete n, OkBatchDelete n' => n =? n'
  | OkFlush, OkFlush => true
  | _, _ => false
  end.
Fixpoint is_prefix (a b : list sitem) : bool :=
  match a, b with
  | [], _ => true
  | x :: a', y :: b' => sitem_eqb x y && is_prefix a' b'
  | _ :: _, [] => false
  end.
(* A stream that the server ends with a status: the answers sent right before the status may be dropped by
   the transport (tonic's EncodedBytes discards its buffer when the source yields an error), and answers of a
   still-pending batch are not produced at all before a decode failure: a prefix is accepted there.  A stream
   that ends normally must carry exactly the model's items. *)
Definition stream_ok (model : list sitem) (mfinal : option status) (items : list sitem) (final : option status) : bool :=
  opt_eqb status_eqb mfinal final
  && match mfinal with
     | None => list_eqb sitem_eqb model items
     | Some _ => is_prefix items model
     end.
Definition meta_eqb (a b : meta) : bool := list_eqb (fun x y => (fst x =? fst y) && (snd x =? snd y)) a b.
Definition doc_eqb (a b : doc) : bool := (d_vtag a =? d_vtag b) && meta_eqb (d_meta a) (d_meta b).
Definition census_eqb (a b : list (N * option doc)) : bool :=
  list_eqb (fun x y => (fst x =? fst y) && opt_eqb doc_eqb (snd x) (snd y)) a b.
Definition obs_ok (model : response) (o : obs_resp) : bool :=
  match o, model with
  | ObsStream items final, OkBulkSearch m mfinal => stream_ok m mfinal items final
  | ObsStream _ _, _ => false
  | ObsResp r, m => response_eqb m r
  end.
Definition step (cfg : config) (ds : coll) (o : op) : coll * response :=
  match o with OReq r => handle cfg ds r | ORestart => (ds, OkFlush) end.
(* indices of the steps whose answer or follow-up census disagrees with the model *)
Fixpoint check_from (cfg : config) (pool : list N) (ds : coll) (i : N)
         (steps : list (op * obs_resp * list (N * option doc))) : list N :=
  match steps with
  | [] => []
  | (o, ob, cen) :: rest =>
      let '(ds', m) := step cfg ds o in
      (if obs_ok m ob && census_eqb (census ds' pool) cen then [] else [i]) ++ check_from cfg pool ds' (i + 1) rest
  end.
Definition check_script (cfg : config) (pool : list N) (steps : list (op * obs_resp * list (N * option doc))) : list N :=
  check_from cfg pool [] 0 steps.
(* diagnostics: the model's answer and census at the disagreeing steps *)
Fixpoint explain_from (cfg : config) (pool : list N) (ds : coll) (i : N)
         (steps : list (op * obs_resp * list (N * option doc))) : list (N * response * list (N * option doc)) :=
  match steps with
  | [] => []
  | (o, ob, cen) :: rest =>
      let '(ds', m) := step cfg ds o in
      (if obs_ok m ob && census_eqb (census ds' pool) cen then [] else [(i, m, census ds' pool)])
      ++ explain_from cfg pool ds' (i + 1) rest
  end.
