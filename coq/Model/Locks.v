(* Model of parking_lot's Mutex and writer-preferring RwLock, of lock programs, and of the static
   lock-order check (DESIGN.md §3 C08).  Executable, no proofs.

   A *lock program* is what one thread does to locks while it runs one API call: the sequence of
   acquisitions, try-acquisitions, upgrades, downgrades and releases recorded by the patched
   parking_lot (harness/vendor/parking_lot) when the call runs alone.  Locks are numbered by CLASS:
   one number per (struct, field) that holds a lock (all creation sites of that field), so the
   `documents` lock of every HotTier is one lock of the model.  Collapsing instances to classes is
   conservative for the rank discipline below: if the collapsed programs acquire in strictly
   increasing rank, two instances of one class are never held together, and the instance-level
   programs acquire in strictly increasing rank for `rank o class`.

   Semantics (any number of threads, any schedule), following parking_lot 0.12 raw_rwlock.rs:
   * a reader (`Acq l Read`) is admitted unless the WRITER bit of l is set.  The WRITER bit is set by
     a thread that holds l exclusively AND by a writer that has claimed the lock and is still waiting
     for the readers to leave (lock_exclusive_slow sets WRITER_BIT first, then wait_for_readers) —
     this is the writer preference: a queued writer blocks new readers;
   * an upgradable reader additionally excludes other upgradable readers;
   * a writer claims the WRITER bit when neither WRITER nor UPGRADABLE is set (one step: `t_pend`
     becomes true) and completes when no reader is left (second step);
   * `Upgrade l` atomically gives up the upgradable read and sets WRITER (claim), then waits for the
     readers to leave (complete);
   * `TryAcq` never blocks: it acquires if that is possible at once and otherwise the thread goes on
     along the recorded path WITHOUT holding the lock (`h_real = false`; such a hold blocks nobody);
   * a Mutex is held by at most one thread. *)
From Coq Require Import List NArith Bool Arith PeanoNat.
Import ListNotations.

Definition lock := N.

Inductive mode := Read | Upgradable | Write | Mutex.

Inductive instr :=
| Acq (l : lock) (m : mode)
| TryAcq (l : lock) (m : mode)
| Upgrade (l : lock)                 (* upgradable -> write *)
| Downgrade (l : lock) (m : mode)    (* write -> read | upgradable, upgradable -> read; never blocks *)
| Rel (l : lock).

Definition prog := list instr.

Definition mode_eqb (a b : mode) : bool :=
  match a, b with
  | Read, Read | Upgradable, Upgradable | Write, Write | Mutex, Mutex => true
  | _, _ => false
  end.

Definition excl (m : mode) : bool := match m with Write | Mutex => true | _ => false end.
Definition is_upg (m : mode) : bool := match m with Upgradable => true | _ => false end.
Definition is_shared (m : mode) : bool := match m with Read | Upgradable => true | _ => false end.
Definition any_mode (m : mode) : bool := true.

(* ------------------------------------------------------------------------------------------ *)
(* Threads and states                                                                          *)
(* ------------------------------------------------------------------------------------------ *)

Record hold := mkHold { h_lock : lock; h_mode : mode; h_real : bool }.

Record thread := mkThread {
  t_prog : prog;           (* what is left to do *)
  t_held : list hold;      (* most recent first *)
  t_pend : bool            (* has set the WRITER bit of the lock of its head instruction, waits for readers *)
}.

Definition state := list thread.

Definition init (ps : list prog) : state := map (fun p => mkThread p [] false) ps.

Definition holds_p (p : mode -> bool) (l : lock) (t : thread) : bool :=
  existsb (fun h => N.eqb (h_lock h) l && h_real h && p (h_mode h)) (t_held t).

Definition pending_on (l : lock) (t : thread) : bool :=
  t_pend t && match t_prog t with
              | Acq l' _ :: _ => N.eqb l' l
              | Upgrade l' :: _ => N.eqb l' l
              | _ => false
              end.

Definition wbit (st : state) (l : lock) : bool :=
  existsb (fun t => holds_p excl l t || pending_on l t) st.
Definition upg (st : state) (l : lock) : bool := existsb (holds_p is_upg l) st.
Definition readers (st : state) (l : lock) : bool := existsb (holds_p is_shared l) st.
Definition held_any (st : state) (l : lock) : bool := existsb (holds_p any_mode l) st.

(* may a thread that is not pending take its first step on `Acq l m`? *)
Definition avail (st : state) (l : lock) (m : mode) : bool :=
  match m with
  | Read => negb (wbit st l)
  | Upgradable => negb (wbit st l) && negb (upg st l)
  | Write => negb (wbit st l) && negb (upg st l)
  | Mutex => negb (held_any st l)
  end.

(* try_lock_*: succeeds only if the lock can be taken at once *)
Definition try_avail (st : state) (l : lock) (m : mode) : bool :=
  match m with
  | Write => avail st l Write && negb (readers st l)
  | _ => avail st l m
  end.

Fixpoint find_hold (l : lock) (hs : list hold) : option hold :=
  match hs with
  | [] => None
  | h :: r => if N.eqb (h_lock h) l then Some h else find_hold l r
  end.

Fixpoint remove_hold (l : lock) (hs : list hold) : list hold :=
  match hs with
  | [] => []
  | h :: r => if N.eqb (h_lock h) l then r else h :: remove_hold l r
  end.

(* One step of thread t in global state st; None = t cannot move now (blocked, or finished). *)
Definition tstep (st : state) (t : thread) : option thread :=
  match t_prog t with
  | [] => None
  | Acq l Write :: r =>
      if t_pend t
      then (if readers st l then None else Some (mkThread r (mkHold l Write true :: t_held t) false))
      else (if avail st l Write then Some (mkThread (t_prog t) (t_held t) true) else None)
  | Acq l m :: r =>
      if avail st l m then Some (mkThread r (mkHold l m true :: t_held t) false) else None
  | TryAcq l m :: r =>
      Some (mkThread r (mkHold l m (try_avail st l m) :: t_held t) false)
  | Upgrade l :: r =>
      if t_pend t
      then (if readers st l then None else Some (mkThread r (mkHold l Write true :: t_held t) false))
      else match find_hold l (t_held t) with
           | Some h =>
               if h_real h
               then Some (mkThread (t_prog t) (remove_hold l (t_held t)) true)
               else Some (mkThread r (mkHold l Write false :: remove_hold l (t_held t)) false)
           | None => Some (mkThread r (t_held t) false)       (* ill-formed program: skip *)
           end
  | Downgrade l m :: r =>
      match find_hold l (t_held t) with
      | Some h => Some (mkThread r (mkHold l m (h_real h) :: remove_hold l (t_held t)) false)
      | None => Some (mkThread r (t_held t) false)
      end
  | Rel l :: r => Some (mkThread r (remove_hold l (t_held t)) false)
  end.

Fixpoint replace_nth {A} (n : nat) (x : A) (l : list A) : list A :=
  match l, n with
  | [], _ => []
  | _ :: r, O => x :: r
  | a :: r, S k => a :: replace_nth k x r
  end.

Definition thread_step (st : state) (tid : nat) : option state :=
  match nth_error st tid with
  | Some t => match tstep st t with
              | Some t' => Some (replace_nth tid t' st)
              | None => None
              end
  | None => None
  end.

Fixpoint run (st : state) (sched : list nat) : option state :=
  match sched with
  | [] => Some st
  | tid :: r => match thread_step st tid with
                | Some st' => run st' r
                | None => None
                end
  end.

(* exec progs sched = Some st : the schedule (a list of thread indices, each naming the thread that
   takes the next step) is executable from the initial state and leads to st. *)
Definition exec (ps : list prog) (sched : list nat) : option state := run (init ps) sched.

Definition done (t : thread) : bool := match t_prog t with [] => true | _ => false end.
Definition all_done (st : state) : bool := forallb done st.

Definition enabled (st : state) (t : thread) : bool :=
  match tstep st t with Some _ => true | None => false end.

(* no thread can move *)
Definition stuck (st : state) : bool := forallb (fun t => negb (enabled st t)) st.
Definition deadlocked (st : state) : bool := stuck st && negb (all_done st).

(* ------------------------------------------------------------------------------------------ *)
(* The static discipline                                                                       *)
(* ------------------------------------------------------------------------------------------ *)

Definition sheld := list (lock * mode).       (* statically tracked held set *)

Definition smem (l : lock) (h : sheld) : bool := existsb (fun x => N.eqb (fst x) l) h.

Fixpoint sfind (l : lock) (h : sheld) : option mode :=
  match h with
  | [] => None
  | (l', m) :: r => if N.eqb l' l then Some m else sfind l r
  end.

Fixpoint sremove (l : lock) (h : sheld) : sheld :=
  match h with
  | [] => []
  | (l', m) :: r => if N.eqb l' l then r else (l', m) :: sremove l r
  end.

Definition supd (h : sheld) (i : instr) : sheld :=
  match i with
  | Acq l m | TryAcq l m => (l, m) :: h
  | Upgrade l => (l, Write) :: sremove l h
  | Downgrade l m => (l, m) :: sremove l h
  | Rel l => sremove l h
  end.

(* well bracketed: never acquires a lock it holds, upgrades only an upgradable hold, downgrades and
   releases only what it holds, ends holding nothing *)
Definition wb_pre (h : sheld) (i : instr) : bool :=
  match i with
  | Acq l _ | TryAcq l _ => negb (smem l h)
  | Upgrade l => match sfind l h with Some Upgradable => true | _ => false end
  | Downgrade l m =>
      match sfind l h, m with
      | Some Write, Read | Some Write, Upgradable | Some Upgradable, Read => true
      | _, _ => false
      end
  | Rel l => smem l h
  end.

Fixpoint wb (h : sheld) (p : prog) : bool :=
  match p with
  | [] => match h with [] => true | _ => false end
  | i :: r => wb_pre h i && wb (supd h i) r
  end.

Definition well_bracketed (p : prog) : Prop := wb [] p = true.

(* rank discipline: every BLOCKING request (Acq; Upgrade waits for the readers to leave) is for a
   lock whose rank is strictly greater than the rank of every lock held at that moment (however it
   was obtained, TryAcq included).  TryAcq itself never blocks and needs no condition. *)
Definition gt_all (rank : lock -> nat) (l : lock) (h : sheld) : bool :=
  forallb (fun x => Nat.ltb (rank (fst x)) (rank l)) h.

Definition ri_pre (rank : lock -> nat) (h : sheld) (i : instr) : bool :=
  match i with
  | Acq l _ => gt_all rank l h
  | Upgrade l => gt_all rank l (sremove l h)
  | _ => true
  end.

Fixpoint ri (rank : lock -> nat) (h : sheld) (p : prog) : bool :=
  match p with
  | [] => true
  | i :: r => ri_pre rank h i && ri rank (supd h i) r
  end.

Definition rank_increasing (rank : lock -> nat) (p : prog) : Prop := ri rank [] p = true.

Definition prog_ok (rank : lock -> nat) (p : prog) : bool := wb [] p && ri rank [] p.

(* ------------------------------------------------------------------------------------------ *)
(* Held-before graph over lock classes, hazards, topological rank                              *)
(* ------------------------------------------------------------------------------------------ *)

Definition edge := (lock * lock)%type.

Definition edge_eqb (a b : edge) : bool := N.eqb (fst a) (fst b) && N.eqb (snd a) (snd b).

Fixpoint nmem (x : N) (l : list N) : bool :=
  match l with [] => false | y :: r => N.eqb x y || nmem x r end.

Fixpoint emem (e : edge) (l : list edge) : bool :=
  match l with [] => false | y :: r => edge_eqb e y || emem e r end.

Definition add_edge (e : edge) (l : list edge) : list edge := if emem e l then l else e :: l.

(* edges contributed by one instruction: held lock -> requested lock, blocking requests only;
   a lock already held is a hazard, not an edge *)
Definition instr_edges (h : sheld) (i : instr) : list edge :=
  match i with
  | Acq l _ => map (fun x => (fst x, l)) (filter (fun x => negb (N.eqb (fst x) l)) h)
  | Upgrade l => map (fun x => (fst x, l)) (filter (fun x => negb (N.eqb (fst x) l)) h)
  | _ => []
  end.

Fixpoint prog_edges (h : sheld) (p : prog) (acc : list edge) : list edge :=
  match p with
  | [] => acc
  | i :: r => prog_edges (supd h i) r (fold_right add_edge acc (instr_edges h i))
  end.

Definition edges (ps : list prog) : list edge :=
  fold_left (fun acc p => prog_edges [] p acc) ps [].

(* hazards inside one program *)
Inductive hazard :=
| Reacquire (l : lock) (held requested : mode)     (* non-reentrant lock requested while held *)
| UpgradeHazard (l : lock)                         (* holds read, requests write: waits for itself *)
| RecursiveRead (l : lock)                         (* holds read, requests read: blocks behind a queued writer *)
| Unbalanced.

Definition instr_hazards (h : sheld) (i : instr) : list hazard :=
  match i with
  | Acq l m | TryAcq l m =>
      match sfind l h with
      | Some Read => match m with
                     | Read => [RecursiveRead l]
                     | Write => [UpgradeHazard l]
                     | _ => [Reacquire l Read m]
                     end
      | Some Upgradable => match m with
                           | Write => [UpgradeHazard l]
                           | _ => [Reacquire l Upgradable m]
                           end
      | Some hm => [Reacquire l hm m]
      | None => []
      end
  | _ => if wb_pre h i then [] else [Unbalanced]
  end.

Fixpoint prog_hazards (h : sheld) (p : prog) : list hazard :=
  match p with
  | [] => match h with [] => [] | _ => [Unbalanced] end
  | i :: r => instr_hazards h i ++ prog_hazards (supd h i) r
  end.

Definition hazards (ps : list prog) : list (nat * hazard) :=
  concat (map (fun ip => map (fun hz => (fst ip, hz)) (prog_hazards [] (snd ip)))
              (combine (seq 0 (length ps)) ps)).

Definition nodes (es : list edge) : list lock :=
  fold_right (fun e acc => let acc1 := if nmem (fst e) acc then acc else fst e :: acc in
                           if nmem (snd e) acc1 then acc1 else snd e :: acc1) [] es.

(* Kahn's algorithm: repeatedly take the nodes without incoming edge from the remaining graph. *)
Definition has_incoming (es : list edge) (n : lock) : bool := existsb (fun e => N.eqb (snd e) n) es.

Fixpoint kahn (fuel : nat) (ns : list lock) (es : list edge) (order : list lock) : list lock * list lock :=
  match fuel with
  | O => (order, ns)
  | S k =>
      let free := filter (fun n => negb (has_incoming es n)) ns in
      match free with
      | [] => (order, ns)
      | _ =>
          let ns' := filter (fun n => negb (nmem n free)) ns in
          let es' := filter (fun e => negb (nmem (fst e) free)) es in
          kahn k ns' es' (order ++ free)
      end
  end.

(* (topological order of the nodes that could be ordered, nodes left on or behind a cycle) *)
Definition topo (es : list edge) : list lock * list lock :=
  let ns := nodes es in kahn (S (length ns)) ns es [].

Definition acyclic (es : list edge) : bool :=
  match snd (topo es) with [] => true | _ => false end.

Fixpoint index_of (l : lock) (order : list lock) (i : nat) : nat :=
  match order with
  | [] => 0
  | x :: r => if N.eqb x l then i else index_of l r (S i)
  end.

(* rank of a lock = 1 + its position in the order; locks outside the order get rank 0 *)
Definition rank_of (order : list lock) (l : lock) : nat := index_of l order 1.

Definition topo_rank (ps : list prog) : lock -> nat := rank_of (fst (topo (edges ps))).

(* The static check run on the generated programs. *)
Definition lock_order_ok (ps : list prog) : bool :=
  acyclic (edges ps) && match hazards ps with [] => true | _ => false end.

(* The reflective check that feeds the general theorem. *)
Definition all_ok (rank : lock -> nat) (ps : list prog) : bool := forallb (prog_ok rank) ps.

(* "deadlock free": from every reachable state of every schedule, unless all threads are done,
   some thread can take a step. *)
Definition deadlock_free (ps : list prog) : Prop :=
  forall sched st, exec ps sched = Some st -> all_done st = false ->
  exists tid st', thread_step st tid = Some st'.

(* Any number of client threads, each issuing any sequence of calls drawn from `calls`. *)
Definition client_of (calls : list prog) (p : prog) : Prop :=
  exists cs, Forall (fun c => In c calls) cs /\ p = concat cs.

Definition deadlock_free_family (calls : list prog) : Prop :=
  forall threads, Forall (client_of calls) threads -> deadlock_free threads.
