(* Model of engine/src/query_hash_cache.rs (QueryHashCache, LRU via lru_index.rs) and of the steps of
   engine/src/tiered_engine.rs that touch it.  Executable, no proofs.  (C07, size bound for C20.)

   Numbers.  Vectors are `list Q` (the code uses f32; every finite f32 is a rational).  All
   arithmetic below is exact.  Square roots never appear: every comparison of the code that
   involves a sqrt'ed quantity is replaced by an equivalent comparison of squares, with the sign
   conditions spelled out at each definition ("SQ:" comments).  The float/rational gap (f32
   rounding of sqrt, of the division and of the running sums) is measured by the harness
   (checks/c07.py, prefilter differential), never proved away.

   Hash.  `hash_embedding` feeds `len` and, per component, the u32 bit pattern of
   `scaled = (v*32768).round()` (with -0.0 folded into +0.0) when `scaled` is finite, else the bit
   pattern of `v` itself, to a 64-bit SipHash (repaired in /repo 6ba2bfe; before that the component
   was `scaled as i16`, a SATURATING cast — kept below as `quantise_old`, regression witness only).  NAMED ASSUMPTION (no 64-bit collision): the hash is
   treated as injective on (len, quantised list), so the model key is the quantised list itself
   (its length is the hashed `len`).

   Not modelled: the statistics counters, `cached_at`, the cached `QueryEmbeddingStats` (they are
   functions of the stored query; here they are recomputed), non-finite floats, and the
   `denom <= f32::EPSILON` guard of simd::cosine_similarity_f32 (the model uses "a norm is 0"). *)
From Coq Require Import QArith Qminmax Qround Qabs List NArith ZArith Bool Arith.
Import ListNotations.
Open Scope Q_scope.

Definition vec := list Q.

(* ------------------------------------------------------------------------------------------ *)
(* vector arithmetic                                                                           *)
(* ------------------------------------------------------------------------------------------ *)

(* `qnorm` cancels common factors of two (value-preserving: qnorm q == q, Proofs/QCacheProofs.v).
   It only keeps the numerals small when the correspondence check evaluates these sums with
   vm_compute: every f32 is a dyadic rational, so this fully reduces the sums in linear time. *)
Fixpoint pstrip (a b : positive) : positive * positive :=
  match a, b with
  | xO a', xO b' => pstrip a' b'
  | _, _ => (a, b)
  end.

Definition qnorm (q : Q) : Q :=
  match Qnum q with
  | Z0 => 0
  | Zpos a => let '(a', b') := pstrip a (Qden q) in Zpos a' # b'
  | Zneg a => let '(a', b') := pstrip a (Qden q) in Zneg a' # b'
  end.

Fixpoint dot (a b : vec) : Q :=
  match a, b with
  | x :: a', y :: b' => qnorm (x * y + dot a' b')
  | _, _ => 0
  end.

Fixpoint sumsq (a : vec) : Q :=
  match a with
  | x :: a' => qnorm (x * x + sumsq a')
  | [] => 0
  end.

Fixpoint l2sq (a b : vec) : Q :=
  match a, b with
  | x :: a', y :: b' => qnorm ((x - y) * (x - y) + l2sq a' b')
  | _, _ => 0
  end.

Definition Qsq (x : Q) : Q := x * x.
Definition Qleb (x y : Q) : bool := Qle_bool x y.
Definition Qltb (x y : Q) : bool := negb (Qle_bool y x).

(* ------------------------------------------------------------------------------------------ *)
(* hash_embedding: quantisation with the saturating `as i16` cast                              *)
(* ------------------------------------------------------------------------------------------ *)

(* f32::round : half away from zero *)
Definition rha (x : Q) : Z :=
  if Qleb 0 x then Qfloor (x + (1 # 2)) else (- Qfloor (- x + (1 # 2)))%Z.

(* f32::MAX = (2^24 - 1) * 2^104 *)
Definition f32_max : Q := inject_Z ((2 ^ 24 - 1) * 2 ^ 104).

(* `val * 32768.0` stays finite.  (For an f32 `val` the product is an exact power-of-two scaling, so
   it overflows to infinity exactly when |val| * 32768 > f32::MAX.) *)
Definition fin_scaled1 (x : Q) : bool := Qleb (Qabs x * 32768) f32_max.
Definition fin_scaled (v : vec) : bool := forallb fin_scaled1 v.

(* The hashed u32, represented by the VALUE whose bit pattern is hashed (two finite f32 with -0
   folded have equal bits iff equal values): the integer round(32768 v) when finite, otherwise v
   itself (an f32 that large is an integer; Qfloor is the identity on it).  NaN / infinite
   components of `val` are not rationals and are not modelled. *)
Definition quant1 (x : Q) : Z := if fin_scaled1 x then rha (x * 32768) else Qfloor x.
Definition quantise (v : vec) : list Z := map quant1 v.

(* ---- OLD quantisation (before /repo 6ba2bfe), regression witness only ---- *)
(* `as i16` on a float: saturates *)
Definition sat16 (z : Z) : Z := Z.max (-32768) (Z.min 32767 z).
Definition quant1_old (x : Q) : Z := sat16 (rha (x * 32768)).
Definition quantise_old (v : vec) : list Z := map quant1_old v.

Definition qkey := list Z.
Definition key := (N * qkey)%type.      (* QueryCacheKey { scope, query_hash } *)

Fixpoint zlist_eqb (a b : list Z) : bool :=
  match a, b with
  | [], [] => true
  | x :: a', y :: b' => Z.eqb x y && zlist_eqb a' b'
  | _, _ => false
  end.

Definition key_eqb (a b : key) : bool := N.eqb (fst a) (fst b) && zlist_eqb (snd a) (snd b).

(* ------------------------------------------------------------------------------------------ *)
(* cosine similarity used by find_similar_query, as a SIGNED SQUARE                            *)
(* ------------------------------------------------------------------------------------------ *)

(* simd::cosine_similarity_f32 returns dot/(|a||b|) clamped to [-1,1], and 0 when a norm is 0;
   QueryHashCache::cosine_similarity returns 0 when the lengths differ.
   SQ: the map phi(x) = x*|x| is strictly increasing on the reals, so `s1 > s2` iff
   `phi s1 > phi s2` with no sign condition; phi(dot/(|a||b|)) = dot*|dot| / (sumsq a * sumsq b),
   which is rational.  The clamp is the identity on exact values (Cauchy-Schwarz). *)
Definition cos_ssq (a b : vec) : Q :=
  if negb (Nat.eqb (length a) (length b)) then 0
  else let na := sumsq a in let nb := sumsq b in
       if Qleb na 0 || Qleb nb 0 then 0
       else let d := dot a b in d * Qabs d / (na * nb).

(* ------------------------------------------------------------------------------------------ *)
(* insert_can_affect_cached_boundary and QueryHashCache::distance, exact and sqrt-free         *)
(* ------------------------------------------------------------------------------------------ *)

Inductive metric := Euclidean | Cosine | InnerProduct.

(* Decides  P + sqrt a >= T * sqrt b   for a >= 0, b >= 0.
   SQ (each step squares an inequality whose two sides are known to be >= 0):
   T <= 0, P >= 0 : lhs >= 0 >= rhs, true.
   T <= 0, P < 0  : iff sqrt a + |T| sqrt b >= |P|; both sides >= 0, square:
                    a + T^2 b + 2|T| sqrt(ab) >= P^2, i.e. 2|T|sqrt(ab) >= R := P^2 - a - T^2 b;
                    R <= 0 true; else both sides >= 0, square: 4 T^2 a b >= R^2.
   T > 0,  P >= 0 : both sides >= 0, square: 2 P sqrt a >= R := T^2 b - a - P^2;
                    R <= 0 true; else square: 4 P^2 a >= R^2.
   T > 0,  P < 0  : iff sqrt a >= T sqrt b + |P|; both sides >= 0, square:
                    L := a - T^2 b - P^2 >= 2 T |P| sqrt b; L < 0 false; else square:
                    L^2 >= 4 T^2 P^2 b. *)
Definition surd_ge (P a T b : Q) : bool :=
  if Qleb T 0 then
    if Qleb 0 P then true
    else let R := P * P - a - T * T * b in
         if Qleb R 0 then true else Qleb (R * R) (4 * (T * T) * a * b)
  else
    if Qleb 0 P then
      let R := T * T * b - a - P * P in
      if Qleb R 0 then true else Qleb (R * R) (4 * (P * P) * a)
    else
      let L := a - T * T * b - P * P in
      if Qltb L 0 then false else Qleb (4 * (T * T) * (P * P) * b) (L * L).

(* insert_can_affect_cached_boundary(query, stats(query), insert, stats(insert), prefix_dims,
   worst_cached_distance, metric) with the stats being the exact norms.  p = prefix_dims. *)
Definition can_affect (m : metric) (p : nat) (q x : vec) (w : Q) : bool :=
  if negb (Nat.eqb (length q) (length x)) then true
  else match m with
  | Euclidean =>
      (* l2_prefix_sq <= max(w,0)^2 : no sqrt in the code either *)
      Qleb (l2sq (firstn p q) (firstn p x)) (Qsq (Qmax w 0))
  | Cosine =>
      let T := 1 - w in
      let b := sumsq q * sumsq x in
      (* denom = norm_q * norm_x <= 0  ->  None -> unwrap_or(true).  SQ: a product of two
         square roots is <= 0 iff one of the radicands is 0. *)
      if Qleb b 0 then true
      else
        (* clamp(U/D,-1,1) >= T.  T <= -1: true; T > 1: false; otherwise iff U/D >= T iff
           (D > 0) U >= T*D, with U = P + sqrt a, D = sqrt b. *)
        if Qleb T (-1) then true
        else if Qltb 1 T then false
        else surd_ge (dot (firstn p q) (firstn p x))
                     (sumsq (skipn p q) * sumsq (skipn p x)) T b
  | InnerProduct =>
      (* P + tail_q*tail_x >= T.  SQ: sqrt a >= c := T - P: c <= 0 true; else a >= c^2. *)
      let c := (1 - w) - dot (firstn p q) (firstn p x) in
      Qleb c 0 || Qleb (c * c) (sumsq (skipn p q) * sumsq (skipn p x))
  end.

(* QueryHashCache::distance(q, x, m) <= w  (equal lengths).
   SQ Euclidean: sqrt S <= w iff w >= 0 and S <= w^2.
   SQ Cosine: 1 - cos <= w iff cos >= T; degenerate (a norm is 0): cos = 0; otherwise
              d/sqrt b >= T iff d >= T sqrt b: T <= 0: d >= 0 or d^2 <= T^2 b (both sides <= 0);
              T > 0: d >= 0 and d^2 >= T^2 b (both sides >= 0). *)
Definition dist_le (m : metric) (q x : vec) (w : Q) : bool :=
  match m with
  | Euclidean => Qleb 0 w && Qleb (l2sq q x) (w * w)
  | Cosine =>
      let T := 1 - w in let b := sumsq q * sumsq x in let d := dot q x in
      if Qleb b 0 then Qleb T 0
      else if Qleb T 0 then Qleb 0 d || Qleb (d * d) (T * T * b)
           else Qleb 0 d && Qleb (T * T * b) (d * d)
  | InnerProduct => Qleb (1 - w) (dot q x)
  end.

(* distance(q, x, m) < w, same squaring with strict comparisons *)
Definition dist_lt (m : metric) (q x : vec) (w : Q) : bool :=
  match m with
  | Euclidean => Qltb 0 w && Qltb (l2sq q x) (w * w)
  | Cosine =>
      let T := 1 - w in let b := sumsq q * sumsq x in let d := dot q x in
      if Qleb b 0 then Qltb T 0
      else if Qltb T 0 then Qleb 0 d || Qltb (d * d) (T * T * b)
           else Qltb 0 d && Qltb (T * T * b) (d * d)
  | InnerProduct => Qltb (1 - w) (dot q x)
  end.

(* ------------------------------------------------------------------------------------------ *)
(* cache state                                                                                 *)
(* ------------------------------------------------------------------------------------------ *)

Definition result := (N * Q)%type.      (* SearchResult { doc_id, distance } *)

Record entry := mkEntry {
  e_scope   : N;
  e_qkey    : qkey;
  e_query   : vec;            (* state.query_embeddings[key] *)
  e_kreq    : nat;            (* requested_k *)
  e_results : list result
}.

Definition e_key (e : entry) : key := (e_scope e, e_qkey e).

Record config := mkCfg {
  c_cap  : nat;               (* capacity *)
  c_thr  : Q;                 (* similarity_threshold, already clamped to [0,1] *)
  c_scan : nat                (* similarity_scan_limit *)
}.

Record state := mkState {
  s_entries : list entry;             (* MRU first; LruIndex tail = head of this list *)
  s_gen     : N;                      (* invalidation_generation *)
  s_ridx    : list (N * list key)     (* doc_to_query_keys; absent = [] *)
}.

Definition empty : state := mkState [] 0%N [].

(* ---- entries ---- *)

Fixpoint find_entry (k : key) (es : list entry) : option entry :=
  match es with
  | [] => None
  | e :: r => if key_eqb (e_key e) k then Some e else find_entry k r
  end.

Definition remove_key (k : key) (es : list entry) : list entry :=
  filter (fun e => negb (key_eqb (e_key e) k)) es.

(* LruIndex::touch: move to MRU; no-op when absent *)
Definition touch (k : key) (es : list entry) : list entry :=
  match find_entry k es with
  | Some e => e :: remove_key k es
  | None => es
  end.

(* ---- reverse index ---- *)

Fixpoint rget (r : list (N * list key)) (id : N) : list key :=
  match r with
  | [] => []
  | (i, ks) :: r' => if N.eqb i id then ks else rget r' id
  end.

Fixpoint rdel (r : list (N * list key)) (id : N) : list (N * list key) :=
  match r with
  | [] => []
  | (i, ks) :: r' => if N.eqb i id then rdel r' id else (i, ks) :: rdel r' id
  end.

(* set; an empty list removes the row (unindex_entry_docs does `remove` when empty) *)
Definition rset (r : list (N * list key)) (id : N) (ks : list key) : list (N * list key) :=
  match ks with
  | [] => rdel r id
  | _ => (id, ks) :: rdel r id
  end.

Definition key_mem (k : key) (ks : list key) : bool := existsb (key_eqb k) ks.

Fixpoint n_mem (x : N) (l : list N) : bool :=
  match l with [] => false | y :: r => N.eqb x y || n_mem x r end.

(* unique_result_doc_ids (order is not observable) *)
Fixpoint n_dedup (l : list N) : list N :=
  match l with
  | [] => []
  | x :: r => if n_mem x r then n_dedup r else x :: n_dedup r
  end.

Definition result_ids (rs : list result) : list N := n_dedup (map fst rs).

(* index_entry_doc_ids *)
Definition index_ids (r : list (N * list key)) (k : key) (ids : list N) : list (N * list key) :=
  fold_left (fun r id => let ks := rget r id in
                         rset r id (if key_mem k ks then ks else ks ++ [k])) ids r.

(* unindex_entry_docs *)
Definition unindex_ids (r : list (N * list key)) (k : key) (ids : list N) : list (N * list key) :=
  fold_left (fun r id => rset r id (filter (fun k' => negb (key_eqb k' k)) (rget r id))) ids r.

(* remove_entry: (state', removed?) — generation untouched *)
Definition remove_entry (s : state) (k : key) : state * bool :=
  match find_entry k (s_entries s) with
  | Some e => (mkState (remove_key k (s_entries s)) (s_gen s)
                       (unindex_ids (s_ridx s) k (result_ids (e_results e))), true)
  | None => (s, false)
  end.

Fixpoint remove_entries (s : state) (ks : list key) : state * nat :=
  match ks with
  | [] => (s, O)
  | k :: r => let '(s1, b) := remove_entry s k in
              let '(s2, n) := remove_entries s1 r in
              (s2, if b then S n else n)
  end.

Definition bump (s : state) : state := mkState (s_entries s) (s_gen s + 1)%N (s_ridx s).

(* ------------------------------------------------------------------------------------------ *)
(* get_scoped                                                                                  *)
(* ------------------------------------------------------------------------------------------ *)

(* one step of the for_each_recent closure; best = (phi(best_similarity), best_key) *)
Definition sim_step (scope : N) (qk : key) (q : vec) (k : nat)
           (best : Q * option key) (c : entry) : Q * option key :=
  if negb (N.eqb (e_scope c) scope) || key_eqb (e_key c) qk then best
  else if Nat.ltb (e_kreq c) k then best
  else let sim := cos_ssq q (e_query c) in
       if Qltb (fst best) sim then (sim, Some (e_key c)) else best.

Definition find_similar (cfg : config) (es : list entry) (scope : N) (qk : key) (q : vec) (k : nat)
  : option key :=
  let cands := firstn (Nat.min (c_scan cfg) (length es)) es in
  (* SQ: the threshold t is in [0,1], phi t = t*t *)
  snd (fold_left (sim_step scope qk q k) cands (c_thr cfg * c_thr cfg, None)).

Definition get_scoped (cfg : config) (s : state) (scope : N) (q : vec) (k : nat)
  : state * option (list result) :=
  let qk := (scope, quantise q) in
  match find_entry qk (s_entries s) with
  | Some e =>
      if Nat.leb k (e_kreq e)
      then (mkState (touch qk (s_entries s)) (s_gen s) (s_ridx s), Some (firstn k (e_results e)))
      else (s, None)                                   (* InsufficientK: no similarity scan *)
  | None =>
      match find_similar cfg (s_entries s) scope qk q k with
      | None => (s, None)
      | Some mk =>
          let es' := touch mk (s_entries s) in
          let s' := mkState es' (s_gen s) (s_ridx s) in
          match find_entry mk es' with
          | Some e => if Nat.ltb (e_kreq e) k then (s', None)
                      else (s', Some (firstn k (e_results e)))
          | None => (s', None)
          end
      end
  end.

(* ------------------------------------------------------------------------------------------ *)
(* insert_with_k_scoped_internal                                                               *)
(* ------------------------------------------------------------------------------------------ *)

Inductive store_out :=
| SkippedGeneration
| Inserted (evicted : option qkey).

Fixpoint drop_last (es : list entry) : list entry * option entry :=
  match es with
  | [] => ([], None)
  | [e] => ([], Some e)
  | e :: r => let '(r', l) := drop_last r in (e :: r', l)
  end.

Definition store (cfg : config) (s : state) (scope : N) (q : vec) (rs : list result)
           (kreq : nat) (expected : option N) : state * store_out :=
  let qk := (scope, quantise q) in
  let kreq := Nat.max kreq (length rs) in
  let stale := match expected with Some g => negb (N.eqb (s_gen s) g) | None => false end in
  if stale then (s, SkippedGeneration)
  else
    match find_entry qk (s_entries s) with
    | Some old =>
        if Nat.leb (e_kreq old) kreq then
          let ne := mkEntry scope (quantise q) q kreq rs in
          let ridx := index_ids (unindex_ids (s_ridx s) qk (result_ids (e_results old)))
                                qk (result_ids rs) in
          (mkState (ne :: remove_key qk (s_entries s)) (s_gen s) ridx, Inserted None)
        else (mkState (touch qk (s_entries s)) (s_gen s) (s_ridx s), Inserted None)
    | None =>
        let '(es1, ridx1, ev) :=
          if Nat.leb (c_cap cfg) (length (s_entries s)) then
            match drop_last (s_entries s) with
            | (es', Some v) =>
                (es', unindex_ids (s_ridx s) (e_key v) (result_ids (e_results v)), Some (e_qkey v))
            | (es', None) => (es', s_ridx s, None)
            end
          else (s_entries s, s_ridx s, None) in
        let ne := mkEntry scope (quantise q) q kreq rs in
        (mkState (ne :: es1) (s_gen s) (index_ids ridx1 qk (result_ids rs)), Inserted ev)
    end.

(* ------------------------------------------------------------------------------------------ *)
(* invalidations.  Each is "bump the generation, then (under the state lock) remove".          *)
(* ------------------------------------------------------------------------------------------ *)

Definition clear_remove (s : state) : state := mkState [] (s_gen s) [].
Definition clear (s : state) : state := clear_remove (bump s).

Definition key_dedup (ks : list key) : list key :=
  fold_right (fun k acc => if key_mem k acc then acc else k :: acc) [] ks.

Definition doc_remove (s : state) (id : N) : state * nat :=
  match rget (s_ridx s) id with
  | [] => (s, O)
  | ks => let s0 := mkState (s_entries s) (s_gen s) (rdel (s_ridx s) id) in
          remove_entries s0 (key_dedup ks)
  end.
Definition invalidate_doc (s : state) (id : N) : state * nat := doc_remove (bump s) id.

(* fold(NEG_INFINITY, max); None = -inf (not finite -> the entry is removed) *)
Fixpoint worst (rs : list result) : option Q :=
  match rs with
  | [] => None
  | (_, d) :: r => match worst r with None => Some d | Some w => Some (Qmax d w) end
  end.

(* the per-entry decision of invalidate_for_insert; pre = prefilter, dle = "distance <= worst" *)
Definition insert_hits (pre dle : vec -> vec -> Q -> bool) (x : vec) (e : entry) : bool :=
  if Nat.ltb (length (e_results e)) (e_kreq e) then true
  else if negb (Nat.eqb (length (e_query e)) (length x)) then true
  else match worst (e_results e) with
       | None => true
       | Some w => if pre (e_query e) x w then dle (e_query e) x w else false
       end.

Definition insert_remove (pre dle : vec -> vec -> Q -> bool) (s : state) (x : vec) : state * nat :=
  remove_entries s (map e_key (filter (insert_hits pre dle x) (s_entries s))).
Definition invalidate_for_insert_gen (pre dle : vec -> vec -> Q -> bool) (s : state) (x : vec)
  : state * nat := insert_remove pre dle (bump s) x.

Definition prefix_dims : nat := 32.     (* INSERT_INVALIDATION_PREFIX_DIMS *)

Definition invalidate_for_insert (s : state) (x : vec) (m : metric) : state * nat :=
  invalidate_for_insert_gen (can_affect m (Nat.min prefix_dims (length x))) (dist_le m) s x.

(* ------------------------------------------------------------------------------------------ *)
(* sequential operation language of the correspondence check                                   *)
(* ------------------------------------------------------------------------------------------ *)

Inductive op :=
| OGet (scope : N) (q : vec) (k : nat)
| OInsert (scope : N) (q : vec) (rs : list result) (kreq : nat)
| OInsertIfGen (scope : N) (q : vec) (rs : list result) (kreq : nat) (back : N)
      (* expected generation = current generation - back  (back = 0: the current one) *)
| OInvDoc (id : N)
| OInvInsert (x : vec) (m : metric)
| OClear
| OLen
| OGen.

Inductive obs :=
| BGet (r : option (list result))
| BEvict (e : option qkey)
| BBool (b : bool)
| BNat (n : nat)
| BGenDelta (n : N)
| BUnit.

Definition step (cfg : config) (s : state) (o : op) : state * obs :=
  match o with
  | OGet sc q k => let '(s1, r) := get_scoped cfg s sc q k in (s1, BGet r)
  | OInsert sc q rs kr =>
      let '(s1, r) := store cfg s sc q rs kr None in
      (s1, BEvict (match r with Inserted e => e | SkippedGeneration => None end))
  | OInsertIfGen sc q rs kr back =>
      let '(s1, r) := store cfg s sc q rs kr (Some (s_gen s - back)%N) in
      (s1, BBool (match r with Inserted _ => true | SkippedGeneration => false end))
  | OInvDoc id => let '(s1, n) := invalidate_doc s id in (s1, BNat n)
  | OInvInsert x m => let '(s1, n) := invalidate_for_insert s x m in (s1, BNat n)
  | OClear => (clear s, BUnit)
  | OLen => (s, BNat (length (s_entries s)))
  | OGen => (s, BGenDelta (s_gen s))
  end.

Fixpoint run (cfg : config) (s : state) (ops : list op) : list obs :=
  match ops with
  | [] => []
  | o :: r => let '(s1, x) := step cfg s o in x :: run cfg s1 r
  end.

Fixpoint run_state (cfg : config) (s : state) (ops : list op) : state :=
  match ops with
  | [] => s
  | o :: r => run_state cfg (fst (step cfg s o)) r
  end.

(* ---- observation equality ---- *)

Definition result_eqb (a b : result) : bool := N.eqb (fst a) (fst b) && Qeq_bool (snd a) (snd b).

Fixpoint results_eqb (a b : list result) : bool :=
  match a, b with
  | [], [] => true
  | x :: a', y :: b' => result_eqb x y && results_eqb a' b'
  | _, _ => false
  end.

Definition obs_eqb (a b : obs) : bool :=
  match a, b with
  | BGet None, BGet None => true
  | BGet (Some x), BGet (Some y) => results_eqb x y
  | BEvict None, BEvict None => true
  | BEvict (Some x), BEvict (Some y) => zlist_eqb x y
  | BBool x, BBool y => Bool.eqb x y
  | BNat x, BNat y => Nat.eqb x y
  | BGenDelta x, BGenDelta y => N.eqb x y
  | BUnit, BUnit => true
  | _, _ => false
  end.

Fixpoint obs_list_eqb (a b : list obs) : bool :=
  match a, b with
  | [], [] => true
  | x :: r, y :: s => obs_eqb x y && obs_list_eqb r s
  | _, _ => false
  end.

(* ------------------------------------------------------------------------------------------ *)
(* engine-level steps (tiered_engine.rs) over an abstract exact k-NN oracle                    *)
(* ------------------------------------------------------------------------------------------ *)

Definition collection := list (N * vec).      (* canonical cold-tier documents, id -> vector *)

Fixpoint c_get (c : collection) (id : N) : option vec :=
  match c with
  | [] => None
  | (i, v) :: r => if N.eqb i id then Some v else c_get r id
  end.

Fixpoint c_del (c : collection) (id : N) : collection :=
  match c with
  | [] => []
  | (i, v) :: r => if N.eqb i id then c_del r id else (i, v) :: c_del r id
  end.

Definition c_put (c : collection) (id : N) (v : vec) : collection := (id, v) :: c_del c id.

Record estate := mkE {
  e_coll  : collection;
  e_cache : state
}.

Inductive eop :=
| ESearch (scope : N) (q : vec) (k : nat)      (* knn_search_with_ef_detailed_scoped, ef = None *)
| EInsert (id : N) (v : vec)                   (* insert (upsert) *)
| EDelete (id : N)                             (* delete *)
| EUpdateMeta (id : N)                         (* update_metadata *)
| EBulkLoad (docs : list (N * vec))            (* bulk_load_cold_tier *)
| EDriftRepair.                                (* discard_stale_hot_mirror / coherence audit / drain divergence *)

Inductive eobs :=
| RHit (r : list result)                       (* SearchExecutionPath::CacheHit *)
| RFresh (r : list result)
| RDone (b : bool).

Section Engine.
  (* the cache's own view of the metric: prefilter and exact distance comparison *)
  Variable pre dle : vec -> vec -> Q -> bool.
  (* merged hot+cold search, uncached *)
  Variable fresh_search : collection -> vec -> nat -> list result.
  Variable cfg : config.

  (* filter_search_results_to_canonical: invalidate_doc for every result without a canonical
     record; returns the cache and whether anything was pruned *)
  Fixpoint prune_noncanonical (c : collection) (s : state) (rs : list result) : state * bool :=
    match rs with
    | [] => (s, false)
    | (id, _) :: r =>
        match c_get c id with
        | Some _ => prune_noncanonical c s r
        | None => let '(s1, _) := invalidate_doc s id in
                  let '(s2, _) := prune_noncanonical c s1 r in (s2, true)
        end
    end.

  Definition esearch (st : estate) (scope : N) (q : vec) (k : nat) : estate * eobs :=
    let g := s_gen (e_cache st) in                       (* cache_generation, read first *)
    let '(s1, hit) := get_scoped cfg (e_cache st) scope q k in
    let '(s2, served) :=
      match hit with
      | Some cached =>
          let '(s2, pruned) := prune_noncanonical (e_coll st) s1 cached in
          (s2, if pruned then None else Some cached)
      | None => (s1, None)
      end in
    match served with
    | Some cached => (mkE (e_coll st) s2, RHit cached)
    | None =>
        let r := fresh_search (e_coll st) q k in
        let s3 := match r with
                  | [] => s2                             (* !merged_results.is_empty() *)
                  | _ => fst (store cfg s2 scope q r k (Some g))
                  end in
        (mkE (e_coll st) s3, RFresh r)
    end.

  Definition estep (st : estate) (o : eop) : estate * eobs :=
    match o with
    | ESearch scope q k => esearch st scope q k
    | EInsert id v =>
        let c := c_put (e_coll st) id v in               (* cold_tier.insert first *)
        let '(s1, _) := invalidate_doc (e_cache st) id in
        let '(s2, _) := invalidate_for_insert_gen pre dle s1 v in
        (mkE c s2, RDone true)
    | EDelete id =>
        match c_get (e_coll st) id with
        | None => (st, RDone false)
        | Some _ => let '(s1, _) := invalidate_doc (e_cache st) id in
                    (mkE (c_del (e_coll st) id) s1, RDone true)
        end
    | EUpdateMeta id =>
        match c_get (e_coll st) id with
        | None => (st, RDone false)
        | Some _ => (mkE (e_coll st) (clear (e_cache st)), RDone true)
        end
    | EBulkLoad docs =>
        (mkE (fold_left (fun c d => c_put c (fst d) (snd d)) docs (e_coll st))
             (clear (e_cache st)), RDone true)
    | EDriftRepair => (mkE (e_coll st) (clear (e_cache st)), RDone true)
    end.

  Fixpoint erun (st : estate) (ops : list eop) : estate :=
    match ops with
    | [] => st
    | o :: r => erun (fst (estep st o)) r
    end.

  Definition einit : estate := mkE [] empty.

  (* ---------------------------------------------------------------------------------------- *)
  (* interleaving of ONE searcher with ONE writer.  Searcher program (miss path of
     knn_search_with_ef_detailed_scoped):  read generation ; compute ; conditional store.
     Writer program (insert/delete/...):   mutate the collection ; bump generation ; remove.
     Every event is one atomic step (the atomic load, the search, the store under the state
     write lock with its re-check, fetch_add, the removal under the state write lock).        *)
  (* ---------------------------------------------------------------------------------------- *)

  Inductive sphase :=
  | SIdle
  | SHaveGen (scope : N) (q : vec) (k : nat) (g : N)
  | SHaveRes (scope : N) (q : vec) (k : nat) (g : N) (r : list result).

  Inductive wremove :=
  | WRemDoc (id : N)
  | WRemInsert (x : vec)
  | WRemClear.

  Inductive iev :=
  | SRead (scope : N) (q : vec) (k : nat)
  | SCompute
  | SStore
  | WMutPut (id : N) (v : vec)
  | WMutDel (id : N)
  | WBump
  | WRemove (w : wremove).

  Record istate := mkI {
    i_coll  : collection;
    i_cache : state;
    i_ph    : sphase;
    i_bumped_since_compute : bool;     (* ghost: a WBump happened after SCompute *)
    i_log   : list (bool * store_out)  (* ghost: per SStore, (bumped-since-compute, outcome) *)
  }.

  Definition istep (s : istate) (e : iev) : option istate :=
    match e, i_ph s with
    | SRead scope q k, SIdle =>
        Some (mkI (i_coll s) (i_cache s) (SHaveGen scope q k (s_gen (i_cache s))) false (i_log s))
    | SCompute, SHaveGen scope q k g =>
        Some (mkI (i_coll s) (i_cache s)
                  (SHaveRes scope q k g (fresh_search (i_coll s) q k)) false (i_log s))
    | SStore, SHaveRes scope q k g r =>
        let '(c1, out) := store cfg (i_cache s) scope q r k (Some g) in
        Some (mkI (i_coll s) c1 SIdle false ((i_bumped_since_compute s, out) :: i_log s))
    | WMutPut id v, _ =>
        Some (mkI (c_put (i_coll s) id v) (i_cache s) (i_ph s) (i_bumped_since_compute s) (i_log s))
    | WMutDel id, _ =>
        Some (mkI (c_del (i_coll s) id) (i_cache s) (i_ph s) (i_bumped_since_compute s) (i_log s))
    | WBump, ph =>
        Some (mkI (i_coll s) (bump (i_cache s)) ph
                  (match ph with SHaveRes _ _ _ _ _ => true | _ => i_bumped_since_compute s end)
                  (i_log s))
    | WRemove w, _ =>
        let c1 := match w with
                  | WRemDoc id => fst (doc_remove (i_cache s) id)
                  | WRemInsert x => fst (insert_remove pre dle (i_cache s) x)
                  | WRemClear => clear_remove (i_cache s)
                  end in
        Some (mkI (i_coll s) c1 (i_ph s) (i_bumped_since_compute s) (i_log s))
    | _, _ => None
    end.

  Fixpoint irun (s : istate) (evs : list iev) : option istate :=
    match evs with
    | [] => Some s
    | e :: r => match istep s e with Some s1 => irun s1 r | None => None end
    end.

  Definition iinit : istate := mkI [] empty SIdle false [].
End Engine.
