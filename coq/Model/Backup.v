(* Model/Backup.v — executable model of engine/src/backup.rs (BackupManager / RestoreManager).
   NO proofs here (Proofs/BackupProofs.v); everything evaluates under vm_compute.

   What is modelled, following backup.rs:
     create_full_backup          -> create_full_files / create_full
     create_incremental_backup   -> create_incr_files / create_incremental
     restore_from_backup_with_options (chain building, verify-all, clear guard, dry run, extract)
                                 -> build_chain / restore_by_id
     restore_point_in_time_with_options -> pitr_chain / restore_pitr
     clear_data_directory        -> clear_target
     list_backups_from_dir       -> list_backups (stable sort, newest first)
     prune_backups               -> prune_deleted / prune_store
   and what HnswBackend::recover reads from a directory -> recovery_view / restorable.

   Abstractions (stated restrictions):
     * a file name is FManifest | FSnap id ("snapshot_<id>.snap") | FWal id ("wal_<id>.wal") | FOther;
       WAL names that do not parse to an id, and the legacy (non-JSON) MANIFEST layout, are not modelled;
     * file contents are tokens (CBlob) except the MANIFEST, which is structured (CMan);
     * an archive is its member list; "archive exists, parses and its CRC sum equals metadata.checksum"
       is the boolean b_ok (verify_backup_archive);
     * the source-fingerprint retry loop (files changing while being archived) is not modelled: backups
       are taken at quiescent points;
     * a metadata file backup_<id>.json is present iff a record with that b_id is in the store, and its
       `id` field equals the id in its file name. *)
From Coq Require Import List NArith Bool.
Import ListNotations.
Open Scope N_scope.

(* ------------------------------------------------------------------------------------------ *)
(* names, contents, directories                                                                *)
(* ------------------------------------------------------------------------------------------ *)
Inductive fname := FManifest | FSnap (n : N) | FWal (n : N) | FOther (n : N).

Definition fname_eqb (a b : fname) : bool :=
  match a, b with
  | FManifest, FManifest => true
  | FSnap x, FSnap y => x =? y
  | FWal x, FWal y => x =? y
  | FOther x, FOther y => x =? y
  | _, _ => false
  end.

(* persistence::Manifest: latest_snapshot, latest_snapshot_wal_seq, wal_segments; m_aux stands for
   (version, last_updated), which backup.rs copies through untouched. *)
Record manifest := mkMan { m_snap : option N; m_seq : option N; m_segs : list N; m_aux : N }.

Inductive content := CMan (m : manifest) | CBlob (c : N).

Definition optN_eqb (a b : option N) : bool :=
  match a, b with None, None => true | Some x, Some y => x =? y | _, _ => false end.

Fixpoint listN_eqb (a b : list N) : bool :=
  match a, b with
  | [], [] => true
  | x :: r, y :: s => (x =? y) && listN_eqb r s
  | _, _ => false
  end.

Definition manifest_eqb (a b : manifest) : bool :=
  optN_eqb (m_snap a) (m_snap b) && optN_eqb (m_seq a) (m_seq b)
  && listN_eqb (m_segs a) (m_segs b) && (m_aux a =? m_aux b).

Definition content_eqb (a b : content) : bool :=
  match a, b with
  | CMan x, CMan y => manifest_eqb x y
  | CBlob x, CBlob y => x =? y
  | _, _ => false
  end.

(* source data directory: name -> (content, mtime in whole seconds) *)
Definition sdir := list (fname * (content * N)).
(* restore target / archive member list: name -> content *)
Definition tdir := list (fname * content).

Fixpoint sget (d : sdir) (n : fname) : option (content * N) :=
  match d with
  | [] => None
  | (k, v) :: r => if fname_eqb k n then Some v else sget r n
  end.

Fixpoint tget (t : tdir) (n : fname) : option content :=
  match t with
  | [] => None
  | (k, v) :: r => if fname_eqb k n then Some v else tget r n
  end.

(* open_restore_target(create+truncate) + write: overwrite in place, else a new file *)
Fixpoint tput (t : tdir) (n : fname) (c : content) : tdir :=
  match t with
  | [] => [(n, c)]
  | (k, v) :: r => if fname_eqb k n then (k, c) :: r else (k, v) :: tput r n c
  end.

Definition strip (d : sdir) : tdir := map (fun e => (fst e, fst (snd e))) d.

(* ------------------------------------------------------------------------------------------ *)
(* small list helpers                                                                          *)
(* ------------------------------------------------------------------------------------------ *)
Fixpoint memN (x : N) (l : list N) : bool :=
  match l with [] => false | y :: r => (x =? y) || memN x r end.

Fixpoint ins_by {A} (key : A -> N) (x : A) (l : list A) : list A :=
  match l with
  | [] => [x]
  | y :: r => if key x <? key y then x :: y :: r else y :: ins_by key x r
  end.

Definition sort_by {A} (key : A -> N) (l : list A) : list A := fold_right (ins_by key) [] l.

(* Vec::dedup: removes consecutive repeats *)
Fixpoint dedup (l : list N) : list N :=
  match l with
  | [] => []
  | x :: r => match r with
              | [] => [x]
              | y :: _ => if x =? y then dedup r else x :: dedup r
              end
  end.

Fixpoint max_list (l : list N) : option N :=
  match l with
  | [] => None
  | x :: r => match max_list r with None => Some x | Some y => Some (N.max x y) end
  end.

Fixpoint map_opt {A B} (f : A -> option B) (l : list A) : option (list B) :=
  match l with
  | [] => Some []
  | x :: r => match f x, map_opt f r with
              | Some y, Some ys => Some (y :: ys)
              | _, _ => None
              end
  end.

(* WAL files on disk: (id, (content, mtime)), sorted by id — list_wal_segments_in_dir *)
Fixpoint wal_entries (d : sdir) : list (N * (content * N)) :=
  match d with
  | [] => []
  | (FWal s, x) :: r => (s, x) :: wal_entries r
  | _ :: r => wal_entries r
  end.

Definition wal_on_disk (d : sdir) : list (N * (content * N)) := sort_by fst (wal_entries d).

(* manifest.wal_segments extended by the discovered-but-unlisted names, sorted by id, dedup'ed *)
Definition merge_segs (listed extra : list N) : list N :=
  dedup (sort_by (fun s => s) (listed ++ filter (fun s => negb (memN s listed)) extra)).

Definition set_segs (m : manifest) (segs : list N) : manifest :=
  mkMan (m_snap m) (m_seq m) segs (m_aux m).

(* ------------------------------------------------------------------------------------------ *)
(* results                                                                                     *)
(* ------------------------------------------------------------------------------------------ *)
Inductive berr :=
| EManifestSegMissing   (* "MANIFEST references missing WAL segment" *)
| ESnapshotMissing      (* "MANIFEST references missing snapshot" *)
| EBadManifest          (* MANIFEST neither modern JSON nor legacy *)
| ENoState              (* "No recoverable state found" *)
| ENoNewWal             (* "No new WAL files since parent backup" *)
| ENoManifest           (* "Cannot create incremental backup without MANIFEST" *)
| EParentMetaMissing    (* create_incremental: "Parent backup … not found" *)
| ENotFound             (* restore: "Backup … not found" *)
| EParentNotFound       (* restore: "Parent backup … not found" *)
| ENoFull               (* "No full backup found in chain" *)
| EVerify               (* archive missing / malformed / checksum mismatch *)
| ENeedConfirm          (* "Data directory clear requires explicit confirmation" *)
| ENoFullBefore         (* PITR: "No full backup found before timestamp" *)
| EDiverge.             (* model only: parent links form a cycle (the code would loop) *)

Definition berr_eqb (a b : berr) : bool :=
  match a, b with
  | EManifestSegMissing, EManifestSegMissing | ESnapshotMissing, ESnapshotMissing
  | EBadManifest, EBadManifest | ENoState, ENoState | ENoNewWal, ENoNewWal
  | ENoManifest, ENoManifest | EParentMetaMissing, EParentMetaMissing | ENotFound, ENotFound
  | EParentNotFound, EParentNotFound | ENoFull, ENoFull | EVerify, EVerify
  | ENeedConfirm, ENeedConfirm | ENoFullBefore, ENoFullBefore | EDiverge, EDiverge => true
  | _, _ => false
  end.

Inductive res (A : Type) := Ok (a : A) | Err (e : berr).
Arguments Ok {A} a.
Arguments Err {A} e.

(* ------------------------------------------------------------------------------------------ *)
(* backups                                                                                     *)
(* ------------------------------------------------------------------------------------------ *)
Inductive bkind := Full | Incremental.
Definition bkind_eqb (a b : bkind) := match a, b with Full, Full | Incremental, Incremental => true | _, _ => false end.

Record backup := mkBackup {
  b_id : N;
  b_parent : option N;
  b_kind : bkind;
  b_ts : N;                     (* metadata.timestamp, whole seconds *)
  b_files : tdir;               (* archive members, in archive order *)
  b_ok : bool;                  (* verify_backup_archive succeeds *)
  b_max_wal : option N;         (* metadata.max_wal_file_id *)
  b_snapfile : option N;        (* metadata.snapshot_file *)
  b_aux : N                     (* size_bytes, vector_count, description *)
}.

(* archive member list, metadata.max_wal_file_id, metadata.snapshot_file *)
Definition created := (tdir * option N * option N)%type.

(* unique_entries: first occurrence of a name wins *)
Fixpoint uniq_names (seen : list fname) (l : tdir) : tdir :=
  match l with
  | [] => []
  | (n, c) :: r => if existsb (fname_eqb n) seen then uniq_names seen r
                   else (n, c) :: uniq_names (n :: seen) r
  end.

Definition finish_full (entries : tdir) (mx sf : option N) : res created :=
  match entries with
  | [] => Err ENoState
  | _ => Ok (uniq_names [] entries, mx, sf)
  end.

Definition wal_member (d : sdir) (s : N) : option (fname * content) :=
  match sget d (FWal s) with Some (c, _) => Some (FWal s, c) | None => None end.

(* create_full_backup, Modern-manifest and no-manifest branches *)
Definition create_full_files (d : sdir) : res created :=
  match sget d FManifest with
  | Some (CMan m, _) =>
      let disc := map fst (wal_on_disk d) in
      if negb (forallb (fun s => memN s disc) (m_segs m)) then Err EManifestSegMissing else
      let segs := merge_segs (m_segs m) disc in
      let m' := set_segs m segs in
      match (match m_snap m with
             | None => Ok []
             | Some s => match sget d (FSnap s) with
                         | Some (c, _) => Ok [(FSnap s, c)]
                         | None => Err ESnapshotMissing
                         end
             end) with
      | Err e => Err e
      | Ok snap_e =>
          match map_opt (wal_member d) segs with
          | None => Err EManifestSegMissing
          | Some seg_e => finish_full (snap_e ++ (FManifest, CMan m') :: seg_e) (max_list segs) (m_snap m)
          end
      end
  | Some (CBlob _, _) => Err EBadManifest
  | None =>
      let ws := wal_on_disk d in
      finish_full (map (fun e => (FWal (fst e), fst (snd e))) ws) (max_list (map fst ws)) None
  end.

Definition create_full (d : sdir) (id ts aux : N) : res backup :=
  match create_full_files d with
  | Err e => Err e
  | Ok (files, mx, sf) => Ok (mkBackup id None Full ts files true mx sf aux)
  end.

(* create_incremental_backup: segment selection relative to the parent's metadata *)
Definition incr_selected (pts : N) (pmax : option N) (e : N * (content * N)) : bool :=
  let modified := pts <=? snd (snd e) in             (* mtime.as_secs() >= parent.timestamp *)
  match pmax with
  | Some pm => (pm <? fst e) || ((fst e =? pm) && modified)
  | None => modified
  end.

(* csnap: the newest snapshot the parent chain carries (chain_snapshot below).  Since /repo 0a20737 the
   incremental ships the snapshot named by the current MANIFEST when the chain does not carry it, and
   records snapshot_file only in that case. *)
Definition create_incr_files (d : sdir) (pts : N) (pmax : option N) (csnap : option N) : res created :=
  match sget d FManifest with
  | Some (CBlob _, _) => Err EBadManifest            (* read_manifest_layout(..)? comes first *)
  | ml =>
      let sel := filter (incr_selected pts pmax) (wal_on_disk d) in
      match sel with
      | [] => Err ENoNewWal
      | _ =>
          match ml with
          | Some (CMan m, _) =>
              let segs := merge_segs (m_segs m) (map fst sel) in
              match (match m_snap m with
                     | None => Ok ([], None)
                     | Some s =>
                         if optN_eqb csnap (Some s) then Ok ([], None)
                         else match sget d (FSnap s) with
                              | Some (c, _) => Ok ([(FSnap s, c)], Some s)
                              | None => Err ESnapshotMissing
                              end
                     end) with
              | Err e => Err e
              | Ok (snap_e, sf) =>
                  Ok (snap_e ++ (FManifest, CMan (set_segs m segs))
                                :: map (fun e => (FWal (fst e), fst (snd e))) sel,
                      max_list (map fst sel), sf)
              end
          | _ => Err ENoManifest
          end
      end
  end.

Definition store := list backup.

Fixpoint find_b (st : store) (id : N) : option backup :=
  match st with
  | [] => None
  | b :: r => if b_id b =? id then Some b else find_b r id
  end.

(* the `while chain_snapshot.is_none()` walk over the ancestors' metadata files; an unreadable or
   missing ancestor ends the walk (model only: so does running out of fuel on a parent cycle) *)
Fixpoint chain_snapshot (fuel : nat) (st : store) (snap anc : option N) : option N :=
  match snap with
  | Some s => Some s
  | None =>
      match anc with
      | None => None
      | Some a =>
          match fuel with
          | O => None
          | S f => match find_b st a with
                   | None => None
                   | Some mb => chain_snapshot f st (b_snapfile mb) (b_parent mb)
                   end
          end
      end
  end.

Definition create_incremental (st : store) (d : sdir) (parent id ts aux : N) : res backup :=
  match find_b st parent with
  | None => Err EParentMetaMissing
  | Some p =>
      match create_incr_files d (b_ts p) (b_max_wal p)
                              (chain_snapshot (length st) st (b_snapfile p) (b_parent p)) with
      | Err e => Err e
      | Ok (files, mx, sf) => Ok (mkBackup id (Some parent) Incremental ts files true mx sf aux)
      end
  end.

(* ------------------------------------------------------------------------------------------ *)
(* restore                                                                                     *)
(* ------------------------------------------------------------------------------------------ *)
Definition is_full (b : backup) : bool := bkind_eqb (b_kind b) Full.

(* the `while let Some(parent_id) = current.parent_id` loop; acc is the chain so far, oldest first
   (the code pushes and reverses afterwards). *)
Fixpoint chain_up (fuel : nat) (st : store) (cur : backup) (acc : list backup) : res (list backup) :=
  match b_parent cur with
  | None => Ok acc
  | Some pid =>
      match fuel with
      | O => Err EDiverge
      | S f =>
          match find_b st pid with
          | None => Err EParentNotFound
          | Some p => if is_full p then Ok (p :: acc) else chain_up f st p (p :: acc)
          end
      end
  end.

Definition build_chain (st : store) (id : N) : res (list backup) :=
  match find_b st id with
  | None => Err ENotFound
  | Some b =>
      if is_full b then Ok [b] else
      match chain_up (length st) st b [b] with
      | Err e => Err e
      | Ok ch => match ch with
                 | [] => Err ENoFull
                 | h :: _ => if is_full h then Ok ch else Err ENoFull
                 end
      end
  end.

Record copts := mkOpts { o_allow : bool; o_dry : bool; o_env : bool }.

(* clear_data_directory on a target that holds only regular files *)
Definition clear_target (t : tdir) (o : copts) : res tdir :=
  match t with
  | [] => Ok t
  | _ => if negb (o_allow o) && negb (o_env o) then Err ENeedConfirm
         else if o_dry o then Ok t
         else Ok []
  end.

Definition extract (t : tdir) (b : backup) : tdir :=
  fold_left (fun acc e => tput acc (fst e) (snd e)) (b_files b) t.

Definition extract_chain (t : tdir) (ch : list backup) : tdir := fold_left extract ch t.

(* preflight verification of every archive, then the guarded clear, then extraction *)
Definition restore_chain (ch : list backup) (t : tdir) (o : copts) : option berr * tdir :=
  if negb (forallb b_ok ch) then (Some EVerify, t) else
  match clear_target t o with
  | Err e => (Some e, t)
  | Ok t1 => if o_dry o then (None, t1) else (None, extract_chain t1 ch)
  end.

Definition restore_by_id (st : store) (t : tdir) (id : N) (o : copts) : option berr * tdir :=
  match build_chain st id with
  | Err e => (Some e, t)
  | Ok ch => restore_chain ch t o
  end.

(* list_backups_from_dir: stable sort, newest first *)
Fixpoint ins_desc (x : backup) (l : list backup) : list backup :=
  match l with
  | [] => [x]
  | y :: r => if b_ts y <=? b_ts x then x :: y :: r else y :: ins_desc x r
  end.
Definition list_backups (st : store) : list backup := fold_right ins_desc [] st.

Fixpoint pitr_incrementals (fuel : nat) (listing : list backup) (target cur : N) : list backup :=
  match fuel with
  | O => []
  | S f =>
      match find (fun b => optN_eqb (b_parent b) (Some cur) && (b_ts b <=? target)
                           && bkind_eqb (b_kind b) Incremental) listing with
      | Some b => b :: pitr_incrementals f listing target (b_id b)
      | None => []
      end
  end.

Definition pitr_chain (st : store) (target : N) : res (list backup) :=
  let listing := list_backups st in
  match find (fun b => (b_ts b <=? target) && is_full b) listing with
  | None => Err ENoFullBefore
  | Some f => Ok (f :: pitr_incrementals (length listing) listing target (b_id f))
  end.

Definition restore_pitr (st : store) (t : tdir) (target : N) (o : copts) : option berr * tdir :=
  match pitr_chain st target with
  | Err e => (Some e, t)
  | Ok ch => restore_chain ch t o
  end.

(* ------------------------------------------------------------------------------------------ *)
(* what recovery reads                                                                         *)
(* ------------------------------------------------------------------------------------------ *)
(* HnswBackend::recover needs MANIFEST, the snapshot it names and every segment it lists. The view
   is the abstract token of the collection: equal views => identical recovery input. *)
Definition rview := (manifest * option content * list content)%type.

Definition recovery_view (t : tdir) : option rview :=
  match tget t FManifest with
  | Some (CMan m) =>
      match (match m_snap m with
             | None => Some None
             | Some s => match tget t (FSnap s) with Some c => Some (Some c) | None => None end
             end) with
      | None => None
      | Some sn =>
          match map_opt (fun s => tget t (FWal s)) (m_segs m) with
          | None => None
          | Some cs => Some (m, sn, cs)
          end
      end
  | _ => None
  end.

Definition restorable (t : tdir) : bool := match recovery_view t with Some _ => true | None => false end.

(* ------------------------------------------------------------------------------------------ *)
(* prune_backups                                                                               *)
(* ------------------------------------------------------------------------------------------ *)
Record policy := mkPolicy { hourly_hours : N; daily_days : N; weekly_weeks : N; monthly_months : N; min_age_days : N }.

Definition HOUR := 3600.
Definition DAY := 86400.
Definition WEEK := 604800.
Definition MONTH := 2592000.

(* category 0 hourly, 1 daily, 2 weekly, 3 monthly; bucket = timestamp / period *)
Definition bucket_of (now : N) (p : policy) (ts : N) : option (N * N) :=
  let age := now - ts in                                  (* saturating_sub *)
  if age <? hourly_hours p * HOUR then Some (0, ts / HOUR)
  else if age <? daily_days p * DAY then Some (1, ts / DAY)
  else if age <? weekly_weeks p * WEEK then Some (2, ts / WEEK)
  else if age <? monthly_months p * MONTH then Some (3, ts / MONTH)
  else None.

Definition bucket_eqb (a b : option (N * N)) : bool :=
  match a, b with
  | Some (c, k), Some (c', k') => (c =? c') && (k =? k')
  | _, _ => false
  end.

(* Iterator::max_by_key: the LAST of the maximal elements *)
Fixpoint last_max (l : list backup) (best : option backup) : option backup :=
  match l with
  | [] => best
  | b :: r => last_max r (match best with
                          | None => Some b
                          | Some x => if b_ts x <=? b_ts b then Some b else Some x
                          end)
  end.

(* `listing` is what list_backups returned; buckets keep listing order *)
Definition kept (now : N) (p : policy) (listing : list backup) (b : backup) : bool :=
  match bucket_of now p (b_ts b) with
  | None => false
  | Some key =>
      match last_max (filter (fun x => bucket_eqb (bucket_of now p (b_ts x)) (Some key)) listing) None with
      | Some x => b_id x =? b_id b
      | None => false
      end
  end.

Definition young (now : N) (p : policy) (b : backup) : bool := now - b_ts b <? min_age_days p * DAY.

(* Since /repo b41f57f: the keep set (ids) is closed under "parent of a backup that survives":
     while changed { for b in backups { if to_keep.contains(b.id) || young(b) { to_keep.insert(parent) } } } *)
Definition keep_step (now : N) (p : policy) (keep : list N) (b : backup) : list N :=
  if memN (b_id b) keep || young now p b then
    match b_parent b with
    | Some pid => if memN pid keep then keep else keep ++ [pid]
    | None => keep
    end
  else keep.

Definition keep_pass (now : N) (p : policy) (listing : list backup) (keep : list N) : list N :=
  fold_left (keep_step now p) listing keep.

Fixpoint keep_close (fuel : nat) (now : N) (p : policy) (listing : list backup) (keep : list N) : list N :=
  match fuel with
  | O => keep
  | S f => let k' := keep_pass now p listing keep in
           if Nat.eqb (length k') (length keep) then keep
           else keep_close f now p listing k'
  end.

Definition keep_set (now : N) (p : policy) (listing : list backup) : list N :=
  keep_close (S (length listing + length listing)) now p listing
             (map b_id (filter (kept now p listing) listing)).

Definition prune_deletes (now : N) (p : policy) (listing : list backup) (b : backup) : bool :=
  negb (memN (b_id b) (keep_set now p listing)) && negb (young now p b).

Definition prune_deleted (now : N) (p : policy) (listing : list backup) : list N :=
  map b_id (filter (prune_deletes now p listing) listing).

Definition prune_store (now : N) (p : policy) (st : store) : store :=
  let listing := list_backups st in
  let del := prune_deleted now p listing in
  filter (fun b => negb (memN (b_id b) del)) st.

(* ------------------------------------------------------------------------------------------ *)
(* comparison helpers for the correspondence (cases_*.v)                                       *)
(* ------------------------------------------------------------------------------------------ *)
Fixpoint tdir_list_eqb (a b : tdir) : bool :=
  match a, b with
  | [], [] => true
  | (n, c) :: r, (n', c') :: s => fname_eqb n n' && content_eqb c c' && tdir_list_eqb r s
  | _, _ => false
  end.

Definition tdir_sub (a b : tdir) : bool :=
  forallb (fun e => match tget b (fst e) with Some c => content_eqb c (snd e) | None => false end) a.

(* same files with the same contents, order irrelevant (names are unique in a directory) *)
Definition tdir_set_eqb (a b : tdir) : bool :=
  tdir_sub a b && tdir_sub b a && (N.of_nat (length a) =? N.of_nat (length b)).

Definition created_eqb (a b : res created) : bool :=
  match a, b with
  | Ok (f, mx, sf), Ok (f', mx', sf') => tdir_list_eqb f f' && optN_eqb mx mx' && optN_eqb sf sf'
  | Err e, Err e' => berr_eqb e e'
  | _, _ => false
  end.

Definition outcome_eqb (a b : option berr * tdir) : bool :=
  (match fst a, fst b with
   | None, None => true
   | Some e, Some e' => berr_eqb e e'
   | _, _ => false
   end) && tdir_set_eqb (snd a) (snd b).

(* ------------------------------------------------------------------------------------------ *)
(* executable versions of the premises of the C12 theorems (Proofs/BackupProofs.v shows they imply
   the Prop versions); evaluated by the correspondence on the directories of the real engine.   *)
(* ------------------------------------------------------------------------------------------ *)
Fixpoint nodup_names (l : list fname) : bool :=
  match l with
  | [] => true
  | x :: r => negb (existsb (fname_eqb x) r) && nodup_names r
  end.

Fixpoint sorted_lt (l : list N) : bool :=
  match l with
  | [] => true
  | x :: r => match r with [] => true | y :: _ => (x <? y) && sorted_lt r end
  end.

Definition is_some {A} (o : option A) : bool := match o with Some _ => true | None => false end.

Definition wf_sdirb (d : sdir) (m : manifest) : bool :=
  nodup_names (map fst d)
  && (match sget d FManifest with Some (CMan m', _) => manifest_eqb m' m | _ => false end)
  && sorted_lt (m_segs m)
  && forallb (fun s => is_some (sget d (FWal s))) (m_segs m)
  && forallb (fun e => memN (fst e) (m_segs m)) (wal_entries d)
  && (match m_snap m with Some s => is_some (sget d (FSnap s)) | None => true end).

(* every segment the incremental would not select is unchanged since the parent's directory *)
Definition evolvesb (dp : sdir) (pts : N) (pmax : option N) (d : sdir) : bool :=
  forallb (fun e => incr_selected pts pmax e
                    || match sget dp (FWal (fst e)) with
                       | Some (c, _) => content_eqb c (fst (snd e))
                       | None => false
                       end) (wal_entries d).

(* a snapshot name denotes one content: files present in both directories under a snapshot name agree *)
Definition snap_stableb (dp d : sdir) : bool :=
  forallb (fun e => match fst e with
                    | FSnap s => match sget dp (FSnap s) with
                                 | Some (c, _) => content_eqb c (fst (snd e))
                                 | None => true
                                 end
                    | _ => true
                    end) d.

(* compact constructor used by the prune timelines of the correspondence (metadata only) *)
Definition pbk (id : N) (parent : option N) (k : bkind) (ts : N) : backup :=
  mkBackup id parent k ts [] true None None 0.
