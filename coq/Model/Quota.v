(* Model/Quota.v — executable model of the per-tenant vector quota bookkeeping of
   engine/src/bin/kyrodb_server.rs (auth enabled).  NO proofs in this file.

   PART 1 (sequential): per tenant
       t_count  = tenant_vector_counts[tenant_id]   (an absent entry behaves exactly like 0: the
                  decrement paths skip an absent entry, enforce/reserve create it with 0, main() creates
                  one per enabled tenant)
       t_live   = the tenant's live documents (set of LOCAL ids; the engine keys them by
                  tenant_index<<32|local, and every write path stamps __tenant_idx__, so "documents
                  carrying the tenant's reserved key" = this set: Model/Server.v + C10)
       t_tags   = one metadata value per id (only so that BatchDelete-by-filter can select a subset)
       t_usage  = UsageTracker vector_count (what GET /usage reports)
   and the handlers exactly as the code:
     insert            validate_insert_request; map_doc_id; [quota mutex] enforce_vector_quota
                       (exists => no reservation | count >= max_vectors => RESOURCE_EXHAUSTED | count+1);
                       engine.insert; on Err and !already_exists: decrement 1 (release)
     bulk_insert       the same critical section PER ITEM (stream validation is weaker: NaN passes and
                       fails in the engine); duplicates inside a stream are successive items
     bulk_load_hnsw    validation per item; ONE reservation per batch = number of distinct ids that do
                       not exist; RESOURCE_EXHAUSTED refuses the whole call; per-item cold insert;
                       inserted_now = reserved ids that exist afterwards; release reserved-inserted_now
     delete            get_metadata miss => existed=false; decrement 1 only when engine.delete says true
     batch_delete ids  ids filtered to existing own documents; TieredEngine::batch_delete dedupes, counts
                       the existing ones, deletes; decrement by that count.  filter: ids matching
     main()            start-up recount: count := number of documents carrying the tenant's key
   An embedding is abstracted to what the validation layers and the engine can tell apart (vkind).

   PART 2 (interleaving): the same protocol at lock granularity for two concurrent RPCs of ONE tenant;
   every step below is one atomic action of the code (a mutex operation, one RwLock-protected
   counter update, one engine call that runs under the engine's write gate, one read):
     insert        lock quota mutex; engine.exists; reserve; cold_tier.insert; read coherence token
                   (TieredEngine::insert fails "no canonical token" when the document is gone again);
                   release; unlock
     bulk_insert   one such critical section per stream item
     bulk_load     lock; compute new ids; reserve; cold insert per item; recount; release; unlock
     delete        lock quota mutex; get_metadata; engine.delete; decrement; unlock
     batch_delete  lock quota mutex; filter by get_metadata; pre-count existing; engine batch delete;
                   decrement; unlock
   (Delete / BatchDelete take tenant_quota_lock since /repo 3784711.  The flag d_mutex / b_mutex = false
   selects the protocol BEFORE that commit, in which they ran without the mutex; it is kept only as
   regression documentation: the drift witnesses in Properties/C14.v run on it.)
   A schedule is a list of thread choices; a blocked or finished thread's turn is a no-op. *)
From Coq Require Import List NArith Bool.
From Kyro Require Model.Server.
Import ListNotations.
Open Scope N_scope.

(* ------------------------------------------------------------------ finite sets of ids *)
Definition mem (x : N) (l : list N) : bool := existsb (N.eqb x) l.
Definition add (l : list N) (x : N) : list N := if mem x l then l else l ++ [x].
Definition remove (l : list N) (x : N) : list N := List.filter (fun y => negb (N.eqb x y)) l.
Definition remove_all (l xs : list N) : list N := List.filter (fun y => negb (mem y xs)) l.
Definition keep_in (l xs : list N) : list N := List.filter (fun y => mem y l) xs.   (* the xs that are in l *)
Fixpoint dedup (l : list N) : list N :=
  match l with [] => [] | x :: r => if mem x r then dedup r else x :: dedup r end.
Definition len {A} (l : list A) : N := N.of_nat (List.length l).

(* ------------------------------------------------------------------ requests *)
Inductive vkind :=
| VGood          (* right dimension, finite, non-zero *)
| VEmpty         (* no coordinates *)
| VNonFinite     (* NaN / Inf coordinate, right dimension *)
| VWrongDim      (* finite, length <> configured dimension (and <= MAX_EMBEDDING_DIM) *)
| VZero.         (* all-zero vector of the right dimension: rejected by cosine / inner product only *)
Record qitem := mkQItem { qi_id : N; qi_kind : vkind; qi_tag : N }.

Inductive sel := SelAll | SelTags (ts : list N) | SelNothing.
Inductive qop :=
| QInsert (it : qitem)
| QBulkInsert (its : list qitem)
| QBulkLoad (its : list qitem)
| QDelete (id : N)
| QBatchDeleteIds (ids : list N)
| QBatchDeleteFilter (f : sel)
| QBatchDeleteNone
| QProbe (id : N).        (* the harness's boundary probe: Insert of a fresh id, deleted again when admitted *)
Inductive qev := QCall (t : N) (op : qop) | QRestart.

Inductive qresp :=
| QErrInvalid | QErrExhausted | QErrInternal
| QOkInsert (inserted failed : N)
| QOkLoad (loaded failed : N)
| QOkExisted (existed : bool)
| QOkBatch (deleted : N)
| QOkProbe (refused : bool)
| QOkRestart.

(* ------------------------------------------------------------------ state *)
Record tstate := mkT { t_count : N; t_live : list N; t_tags : Server.nmap N; t_usage : N }.
Definition t0 : tstate := mkT 0 [] [] 0.
Definition qstate := Server.nmap tstate.
Definition tget (s : qstate) (t : N) : tstate := match Server.nget s t with Some x => x | None => t0 end.
Definition tset (s : qstate) (t : N) (x : tstate) : qstate := Server.nset s t x.
Record qcfg := mkQCfg { q_limit : N -> N; q_cosine : bool }.

Definition set_count (ts : tstate) (c : N) : tstate := mkT c (t_live ts) (t_tags ts) (t_usage ts).
Definition tag_of (ts : tstate) (id : N) : N := match Server.nget (t_tags ts) id with Some x => x | None => 0 end.

Definition U32_MAX : N := Server.U32_MAX.
Definition is_empty (k : vkind) : bool := match k with VEmpty => true | _ => false end.
Definition is_nonfinite (k : vkind) : bool := match k with VNonFinite => true | _ => false end.
(* TieredEngine::insert / HnswBackend::insert acceptance as far as these inputs go *)
Definition engine_ok (cfg : qcfg) (k : vkind) : bool :=
  match k with VGood => true | VZero => negb (q_cosine cfg) | _ => false end.

(* enforce_vector_quota: None = RESOURCE_EXHAUSTED, Some (already_exists, state) *)
Definition enforce (cfg : qcfg) (t : N) (ts : tstate) (id : N) : option (bool * tstate) :=
  if mem id (t_live ts) then Some (true, ts)
  else if q_limit cfg t <=? t_count ts then None
  else Some (false, set_count ts (t_count ts + 1)).
(* decrement_tenant_vectors / release_reserved_tenant_vectors: saturating *)
Definition dec_count (ts : tstate) (n : N) : tstate := if n =? 0 then ts else set_count ts (t_count ts - n).

(* the critical section shared by insert and by one bulk_insert item *)
Inductive ires := IExhausted | IInserted | IEngineFailed.
Definition insert_core (cfg : qcfg) (t : N) (ts : tstate) (it : qitem) : tstate * ires :=
  match enforce cfg t ts (qi_id it) with
  | None => (ts, IExhausted)
  | Some (already, ts1) =>
    if engine_ok cfg (qi_kind it) then
      (mkT (t_count ts1) (add (t_live ts1) (qi_id it)) (Server.nset (t_tags ts1) (qi_id it) (qi_tag it))
           (if already then t_usage ts1 else t_usage ts1 + 1), IInserted)
    else ((if already then ts1 else dec_count ts1 1), IEngineFailed)
  end.

(* ---- Insert *)
Definition h_insert (cfg : qcfg) (t : N) (ts : tstate) (it : qitem) : tstate * qresp :=
  if qi_id it <? 1 then (ts, QErrInvalid)
  else if is_empty (qi_kind it) || is_nonfinite (qi_kind it) then (ts, QErrInvalid)
  else if U32_MAX <? qi_id it then (ts, QErrInvalid)
  else match insert_core cfg t ts it with
       | (ts', IExhausted) => (ts', QErrExhausted)
       | (ts', IInserted) => (ts', QOkInsert 1 0)
       | (ts', IEngineFailed) => (ts', QErrInternal)
       end.

(* ---- BulkInsert: one stream item *)
Definition bulk_item (cfg : qcfg) (t : N) (acc : tstate * (N * N)) (it : qitem) : tstate * (N * N) :=
  let '(ts, (ins, failed)) := acc in
  if qi_id it <? 1 then (ts, (ins, failed + 1))
  else if is_empty (qi_kind it) then (ts, (ins, failed + 1))
  else if U32_MAX <? qi_id it then (ts, (ins, failed + 1))
  else match insert_core cfg t ts it with
       | (ts', IInserted) => (ts', (ins + 1, failed))
       | (ts', _) => (ts', (ins, failed + 1))
       end.
Definition h_bulk_insert (cfg : qcfg) (t : N) (ts : tstate) (its : list qitem) : tstate * qresp :=
  let '(ts', (ins, failed)) := fold_left (bulk_item cfg t) its (ts, (0, 0)) in
  (ts', QOkInsert ins failed).

(* ---- BulkLoadHnsw (one batch: streams are far below MAX_BATCH_SIZE) *)
Definition bl_valid (it : qitem) : bool :=
  negb (qi_id it <? 1) && negb (is_empty (qi_kind it)) && negb (U32_MAX <? qi_id it).
Definition load_item (cfg : qcfg) (acc : list N * Server.nmap N * (N * N)) (it : qitem)
  : list N * Server.nmap N * (N * N) :=
  let '(live, tags, (loaded, failed)) := acc in
  if engine_ok cfg (qi_kind it) then (add live (qi_id it), Server.nset tags (qi_id it) (qi_tag it), (loaded + 1, failed))
  else (live, tags, (loaded, failed + 1)).
Definition h_bulk_load (cfg : qcfg) (t : N) (ts : tstate) (its : list qitem) : tstate * qresp :=
  let batch := List.filter bl_valid its in
  let bad := len its - len batch in                       (* validation_errors *)
  match batch with
  | [] => (ts, QOkLoad 0 bad)
  | _ =>
    let new_ids := dedup (List.filter (fun x => negb (mem x (t_live ts))) (map qi_id batch)) in
    let reserved := len new_ids in
    (* reserve_tenant_vectors: count 0 => Ok *)
    if negb (reserved =? 0) && (q_limit cfg t <? t_count ts + reserved) then (ts, QErrExhausted)
    else
      let c1 := t_count ts + reserved in
      let '(live', tags', (loaded, failed)) := fold_left (load_item cfg) batch (t_live ts, t_tags ts, (0, 0)) in
      let inserted_now := len (keep_in live' new_ids) in
      (* reserved = 0: nothing is released and no usage is recorded — the same numbers *)
      (mkT (c1 - (reserved - inserted_now)) live' tags' (t_usage ts + inserted_now), QOkLoad loaded (failed + bad))
  end.

(* ---- Delete *)
Definition delete_core (ts : tstate) (id : N) : tstate * bool :=
  if mem id (t_live ts) then
    (mkT (t_count ts - 1) (remove (t_live ts) id) (t_tags ts) (t_usage ts - 1), true)
  else (ts, false).
Definition h_delete (ts : tstate) (id : N) : tstate * qresp :=
  if id <? 1 then (ts, QErrInvalid)
  else if U32_MAX <? id then (ts, QErrInvalid)
  else let '(ts', e) := delete_core ts id in (ts', QOkExisted e).

(* ---- BatchDelete.  TieredEngine::batch_delete: dedupe, count the existing ones, delete them *)
Definition batch_delete_core (ts : tstate) (gs : list N) : tstate * qresp :=
  let u := dedup gs in
  let n := len (keep_in (t_live ts) u) in
  if n =? 0 then (ts, QOkBatch 0)
  else (mkT (t_count ts - n) (remove_all (t_live ts) u) (t_tags ts) (t_usage ts - n), QOkBatch n).
Definition h_batch_delete_ids (ts : tstate) (ids : list N) : tstate * qresp :=
  if existsb (fun i => U32_MAX <? i) ids then (ts, QErrInvalid)
  else batch_delete_core ts (keep_in (t_live ts) ids).
Definition sel_matches (f : sel) (tag : N) : bool :=
  match f with SelAll => true | SelTags l => mem tag l | SelNothing => false end.
Definition h_batch_delete_filter (ts : tstate) (f : sel) : tstate * qresp :=
  batch_delete_core ts (List.filter (fun id => sel_matches f (tag_of ts id)) (t_live ts)).

(* ---- the harness's probe: Insert(fresh id, good vector); Delete(id) when it was admitted *)
Definition h_probe (cfg : qcfg) (t : N) (ts : tstate) (id : N) : tstate * qresp :=
  match insert_core cfg t ts (mkQItem id VGood 0) with
  | (_, IExhausted) => (ts, QOkProbe true)
  | (ts1, _) => (fst (delete_core ts1 id), QOkProbe false)
  end.

Definition handle (cfg : qcfg) (t : N) (ts : tstate) (op : qop) : tstate * qresp :=
  match op with
  | QInsert it => h_insert cfg t ts it
  | QBulkInsert its => h_bulk_insert cfg t ts its
  | QBulkLoad its => h_bulk_load cfg t ts its
  | QDelete id => h_delete ts id
  | QBatchDeleteIds ids => h_batch_delete_ids ts ids
  | QBatchDeleteFilter f => h_batch_delete_filter ts f
  | QBatchDeleteNone => (ts, QErrInvalid)
  | QProbe id => h_probe cfg t ts id
  end.

(* main(): tenant_vector_counts rebuilt from the metadata index; usage state is persisted *)
Definition recount (s : qstate) : qstate :=
  map (fun p => (fst p, set_count (snd p) (len (t_live (snd p))))) s.

Definition qstep (cfg : qcfg) (s : qstate) (e : qev) : qstate * qresp :=
  match e with
  | QCall t op => let '(ts', r) := handle cfg t (tget s t) op in (tset s t ts', r)
  | QRestart => (recount s, QOkRestart)
  end.
Fixpoint qrun_from (cfg : qcfg) (s : qstate) (es : list qev) : qstate * list qresp :=
  match es with
  | [] => (s, [])
  | e :: r => let '(s1, o) := qstep cfg s e in
              let '(s2, os) := qrun_from cfg s1 r in (s2, o :: os)
  end.
Definition qfinal (cfg : qcfg) (es : list qev) : qstate := fold_left (fun s e => fst (qstep cfg s e)) es [].

(* ------------------------------------------------------------------ comparison with observations *)
Definition qresp_eqb (a b : qresp) : bool :=
  match a, b with
  | QErrInvalid, QErrInvalid | QErrExhausted, QErrExhausted | QErrInternal, QErrInternal
  | QOkRestart, QOkRestart => true
  | QOkInsert i f, QOkInsert i' f' => (i =? i') && (f =? f')
  | QOkLoad i f, QOkLoad i' f' => (i =? i') && (f =? f')
  | QOkExisted b1, QOkExisted b2 => Bool.eqb b1 b2
  | QOkBatch n, QOkBatch n' => n =? n'
  | QOkProbe b1, QOkProbe b2 => Bool.eqb b1 b2
  | _, _ => false
  end.
Definition subset (a b : list N) : bool := forallb (fun x => mem x b) a.
Definition same_set (a b : list N) : bool := subset a b && subset b a && (len a =? len b).
(* one observed event: the event, the response class, and — taken right after it for tenant `who` —
   the BulkQuery census (found ids) and GET /usage vector_count *)
Record qobs := mkQObs { o_ev : qev; o_resp : qresp; o_who : N; o_census : list N; o_usage : N }.
Fixpoint check_from (cfg : qcfg) (s : qstate) (i : N) (os : list qobs) : list N :=
  match os with
  | [] => []
  | o :: r =>
    let '(s1, m) := qstep cfg s (o_ev o) in
    let ts := tget s1 (o_who o) in
    let ok := qresp_eqb m (o_resp o) && same_set (o_census o) (t_live ts) && (o_usage o =? t_usage ts) in
    (if ok then [] else [i]) ++ check_from cfg s1 (i + 1) r
  end.
Definition check_script (cfg : qcfg) (os : list qobs) : list N := check_from cfg [] 0 os.

(* ================================================================== PART 2: interleavings *)
(* sh_mutex: the id (position in the list of concurrent calls) of the call holding tenant_quota_lock *)
Record shared := mkSh { sh_mutex : option nat; sh_count : N; sh_live : list N }.

(* ---- Insert thread *)
Inductive ipc := ILock | IExists | IReserve | ICold | IToken | IRelease | IUnlock | IDone.
Record ithr := mkI { i_pc : ipc; i_id : N; i_ok : bool; i_ex : bool; i_failed : bool; i_refused : bool }.
Definition istart (id : N) (ok : bool) : ithr := mkI ILock id ok false false false.
Definition ipc_set (th : ithr) (pc : ipc) : ithr := mkI pc (i_id th) (i_ok th) (i_ex th) (i_failed th) (i_refused th).
Definition istep (limit : N) (me : nat) (sh : shared) (th : ithr) : option (shared * ithr) :=
  match i_pc th with
  | ILock => match sh_mutex sh with
             | None => Some (mkSh (Some me) (sh_count sh) (sh_live sh), ipc_set th IExists)
             | Some _ => None
             end
  | IExists => Some (sh, mkI IReserve (i_id th) (i_ok th) (mem (i_id th) (sh_live sh)) (i_failed th) (i_refused th))
  | IReserve =>
      if i_ex th then Some (sh, ipc_set th ICold)
      else if limit <=? sh_count sh then Some (sh, mkI IUnlock (i_id th) (i_ok th) (i_ex th) (i_failed th) true)
      else Some (mkSh (sh_mutex sh) (sh_count sh + 1) (sh_live sh), ipc_set th ICold)
  | ICold =>
      if i_ok th then Some (mkSh (sh_mutex sh) (sh_count sh) (add (sh_live sh) (i_id th)), ipc_set th IToken)
      else Some (sh, mkI IRelease (i_id th) (i_ok th) (i_ex th) true (i_refused th))
  | IToken =>
      if mem (i_id th) (sh_live sh) then Some (sh, ipc_set th IRelease)
      else Some (sh, mkI IRelease (i_id th) (i_ok th) (i_ex th) true (i_refused th))
  | IRelease =>
      if i_failed th && negb (i_ex th) then Some (mkSh (sh_mutex sh) (sh_count sh - 1) (sh_live sh), ipc_set th IUnlock)
      else Some (sh, ipc_set th IUnlock)
  | IUnlock => Some (mkSh None (sh_count sh) (sh_live sh), ipc_set th IDone)
  | IDone => None
  end.

(* ---- Delete thread.  d_mutex = true: the code as it is (under the quota mutex);
        d_mutex = false: the OLD protocol before /repo 3784711 (no mutex) — regression documentation only *)
Inductive dpc := DLock | DMeta | DEngine | DDecr | DUnlock | DDone.
Record dthr := mkD { d_pc : dpc; d_id : N; d_existed : bool; d_mutex : bool }.
Definition dstart (id : N) : dthr := mkD DLock id false true.
Definition dstart_old (id : N) : dthr := mkD DLock id false false.
Definition dstep (me : nat) (sh : shared) (th : dthr) : option (shared * dthr) :=
  match d_pc th with
  | DLock => if d_mutex th
             then match sh_mutex sh with
                  | None => Some (mkSh (Some me) (sh_count sh) (sh_live sh), mkD DMeta (d_id th) false (d_mutex th))
                  | Some _ => None
                  end
             else Some (sh, mkD DMeta (d_id th) false (d_mutex th))
  | DMeta => if mem (d_id th) (sh_live sh) then Some (sh, mkD DEngine (d_id th) false (d_mutex th))
             else Some (sh, mkD DUnlock (d_id th) false (d_mutex th))
  | DEngine => if mem (d_id th) (sh_live sh)
               then Some (mkSh (sh_mutex sh) (sh_count sh) (remove (sh_live sh) (d_id th)), mkD DDecr (d_id th) true (d_mutex th))
               else Some (sh, mkD DUnlock (d_id th) false (d_mutex th))
  | DDecr => Some (mkSh (sh_mutex sh) (sh_count sh - 1) (sh_live sh), mkD DUnlock (d_id th) true (d_mutex th))
  | DUnlock => Some ((if d_mutex th then mkSh None (sh_count sh) (sh_live sh) else sh), mkD DDone (d_id th) (d_existed th) (d_mutex th))
  | DDone => None
  end.

(* ---- BatchDelete(ids) thread.  b_mutex as d_mutex above *)
Inductive bpc := BLock | BFilter | BCount | BEngine | BDecr | BUnlock | BDone.
Record bthr := mkB { b_pc : bpc; b_ids : list N; b_n : N; b_mutex : bool }.
Definition bstart (ids : list N) : bthr := mkB BLock ids 0 true.
Definition bstart_old (ids : list N) : bthr := mkB BLock ids 0 false.
Definition bstep (me : nat) (sh : shared) (th : bthr) : option (shared * bthr) :=
  match b_pc th with
  | BLock => if b_mutex th
             then match sh_mutex sh with
                  | None => Some (mkSh (Some me) (sh_count sh) (sh_live sh), mkB BFilter (b_ids th) 0 (b_mutex th))
                  | Some _ => None
                  end
             else Some (sh, mkB BFilter (b_ids th) 0 (b_mutex th))
  | BFilter => Some (sh, mkB BCount (keep_in (sh_live sh) (b_ids th)) 0 (b_mutex th))
  | BCount => let u := dedup (b_ids th) in
              let n := len (keep_in (sh_live sh) u) in
              if n =? 0 then Some (sh, mkB BUnlock u 0 (b_mutex th)) else Some (sh, mkB BEngine u n (b_mutex th))
  | BEngine => Some (mkSh (sh_mutex sh) (sh_count sh) (remove_all (sh_live sh) (b_ids th)), mkB BDecr (b_ids th) (b_n th) (b_mutex th))
  | BDecr => Some (mkSh (sh_mutex sh) (sh_count sh - b_n th) (sh_live sh), mkB BUnlock (b_ids th) (b_n th) (b_mutex th))
  | BUnlock => Some ((if b_mutex th then mkSh None (sh_count sh) (sh_live sh) else sh), mkB BDone (b_ids th) (b_n th) (b_mutex th))
  | BDone => None
  end.

(* ---- BulkLoadHnsw thread: items are (id, engine accepts?) *)
Inductive lpc := LLock | LNew | LReserve | LLoad | LRecount | LRelease | LUnlock | LDone.
Record lthr := mkL { l_pc : lpc; l_items : list (N * bool); l_todo : list (N * bool); l_new : list N;
                     l_reserved : N; l_now : N; l_refused : bool }.
Definition lstart (items : list (N * bool)) : lthr := mkL LLock items items [] 0 0 false.
Definition lstep (limit : N) (me : nat) (sh : shared) (th : lthr) : option (shared * lthr) :=
  let upd pc := mkL pc (l_items th) (l_todo th) (l_new th) (l_reserved th) (l_now th) (l_refused th) in
  match l_pc th with
  | LLock => match sh_mutex sh with
             | None => Some (mkSh (Some me) (sh_count sh) (sh_live sh), upd LNew)
             | Some _ => None
             end
  | LNew => Some (sh, mkL LReserve (l_items th) (l_todo th)
                          (dedup (List.filter (fun x => negb (mem x (sh_live sh))) (map fst (l_items th))))
                          0 0 false)
  | LReserve =>
      let r := len (l_new th) in
      if negb (r =? 0) && (limit <? sh_count sh + r)
      then Some (sh, mkL LUnlock (l_items th) (l_todo th) (l_new th) 0 0 true)
      else Some (mkSh (sh_mutex sh) (sh_count sh + r) (sh_live sh),
                 mkL LLoad (l_items th) (l_todo th) (l_new th) r 0 false)
  | LLoad =>
      match l_todo th with
      | [] => Some (sh, upd LRecount)
      | (id, ok) :: rest =>
          Some (mkSh (sh_mutex sh) (sh_count sh) (if ok then add (sh_live sh) id else sh_live sh),
                mkL LLoad (l_items th) rest (l_new th) (l_reserved th) (l_now th) (l_refused th))
      end
  | LRecount => Some (sh, mkL LRelease (l_items th) (l_todo th) (l_new th) (l_reserved th)
                              (len (keep_in (sh_live sh) (l_new th))) (l_refused th))
  | LRelease => Some (mkSh (sh_mutex sh) (sh_count sh - (l_reserved th - l_now th)) (sh_live sh), upd LUnlock)
  | LUnlock => Some (mkSh None (sh_count sh) (sh_live sh), upd LDone)
  | LDone => None
  end.

(* ---- threads *)
Inductive thr :=
| TI (x : ithr)
| TBI (cur : ithr) (rest : list (N * bool))      (* bulk_insert: current item's critical section, items to come *)
| TL (x : lthr)
| TD (x : dthr)
| TB (x : bthr).
Definition tstep (limit : N) (me : nat) (sh : shared) (th : thr) : option (shared * thr) :=
  match th with
  | TI x => match istep limit me sh x with Some (sh', x') => Some (sh', TI x') | None => None end
  | TBI cur rest =>
      match i_pc cur, rest with
      | IDone, [] => None
      | IDone, (id, ok) :: r => Some (sh, TBI (istart id ok) r)          (* stream.message().await *)
      | _, _ => match istep limit me sh cur with Some (sh', x') => Some (sh', TBI x' rest) | None => None end
      end
  | TL x => match lstep limit me sh x with Some (sh', x') => Some (sh', TL x') | None => None end
  | TD x => match dstep me sh x with Some (sh', x') => Some (sh', TD x') | None => None end
  | TB x => match bstep me sh x with Some (sh', x') => Some (sh', TB x') | None => None end
  end.
Definition tdone (th : thr) : bool :=
  match th with
  | TI x => match i_pc x with IDone => true | _ => false end
  | TBI cur rest => match i_pc cur, rest with IDone, [] => true | _, _ => false end
  | TL x => match l_pc x with LDone => true | _ => false end
  | TD x => match d_pc x with DDone => true | _ => false end
  | TB x => match b_pc x with BDone => true | _ => false end
  end.

Record conf := mkConf { c_sh : shared; c_a : thr; c_b : thr }.
(* who = false: thread a moves (thread id 0); who = true: thread b (thread id 1) *)
Definition cstep (limit : N) (c : conf) (who : bool) : conf :=
  if who then match tstep limit 1%nat (c_sh c) (c_b c) with
              | Some (sh, b') => mkConf sh (c_a c) b'
              | None => c end
  else match tstep limit 0%nat (c_sh c) (c_a c) with
       | Some (sh, a') => mkConf sh a' (c_b c)
       | None => c end.
Definition crun (limit : N) (sched : list bool) (c : conf) : conf := fold_left (cstep limit) sched c.
Definition quiescent (c : conf) : bool := tdone (c_a c) && tdone (c_b c).
Definition cstart (count : N) (live : list N) (a b : thr) : conf := mkConf (mkSh None count live) a b.
(* drift of the counter against the live set at the end of a run *)
Definition final_count (c : conf) : N := sh_count (c_sh c).
Definition final_live (c : conf) : N := len (sh_live (c_sh c)).

(* ---- any number of concurrent calls of one tenant: thread id = position in the list *)
Fixpoint set_nth {A} (l : list A) (i : nat) (x : A) : list A :=
  match l, i with
  | [], _ => []
  | _ :: r, O => x :: r
  | a :: r, S j => a :: set_nth r j x
  end.
Record mconf := mkM { m_sh : shared; m_ths : list thr }.
(* the scheduler picks call i; a blocked / finished / non-existing call's turn is a no-op *)
Definition mstep (limit : N) (c : mconf) (i : nat) : mconf :=
  match nth_error (m_ths c) i with
  | None => c
  | Some th => match tstep limit i (m_sh c) th with
               | Some (sh, th') => mkM sh (set_nth (m_ths c) i th')
               | None => c
               end
  end.
Definition mrun (limit : N) (sched : list nat) (c : mconf) : mconf := fold_left (mstep limit) sched c.
Definition mquiescent (c : mconf) : bool := forallb tdone (m_ths c).
Definition mstart (count : N) (live : list N) (ths : list thr) : mconf := mkM (mkSh None count live) ths.

(* ---- several tenants: every call belongs to a tenant and works on that tenant's counter / documents /
   mutex (tenant_vector_counts[t], the tenant's id range, tenant_quota_locks[t]); `limit t` = max_vectors *)
Record wconf := mkW { w_sh : N -> shared; w_ths : list (N * thr) }.
Definition wset (w : N -> shared) (t : N) (sh : shared) : N -> shared := fun u => if u =? t then sh else w u.
Definition wstep (limit : N -> N) (c : wconf) (i : nat) : wconf :=
  match nth_error (w_ths c) i with
  | None => c
  | Some (t, th) => match tstep (limit t) i (w_sh c t) th with
                    | Some (sh, th') => mkW (wset (w_sh c) t sh) (set_nth (w_ths c) i (t, th'))
                    | None => c
                    end
  end.
Definition wrun (limit : N -> N) (sched : list nat) (c : wconf) : wconf := fold_left (wstep limit) sched c.
Definition wquiescent (c : wconf) : bool := forallb (fun p => tdone (snd p)) (w_ths c).
