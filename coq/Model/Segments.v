(* Segments.v — segment-level model of the persistence directory under STORAGE FAULTS (C03, with C01/C13
   as neighbours): which WAL segments the on-disk MANIFEST lists, which segment files exist, which
   sequence numbers each file holds, which segment the live writer appends to, and the committed
   snapshot sequence.  Executable, NO proofs.

   Models engine/src/hnsw_backend.rs
     PersistenceState::rotate_wal_if_needed            (MRotate)
     HnswBackend::create_snapshot + compact_old_wal_segments   (MSnapshot)
     with_persistence / recover: "create new active WAL, push, save"   (MStart)
   and engine/src/persistence.rs Manifest::save, whose four steps (write MANIFEST.tmp, fsync it,
   rename over MANIFEST, fsync the directory) give three outcomes a caller can see:
     VOk    every step succeeded                      -> on-disk MANIFEST replaced, Ok
     VPre   a step up to and including the rename failed -> on-disk MANIFEST unchanged, Err
     VPost  the directory fsync after the rename failed  -> on-disk MANIFEST REPLACED, Err
   Appends to the active segment are taken as observed (MAppend seqs): what a (possibly failing,
   rolled-back) append leaves in the file is the subject of Model/WalWriter.v.

   Segment names are the numbers N in "wal_N.wal".  `hi` is a ghost bound: every sequence number
   <= hi has either been appended already or never will be (the engine's next_wal_seq - 1 is such a
   bound; a snapshot's last_wal_seq is next_wal_seq - 1 at capture).  `log` is the ghost list of every
   sequence number ever appended; `captured` the ghost list of those appended before the capture of
   the snapshot the MANIFEST commits to.

   NOT modelled: failures of reads (Manifest::load, WalReader) — the fault class of the property is
   write / fsync / rename / open(O_CREAT) / unlink; timestamps of legacy (seq_no = 0) entries; the
   snapshot file itself (a failed snapshot save is no micro-step); concurrency (manifest_lock
   serialises all three). *)
From Coq Require Import List NArith Bool Arith.
Import ListNotations.
Open Scope N_scope.

Inductive vres := VOk | VPre | VPost.                      (* outcome of one Manifest::save *)
Inductive cres := COk | CFailNoFile | CFailFile.           (* WalWriter::create: ok / failed, no file / failed, file left *)

Record st := {
  man : list N;                 (* on-disk MANIFEST.wal_segments *)
  snap : N;                     (* on-disk MANIFEST.latest_snapshot_wal_seq, 0 = none *)
  files : list N;               (* wal_*.wal files present in the directory *)
  content : list (N * list N);  (* file -> sequence numbers it holds (newest binding first) *)
  active : option N;            (* segment the live writer appends to; None = no engine running *)
  hi : N;                       (* ghost, see above *)
  log : list N;                 (* ghost *)
  captured : list N             (* ghost *)
}.

Definition init : st :=
  {| man := []; snap := 0; files := []; content := []; active := None; hi := 0; log := []; captured := [] |}.

Fixpoint get (c : list (N * list N)) (f : N) : list N :=
  match c with
  | [] => []
  | (g, l) :: r => if g =? f then l else get r f
  end.

Fixpoint memN (x : N) (l : list N) : bool :=
  match l with [] => false | y :: r => (x =? y) || memN x r end.

Fixpoint removeN (x : N) (l : list N) : list N :=
  match l with [] => [] | y :: r => if x =? y then removeN x r else y :: removeN x r end.

(* strictly increasing and all above the bound; returns the new bound *)
Fixpoint above (b : N) (l : list N) : option N :=
  match l with
  | [] => Some b
  | x :: r => if b <? x then above x r else None
  end.

Inductive micro :=
| MAppend (seqs : list N)
| MRotate (fresh : N) (c : cres) (v : vres)
| MSnapshot (L : N) (saves : list vres) (unl : list bool)
| MStart (fresh : N) (c : cres) (v : vres)
| MStop.

(* compact_old_wal_segments: the last listed segment is always kept; a listed segment whose file is
   missing is dropped from the list; a segment all of whose entries are covered is deleted. *)
Definition covered (L : N) (es : list N) : bool := forallb (fun n => (0 <? L) && (n <=? L)) es.

Fixpoint plan_compact (L : N) (fs : list N) (c : list (N * list N)) (m : list N) : list N * list N :=
  match m with
  | [] => ([], [])
  | [a] => ([a], [])
  | s :: r =>
      let '(k, d) := plan_compact L fs c r in
      if negb (memN s fs) then (k, d)
      else if covered L (get c s) then (k, s :: d)
      else (s :: k, d)
  end.

(* unlink the doomed segments; flag true = the unlink succeeded (a missing flag counts as success) *)
Fixpoint unlink_all (fs : list N) (d : list N) (unl : list bool) : list N :=
  match d with
  | [] => fs
  | s :: r =>
      match unl with
      | false :: u => unlink_all fs r u
      | true :: u => unlink_all (removeN s fs) r u
      | [] => unlink_all (removeN s fs) r []
      end
  end.

Definition upd_man (s : st) (m : list N) : st :=
  {| man := m; snap := snap s; files := files s; content := content s; active := active s;
     hi := hi s; log := log s; captured := captured s |}.

Definition add_file (s : st) (f : N) : st :=
  {| man := man s; snap := snap s; files := files s ++ [f]; content := content s; active := active s;
     hi := hi s; log := log s; captured := captured s |}.

Definition set_active (s : st) (a : option N) : st :=
  {| man := man s; snap := snap s; files := files s; content := content s; active := a;
     hi := hi s; log := log s; captured := captured s |}.

Definition set_files (s : st) (fs : list N) : st :=
  {| man := man s; snap := snap s; files := fs; content := content s; active := active s;
     hi := hi s; log := log s; captured := captured s |}.

(* the sequence counter has passed L (a snapshot was captured at L) but nothing was committed *)
Definition bump (s : st) (L : N) : st :=
  {| man := man s; snap := snap s; files := files s; content := content s; active := active s;
     hi := L; log := log s; captured := captured s |}.

(* the MANIFEST now commits to the snapshot captured at L *)
Definition commit (s : st) (L : N) : st :=
  {| man := man s; snap := L; files := files s; content := content s; active := active s;
     hi := L; log := log s; captured := log s |}.

(* creation of a fresh segment + "push its name, save the MANIFEST" — shared by rotation and start-up.
   `follow` says what the caller does with the writer for each save outcome. *)
Definition create_and_publish (s : st) (fresh : N) (c : cres) (v : vres) : st * bool (* new segment is listed on disk *) :=
  match c with
  | CFailNoFile => (s, false)
  | CFailFile => (add_file s fresh, false)
  | COk =>
      let s1 := add_file s fresh in
      match v with
      | VPre => (s1, false)
      | VOk | VPost => (upd_man s1 (man s ++ [fresh]), true)
      end
  end.

Definition mstep (s : st) (m : micro) : option st :=
  match m with
  | MAppend seqs =>
      match active s, above (hi s) seqs with
      | Some a, Some h =>
          Some {| man := man s; snap := snap s; files := files s;
                  content := (a, get (content s) a ++ seqs) :: content s; active := active s;
                  hi := h; log := log s ++ seqs; captured := captured s |}
      | _, _ => None
      end
  | MRotate fresh c v =>
      match active s with
      | None => None
      | Some _ =>
          if memN fresh (files s) then None
          else
            let '(s1, listed) := create_and_publish s fresh c v in
            (* the writer follows the new segment exactly when the on-disk MANIFEST lists it *)
            Some (if listed then set_active s1 (Some fresh) else s1)
      end
  | MStart fresh c v =>
      match active s with
      | Some _ => None
      | None =>
          if memN fresh (files s) then None
          else
            let '(s1, _) := create_and_publish s fresh c v in
            (* the engine exists only when the save returned Ok *)
            Some (match c, v with COk, VOk => set_active s1 (Some fresh) | _, _ => s1 end)
      end
  | MStop => Some (set_active s None)
  | MSnapshot L saves unl =>
      if L <? hi s then None                  (* last_wal_seq = next_wal_seq - 1 bounds everything appended *)
      else if L <? snap s then Some s          (* "newer snapshot already committed": nothing changes *)
      else
        match saves with
        | [] => None
        | VPre :: _ => Some (bump s L)
        | VPost :: _ => Some (commit s L)
        | VOk :: rest =>
            let s1 := commit s L in
            let '(keep, del) := plan_compact L (files s1) (content s1) (man s1) in
            match del with
            | [] =>
                (* no pruned-list save inside the compaction; the final save publishes `keep` *)
                match rest with
                | [] => None
                | VPre :: _ => Some s1
                | _ :: _ => Some (upd_man s1 keep)
                end
            | _ :: _ =>
                match rest with
                | [] => None
                | VPre :: _ => Some s1
                | VPost :: _ => Some (upd_man s1 keep)
                | VOk :: rest2 =>
                    let s2 := upd_man s1 keep in
                    let s3 := set_files s2 (unlink_all (files s2) del unl) in
                    (* the final save rewrites the same list: its outcome changes nothing on disk *)
                    match rest2 with [] => None | _ :: _ => Some s3 end
                end
            end
        end
  end.

Fixpoint mrun (s : st) (ms : list micro) : option st :=
  match ms with
  | [] => Some s
  | m :: r => match mstep s m with Some s' => mrun s' r | None => None end
  end.

(* ---------------- what recovery can read back ---------------- *)
Definition in_listed_file (s : st) (n : N) : bool :=
  existsb (fun f => memN f (files s) && memN n (get (content s) f)) (man s).

Definition recoverable (s : st) (n : N) : bool := (n <=? snap s) || in_listed_file s n.

(* ---------------- the behaviour before fix db1490c, kept as a labelled regression model -------------
   rotation stayed on the old segment whenever Manifest::save returned Err, including VPost *)
Definition mstep_old (s : st) (m : micro) : option st :=
  match m with
  | MRotate fresh c v =>
      match active s with
      | None => None
      | Some _ =>
          if memN fresh (files s) then None
          else
            let '(s1, _) := create_and_publish s fresh c v in
            Some (match c, v with COk, VOk => set_active s1 (Some fresh) | _, _ => s1 end)
      end
  | _ => mstep s m
  end.

Fixpoint mrun_old (s : st) (ms : list micro) : option st :=
  match ms with
  | [] => Some s
  | m :: r => match mstep_old s m with Some s' => mrun_old s' r | None => None end
  end.

(* ---------------- comparison with an observation of the real directory ---------------- *)
Fixpoint listN_eqb (a b : list N) : bool :=
  match a, b with
  | [], [] => true
  | x :: r, y :: t => (x =? y) && listN_eqb r t
  | _, _ => false
  end.

Definition optN_eqb (a b : option N) : bool :=
  match a, b with
  | None, None => true
  | Some x, Some y => x =? y
  | _, _ => false
  end.

Fixpoint insert_sorted (x : N) (l : list N) : list N :=
  match l with [] => [x] | y :: r => if x <=? y then x :: l else y :: insert_sorted x r end.
Definition sortN (l : list N) : list N := fold_right insert_sorted [] l.

(* observation: (manifest segments, snapshot seq, files with their sequence numbers, active) *)
Definition obs := (list N * N * list (N * list N) * option N)%type.

Definition obs_eqb (s : st) (o : obs) : bool :=
  match o with
  | (m, sn, fl, a) =>
      listN_eqb (man s) m && (snap s =? sn) && optN_eqb (active s) a &&
      listN_eqb (sortN (files s)) (sortN (map fst fl)) &&
      forallb (fun fc => listN_eqb (get (content s) (fst fc)) (snd fc)) fl
  end.

(* run a plan = list of (micro-steps of one engine operation, observation after it); result = index
   (from 0) of the first operation after which model and observation differ, or None *)
Fixpoint first_diff (k : N) (s : st) (plan : list (list micro * obs)) : option N :=
  match plan with
  | [] => None
  | (ms, o) :: r =>
      match mrun s ms with
      | None => Some k
      | Some s' => if obs_eqb s' o then first_diff (k + 1) s' r else Some k
      end
  end.
