(* Amap — a tiny executable association-list map over N keys.
   Representation: list (N * V) kept STRICTLY INCREASING in the key by `set` (sorted insert /
   in-place replace) and `remove`.  Because the representation is canonical, two maps with the same
   bindings are Leibniz-equal (Proofs/AmapProofs.v: `ext_eq`), so "the recovered collection equals
   the live one" can be stated with `=` and a map IS its own census (ids ascending).
   No proofs here (CONVENTIONS: models must still evaluate when a proof breaks). *)
From Coq Require Import List NArith Bool.
Import ListNotations.
Open Scope N_scope.

Section Amap.
  Context {V : Type}.

  Definition amap := list (N * V).

  Definition empty : amap := [].

  Fixpoint get (m : amap) (k : N) : option V :=
    match m with
    | [] => None
    | (k0, v0) :: r => if N.eqb k0 k then Some v0 else get r k
    end.

  (* sorted insert; an existing binding is replaced in place *)
  Fixpoint set (m : amap) (k : N) (v : V) : amap :=
    match m with
    | [] => [(k, v)]
    | (k0, v0) :: r =>
        if N.eqb k0 k then (k, v) :: r
        else if N.ltb k k0 then (k, v) :: (k0, v0) :: r
        else (k0, v0) :: set r k v
    end.

  Fixpoint remove (m : amap) (k : N) : amap :=
    match m with
    | [] => []
    | (k0, v0) :: r => if N.eqb k0 k then r else (k0, v0) :: remove r k
    end.

  Definition keys (m : amap) : list N := map fst m.

  Definition mem (m : amap) (k : N) : bool :=
    match get m k with Some _ => true | None => false end.

  Definition size (m : amap) : N := N.of_nat (length m).

  (* HashMap built by inserting a list of bindings one after the other (later ones win) *)
  Definition of_list (l : list (N * V)) : amap :=
    fold_left (fun m kv => set m (fst kv) (snd kv)) l empty.

  (* strictly increasing keys (executable) *)
  Fixpoint sortedb (m : amap) : bool :=
    match m with
    | [] => true
    | (k0, _) :: r =>
        match r with
        | [] => true
        | (k1, _) :: _ => N.ltb k0 k1 && sortedb r
        end
    end.
End Amap.

Arguments amap : clear implicits.
