(* Crash.v — crash states of the persistence model (executable, NO proofs).  Extends Model/Backend.v
   for C01: "acknowledged writes survive a crash at any instant; restart always succeeds".

   * Process kill: `crash_kill d effs n torn` = the directory after the first n effects of `effs`, plus
     (torn = true) a torn prefix of effect n when that effect writes bytes:
       - a torn WAL frame leaves the segment with tail `Torn` (byte-level justification:
         WalBytesProofs.torn_prefix — every truncation of a well-formed segment reads as a prefix);
       - a torn 4-byte magic leaves a header-less (`FEmpty`) file;
       - a torn tmp-file write leaves unparsable content (`FBad`).
   * `start` = the server's start-up decision (kyrodb_server main): strict recovery when a MANIFEST exists,
     otherwise `with_persistence` on the directory, which (/repo commit ec21434) refuses a directory
     that holds a snapshot or a WAL segment with more than its 4-byte header.
   * History bookkeeping: `crash_run` walks a history and returns, for a global effect index, the crash
     directory together with the store after the acknowledged operations and the store after
     acknowledged + in-flight.  `crash_hist` also covers the effects of the very first start-up.
   * `known_c01` = the recorded input class C01-batch-delete-partial (known_findings.json).
   * Power loss (fsync policy Always): `pfs` keeps, on top of the effect list (apply_eff is NOT changed),
     per inode the versions of its content since its last EFsync/EFsyncData and the versions of the name
     space since the last EFsyncDir; a loss choice picks how many un-synced steps survived, IN ORDER, per
     inode and for the directory (0 = only what was synced, large = everything = process kill). *)
From Coq Require Import List NArith ZArith Bool.
From Kyro Require Import Model.Amap Model.Backend.
Import ListNotations.
Open Scope N_scope.

(* ------------------------------------------------------------------------------------------ *)
(* Process kill                                                                                *)
(* ------------------------------------------------------------------------------------------ *)

(* a proper, non-empty prefix of the bytes of effect e reached the file *)
Definition torn_eff (d : dir) (e : eff) : dir :=
  match e with
  | EAppend f BHeader => d                                  (* < 4 bytes of magic: still header-less *)
  | EAppend f (BFrame _) =>
      match dget d f with
      | Some (FWal frs Clean) => dset d f (FWal frs Torn)
      | _ => d
      end
  | EWriteFile f _ => match dget d f with Some _ => dset d f FBad | None => d end
  | _ => d                                                  (* no bytes: nothing to tear *)
  end.

Definition crash_kill (d : dir) (effs : list eff) (n : nat) (torn : bool) : dir :=
  let d' := apply_effs d (firstn n effs) in
  if torn then match nth_error effs n with Some e => torn_eff d' e | None => d' end else d'.

(* ------------------------------------------------------------------------------------------ *)
(* Start-up                                                                                    *)
(* ------------------------------------------------------------------------------------------ *)

Inductive start_err := SRecover (e : rerr) | SExistingData.
Inductive sresult := SOk (s : state) | SErr (e : start_err).

(* the ec21434 guard of with_persistence: a snapshot, or a WAL file longer than its header *)
Definition existing_data (d : dir) : bool :=
  existsb (fun nf : name * file =>
             match fst nf, snd nf with
             | NSnap _, _ => true
             | NWal _, FEmpty => false
             | NWal _, FWal [] Clean => false
             | NWal _, _ => true
             | _, _ => false
             end) d.

(* with_persistence (no initial documents) on directory d: Manifest::load_or_create finds no MANIFEST *)
Definition fresh_effs (d : dir) : list eff :=
  let f := NWal (fresh_id d) in
  new_wal_effs f ++ save_manifest_effs (mkManifest None None [f]).

Definition fresh_start (c : cfg) (d : dir) : sresult :=
  if existing_data d then SErr SExistingData
  else SOk (mkState empty 0 1 0 (NWal (fresh_id d)) 4 (apply_effs d (fresh_effs d))).

Definition start (c : cfg) (d : dir) : sresult :=
  if has_manifest d then
    match recover c Strict d with Ok s => SOk s | Err e => SErr (SRecover e) end
  else fresh_start c d.

(* ------------------------------------------------------------------------------------------ *)
(* Histories: acknowledged / in-flight bookkeeping                                             *)
(* ------------------------------------------------------------------------------------------ *)

Record crash_point := mkCrash {
  cp_dir : dir;              (* the directory the next start-up finds *)
  cp_acked : store;          (* collection after every operation acknowledged before the crash *)
  cp_inflight : store        (* ... optionally followed by the operation that was in flight *)
}.

(* crash before global effect index n of the operations `ops` run from state s (effects of all
   operations concatenated in order); past the last effect = quiescent crash *)
Fixpoint crash_run (c : cfg) (s : state) (ops : list op) (n : nat) (torn : bool) : crash_point :=
  match ops with
  | [] => mkCrash (st_disk s) (st_store s) (st_store s)
  | o :: r =>
      let '(s', _, effs) := step c s o in
      if Nat.leb n (length effs)
      then mkCrash (crash_kill (st_disk s) effs n torn) (st_store s) (st_store s')
      else crash_run c s' r (n - length effs) torn
  end.

(* ... including the effects of the first start-up on the empty directory *)
Definition crash_hist (c : cfg) (ops : list op) (n : nat) (torn : bool) : crash_point :=
  if Nat.leb n (length init_effs)
  then mkCrash (crash_kill [] init_effs n torn) empty empty
  else crash_run c (init c) ops (n - length init_effs) torn.

(* The recorded class C01-batch-delete-partial: the in-flight operation is a batch_delete that logs
   >= 2 frames (live ids, duplicates included) and the crash falls strictly inside that run of frames
   (k complete frames, 1 <= k < number of frames; a torn next frame does not matter). *)
Definition known_op (s : state) (o : op) (k : nat) : bool :=
  match o with
  | OBatchDelete ids =>
      let live := filter (mem (st_store s)) ids in
      Nat.leb 2 (length live) && Nat.leb 1 k && Nat.ltb k (length live)
  | _ => false
  end.

Fixpoint known_run (c : cfg) (s : state) (ops : list op) (n : nat) : bool :=
  match ops with
  | [] => false
  | o :: r =>
      let '(s', _, effs) := step c s o in
      if Nat.leb n (length effs) then known_op s o n
      else known_run c s' r (n - length effs)
  end.

Definition known_c01 (c : cfg) (ops : list op) (n : nat) : bool :=
  if Nat.leb n (length init_effs) then false else known_run c (init c) ops (n - length init_effs).

Definition store_of (r : sresult) : option store :=
  match r with SOk s => Some (st_store s) | SErr _ => None end.

(* the C01 oracle on one crash point, executable (used by the correspondence) *)
Definition crash_ok (c : cfg) (p : crash_point) : bool :=
  match start c (cp_dir p) with
  | SOk s => store_eqb (st_store s) (cp_acked p) || store_eqb (st_store s) (cp_inflight p)
  | SErr _ => false
  end.

(* ------------------------------------------------------------------------------------------ *)
(* Power loss                                                                                  *)
(* ------------------------------------------------------------------------------------------ *)

(* an inode: versions of its content since the last fsync of it, oldest (= durable) first *)
Definition inode := list file.

Record pfs := mkPfs {
  p_inodes : list inode;
  p_ns : list (list (name * nat))   (* versions of the name space since the last directory fsync, oldest first *)
}.

Definition pfs_empty : pfs := mkPfs [] [[]].

Definition last_or {A} (l : list A) (dflt : A) : A := last l dflt.

Fixpoint ns_get (ns : list (name * nat)) (k : name) : option nat :=
  match ns with
  | [] => None
  | (k0, i) :: r => if name_eqb k0 k then Some i else ns_get r k
  end.

Fixpoint ns_remove (ns : list (name * nat)) (k : name) : list (name * nat) :=
  match ns with
  | [] => []
  | (k0, i) :: r => if name_eqb k0 k then ns_remove r k else (k0, i) :: ns_remove r k
  end.

Definition ns_set (ns : list (name * nat)) (k : name) (i : nat) : list (name * nat) :=
  ns_remove ns k ++ [(k, i)].

Fixpoint upd_nth {A} (l : list A) (i : nat) (f : A -> A) : list A :=
  match l, i with
  | [], _ => []
  | x :: r, O => f x :: r
  | x :: r, S j => x :: upd_nth r j f
  end.

Definition cur_ns (p : pfs) : list (name * nat) := last_or (p_ns p) [].
Definition cur_content (p : pfs) (i : nat) : file := last_or (nth i (p_inodes p) []) FEmpty.

(* content of file f after a data effect, computed with Backend.apply_eff on a one-file directory *)
Definition content_after (cur : file) (f : name) (e : eff) : file :=
  match dget (apply_eff [(f, cur)] e) f with Some c => c | None => cur end.

Definition push_ns (p : pfs) (ns : list (name * nat)) : pfs := mkPfs (p_inodes p) (p_ns p ++ [ns]).

Definition papply (p : pfs) (e : eff) : pfs :=
  let ns := cur_ns p in
  match e with
  | ECreate f trunc =>
      match ns_get ns f with
      | Some i => if trunc then mkPfs (upd_nth (p_inodes p) i (fun v => v ++ [FEmpty])) (p_ns p) else p
      | None => mkPfs (p_inodes p ++ [[FEmpty]]) (p_ns p ++ [ns_set ns f (length (p_inodes p))])
      end
  | EAppend f _ | ETrunc f _ =>
      match ns_get ns f with
      | Some i => mkPfs (upd_nth (p_inodes p) i (fun v => v ++ [content_after (cur_content p i) f e])) (p_ns p)
      | None => p
      end
  | EWriteFile f c =>
      match ns_get ns f with
      | Some i => mkPfs (upd_nth (p_inodes p) i (fun v => v ++ [c])) (p_ns p)
      | None => mkPfs (p_inodes p ++ [[c]]) (p_ns p ++ [ns_set ns f (length (p_inodes p))])   (* as apply_eff: the write creates the file *)
      end
  | EFsync f | EFsyncData f =>
      match ns_get ns f with
      | Some i => mkPfs (upd_nth (p_inodes p) i (fun v => [last_or v FEmpty])) (p_ns p)
      | None => p
      end
  | ERename a b =>
      match ns_get ns a with
      | Some i => push_ns p (ns_set (ns_remove ns a) b i)
      | None => p
      end
  | EUnlink f => match ns_get ns f with Some _ => push_ns p (ns_remove ns f) | None => p end
  | EFsyncDir => mkPfs (p_inodes p) [ns]
  end.

Definition papply_all (p : pfs) (es : list eff) : pfs := fold_left papply es p.

(* a loss choice: how many un-synced name-space steps and, per inode, how many un-synced content
   steps survived (clamped to what exists) *)
Record loss := mkLoss { l_dir : nat; l_data : nat -> nat }.

Definition nth_clamped {A} (l : list A) (i : nat) (dflt : A) : A :=
  nth (Nat.min i (length l - 1)) l dflt.

Definition pview (p : pfs) (l : loss) : dir :=
  map (fun ki : name * nat =>
         (fst ki, nth_clamped (nth (snd ki) (p_inodes p) []) (l_data l (snd ki)) FEmpty))
      (nth_clamped (p_ns p) (l_dir l) []).

Definition loss_none : loss := mkLoss 1000%nat (fun _ => 1000%nat).   (* everything survived = kill *)
Definition loss_all : loss := mkLoss 0%nat (fun _ => 0%nat).               (* only what was synced *)
Definition loss_data : loss := mkLoss 1000%nat (fun _ => 0%nat).         (* directory kept, un-synced bytes lost *)
Definition loss_dir : loss := mkLoss 0%nat (fun _ => 1000%nat).          (* un-synced directory changes lost *)

(* power loss before effect n of the whole run (effects of start-up + all operations), FsAlways *)
Fixpoint all_effs (c : cfg) (s : state) (ops : list op) : list eff :=
  match ops with
  | [] => []
  | o :: r => let '(s', _, effs) := step c s o in effs ++ all_effs c s' r
  end.

Definition crash_power (c : cfg) (ops : list op) (n : nat) (l : loss) : dir :=
  pview (papply_all pfs_empty (firstn n (init_effs ++ all_effs c (init c) ops))) l.

(* ------------------------------------------------------------------------------------------ *)
(* Executable oracles over a whole history (used by the correspondence and by examples)       *)
(* ------------------------------------------------------------------------------------------ *)

Definition total_effs (c : cfg) (ops : list op) : nat := length (init_effs ++ all_effs c (init c) ops).

Definition store_in_point (p : crash_point) (r : sresult) : bool :=
  match r with
  | SOk s => store_eqb (st_store s) (cp_acked p) || store_eqb (st_store s) (cp_inflight p)
  | SErr _ => false
  end.

(* crash indices (and torn flag) at which the kill model violates the oracle outside the known class *)
Definition kill_bad (c : cfg) (ops : list op) : list (nat * bool) :=
  flat_map (fun n =>
              if known_c01 c ops n then []
              else filter (fun nt => negb (store_in_point (crash_hist c ops n (snd nt))
                                                          (start c (cp_dir (crash_hist c ops n (snd nt))))))
                          [(n, false); (n, true)])
           (seq 0 (S (total_effs c ops))).

Definition losses4 : list loss := [loss_all; loss_data; loss_dir; loss_none].

(* (crash index, index of the loss choice in losses4) at which the power-loss model violates the oracle *)
Definition power_bad (c : cfg) (ops : list op) : list (nat * nat) :=
  flat_map (fun n =>
              if known_c01 c ops n then []
              else flat_map (fun il : nat * loss =>
                               if store_in_point (crash_hist c ops n false) (start c (crash_power c ops n (snd il)))
                               then [] else [(n, fst il)])
                            (combine (seq 0 4) losses4))
           (seq 0 (S (total_effs c ops))).

(* ------------------------------------------------------------------------------------------ *)
(* Equality of effects (the C01 correspondence compares the model's effect list of every        *)
(* operation with the abstracted trace of the real engine)                                      *)
(* ------------------------------------------------------------------------------------------ *)

Definition opt_eqb {A} (eqb : A -> A -> bool) (a b : option A) : bool :=
  match a, b with
  | None, None => true
  | Some x, Some y => eqb x y
  | _, _ => false
  end.

Definition walop_eqb (a b : walop) : bool :=
  match a, b with Ins, Ins | Del, Del | Upd, Upd => true | _, _ => false end.

Definition entry_eqb (a b : entry) : bool :=
  walop_eqb (e_op a) (e_op b) && N.eqb (e_id a) (e_id b) && vec_eqb (e_vec a) (e_vec b)
  && meta_eqb (e_meta a) (e_meta b) && N.eqb (e_seq a) (e_seq b).

Definition frame_eqb (a b : frame) : bool :=
  match a, b with
  | Good x, Good y => entry_eqb x y
  | BadCrc, BadCrc | BadDeser, BadDeser => true
  | _, _ => false
  end.

Definition tail_eqb (a b : tail) : bool :=
  match a, b with Clean, Clean | Torn, Torn | BadLen, BadLen => true | _, _ => false end.

Definition metric_eqb (a b : metric) : bool :=
  match a, b with
  | Euclidean, Euclidean | Cosine, Cosine | InnerProduct, InnerProduct => true
  | _, _ => false
  end.

Definition manifest_eqb (a b : manifest) : bool :=
  opt_eqb name_eqb (m_snapshot a) (m_snapshot b) && opt_eqb N.eqb (m_snapshot_seq a) (m_snapshot_seq b)
  && list_eqb name_eqb (m_segments a) (m_segments b).

(* snapshot documents are compared as a set of bindings given in ascending id order (the code writes them
   in slot order; the harness sorts them) *)
Definition snapshot_eqb (a b : snapshot) : bool :=
  N.eqb (sn_dim a) (sn_dim b) && metric_eqb (sn_metric a) (sn_metric b)
  && store_eqb (sn_docs a) (sn_docs b) && N.eqb (sn_last_seq a) (sn_last_seq b).

Definition file_eqb (a b : file) : bool :=
  match a, b with
  | FEmpty, FEmpty | FBad, FBad => true
  | FWal f1 t1, FWal f2 t2 => list_eqb frame_eqb f1 f2 && tail_eqb t1 t2
  | FSnap s1, FSnap s2 => snapshot_eqb s1 s2
  | FManifest m1, FManifest m2 => manifest_eqb m1 m2
  | _, _ => false
  end.

Definition blob_eqb (a b : blob) : bool :=
  match a, b with
  | BHeader, BHeader => true
  | BFrame x, BFrame y => frame_eqb x y
  | _, _ => false
  end.

Definition eff_eqb (a b : eff) : bool :=
  match a, b with
  | ECreate f t, ECreate g u => name_eqb f g && Bool.eqb t u
  | EAppend f x, EAppend g y => name_eqb f g && blob_eqb x y
  | ETrunc f n, ETrunc g k => name_eqb f g && N.eqb n k
  | EFsync f, EFsync g | EFsyncData f, EFsyncData g | EUnlink f, EUnlink g => name_eqb f g
  | ERename a1 b1, ERename a2 b2 => name_eqb a1 a2 && name_eqb b1 b2
  | EFsyncDir, EFsyncDir => true
  | EWriteFile f x, EWriteFile g y => name_eqb f g && file_eqb x y
  | _, _ => false
  end.

(* index of the first operation whose effect list differs from the observed one (None = all agree);
   the observed list of the first start-up is compared with init_effs by the caller *)
Fixpoint effs_mismatch (c : cfg) (s : state) (ops : list op) (obs : list (list eff)) (i : N) : option N :=
  match ops, obs with
  | [], [] => None
  | o :: ops', e :: obs' =>
      let '(s', _, effs) := step c s o in
      if list_eqb eff_eqb effs e then effs_mismatch c s' ops' obs' (i + 1) else Some i
  | _, _ => Some i
  end.

(* observed start-ups on crash states: (global effect index, torn, recovered census or None = refused) *)
Definition start_mismatch (c : cfg) (ops : list op) (obs : list (nat * bool * option store)) : list nat :=
  flat_map (fun o : nat * bool * option store =>
              let '(n, torn, cen) := o in
              match start c (cp_dir (crash_hist c ops n torn)), cen with
              | SOk s, Some x => if store_eqb (st_store s) x then [] else [n]
              | SErr _, None => []
              | _, _ => [n]
              end) obs.

(* everything the C01 correspondence checks for one history (`oracles` = also evaluate the model's own
   kill / power-loss oracles at every crash index — quadratic, done for a subset in the quick tier):
   (first op with a different effect list (0 = first start-up, i+1 = ops[i]), crash points whose start-up
   differs, kill-model oracle violations outside the known class, power-model ones (fsync-always only)) *)
Definition check_c01 (oracles : bool) (c : cfg) (ops : list op) (obs0 : list eff) (obs : list (list eff))
  (starts : list (nat * bool * option store)) : option N * list nat * list (nat * bool) * list (nat * nat) :=
  (if list_eqb eff_eqb init_effs obs0
   then match effs_mismatch c (init c) ops obs 1 with Some i => Some i | None => None end
   else Some 0,
   start_mismatch c ops starts,
   (if oracles then kill_bad c ops else []),
   (if oracles then match c_fsync c with FsAlways => power_bad c ops | _ => [] end else [])).

(* The recorded class under POWER loss: the frames of a batch_delete of >= 2 live ids are un-synced until
   its fsync completes, so any prefix of them may survive: crash index 1 .. number of frames (inclusive:
   all frames written, fsync not yet done). *)
Definition known_power_op (s : state) (o : op) (k : nat) : bool :=
  match o with
  | OBatchDelete ids =>
      let live := filter (mem (st_store s)) ids in
      Nat.leb 2 (length live) && Nat.leb 1 k && Nat.leb k (length live)
  | _ => false
  end.

Fixpoint known_power_run (c : cfg) (s : state) (ops : list op) (n : nat) : bool :=
  match ops with
  | [] => false
  | o :: r =>
      let '(s', _, effs) := step c s o in
      if Nat.leb n (length effs) then known_power_op s o n
      else known_power_run c s' r (n - length effs)
  end.

Definition known_power (c : cfg) (ops : list op) (n : nat) : bool :=
  if Nat.leb n (length init_effs) then false else known_power_run c (init c) ops (n - length init_effs).
