(* Crash.v — crash states of the persistence model (executable, NO proofs).  Extends Model/Backend.v
   for C01: "acknowledged writes survive a crash at any instant; restart always succeeds".

   * Process kill: `crash_kill d effs n torn` = the directory after the first n effects of `effs`, plus
     (torn = true) a torn prefix of effect n when that effect writes bytes:
       - a torn WAL frame leaves the segment with tail `Torn` (byte-level justification:
         WalBytesProofs.torn_prefix — every truncation of a well-formed segment reads as a prefix);
       - a torn 4-byte magic leaves a header-less (`FEmpty`) file;
       - a torn tmp-file write leaves unparsable content (`FBad`).
   * `start` = the server's start-up decision (kyrodb_server main): strict recovery when a MANIFEST exists,
     otherwise `with_persistence` on the directory, which (/repo commit ec21434) refuses a directory
     that holds a snapshot or a WAL segment with more than its 4-byte header.
   * History bookkeeping: `crash_run` walks a history and returns, for a global effect index, the crash
     directory together with the store after the acknowledged operations and the store after
     acknowledged + in-flight.  `crash_hist` also covers the effects of the very first start-up.
   * `known_c01` = the recorded input class C01-batch-delete-partial (known_findings.json).
   * Power loss (fsync policy Always): `pfs` keeps, on top of the effect list (apply_eff is NOT changed),
     per inode the versions of its content since its last EFsync/EFsyncData and the versions of the name
     space since the last EFsyncDir; a loss choice picks how many un-synced steps survived, IN ORDER, per
     inode and for the directory (0 = only what was synced, large = everything = process kill). *)
From Coq Require Import List NArith ZArith Bool.
From Kyro Require Import Model.Amap Model.Backend.
Import ListNotations.
Open Scope N_scope.

(* ------------------------------------------------------------------------------------------ *)
(* Process kill                                                                                *)
(* ------------------------------------------------------------------------------------------ *)

(* a proper, non-empty prefix of the bytes of effect e reached the file *)
Definition torn_eff (d : dir) (e : eff) : dir :=
  match e with
  | EAppend f BHeader => d                                  (* < 4 bytes of magic: still header-less *)
  | EAppend f (BFrame _) =>
      match dget d f with
      | Some (FWal frs Clean) => dset d f (FWal frs Torn)
      | _ => d
      end
  | EWriteFile f _ => match dget d f with Some _ => dset d f FBad | None => d end
  | _ => d                                                  (* no bytes: nothing to tear *)
  end.

Definition crash_kill (d : dir) (effs : list eff) (n : nat) (torn : bool) : dir :=
  let d' := apply_effs d (firstn n effs) in
  if torn then match nth_error effs n with Some e => torn_eff d' e | None => d' end else d'.

(* ------------------------------------------------------------------------------------------ *)
(* Start-up                                                                                    *)
(* ------------------------------------------------------------------------------------------ *)

Inductive start_err := SRecover (e : rerr) | SExistingData.
Inductive sresult := SOk (s : state) | SErr (e : start_err).

(* the ec21434 guard of with_persistence: a snapshot, or a WAL file longer than its header *)
Definition existing_data (d : dir) : bool :=
  existsb (fun nf : name * file =>
             match fst nf, snd nf with
             | NSnap _, _ => true
             | NWal _, FEmpty => false
             | NWal _, FWal [] Clean => false
             | NWal _, _ => true
             | _, _ => false
             end) d.

(* with_persistence (no initial documents) on directory d: Manifest::load_or_create finds no MANIFEST *)
Definition fresh_effs (d : dir) : list eff :=
  let f := NWal (fresh_id d) in
  new_wal_effs f ++ save_manifest_effs (mkManifest None None [f]).

Definition fresh_start (c : cfg) (d : dir) : sresult :=
  if existing_data d then SErr SExistingData
  else SOk (mkState empty 0 1 0 (NWal (fresh_id d)) 4 (apply_effs d (fresh_effs d))).

Definition start (c : cfg) (d : dir) : sresult :=
  if has_manifest d then
    match recover c Strict d with Ok s => SOk s | Err e => SErr (SRecover e) end
  else fresh_start c d.

(* ------------------------------------------------------------------------------------------ *)
(* Histories: acknowledged / in-flight bookkeeping                                             *)
(* ------------------------------------------------------------------------------------------ *)

Record crash_point := mkCrash {
  cp_dir : dir;              (* the directory the next start-up finds *)
  cp_acked : store;          (* collection after every operation acknowledged before the crash *)
  cp_inflight : store        (* ... optionally followed by the operation that was in flight *)
}.

(* crash before global effect index n of the operations `ops` run from state s (effects of all
   operations concatenated in order); past the last effect = quiescent crash *)
Fixpoint crash_run (c : cfg) (s : state) (ops : list op) (n : nat) (torn : bool) : crash_point :=
  match ops with
  | [] => mkCrash (st_disk s) (st_store s) (st_store s)
  | o :: r =>
      let '(s', _, effs) := step c s o in
      if Nat.leb n (length effs)
      then mkCrash (crash_kill (st_disk s) effs n torn) (st_store s) (st_store s')
      else crash_run c s' r (n - length effs) torn
  end.

(* ... including the effects of the first start-up on the empty directory *)
Definition crash_hist (c : cfg) (ops : list op) (n : nat) (torn : bool) : crash_point :=
  if Nat.leb n (length init_effs)
  then mkCrash (crash_kill [] init_effs n torn) empty empty
  else crash_run c (init c) ops (n - length init_effs) torn.

(* The recorded class C01-batch-delete-partial: the in-flight operation is a batch_delete that logs
   >= 2 frames (live ids, duplicates included) and the crash falls strictly inside that run of frames
   (k complete frames, 1 <= k < number of frames; a torn next frame does not matter). *)
Definition known_op (s : state) (o : op) (k : nat) : bool :=
  match o with
  | OBatchDelete ids =>
      let live := filter (mem (st_store s)) ids in
      Nat.leb 2 (length live) && Nat.leb 1 k && Nat.ltb k (length live)
  | _ => false
  end.

Fixpoint known_run (c : cfg) (s : state) (ops : list op) (n : nat) : bool :=
  match ops with
  | [] => false
  | o :: r =>
      let '(s', _, effs) := step c s o in
      if Nat.leb n (length effs) then known_op s o n
      else known_run c s' r (n - length effs)
  end.

Definition known_c01 (c : cfg) (ops : list op) (n : nat) : bool :=
  if Nat.leb n (length init_effs) then false else known_run c (init c) ops (n - length init_effs).

Definition store_of (r : sresult) : option store :=
  match r with SOk s => Some (st_store s) | SErr _ => None end.

(* the C01 oracle on one crash point, executable (used by the correspondence) *)
Definition crash_ok (c : cfg) (p : crash_point) : bool :=
  match start c (cp_dir p) with
  | SOk s => store_eqb (st_store s) (cp_acked p) || store_eqb (st_store s) (cp_inflight p)
  | SErr _ => false
  end.

(* ------------------------------------------------------------------------------------------ *)
(* Power loss                                                                                  *)
(* ------------------------------------------------------------------------------------------ *)

(* an inode: versions of its content since the last fsync of it, oldest (= durable) first *)
Definition inode := list file.

Record pfs := mkPfs {
  p_inodes : list inode;
  p_ns : list (list (name * nat))   (* versions of the name space since the last directory fsync, oldest first *)
}.

Definition pfs_empty : pfs := mkPfs [] [[]].

Definition last_or {A} (l : list A) (dflt : A) : A := last l dflt.

Fixpoint ns_get (ns : list (name * nat)) (k : name) : option nat :=
  match ns with
  | [] => None
  | (k0, i) :: r => if name_eqb k0 k then Some i else ns_get r k
  end.

Fixpoint ns_remove (ns : list (name * nat)) (k : name) : list (name * nat) :=
  match ns with
  | [] => []
  | (k0, i) :: r => if name_eqb k0 k then ns_remove r k else (k0, i) :: ns_remove r k
  end.

Definition ns_set (ns : list (name * nat)) (k : name) (i : nat) : list (name * nat) :=
  ns_remove ns k ++ [(k, i)].

Fixpoint upd_nth {A} (l : list A) (i : nat) (f : A -> A) : list A :=
  match l, i with
  | [], _ => []
  | x :: r, O => f x :: r
  | x :: r, S j => x :: upd_nth r j f
  end.

Definition cur_ns (p : pfs) : list (name * nat) := last_or (p_ns p) [].
Definition cur_content (p : pfs) (i : nat) : file := last_or (nth i (p_inodes p) []) FEmpty.

(* content of file f after a data effect, computed with Backend.apply_eff on a one-file directory *)
Definition content_after (cur : file) (f : name) (e : eff) : file :=
  match dget (apply_eff [(f, cur)] e) f with Some c => c | None => cur end.

Definition push_ns (p : pfs) (ns : list (name * nat)) : pfs := mkPfs (p_inodes p) (p_ns p ++ [ns]).

Definition papply (p : pfs) (e : eff) : pfs :=
  let ns := cur_ns p in
  match e with
  | ECreate f trunc =>
      match ns_get ns f with
      | Some i => if trunc then mkPfs (upd_nth (p_inodes p) i (fun v => v ++ [FEmpty])) (p_ns p) else p
      | None => mkPfs (p_inodes p ++ [[FEmpty]]) (p_ns p ++ [ns_set ns f (length (p_inodes p))])
      end
  | EAppend f _ | EWriteFile f _ | ETrunc f _ =>
      match ns_get ns f with
      | Some i => mkPfs (upd_nth (p_inodes p) i (fun v => v ++ [content_after (cur_content p i) f e])) (p_ns p)
      | None => p
      end
  | EFsync f | EFsyncData f =>
      match ns_get ns f with
      | Some i => mkPfs (upd_nth (p_inodes p) i (fun v => [last_or v FEmpty])) (p_ns p)
      | None => p
      end
  | ERename a b =>
      match ns_get ns a with
      | Some i => push_ns p (ns_set (ns_remove ns a) b i)
      | None => p
      end
  | EUnlink f => match ns_get ns f with Some _ => push_ns p (ns_remove ns f) | None => p end
  | EFsyncDir => mkPfs (p_inodes p) [ns]
  end.

Definition papply_all (p : pfs) (es : list eff) : pfs := fold_left papply es p.

(* a loss choice: how many un-synced name-space steps and, per inode, how many un-synced content
   steps survived (clamped to what exists) *)
Record loss := mkLoss { l_dir : nat; l_data : nat -> nat }.

Definition nth_clamped {A} (l : list A) (i : nat) (dflt : A) : A :=
  nth (Nat.min i (length l - 1)) l dflt.

Definition pview (p : pfs) (l : loss) : dir :=
  map (fun ki : name * nat =>
         (fst ki, nth_clamped (nth (snd ki) (p_inodes p) []) (l_data l (snd ki)) FEmpty))
      (nth_clamped (p_ns p) (l_dir l) []).

Definition loss_none : loss := mkLoss 1000%nat (fun _ => 1000%nat).   (* everything survived = kill *)
Definition loss_all : loss := mkLoss 0%nat (fun _ => 0%nat).               (* only what was synced *)
Definition loss_data : loss := mkLoss 1000%nat (fun _ => 0%nat).         (* directory kept, un-synced bytes lost *)
Definition loss_dir : loss := mkLoss 0%nat (fun _ => 1000%nat).          (* un-synced directory changes lost *)

(* power loss before effect n of the whole run (effects of start-up + all operations), FsAlways *)
Fixpoint all_effs (c : cfg) (s : state) (ops : list op) : list eff :=
  match ops with
  | [] => []
  | o :: r => let '(s', _, effs) := step c s o in effs ++ all_effs c s' r
  end.

Definition crash_power (c : cfg) (ops : list op) (n : nat) (l : loss) : dir :=
  pview (papply_all pfs_empty (firstn n (init_effs ++ all_effs c (init c) ops))) l.
