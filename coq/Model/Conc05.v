(* Conc05 — interleaving model of the per-document API of TieredEngine (C05).
   Executable, NO proofs (Proofs/Conc05Proofs.v).

   Shared state: the canonical cold tier (id -> (vec, meta, version): the register of each id), the
   L1a document cache and the hot-tier mirror.  A thread is a list of API calls; a call is a PROGRAM:
   the sequence of ATOMIC actions the code performs, one action = one critical section of the lock(s)
   that protect the structure it touches, read off tiered_engine.rs / hnsw_backend.rs /
   hot_tier.rs / vector_cache.rs:

     query_with_source            L1Get; [ColdTok; (Match: return | L1Inv)]; HotGet; [ColdTok; (Match:
                                  L1Ins; return | mismatch: HotDel; L1Inv; qc.clear)]; ColdFetch; [L1Ins]
     get_embedding_cache_aware    the same with L1Peek and no admission
     get_document_with_metadata   ColdMeta  (metadata FIRST, tiered_engine.rs:728), then the hot probe,
                                  then ColdFetch — metadata and vector come from different steps
     bulk_query_with_source       HotBulk (one snapshot); per hit: ColdTok; (Match: ColdMeta); then one
                                  ColdBulk for everything still missing (vector+metadata, one lock hold)
     insert                       HotLen; [at the hard limit: HotDrain; per drained entry ColdFetch; ColdMeta;
                                  (missing: index.read x2; ColdRepair = cold_tier.insert of the MIRROR copy)]; L1Inv; index.read x2 (dimension, metric); ColdIns (ONE atomic
                                  step: write gate held over WAL append + index/store update);
                                  qc.invalidate_doc; qc.invalidate_for_insert; ColdTok; HotIns(token)
     delete                       ColdDel (atomic under the write gate); HotDel; [L1Inv; qc.invalidate_doc]

   Programs are written in continuation style (`prog`): an action constructor carries the function
   that maps what the action observed to the rest of the call, so the per-call local state ("what it
   has read so far") is the closure.  `cstep` runs ONE action of ONE thread (or an environment poke
   that overwrites a cache / mirror entry arbitrarily: eviction, background drain, corruption);
   `crun` runs any schedule; any number of threads.

   Ghost data (does not influence behaviour): `g_now` the scheduler step index, `g_hist` invocation
   and response events stamped with it, `g_log` the stamped log of every access to the canonical
   register (writes, and observations made by cold-tier reads), each call's own log entries
   (`c_facts`).

   Restrictions (stated in checks/meta/C05.json): circuit breakers closed; the emergency
   drain inside insert IS modelled (HotDrain / ColdRepair); the background flush task (same drain +
   reconcile code, run by a maintenance thread) is not a call of the model — its effect on the mirror
   is covered by `PokeHot`; a failing repair (re-insertion of failed entries) is not modelled; vectors are valid (accepted by HnswBackend::insert); `update_metadata`
   and `batch_delete` are not modelled; statistics / access-logger / breaker locks are not steps. *)
From Coq Require Import List NArith ZArith Bool Arith.
From Kyro Require Import Model.TMap Model.Tiered.
Import ListNotations.

(* ---------- lock skeleton vocabulary (protocol-skeleton correspondence) ---------- *)
Inductive lcls :=
| LkL1        (* vector_cache.rs VectorCache.state *)
| LkHot       (* hot_tier.rs HotTier.documents *)
| LkStore     (* hnsw_backend.rs HnswBackend.doc_store *)
| LkIndex     (* HnswBackend.index *)
| LkMetaIdx   (* HnswBackend.metadata_index *)
| LkGate      (* HnswBackend.write_gate *)
| LkWal       (* persistence.wal *)
| LkSnap      (* persistence.snapshot_lock *)
| LkInsCnt    (* persistence.inserts_since_snapshot *)
| LkQc        (* query_hash_cache.rs main state *)
| LkQcAux.    (* query_hash_cache.rs second lock taken inside clear() *)
Inductive lmode := MRead | MWrite | MUpgr | MMutex.
Inductive linstr := LAcq (c : lcls) (m : lmode) | LUpg (c : lcls) | LRel (c : lcls).

Definition cs (c : lcls) (m : lmode) : list linstr := [LAcq c m; LRel c].

(* ---------- shared state, results, ghost log ---------- *)
Record shared := mkSh { s_cold : list (N * crec); s_l1 : list (N * lent); s_hot : list (N * hent) }.

Inductive result :=
| RVec (id : N) (r : option vec)                       (* query_with_source / get_embedding_cache_aware *)
| RDoc (id : N) (r : option (vec * meta))              (* get_document_with_metadata *)
| RBulk (rs : list (N * option (vec * meta)))          (* bulk_query_with_source, include_embeddings *)
| RIns (ok : bool)                                     (* insert: Ok / Err *)
| RDel (found : bool).                                 (* delete: Ok(found) *)

Inductive call :=
| CQuery (adm : bool) (id : N)
| CGetEmb (id : N)
| CGetDoc (id : N)
| CBulk (ids : list N)
| CInsert (id : N) (v : vec) (m : meta)
| CDelete (id : N).

(* one access to the canonical register of `id` *)
Inductive lop :=
| LW (id : N) (x : option crec)      (* the register now holds x (insert: Some rec, delete: None) *)
| LObs (id : N) (x : option crec).   (* a cold-tier read saw x (ghost: the whole record) *)
Definition lentry := (nat * lop)%type.   (* stamped with the scheduler step *)

(* ---------- programs ---------- *)
Inductive prog :=
| Ret (r : result)
| L1Get (id : N) (k : option lent -> prog)
| L1Peek (id : N) (k : option lent -> prog)
| L1Inv (id : N) (k : prog)
| L1Ins (id : N) (e : lent) (k : prog)
| HotGet (id : N) (k : option hent -> prog)
| HotBulk (ids : list N) (k : list (option hent) -> prog)
| HotDel (id : N) (k : bool -> prog)
| HotIns (id : N) (h : hent) (k : prog)
| HotLen (k : nat -> prog)
| HotExists (id : N) (k : bool -> prog)
| ColdTok (id : N) (k : option token -> prog)
| ColdFetch (wc : bool) (id : N) (k : option (vec * token) -> prog)
| ColdMeta (id : N) (k : option meta -> prog)
| ColdBulk (ids : list N) (k : list (option (vec * meta)) -> prog)
| ColdIns (id : N) (v : vec) (m : meta) (k : prog)
| ColdDel (id : N) (k : bool -> prog)
| Silent (l : list linstr) (k : prog)
| HotDrain (k : list (N * hent) -> prog)              (* hot_tier.drain_for_flush: atomic take of ALL mirror entries *)
| ColdRepair (id : N) (v : vec) (m : meta) (k : prog).  (* reconcile: cold_tier.insert of a drained mirror entry *)

Definition is_none {A} (o : option A) : bool := match o with None => true | Some _ => false end.

(* cold_tier.bulk_fetch results fill the holes of the hot-tier pass, in order *)
Fixpoint fill (part : list (N * option (vec * meta))) (recs : list (option (vec * meta)))
  : list (N * option (vec * meta)) :=
  match part with
  | [] => []
  | (id, Some x) :: r => (id, Some x) :: fill r recs
  | (id, None) :: r =>
      match recs with
      | o :: q => (id, o) :: fill r q
      | [] => (id, None) :: fill r []
      end
  end.

Section Conc.
  Variable digest : vec -> dgst.
  Variable hard : nat.   (* hot_tier_hard_limit *)

  Definition rec_tok (r : crec) : token := (c_ver r, digest (c_vec r)).

  (* TieredEngine::canonical_vector_state, given the token current_coherence_token returned *)
  Definition cvs_of (ot : option token) (v : vec) (t : token) : cvs :=
    match ot with
    | None => CMissing
    | Some ct =>
        if negb (tok_eqb ct t) then CTokMis
        else if negb (vec_eqb (digest v) (snd t)) then CCorrupt
        else CMatch
    end.

  Definition qc_clear : list linstr := [LAcq LkQc MWrite; LAcq LkQcAux MWrite; LRel LkQcAux; LRel LkQc].

  (* discard_stale_hot_mirror: hot_tier.delete; cache_strategy.invalidate; query_cache.clear *)
  Definition discard_then (id : N) (k : prog) : prog :=
    HotDel id (fun _ => L1Inv id (Silent qc_clear k)).

  (* hot_tier.get_with_coherence + canonical_vector_state as used by the three point reads *)
  Definition hot_probe (id : N) (kmatch : hent -> prog) (kmiss : prog) : prog :=
    HotGet id (fun oh =>
      match oh with
      | None => kmiss
      | Some h =>
          ColdTok id (fun ot =>
            match cvs_of ot (h_vec h) (h_tok h) with
            | CMatch => kmatch h
            | CMissing => kmiss
            | _ => discard_then id kmiss
            end)
      end).

  Definition p_query (adm : bool) (id : N) : prog :=
    let adm_ins (e : lent) (k : prog) := if adm then L1Ins id e k else k in
    let rest :=
      hot_probe id
        (fun h => adm_ins (mkL (h_vec h) (h_tok h)) (Ret (RVec id (Some (h_vec h)))))
        (ColdFetch true id (fun o =>
           match o with
           | Some (v, t) => adm_ins (mkL v t) (Ret (RVec id (Some v)))
           | None => Ret (RVec id None)
           end)) in
    L1Get id (fun oc =>
      match oc with
      | Some e =>
          ColdTok id (fun ot =>
            match cvs_of ot (l_vec e) (l_tok e) with
            | CMatch => Ret (RVec id (Some (l_vec e)))
            | _ => L1Inv id rest
            end)
      | None => rest
      end).

  Definition p_getemb (id : N) : prog :=
    let rest :=
      hot_probe id
        (fun h => Ret (RVec id (Some (h_vec h))))
        (ColdFetch false id (fun o => Ret (RVec id (option_map fst o)))) in
    L1Peek id (fun oc =>
      match oc with
      | Some e =>
          ColdTok id (fun ot =>
            match cvs_of ot (l_vec e) (l_tok e) with
            | CMatch => Ret (RVec id (Some (l_vec e)))
            | _ => L1Inv id rest
            end)
      | None => rest
      end).

  Definition p_getdoc (id : N) : prog :=
    ColdMeta id (fun om =>
      match om with
      | None => HotExists id (fun _ => Ret (RDoc id None))
      | Some m =>
          hot_probe id
            (fun h => Ret (RDoc id (Some (h_vec h, m))))
            (ColdFetch true id (fun o =>
               match o with
               | Some (v, _) => Ret (RDoc id (Some (v, m)))
               | None => HotExists id (fun _ => Ret (RDoc id None))
               end))
      end).

  Fixpoint bulk_loop (snap : list (N * option hent)) (acc : list (N * option (vec * meta)))
           (k : list (N * option (vec * meta)) -> prog) : prog :=
    match snap with
    | [] => k (rev acc)
    | (id, None) :: r => bulk_loop r ((id, None) :: acc) k
    | (id, Some h) :: r =>
        ColdTok id (fun ot =>
          match cvs_of ot (h_vec h) (h_tok h) with
          | CMatch =>
              ColdMeta id (fun om =>
                match om with
                | Some m => bulk_loop r ((id, Some (h_vec h, m)) :: acc) k
                | None => bulk_loop r ((id, None) :: acc) k
                end)
          | CMissing => bulk_loop r ((id, None) :: acc) k
          | _ => discard_then id (bulk_loop r ((id, None) :: acc) k)
          end)
    end.

  Definition p_bulk (ids : list N) : prog :=
    HotBulk ids (fun hs =>
      bulk_loop (combine ids hs) [] (fun part =>
        let missing := map fst (filter (fun p => is_none (snd p)) part) in
        match missing with
        | [] => Ret (RBulk part)
        | _ :: _ => ColdBulk missing (fun recs => Ret (RBulk (fill part recs)))
        end)).

  (* reconcile_drained_hot_tier_documents, one drained entry after the other: two cold-tier reads
     (fetch_document_with_coherence, fetch_metadata); both present -> the cold tier stays authoritative
     (L1a invalidated when the embeddings differ — f32 `!=`); otherwise "repair": cold_tier.insert of
     the MIRROR's vector and metadata.  `clear` = should_clear_query_cache.  Repairs of valid vectors do
     not fail, so the re-insertion of failed entries is not modelled. *)
  Fixpoint drain_loop (docs : list (N * hent)) (clear : bool) (k : bool -> prog) : prog :=
    match docs with
    | [] => k clear
    | (id, h) :: r =>
        ColdFetch true id (fun oe =>
          ColdMeta id (fun om =>
            match oe, om with
            | Some (ce, ct), Some cm =>
                let ed := negb (vec_feqb ce (h_vec h)) in
                let dv := negb (tok_eqb ct (h_tok h)) || ed || negb (meta_eqb cm (h_meta h)) in
                if ed then L1Inv id (drain_loop r (clear || dv) k) else drain_loop r (clear || dv) k
            | _, _ =>
                Silent (cs LkIndex MRead)
                  (Silent (cs LkIndex MRead)
                     (ColdRepair id (h_vec h) (h_meta h) (drain_loop r true k)))
            end))
    end.

  Definition p_insert (id : N) (v : vec) (m : meta) : prog :=
    let body :=
      L1Inv id
        (Silent (cs LkIndex MRead)
           (Silent (cs LkIndex MRead)
              (ColdIns id v m
                 (Silent (cs LkQc MWrite)
                    (Silent (cs LkQc MWrite)
                       (ColdTok id (fun ot =>
                          match ot with
                          | Some t => HotIns id (mkH v (meta_canon m) t) (Ret (RIns true))
                          | None => Ret (RIns false)
                          end))))))) in
    HotLen (fun n =>
      if hard <=? n then
        (* emergency_flush_hot_tier *)
        HotDrain (fun docs =>
          match docs with
          | [] => body
          | _ :: _ => drain_loop docs false (fun clear => if clear then Silent qc_clear body else body)
          end)
      else body).

  Definition p_delete (id : N) : prog :=
    ColdDel id (fun b1 =>
      HotDel id (fun b2 =>
        if b1 || b2 then L1Inv id (Silent (cs LkQc MWrite) (Ret (RDel true)))
        else Ret (RDel false))).

  Definition prog_of (c : call) : prog :=
    match c with
    | CQuery adm id => p_query adm id
    | CGetEmb id => p_getemb id
    | CGetDoc id => p_getdoc id
    | CBulk ids => p_bulk ids
    | CInsert id v m => p_insert id v m
    | CDelete id => p_delete id
    end.

  (* ---------- one atomic action ---------- *)
  Definition set_cold (s : shared) x := mkSh x (s_l1 s) (s_hot s).
  Definition set_l1 (s : shared) x := mkSh (s_cold s) x (s_hot s).
  Definition set_hot (s : shared) x := mkSh (s_cold s) (s_l1 s) x.

  (* HnswBackend::insert under the write gate: version = prior live version + 1, fresh epoch after a delete *)
  Definition new_rec (s : shared) (id : N) (v : vec) (m : meta) : crec :=
    mkC v (meta_canon m)
        (match lookup id (s_cold s) with Some r => N.succ (c_ver r) | None => 1%N end).

  Definition gate_insert : list linstr :=
    [LAcq LkSnap MRead; LAcq LkGate MMutex;
     LAcq LkIndex MRead; LAcq LkStore MRead; LRel LkStore; LRel LkIndex;
     LAcq LkWal MWrite; LRel LkWal;
     LAcq LkIndex MWrite; LAcq LkStore MWrite;
     LAcq LkInsCnt MWrite; LRel LkInsCnt;
     LAcq LkMetaIdx MWrite; LRel LkMetaIdx;
     LRel LkIndex; LRel LkStore; LRel LkGate; LRel LkSnap].
  Definition gate_delete (found : bool) : list linstr :=
    [LAcq LkSnap MRead; LAcq LkGate MMutex; LAcq LkStore MRead; LRel LkStore] ++
    (if found then
       [LAcq LkWal MWrite; LAcq LkInsCnt MWrite; LRel LkInsCnt; LRel LkWal;
        LAcq LkStore MWrite; LRel LkStore; LAcq LkMetaIdx MWrite; LRel LkMetaIdx]
     else []) ++
    [LRel LkGate; LRel LkSnap].

  (* (new shared state, rest of the call, ghost register accesses, lock skeleton); None on `Ret` *)
  Definition step_prog (s : shared) (p : prog) : option (shared * prog * list lop * list linstr) :=
    match p with
    | Ret _ => None
    | L1Get id k =>
        (* VectorCache::get: upgradable read, upgraded to write on a hit (LRU promotion) *)
        let o := lookup id (s_l1 s) in
        Some (s, k o, [],
              match o with
              | Some _ => [LAcq LkL1 MUpgr; LUpg LkL1; LRel LkL1]
              | None => [LAcq LkL1 MUpgr; LRel LkL1]
              end)
    | L1Peek id k => Some (s, k (lookup id (s_l1 s)), [], cs LkL1 MRead)
    | L1Inv id k => Some (set_l1 s (remove id (s_l1 s)), k, [], cs LkL1 MWrite)
    | L1Ins id e k => Some (set_l1 s (put id e (s_l1 s)), k, [], cs LkL1 MWrite)
    | HotGet id k => Some (s, k (lookup id (s_hot s)), [], cs LkHot MRead)
    | HotBulk ids k => Some (s, k (map (fun id => lookup id (s_hot s)) ids), [], cs LkHot MRead)
    | HotDel id k => Some (set_hot s (remove id (s_hot s)), k (mem id (s_hot s)), [], cs LkHot MWrite)
    | HotIns id h k => Some (set_hot s (put id h (s_hot s)), k, [], cs LkHot MWrite)
    | HotLen k => Some (s, k (length (s_hot s)), [], cs LkHot MRead)
    | HotExists id k => Some (s, k (mem id (s_hot s)), [], cs LkHot MRead)
    | ColdTok id k =>
        let x := lookup id (s_cold s) in
        Some (s, k (option_map rec_tok x), [LObs id x], cs LkStore MRead)
    | ColdFetch _ id k =>
        let x := lookup id (s_cold s) in
        Some (s, k (option_map (fun r => (c_vec r, rec_tok r)) x), [LObs id x], cs LkStore MRead)
    | ColdMeta id k =>
        let x := lookup id (s_cold s) in
        Some (s, k (option_map c_meta x), [LObs id x], cs LkStore MRead)
    | ColdBulk ids k =>
        Some (s, k (map (fun id => option_map (fun r => (c_vec r, c_meta r)) (lookup id (s_cold s))) ids),
              map (fun id => LObs id (lookup id (s_cold s))) ids, cs LkStore MRead)
    | ColdIns id v m k =>
        let r := new_rec s id v m in
        Some (set_cold s (put id r (s_cold s)), k, [LW id (Some r)], gate_insert)
    | ColdDel id k =>
        let found := mem id (s_cold s) in
        Some (set_cold s (remove id (s_cold s)), k found, [LW id None], gate_delete found)
    | Silent l k => Some (s, k, [], l)
    | HotDrain k => Some (set_hot s [], k (s_hot s), [], cs LkHot MWrite)
    | ColdRepair id v m k =>
        let r := new_rec s id v m in
        Some (set_cold s (put id r (s_cold s)), k, [LW id (Some r)], gate_insert)
    end.

  (* a call run alone to completion (protocol-skeleton correspondence) *)
  Fixpoint run_solo (fuel : nat) (s : shared) (p : prog) (acc : list linstr)
    : option (shared * result * list linstr) :=
    match fuel with
    | O => None
    | S f =>
        match p with
        | Ret r => Some (s, r, acc)
        | _ =>
            match step_prog s p with
            | Some (s1, p1, _, l) => run_solo f s1 p1 (acc ++ l)
            | None => None
            end
        end
    end.
  Definition solo (s : shared) (c : call) := run_solo 400 s (prog_of c) [].

  (* ---------- threads, scheduler, history ---------- *)
  Record cur := mkCur { c_idx : nat; c_call : call; c_inv : nat; c_facts : list lentry; c_prog : prog }.
  Record tstate := mkT { t_cur : option cur; t_todo : list call; t_next : nat }.

  Inductive hevent :=
  | HInv (t c : nat) (cl : call) (step : nat)
  | HRes (t c : nat) (cl : call) (r : result) (inv res : nat).

  Record gstate := mkG {
    g_sh : shared;
    g_now : nat;                  (* index of the next scheduler step *)
    g_thr : list tstate;          (* thread id = position *)
    g_hist : list hevent;         (* newest first *)
    g_log : list lentry           (* newest first *)
  }.

  Inductive sitem :=
  | Run (t : nat)
  | PokeL1 (id : N) (e : option lent)     (* environment: eviction / arbitrary overwrite of an L1a entry *)
  | PokeHot (id : N) (h : option hent).   (* environment: drain / arbitrary overwrite of a mirror entry *)

  Fixpoint upd_nth {A} (l : list A) (n : nat) (x : A) : list A :=
    match l, n with
    | [], _ => []
    | _ :: r, O => x :: r
    | a :: r, S m => a :: upd_nth r m x
    end.

  Definition stamp (now : nat) (ops : list lop) : list lentry := map (fun o => (now, o)) ops.

  (* thread t performs the next action of its current call; an idle thread first takes its next call
     (invocation event) and performs that call's first action in the same step; the step whose
     continuation is `Ret r` is the response *)
  (* the call taken up by a scheduled thread: its current one, or (idle thread) the next of its list *)
  Definition start (ts : tstate) (t now : nat) : option (cur * list call * nat * list hevent) :=
    match t_cur ts with
    | Some c => Some (c, t_todo ts, t_next ts, [])
    | None =>
        match t_todo ts with
        | [] => None
        | cl :: rest =>
            Some (mkCur (t_next ts) cl now [] (prog_of cl), rest, S (t_next ts), [HInv t (t_next ts) cl now])
        end
    end.
  (* after the action: response if the rest of the call is `Ret r` *)
  Definition finish (t now : nat) (c : cur) (facts : list lentry) (p1 : prog) : option cur * list hevent :=
    match p1 with
    | Ret r => (None, [HRes t (c_idx c) (c_call c) r (c_inv c) now])
    | _ => (Some (mkCur (c_idx c) (c_call c) (c_inv c) facts p1), [])
    end.

  Definition run_thread (g : gstate) (t : nat) : option gstate :=
    match nth_error (g_thr g) t with
    | None => None
    | Some ts =>
        let now := g_now g in
        match start ts t now with
        | None => None
        | Some (c, todo, next, hinv) =>
            match step_prog (g_sh g) (c_prog c) with
            | None => None
            | Some (sh1, p1, ops, _) =>
                let ents := stamp now ops in
                let fin := finish t now c (ents ++ c_facts c) p1 in
                Some (mkG sh1 (S now) (upd_nth (g_thr g) t (mkT (fst fin) todo next))
                          (snd fin ++ hinv ++ g_hist g) (ents ++ g_log g))
            end
        end
    end.

  Definition set_opt {A} (id : N) (o : option A) (l : list (N * A)) : list (N * A) :=
    match o with Some a => put id a l | None => remove id l end.

  Definition cstep (g : gstate) (i : sitem) : option gstate :=
    match i with
    | Run t => run_thread g t
    | PokeL1 id e =>
        Some (mkG (set_l1 (g_sh g) (set_opt id e (s_l1 (g_sh g)))) (S (g_now g)) (g_thr g) (g_hist g) (g_log g))
    | PokeHot id h =>
        Some (mkG (set_hot (g_sh g) (set_opt id h (s_hot (g_sh g)))) (S (g_now g)) (g_thr g) (g_hist g) (g_log g))
    end.

  Fixpoint crun (g : gstate) (sched : list sitem) : option gstate :=
    match sched with
    | [] => Some g
    | i :: r => match cstep g i with Some g1 => crun g1 r | None => None end
    end.

  Definition ginit (sh0 : shared) (threads : list (list call)) : gstate :=
    mkG sh0 0 (map (fun cl => mkT None cl 0) threads) [] [].
End Conc.

(* ---------- the sequential specification: one register per id ---------- *)
Definition reg := N -> option crec.
Definition reg_of (cold : list (N * crec)) : reg := fun id => lookup id cold.
Definition reg_upd (r : reg) (id : N) (x : option crec) : reg := fun j => if N.eqb j id then x else r j.

(* the register after a sequence of accesses *)
Fixpoint reg_after (r : reg) (ops : list lop) : reg :=
  match ops with
  | [] => r
  | LW id x :: q => reg_after (reg_upd r id x) q
  | LObs _ _ :: q => reg_after r q
  end.
(* accepted: every observation equals the register content at its place in the sequence *)
Fixpoint reg_accepts (r : reg) (ops : list lop) : Prop :=
  match ops with
  | [] => True
  | LW id x :: q => reg_accepts (reg_upd r id x) q
  | LObs id x :: q => r id = x /\ reg_accepts r q
  end.

(* what a result claims about vectors / metadata of which id *)
Definition vec_components (r : result) : list (N * option vec) :=
  match r with
  | RVec id o => [(id, o)]
  | RDoc id o => [(id, option_map fst o)]
  | RBulk rs => map (fun p => (fst p, option_map fst (snd p))) rs
  | _ => []
  end.
Definition meta_components (r : result) : list (N * meta) :=
  match r with
  | RDoc id (Some (_, m)) => [(id, m)]
  | RBulk rs => flat_map (fun p => match snd p with Some (_, m) => [(fst p, m)] | None => [] end) rs
  | _ => []
  end.
Definition pair_components (r : result) : list (N * (vec * meta)) :=
  match r with
  | RDoc id (Some x) => [(id, x)]
  | RBulk rs => flat_map (fun p => match snd p with Some x => [(fst p, x)] | None => [] end) rs
  | _ => []
  end.

(* sorted by stamp, oldest first *)
Definition chron (log : list lentry) : list lentry := rev log.

(* ================================================================================================ *)
(* Executable checks used by the correspondence (cases files written by harness-locks/c05)          *)
(* ================================================================================================ *)
(* In cases files a digest is represented by the vector it is the digest of (the driver only plants
   tokens made from vectors of its pool and decodes observed digests through that pool), i.e. the
   model runs with the identity digest — injective, as the theorems assume. *)
Definition dg_id (v : vec) : dgst := v.

Definition opt_eqb {A} (e : A -> A -> bool) (a b : option A) : bool :=
  match a, b with
  | Some x, Some y => e x y
  | None, None => true
  | _, _ => false
  end.
Definition lent_eqb (a b : lent) : bool := vec_eqb (l_vec a) (l_vec b) && tok_eqb (l_tok a) (l_tok b).
Definition hent_eqb (a b : hent) : bool :=
  vec_eqb (h_vec a) (h_vec b) && meta_eqb (h_meta a) (h_meta b) && tok_eqb (h_tok a) (h_tok b).
Definition crec_eqb (a b : crec) : bool :=
  vec_eqb (c_vec a) (c_vec b) && meta_eqb (c_meta a) (c_meta b) && N.eqb (c_ver a) (c_ver b).
Definition vm_eqb (a b : vec * meta) : bool := vec_eqb (fst a) (fst b) && meta_eqb (snd a) (snd b).
Definition result_eqb (a b : result) : bool :=
  match a, b with
  | RVec i x, RVec j y => N.eqb i j && opt_eqb vec_eqb x y
  | RDoc i x, RDoc j y => N.eqb i j && opt_eqb vm_eqb x y
  | RBulk xs, RBulk ys => list_eqb (fun p q => N.eqb (fst p) (fst q) && opt_eqb vm_eqb (snd p) (snd q)) xs ys
  | RIns x, RIns y => Bool.eqb x y
  | RDel x, RDel y => Bool.eqb x y
  | _, _ => false
  end.
Definition lcls_n (c : lcls) : N :=
  match c with
  | LkL1 => 0 | LkHot => 1 | LkStore => 2 | LkIndex => 3 | LkMetaIdx => 4 | LkGate => 5
  | LkWal => 6 | LkSnap => 7 | LkInsCnt => 8 | LkQc => 9 | LkQcAux => 10
  end%N.
Definition lmode_n (m : lmode) : N := match m with MRead => 0 | MWrite => 1 | MUpgr => 2 | MMutex => 3 end%N.
Definition linstr_eqb (a b : linstr) : bool :=
  match a, b with
  | LAcq c m, LAcq d n => N.eqb (lcls_n c) (lcls_n d) && N.eqb (lmode_n m) (lmode_n n)
  | LUpg c, LUpg d => N.eqb (lcls_n c) (lcls_n d)
  | LRel c, LRel d => N.eqb (lcls_n c) (lcls_n d)
  | _, _ => false
  end.

(* observed entries of the three structures for the ids of a case *)
Definition postobs := list (N * (option lent * option hent * option crec)).
Definition post_ok (s : shared) (post : postobs) : bool :=
  forallb (fun p => let '(a, b, c) := snd p in
                    opt_eqb lent_eqb (lookup (fst p) (s_l1 s)) a &&
                    opt_eqb hent_eqb (lookup (fst p) (s_hot s)) b &&
                    opt_eqb crec_eqb (lookup (fst p) (s_cold s)) c) post.

(* (i) a call run alone: (result agrees, post-state agrees, lock skeleton agrees) *)
Definition skel_check (hard : nat) (sh : shared) (c : call) (r : result) (post : postobs) (locks : list linstr)
  : bool * bool * bool :=
  match solo dg_id hard sh c with
  | Some (s1, r1, l1) => (result_eqb r1 r, post_ok s1 post, list_eqb linstr_eqb l1 locks)
  | None => (false, false, false)
  end.

(* (ii) directed schedules: phases (t, Some n) = thread t performs n atomic steps, (t, None) = thread t
   runs until its current call has returned (at least one step) *)
Fixpoint run_steps (hard : nat) (g : gstate) (t n : nat) : option gstate :=
  match n with
  | O => Some g
  | S m => match cstep dg_id hard g (Run t) with Some g1 => run_steps hard g1 t m | None => None end
  end.
Definition thread_idle (g : gstate) (t : nat) : bool :=
  match nth_error (g_thr g) t with Some ts => is_none (t_cur ts) | None => true end.
Fixpoint run_call (hard : nat) (fuel : nat) (g : gstate) (t : nat) : option gstate :=
  match fuel with
  | O => None
  | S f =>
      match cstep dg_id hard g (Run t) with
      | Some g1 => if thread_idle g1 t then Some g1 else run_call hard f g1 t
      | None => None
      end
  end.
Fixpoint run_phases (hard : nat) (g : gstate) (ph : list (nat * option nat)) : option gstate :=
  match ph with
  | [] => Some g
  | (t, Some n) :: r => match run_steps hard g t n with Some g1 => run_phases hard g1 r | None => None end
  | (t, None) :: r => match run_call hard 400 g t with Some g1 => run_phases hard g1 r | None => None end
  end.
Definition results_of (g : gstate) : list (nat * nat * result) :=
  flat_map (fun e => match e with HRes t c _ r _ _ => [(t, c, r)] | _ => [] end) (g_hist g).
Definition phase_check (hard : nat) (sh0 : shared) (threads : list (list call)) (ph : list (nat * option nat))
           (expected : list (nat * nat * result)) (post : postobs) : bool * bool :=
  match run_phases hard (ginit sh0 threads) ph with
  | Some g =>
      (forallb (fun e => existsb (fun x => Nat.eqb (fst (fst x)) (fst (fst e)) &&
                                           Nat.eqb (snd (fst x)) (snd (fst e)) &&
                                           result_eqb (snd x) (snd e)) (results_of g)) expected &&
       Nat.eqb (length (results_of g)) (length expected),
       post_ok (g_sh g) post)
  | None => (false, false)
  end.
