(* WalWriter.v — byte-level model of the WAL WRITER under storage faults (C03).  Executable, NO proofs.

   Models, line by line, engine/src/persistence.rs
     WalWriter::{create_with_error_handler (resulting state), append, append_batch, append_internal,
                 append_batch_internal, append_internal_with_rollback, append_batch_internal_with_rollback,
                 ensure_not_poisoned, write_entry, perform_fsync, rollback_to_offset,
                 rollback_to_stable_state},
     WalErrorHandler::{write_with_retry, classify_error}  (max_retries = 5, breaker failure_threshold = 3),
   engine/src/circuit_breaker.rs (Closed/Open part: record_success, record_failure, open, is_open),
   the libstd loops underneath (io::Write::write_all: short writes continue, Ok(0) = WriteZero,
   EINTR retried; File::sync_all / sync_data / set_len: `cvt_r`, i.e. EINTR retried in place),
   and, as a thin layer, the WAL-before-memory ordering of engine/src/hnsw_backend.rs
   HnswBackend::{insert, delete, batch_delete, update_metadata} and recovery by strict replay.

   FAULT ORACLE.  `oracle = list sysres`: the outcome of every system call the code issues on the
   segment file, in the order issued (write | fsync | fdatasync | ftruncate; lseek is not a fault
   point).  An exhausted oracle means "every later call succeeds".  The model logs the KIND of every
   call it issues in the ghost field `w_trace` (newest first) so that the correspondence check can
   compare the sequence of calls with the one the LD_PRELOAD shim observed on the real writer.

   On top of Model/WalBytes.v: the file is a `bytes`; frames are `WalBytes.frame crc payload`.

   NOT modelled (stated restrictions): the circuit breaker's timed transitions (Open -> HalfOpen after
   60 s, failure window expiry after 60 s) — plans run for < 2 s; FsyncPolicy::Periodic(ms > 0)
   (wall-clock dependent); the back-off sleeps (10 * 2^n ms) have no state effect; check_disk_space;
   MANIFEST existence test; segment rotation (one segment; rotation is in Model/Backend.v / C02);
   snapshots.  Input validity is carried as a class TAG (no float arithmetic). *)
From Coq Require Import List NArith Bool Arith.
From Kyro Require Import Model.WalBytes.
Import ListNotations.
Open Scope N_scope.

(* ------------------------------------------------------------------------------------------ *)
(* System-call outcomes                                                                         *)
(* ------------------------------------------------------------------------------------------ *)
Inductive errno := ENOSPC | EIO | EDQUOT | EINTR | EACCES | EOTHER.

Inductive sysres :=
| SOk                 (* write: every byte requested was written; fsync/fdatasync/ftruncate: 0 *)
| SShort (n : nat)    (* write only: n bytes written (n = 0: write returned 0; n >= len: same as SOk) *)
| SErr (e : errno).   (* -1 with errno *)

Definition oracle := list sysres.

Inductive call := KWrite | KFsync | KFdatasync | KFtruncate.

(* what an attempt can fail with (the root cause anyhow carries) *)
Inductive errkind :=
| XIo (e : errno)     (* std::io::Error from the OS *)
| XWriteZero          (* write_all: "failed to write whole buffer" *)
| XPoisoned           (* ensure_not_poisoned *)
| XTooLarge.          (* write_entry: entry larger than MAX_WAL_ENTRY_BYTES *)

(* WalErrorHandler::classify_error.  ENOSPC -> ErrorKind::StorageFull -> DiskFull; EACCES ->
   PermissionDenied; EINTR -> Interrupted -> Transient; everything else falls to the message test:
   EDQUOT displays as "Disk quota exceeded (os error 122)", which contains neither "Quota exceeded"
   (capital Q) nor "EDQUOT", so it is Transient, like EIO; WriteZero likewise.  Errors that are not
   io::Errors (poisoned, too large) match no pattern: Unknown. *)
Inductive errclass := DiskFull | PermissionDenied | Transient | Unknown.

Definition classify (x : errkind) : errclass :=
  match x with
  | XIo ENOSPC => DiskFull
  | XIo EACCES => PermissionDenied
  | XIo _ => Transient
  | XWriteZero => Transient
  | XPoisoned => Unknown
  | XTooLarge => Unknown
  end.

(* ------------------------------------------------------------------------------------------ *)
(* Writer, breaker                                                                              *)
(* ------------------------------------------------------------------------------------------ *)
Record writer := mkW {
  w_file : bytes;          (* content of the segment file *)
  w_bytes : N;             (* WalWriter.bytes_written *)
  w_count : N;             (* WalWriter.entry_count *)
  w_poisoned : bool;       (* WalWriter.poisoned *)
  w_trace : list call      (* ghost: calls issued so far, newest first *)
}.

Record breaker := mkB { b_open : bool; b_failures : N }.
Record wstate := mkS { s_w : writer; s_b : breaker }.

Inductive policy := PAlways | PPeriodic0 | PNever.

Inductive failure :=
| FBreakerOpen         (* "WAL circuit breaker is open - writes disabled" *)
| FDiskFull            (* "Disk full - circuit breaker opened" *)
| FPermission          (* "Permission denied" *)
| FError (e : errkind).   (* retries exhausted, or an unclassified error *)

Inductive result := Acked | Failed (f : failure).

Definition is_failed (r : result) : bool := match r with Acked => false | Failed _ => true end.

Definition failure_threshold : N := 3.
Definition max_retries : nat := 5.

Definition record_success (b : breaker) : breaker :=
  if b_open b then b else mkB false 0.
Definition record_failure (b : breaker) : breaker :=
  if b_open b then b
  else if failure_threshold <=? b_failures b + 1 then mkB true (b_failures b + 1)
       else mkB false (b_failures b + 1).
Definition open_breaker (b : breaker) : breaker := mkB true (b_failures b).

Definition log (k : call) (w : writer) : writer :=
  mkW (w_file w) (w_bytes w) (w_count w) (w_poisoned w) (k :: w_trace w).
Definition put (bs : bytes) (w : writer) : writer :=       (* O_APPEND: bytes land at end of file *)
  mkW (w_file w ++ bs) (w_bytes w) (w_count w) (w_poisoned w) (w_trace w).
Definition set_file (f : bytes) (w : writer) : writer :=
  mkW f (w_bytes w) (w_count w) (w_poisoned w) (w_trace w).
Definition set_counters (b c : N) (w : writer) : writer :=
  mkW (w_file w) b c (w_poisoned w) (w_trace w).
Definition poison (w : writer) : writer :=
  mkW (w_file w) (w_bytes w) (w_count w) true (w_trace w).

(* state right after WalWriter::create_with_error_handler on a new file (magic written and synced) *)
Definition created : writer := mkW wal_magic 4 0 false [].
Definition init : wstate := mkS created (mkB false 0).

(* ------------------------------------------------------------------------------------------ *)
(* libstd loops                                                                                 *)
(* ------------------------------------------------------------------------------------------ *)

(* io::Write::write_all(buf): while !buf.is_empty() { match write(buf) { Ok(0) => WriteZero,
   Ok(n) => buf = &buf[n..], Err(Interrupted) => continue, Err(e) => return Err(e) } } *)
Fixpoint write_all (buf : bytes) (w : writer) (orc : oracle) {struct orc}
  : writer * option errkind * oracle :=
  match buf with
  | [] => (w, None, orc)
  | _ :: _ =>
      match orc with
      | [] => (put buf (log KWrite w), None, [])
      | r :: o =>
          let w1 := log KWrite w in
          match r with
          | SOk => (put buf w1, None, o)
          | SShort n =>
              if (n =? 0)%nat then (w1, Some XWriteZero, o)
              else if (length buf <=? n)%nat then (put buf w1, None, o)
              else write_all (skipn n buf) (put (firstn n buf) w1) o
          | SErr EINTR => write_all buf w1 o
          | SErr e => (w1, Some (XIo e), o)
          end
      end
  end.

(* cvt_r(|| syscall): retried while it fails with EINTR *)
Fixpoint sys (k : call) (w : writer) (orc : oracle) {struct orc} : writer * option errno * oracle :=
  match orc with
  | [] => (log k w, None, [])
  | SErr EINTR :: o => sys k (log k w) o
  | SErr e :: o => (log k w, Some e, o)
  | _ :: o => (log k w, None, o)
  end.

Definition io_err (r : writer * option errno * oracle) : writer * option errkind * oracle :=
  let '(w, e, o) := r in (w, option_map XIo e, o).

Section Writer.
  Variable crc : bytes -> N.
  Variable pol : policy.

  (* ---------------------------------------------------------------------------------------- *)
  (* WalWriter internals                                                                        *)
  (* ---------------------------------------------------------------------------------------- *)

  (* write_entry: ONE write_all of the whole frame; counters only move after it succeeded *)
  Definition write_entry (p : bytes) (w : writer) (orc : oracle) : writer * option errkind * oracle :=
    if max_wal_entry <? N.of_nat (length p) then (w, Some XTooLarge, orc)
    else
      let fr := frame crc p in
      match write_all fr w orc with
      | (w1, Some e, o) => (w1, Some e, o)
      | (w1, None, o) => (set_counters (w_bytes w1 + N.of_nat (length fr)) (w_count w1 + 1) w1, None, o)
      end.

  (* perform_fsync: flush() is a no-op on File; Always -> sync_all (fsync); Periodic(0) -> sync_data *)
  Definition perform_fsync (w : writer) (orc : oracle) : writer * option errkind * oracle :=
    match pol with
    | PAlways => io_err (sys KFsync w orc)
    | PPeriodic0 => io_err (sys KFdatasync w orc)
    | PNever => (w, None, orc)
    end.

  Definition append_internal (p : bytes) (w : writer) (orc : oracle) :=
    match write_entry p w orc with
    | (w1, Some e, o) => (w1, Some e, o)
    | (w1, None, o) => perform_fsync w1 o
    end.

  Fixpoint write_entries (ps : list bytes) (w : writer) (orc : oracle) :=
    match ps with
    | [] => (w, None, orc)
    | p :: r =>
        match write_entry p w orc with
        | (w1, Some e, o) => (w1, Some e, o)
        | (w1, None, o) => write_entries r w1 o
        end
    end.

  Definition append_batch_internal (ps : list bytes) (w : writer) (orc : oracle) :=
    match write_entries ps w orc with
    | (w1, Some e, o) => (w1, Some e, o)
    | (w1, None, o) => perform_fsync w1 o
    end.

  (* File::set_len(n): shrinks, or extends with zeros *)
  Definition set_len (n : N) (f : bytes) : bytes :=
    firstn (N.to_nat n) f ++ repeat 0 (N.to_nat n - length f).

  (* rollback_to_offset: set_len; seek (no fault point); sync_data *)
  Definition rollback_to_offset (off : N) (w : writer) (orc : oracle) : writer * option errno * oracle :=
    match sys KFtruncate w orc with
    | (w1, Some e, o) => (w1, Some e, o)
    | (w1, None, o) => sys KFdatasync (set_file (set_len off (w_file w1)) w1) o
    end.

  (* rollback_to_stable_state: counters are restored only after the truncate AND its sync succeeded *)
  Definition rollback_to_stable_state (off cnt : N) (w : writer) (orc : oracle) :=
    match rollback_to_offset off w orc with
    | (w1, Some e, o) => (w1, Some e, o)
    | (w1, None, o) => (set_counters off cnt w1, None, o)
    end.

  (* append_internal_with_rollback / append_batch_internal_with_rollback, generic in the inner write.
     On a failed write: roll back; if the rollback fails the writer is poisoned and the ROLLBACK's
     error (wrapped in context) is what the caller — and classify_error — sees. *)
  Definition with_rollback (inner : writer -> oracle -> writer * option errkind * oracle)
             (off cnt : N) (w : writer) (orc : oracle) : writer * option errkind * oracle :=
    if w_poisoned w then (w, Some XPoisoned, orc)           (* ensure_not_poisoned *)
    else
      match inner w orc with
      | (w1, None, o) => (w1, None, o)
      | (w1, Some werr, o) =>
          match rollback_to_stable_state off cnt w1 o with
          | (w2, None, o2) => (w2, Some werr, o2)
          | (w2, Some rerr, o2) => (poison w2, Some (XIo rerr), o2)
          end
      end.

  (* ---------------------------------------------------------------------------------------- *)
  (* WalErrorHandler::write_with_retry                                                          *)
  (* ---------------------------------------------------------------------------------------- *)
  Fixpoint retry_loop (retries : nat) (cl : writer -> oracle -> writer * option errkind * oracle)
           (w : writer) (b : breaker) (orc : oracle) : wstate * result * oracle :=
    match cl w orc with
    | (w1, None, o) => (mkS w1 (record_success b), Acked, o)
    | (w1, Some e, o) =>
        match classify e with
        | DiskFull => (mkS w1 (open_breaker b), Failed FDiskFull, o)
        | PermissionDenied => (mkS w1 (record_failure b), Failed FPermission, o)
        | Transient =>
            match retries with
            | S k => retry_loop k cl w1 b o                  (* sleep 10 * 2^(attempt-1) ms; SAME closure *)
            | O => (mkS w1 (record_failure b), Failed (FError e), o)
            end
        | Unknown => (mkS w1 (record_failure b), Failed (FError e), o)
        end
    end.

  Definition write_with_retry (cl : writer -> oracle -> writer * option errkind * oracle)
             (st : wstate) (orc : oracle) : wstate * result * oracle :=
    if b_open (s_b st) then (st, Failed FBreakerOpen, orc)
    else retry_loop max_retries cl (s_w st) (s_b st) orc.

  (* WalWriter::append (with the error handler, as HnswBackend constructs it): the stable offset and
     count are captured ONCE, before the first attempt *)
  Definition append (st : wstate) (p : bytes) (orc : oracle) : wstate * result * oracle :=
    write_with_retry (with_rollback (append_internal p) (w_bytes (s_w st)) (w_count (s_w st))) st orc.

  Definition append_batch (st : wstate) (ps : list bytes) (orc : oracle) : wstate * result * oracle :=
    write_with_retry (with_rollback (append_batch_internal ps) (w_bytes (s_w st)) (w_count (s_w st))) st orc.

  (* RECORDED DEFECT CLASS (known_findings: C03-rollback-failed-after-complete-frame), as a class of
     INPUTS (state, payloads, fault oracle): the call fails, its rollback fails (writer newly
     poisoned), and at that moment at least the first frame of this very call is completely in the
     file (e.g. write ok, fsync fails, ftruncate fails; or, in a batch, frame 1 written, write of
     frame 2 fails, ftruncate fails).  The strict reader then replays entries of a call that was
     reported as failed. *)
  Definition known_c03 (st : wstate) (ps : list bytes) (orc : oracle) : bool :=
    match ps with
    | [] => false
    | p :: _ =>
        let '(st', r, _) := append_batch st ps orc in
        is_failed r && negb (w_poisoned (s_w st)) && w_poisoned (s_w st')
        && (length (w_file (s_w st)) + length (frame crc p) <=? length (w_file (s_w st')))%nat
    end.

  (* a history of writer calls threaded through ONE oracle *)
  Inductive wop := WAppend (p : bytes) | WBatch (ps : list bytes).

  Definition wstep (st : wstate) (o : wop) (orc : oracle) : wstate * result * oracle :=
    match o with
    | WAppend p => append st p orc
    | WBatch ps => append_batch st ps orc
    end.

  Definition wpayloads (o : wop) : list bytes := match o with WAppend p => [p] | WBatch ps => ps end.

  Fixpoint wrun (st : wstate) (ops : list wop) (orc : oracle) : wstate * list result * oracle :=
    match ops with
    | [] => (st, [], orc)
    | o :: r =>
        let '(st1, res, orc1) := wstep st o orc in
        let '(st2, rs, orc2) := wrun st1 r orc1 in
        (st2, res :: rs, orc2)
    end.

  (* ---------------------------------------------------------------------------------------- *)
  (* Engine level (thin): WAL-before-memory ordering of HnswBackend's write paths                *)
  (* ---------------------------------------------------------------------------------------- *)
  Variable deser_ok : bytes -> bool.

  (* bincode(WalEntry) starts with the variant index of `op` (u32 LE: Insert 0, Delete 1,
     UpdateMetadata 2) and `doc_id` (u64 LE); the rest (embedding, metadata, seq_no, timestamp) is
     carried as opaque body bytes *)
  Definition enc (tag id : N) (body : bytes) : bytes := to_le 4 tag ++ to_le 8 id ++ body.

  Definition dec (p : bytes) : option (N * N) :=
    match take 4 p with
    | None => None
    | Some (t, r) => match take 8 r with None => None | Some (i, _) => Some (le_n t, le_n i) end
    end.

  (* abstract collection: id |-> (payload of the last insert, payload of the last metadata update since) *)
  Definition edoc := (bytes * option bytes)%type.
  Definition emap := list (N * edoc).

  Fixpoint m_get (id : N) (m : emap) : option edoc :=
    match m with [] => None | (k, v) :: r => if k =? id then Some v else m_get id r end.
  Definition m_remove (id : N) (m : emap) : emap := filter (fun kv => negb (fst kv =? id)) m.
  Definition m_set (id : N) (v : edoc) (m : emap) : emap := (id, v) :: m_remove id m.

  (* what recovery (and the live engine, after the append) does with one logged entry *)
  Definition apply_payload (m : emap) (p : bytes) : emap :=
    match dec p with
    | Some (0, id) => m_set id (p, None) m
    | Some (1, id) => m_remove id m
    | Some (2, id) => match m_get id m with Some (b, _) => m_set id (b, Some p) m | None => m end
    | _ => m
    end.

  Definition replay (es : list bytes) : emap := fold_left apply_payload es [].

  (* restart: strict read of the segment, then replay; None = start-up refused *)
  Definition recover (file : bytes) : option emap :=
    match read_all_strict crc deser_ok file with
    | RdOk es => Some (replay es)
    | _ => None
    end.

  (* input classes of an insert (tags; the float arithmetic behind them is not modelled) *)
  Inductive icls := IValid | IWrongDim | IZeroNorm | INonFinite | INormOutOfTol | IIndexFull.

  (* HnswVectorIndex::add_vector accepts exactly the valid class (dimension, finiteness, capacity,
     norm tolerance are its four checks) *)
  Definition index_accepts (c : icls) : bool := match c with IValid => true | _ => false end.

  (* pre-flight of HnswBackend::insert BEFORE the WAL append.  Current code (after ca4513e):
     dimension, normalisation (zero norm), finiteness, norm tolerance, capacity. *)
  Definition preflight_rejects (c : icls) : bool := negb (index_accepts c).
  (* the ordering before ca4513e: only dimension, zero norm and capacity were checked up front *)
  Definition preflight_rejects_old (c : icls) : bool :=
    match c with IWrongDim | IZeroNorm | IIndexFull => true | _ => false end.

  Record estate := mkE { e_s : wstate; e_mem : emap; e_degraded : bool (* wal_inconsistent *) }.

  Definition einit : estate := mkE init [] false.

  Inductive eres := EOk | ENoop (* Ok(false) / Ok(0): target absent, nothing logged *) | EFail.

  Inductive eop :=
  | OInsert (id : N) (c : icls) (body : bytes)
  | ODelete (id : N)
  | OBatchDelete (ids : list N)
  | OUpdateMeta (id : N) (body : bytes).

  Definition insert_gen (pre : icls -> bool) (st : estate) (id : N) (c : icls) (body : bytes) (orc : oracle)
    : estate * eres * oracle :=
    if e_degraded st then (st, EFail, orc)
    else if pre c then (st, EFail, orc)
    else
      let p := enc 0 id body in
      match append (e_s st) p orc with
      | (s1, Failed _, o) => (mkE s1 (e_mem st) false, EFail, o)
      | (s1, Acked, o) =>
          if index_accepts c then (mkE s1 (apply_payload (e_mem st) p) false, EOk, o)
          else
            (* index.add_vector failed after the append: compensating Delete entry *)
            match append s1 (enc 1 id []) o with
            | (s2, Failed _, o2) => (mkE s2 (e_mem st) true, EFail, o2)
            | (s2, Acked, o2) => (mkE s2 (e_mem st) false, EFail, o2)
            end
      end.

  Definition is_some {A} (o : option A) : bool := match o with Some _ => true | None => false end.

  (* one logged single-entry mutation: append, and only then the in-memory change *)
  Definition logged (st : estate) (p : bytes) (orc : oracle) : estate * eres * oracle :=
    match append (e_s st) p orc with
    | (s1, Failed _, o) => (mkE s1 (e_mem st) false, EFail, o)
    | (s1, Acked, o) => (mkE s1 (apply_payload (e_mem st) p) false, EOk, o)
    end.

  Definition estep_gen (pre : icls -> bool) (st : estate) (op : eop) (orc : oracle) : estate * eres * oracle :=
    match op with
    | OInsert id c body => insert_gen pre st id c body orc
    | ODelete id =>
        if e_degraded st then (st, EFail, orc)
        else if is_some (m_get id (e_mem st)) then logged st (enc 1 id []) orc
        else (st, ENoop, orc)
    | OBatchDelete ids =>
        if e_degraded st then (st, EFail, orc)
        else
          let live := filter (fun id => is_some (m_get id (e_mem st))) ids in
          match live with
          | [] => (st, ENoop, orc)
          | _ =>
              let ps := map (fun id => enc 1 id []) live in
              match append_batch (e_s st) ps orc with
              | (s1, Failed _, o) => (mkE s1 (e_mem st) false, EFail, o)
              | (s1, Acked, o) => (mkE s1 (fold_left apply_payload ps (e_mem st)) false, EOk, o)
              end
          end
    | OUpdateMeta id body =>
        if e_degraded st then (st, EFail, orc)
        else if is_some (m_get id (e_mem st)) then logged st (enc 2 id body) orc
        else (st, ENoop, orc)
    end.

  Definition estep := estep_gen preflight_rejects.          (* the code as it is *)
  Definition estep_old := estep_gen preflight_rejects_old.  (* the ordering before ca4513e *)

  (* payloads the operation hands to the writer in its (first) append call *)
  Definition op_payloads (st : estate) (op : eop) : list bytes :=
    match op with
    | OInsert id c body => if preflight_rejects c then [] else [enc 0 id body]
    | ODelete id => if is_some (m_get id (e_mem st)) then [enc 1 id []] else []
    | OBatchDelete ids => map (fun id => enc 1 id []) (filter (fun id => is_some (m_get id (e_mem st))) ids)
    | OUpdateMeta id body => if is_some (m_get id (e_mem st)) then [enc 2 id body] else []
    end.

  (* ids an operation names *)
  Definition op_ids (op : eop) : list N :=
    match op with
    | OInsert id _ _ => [id] | ODelete id => [id] | OBatchDelete ids => ids | OUpdateMeta id _ => [id]
    end.

  Definition e_known (st : estate) (op : eop) (orc : oracle) : bool :=
    negb (e_degraded st) && known_c03 (e_s st) (op_payloads st op) orc.

  Fixpoint erun (st : estate) (ops : list eop) (orc : oracle) : estate * list eres * oracle :=
    match ops with
    | [] => (st, [], orc)
    | o :: r =>
        let '(st1, res, orc1) := estep st o orc in
        let '(st2, rs, orc2) := erun st1 r orc1 in
        (st2, res :: rs, orc2)
    end.
End Writer.

(* ------------------------------------------------------------------------------------------ *)
(* helpers for the correspondence check (cases files)                                           *)
(* ------------------------------------------------------------------------------------------ *)
Definition call_code (k : call) : N :=
  match k with KWrite => 1 | KFsync => 2 | KFdatasync => 3 | KFtruncate => 4 end.

(* result class as observable from the error text of the real writer *)
Definition result_code (r : result) : N :=
  match r with
  | Acked => 0
  | Failed FBreakerOpen => 1
  | Failed FDiskFull => 2
  | Failed FPermission => 3
  | Failed (FError XPoisoned) => 4
  | Failed (FError _) => 5
  end.

Fixpoint list_N_eqb (a b : list N) : bool :=
  match a, b with
  | [], [] => true
  | x :: r, y :: s => (x =? y) && list_N_eqb r s
  | _, _ => false
  end.

(* observation after one call: (result code, file bytes, bytes_written, entry_count, breaker open) *)
Definition wobs := (N * bytes * N * N * bool)%type.

Definition observe (st : wstate) (r : result) : wobs :=
  (result_code r, w_file (s_w st), w_bytes (s_w st), w_count (s_w st), b_open (s_b st)).

Definition wobs_eqb (a b : wobs) : bool :=
  let '(r1, f1, b1, c1, o1) := a in
  let '(r2, f2, b2, c2, o2) := b in
  (r1 =? r2) && bytes_eqb f1 f2 && (b1 =? b2) && (c1 =? c2) && Bool.eqb o1 o2.

(* run a plan, observing after every call *)
Fixpoint wrun_obs (crc : bytes -> N) (pol : policy) (st : wstate) (ops : list wop) (orc : oracle)
  : wstate * list wobs * oracle :=
  match ops with
  | [] => (st, [], orc)
  | o :: r =>
      let '(st1, res, orc1) := wstep crc pol st o orc in
      let '(st2, obs, orc2) := wrun_obs crc pol st1 r orc1 in
      (st2, observe st1 res :: obs, orc2)
  end.

Fixpoint wobs_list_eqb (a b : list wobs) : bool :=
  match a, b with
  | [], [] => true
  | x :: r, y :: s => wobs_eqb x y && wobs_list_eqb r s
  | _, _ => false
  end.

(* a plan agrees with the implementation when the per-call observations, the sequence of system
   calls issued, and "the oracle was consumed exactly" all match *)
Definition plan_ok (crc : bytes -> N) (pol : policy) (ops : list wop) (orc : oracle)
           (observed : list wobs) (calls : list N) : bool :=
  let '(st, obs, rest) := wrun_obs crc pol init ops orc in
  wobs_list_eqb obs observed
  && list_N_eqb (map call_code (rev (w_trace (s_w st)))) calls
  && match rest with [] => true | _ => false end.
