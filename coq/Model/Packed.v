(* C17 — hand model of the loops of engine/src/ann_backend.rs that call the unchecked accessors:
   FlatGraph::{search_fp32, greedy_descent_layer, search_layer0_exact, search_at_layer_into,
   prefetch_*}, select_diverse_neighbors_into, merge_and_prune_reverse_edge_with_scratch and the search
   phase of insert_into_existing_flat_with_scratch.  No proofs here.

   The graph is an ARBITRARY word array: every neighbour id is whatever `w_rd` returns (any N, so in
   particular any u32), read through the accessor functions REGENERATED from the source
   (gen/Packed_gen.v) — the model does not assume the stored ids are valid, only what the code checks.
   Everything that depends on float distances, heap order, cancellation flags or the contents of the
   (bounds-checked) upper-layer adjacency lists is decided by an arbitrary `oracle`; the theorems
   quantify over all oracles, all arrays, all fuel.  The model records, as events, every id / index
   that reaches an unchecked accessor. *)
From Coq Require Import NArith List Bool String.
From Kyro Require Import Model.Strided Model.PackedBase gen.Packed_gen.
Import ListNotations.
Open Scope N_scope.

Record world : Type := mk_world {
  w_l0 : PackedLevel0;         (* scalar fields + data length of the packed level-0 store *)
  w_rd : N -> N -> N;          (* arbitrary array contents *)
  w_nd : N -> bool;            (* arbitrary outcomes of the conditions the translator left opaque *)
  w_nc : N                     (* node_count = FlatGraph::len() = dense_to_origin.len() *)
}.

Inductive ev : Type :=
  | ECount (id : N)            (* level0.count_unchecked(id) *)
  | ENeighbor (id idx : N)     (* level0.neighbor_unchecked(id, idx) *)
  | EVector (id : N)           (* level0.vector_at_unchecked(id), via distance_to_unchecked / distance_between_dense_unchecked *)
  | EMark (id : N)             (* scratch.mark_if_unvisited_unchecked(id) *)
  | ERecordPtr (id : N).       (* level0.record_ptr(id) (raw pointer arithmetic) in prefetch_dense_vector *)

Record oracle : Type := mk_oracle {
  o_pick : nat -> list N -> nat;   (* which element the candidate heap pops *)
  o_stop : nat -> bool;            (* cancellation / `candidate_dist > worst_dist` / `!improved` *)
  o_istop : nat -> N -> bool;      (* cancellation or `break` inside a neighbour loop *)
  o_hop2 : nat -> N -> bool;       (* second-hop prefetch enabled *)
  o_push : nat -> N -> bool;       (* can_push / diversified / kept *)
  o_better : nat -> N -> bool;     (* d < current_dist *)
  o_nbrs : nat -> N -> list N;     (* contents of a checked adjacency slice (upper layers): arbitrary ids *)
  o_first : nat -> list N -> nat   (* which pushed id ends up first in the result list *)
}.

(* values read through the generated accessors *)
Definition count_val (w : world) (id : N) : N :=
  opt_or (m_val (PackedLevel0_count_unchecked (w_l0 w) (w_rd w) (w_nd w) id)) 0.
Definition neighbor_val (w : world) (id idx : N) : N :=
  opt_or (m_val (PackedLevel0_neighbor_unchecked (w_l0 w) (w_rd w) (w_nd w) id idx)) 0.

Definition range (n : N) : list N := map N.of_nat (seq 0 (N.to_nat n)).
Definition memN (x : N) (l : list N) : bool := existsb (N.eqb x) l.
Definition pick (k : nat) (l : list N) : N := nth k l (hd 0 l).
Fixpoint remove_nth (k : nat) (l : list N) : list N :=
  match l, k with
  | [], _ => []
  | _ :: t, O => t
  | h :: t, S k' => h :: remove_nth k' t
  end.

(* prefetch_dense_vector: `if idx >= self.len() { return; }` then record_ptr *)
Definition prefetch_dense (w : world) (id : N) : list ev :=
  if w_nc w <=? id then [] else [ERecordPtr id].

(* prefetch_level0_neighbor_lookahead(dense_id, neighbor_count, idx, ..) *)
Definition prefetch_level0 (w : world) (o : oracle) (t : nat) (cand count idx : N) : list ev :=
  (if idx + 1 <? count then ENeighbor cand (idx + 1) :: prefetch_dense w (neighbor_val w cand (idx + 1)) else []) ++
  (if o_hop2 o t idx && (idx + 2 <? count) then ENeighbor cand (idx + 2) :: prefetch_dense w (neighbor_val w cand (idx + 2)) else []).

(* prefetch_neighbor_lookahead(neighbors, idx, ..): checked `neighbors.get(idx + k)` *)
Definition prefetch_list (w : world) (o : oracle) (t : nat) (nbrs : list N) (idx : nat) : list ev :=
  (match nth_error nbrs (idx + 1) with Some nx => prefetch_dense w nx | None => [] end) ++
  (if o_hop2 o t (N.of_nat idx) then match nth_error nbrs (idx + 2) with Some nx => prefetch_dense w nx | None => [] end else []).

(* the body shared by the layer-0 and upper-layer neighbour loops, after `nbr` has been obtained:
   guard, visited mark, distance, push.  Returns (events, visited, candidates, pushed). *)
Definition visit (w : world) (o : oracle) (t : nat) (nbr : N) (visited cands pushed : list N)
  : list ev * list N * list N * list N :=
  if w_nc w <=? nbr then ([], visited, cands, pushed)                    (* if nbr as usize >= node_count { continue } *)
  else if memN nbr visited then ([EMark nbr], visited, cands, pushed)    (* !newly_visited => continue *)
  else if o_push o t nbr
       then ([EMark nbr; EVector nbr], nbr :: visited, nbr :: cands, nbr :: pushed)
       else ([EMark nbr; EVector nbr], nbr :: visited, cands, pushed).

(* for idx in 0..neighbor_count over the packed record of `cand` *)
Fixpoint l0_nbrs (w : world) (o : oracle) (t : nat) (cand count : N) (idxs : list N) (visited cands pushed : list N)
  : list ev * list N * list N * list N :=
  match idxs with
  | [] => ([], visited, cands, pushed)
  | idx :: rest =>
    if o_istop o t idx then ([], visited, cands, pushed) else
    let pf := prefetch_level0 w o t cand count idx in
    let nbr := neighbor_val w cand idx in
    let '(e1, v1, c1, p1) := visit w o t nbr visited cands pushed in
    let '(e2, v2, c2, p2) := l0_nbrs w o t cand count rest v1 c1 p1 in
    (pf ++ ENeighbor cand idx :: e1 ++ e2, v2, c2, p2)
  end.

(* while let Some(candidate) = scratch.candidates.pop() — layer 0 *)
Fixpoint l0_loop (w : world) (o : oracle) (fuel : nat) (visited cands pushed : list N) : list ev * list N :=
  match fuel with
  | O => ([], pushed)
  | S f =>
    match cands with
    | [] => ([], pushed)
    | _ =>
      let k := o_pick o fuel cands in
      let cand := pick k cands in
      let cands1 := remove_nth k cands in
      if o_stop o fuel then ([], pushed) else
      let count := count_val w cand in
      let '(e1, v1, c1, p1) := l0_nbrs w o fuel cand count (range count) visited cands1 pushed in
      let '(e2, p2) := l0_loop w o f v1 c1 p1 in
      (ECount cand :: e1 ++ e2, p2)
    end
  end.

(* search_layer0_exact / the `layer == 0` arm of search_at_layer_into (scratch already prepared;
   mark_visited(entry) is the CHECKED mark) *)
Definition search_layer0 (w : world) (o : oracle) (fuel : nat) (entry : N) : list ev * list N :=
  l0_loop w o fuel [entry] [entry] [entry].

(* upper layers: neighbours come from the bounds-checked LayerAdjacency::neighbors slice *)
Fixpoint up_nbrs (w : world) (o : oracle) (t : nat) (all : list N) (idx : nat) (nbrs : list N) (visited cands pushed : list N)
  : list ev * list N * list N * list N :=
  match nbrs with
  | [] => ([], visited, cands, pushed)
  | nbr :: rest =>
    let pf := prefetch_list w o t all idx in
    let '(e1, v1, c1, p1) := visit w o t nbr visited cands pushed in
    let '(e2, v2, c2, p2) := up_nbrs w o t all (S idx) rest v1 c1 p1 in
    (pf ++ e1 ++ e2, v2, c2, p2)
  end.

Fixpoint up_loop (w : world) (o : oracle) (fuel : nat) (visited cands pushed : list N) : list ev * list N :=
  match fuel with
  | O => ([], pushed)
  | S f =>
    match cands with
    | [] => ([], pushed)
    | _ =>
      let k := o_pick o fuel cands in
      let cand := pick k cands in
      let cands1 := remove_nth k cands in
      if o_stop o fuel then ([], pushed) else
      let nbrs := o_nbrs o fuel cand in
      let '(e1, v1, c1, p1) := up_nbrs w o fuel nbrs 0 nbrs visited cands1 pushed in
      let '(e2, p2) := up_loop w o f v1 c1 p1 in
      (e1 ++ e2, p2)
    end
  end.

(* search_at_layer_into: returns the events and the ids that may appear in `out` *)
Definition search_at_layer (w : world) (o : oracle) (fuel : nat) (entry : N) (layer0 : bool) : list ev * list N :=
  if layer0 then search_layer0 w o fuel entry else up_loop w o fuel [entry] [entry] [entry].

(* greedy_descent_layer: returns the events and the id it returns *)
Fixpoint greedy_nbrs (w : world) (o : oracle) (t : nat) (all : list N) (idx : nat) (nbrs : list N) (current : N) : list ev * N :=
  match nbrs with
  | [] => ([], current)
  | nbr :: rest =>
    if o_istop o t (N.of_nat idx) then ([], current) else
    let pf := prefetch_list w o t all idx in
    if w_nc w <=? nbr then
      let '(e, c) := greedy_nbrs w o t all (S idx) rest current in (pf ++ e, c)
    else
      let cur' := if o_better o t nbr then nbr else current in
      let '(e, c) := greedy_nbrs w o t all (S idx) rest cur' in (pf ++ EVector nbr :: e, c)
  end.

Fixpoint greedy (w : world) (o : oracle) (fuel : nat) (current : N) : list ev * N :=
  match fuel with
  | O => ([], current)
  | S f =>
    if o_stop o fuel then ([], current) else
    let nbrs := o_nbrs o fuel current in
    let '(e1, c1) := greedy_nbrs w o fuel nbrs 0 nbrs current in
    let '(e2, c2) := greedy w o f c1 in
    (e1 ++ e2, c2)
  end.

(* `let mut entry = self.entry_by_layer[..]; if entry as usize >= self.len() { entry = 0; }` *)
Definition clamp_entry (w : world) (e0 : N) : N := if w_nc w <=? e0 then 0 else e0.

Fixpoint descend (w : world) (o : oracle) (fuel : nat) (layers : nat) (entry : N) : list ev * N :=
  match layers with
  | O => ([], entry)
  | S l =>
    let '(e1, c1) := greedy w o fuel entry in
    let '(e2, c2) := descend w o fuel l c1 in
    (e1 ++ e2, c2)
  end.

(* FlatGraph::search_fp32: e0 is whatever entry_by_layer holds *)
Definition search_fp32 (w : world) (o : oracle) (fuel : nat) (layers : nat) (e0 : N) : list ev :=
  let entry := clamp_entry w e0 in
  let '(e1, entry1) := descend w o fuel layers entry in
  e1 ++ fst (search_layer0 w o fuel entry1).

(* the search phase of insert_into_existing_flat_with_scratch: descend, then per layer
   search_at_layer_into and `entry = best_id` (first of the results) *)
Fixpoint insert_layers (w : world) (o : oracle) (fuel : nat) (layers : list bool) (entry : N) : list ev :=
  match layers with
  | [] => []
  | is0 :: rest =>
    let '(e1, pushed) := search_at_layer w o fuel entry is0 in
    let entry' := pick (o_first o fuel pushed) pushed in
    e1 ++ insert_layers w o fuel rest entry'
  end.

Definition insert_search (w : world) (o : oracle) (fuel : nat) (upper : nat) (layers : list bool) (e0 : N) : list ev :=
  let entry := clamp_entry w e0 in
  let '(e1, entry1) := descend w o fuel upper entry in
  e1 ++ insert_layers w o fuel layers entry1.

(* select_diverse_neighbors_into(candidates, ..): candidate ids are arbitrary *)
Fixpoint sd_inner (o : oracle) (t : nat) (cand : N) (sel : list N) : list ev :=
  match sel with
  | [] => []
  | chosen :: rest => EVector cand :: EVector chosen :: (if o_istop o t chosen then [] else sd_inner o t cand rest)
  end.

Fixpoint sd_loop (w : world) (o : oracle) (t : nat) (cands : list N) (sel : list N) : list ev * list N :=
  match cands with
  | [] => ([], sel)
  | cand :: rest =>
    if w_nc w <=? cand then sd_loop w o t rest sel
    else if memN cand sel then sd_loop w o t rest sel
    else
      let e := sd_inner o t cand sel in
      let sel' := if o_push o t cand then sel ++ [cand] else sel in
      let '(e2, s2) := sd_loop w o t rest sel' in (e ++ e2, s2)
  end.

Definition select_diverse (w : world) (o : oracle) (t : nat) (cands : list N) : list ev * list N :=
  sd_loop w o t cands [].

(* merge_and_prune_reverse_edge_with_scratch(layer, target, incoming, ..); `current` = the (checked)
   neighbour slice of target, arbitrary ids *)
Fixpoint mp_score (w : world) (target : N) (current : list N) : list ev * list N :=
  match current with
  | [] => ([], [])
  | nbr :: rest =>
    let '(e, kept) := mp_score w target rest in
    if (nbr =? target) || (w_nc w <=? nbr) then (e, kept)
    else (EVector target :: EVector nbr :: e, nbr :: kept)
  end.

Definition merge_prune (w : world) (o : oracle) (t : nat) (target incoming : N) (current : list N) : list ev :=
  if (w_nc w <=? target) || (w_nc w <=? incoming) || (target =? incoming) then []
  else if o_stop o t then []            (* the early exits that touch no unchecked accessor *)
  else
    let '(e1, scored) := mp_score w target current in
    let e2 := if o_push o t incoming then [EVector target; EVector incoming] else [] in
    e1 ++ e2 ++ fst (select_diverse w o t (scored ++ [incoming])).

(* ---- what an event must satisfy, and the accesses it stands for ---- *)
Definition ev_okb (w : world) (e : ev) : bool :=
  match e with
  | ECount id | EVector id | EMark id | ERecordPtr id => id <? w_nc w
  | ENeighbor id idx => (id <? w_nc w) && (idx <? PackedLevel0_cap (w_l0 w))
  end.

Definition ev_accs (w : world) (sc : FlatSearchScratch) (e : ev) : list pacc :=
  match e with
  | ECount id => m_accs (PackedLevel0_count_unchecked (w_l0 w) (w_rd w) (w_nd w) id)
  | ENeighbor id idx => m_accs (PackedLevel0_neighbor_unchecked (w_l0 w) (w_rd w) (w_nd w) id idx)
  | EVector id => m_accs (PackedLevel0_vector_at_unchecked (w_l0 w) (w_rd w) (w_nd w) id)
  | EMark id => m_accs (FlatSearchScratch_mark_if_unvisited_unchecked sc (w_rd w) (w_nd w) id)
  | ERecordPtr id => m_accs (PackedLevel0_record_ptr (w_l0 w) (w_rd w) (w_nd w) id)
  end.

(* the (function, unsafe callee) pairs this model covers; compared with gen/Guards_gen.site_pairs *)
Open Scope string_scope.
Definition model_sites : list (string * string) :=
  [("vector_at_unchecked", "vector_at_unchecked"); ("distance_to_unchecked", "vector_at_unchecked");
   ("distance_between_dense_unchecked", "vector_at_unchecked");
   ("prefetch_dense_vector", "record_ptr");
   ("prefetch_level0_neighbor_lookahead", "neighbor_unchecked");
   ("greedy_descent_layer", "distance_to_unchecked"); ("greedy_descent_layer", "(returned id)");
   ("search_layer0_exact", "count_unchecked"); ("search_layer0_exact", "prefetch_level0_neighbor_lookahead");
   ("search_layer0_exact", "neighbor_unchecked"); ("search_layer0_exact", "mark_if_unvisited_unchecked");
   ("search_layer0_exact", "distance_to_unchecked");
   ("search_at_layer_into", "count_unchecked"); ("search_at_layer_into", "prefetch_level0_neighbor_lookahead");
   ("search_at_layer_into", "neighbor_unchecked"); ("search_at_layer_into", "mark_if_unvisited_unchecked");
   ("search_at_layer_into", "distance_to_unchecked");
   ("select_diverse_neighbors_into", "distance_between_dense_unchecked");
   ("merge_and_prune_reverse_edge_with_scratch", "distance_between_dense_unchecked");
   ("search_fp32", "search_layer0_exact");
   ("insert_into_existing_flat_with_scratch", "search_at_layer_into")].

Definition pair_eqb (a b : string * string) : bool := String.eqb (fst a) (fst b) && String.eqb (snd a) (snd b).
Definition covers (xs ys : list (string * string)) : bool := forallb (fun x => existsb (pair_eqb x) ys) xs.
