(* Backend.v — THE shared persistence model of KyroDB's cold tier (executable, NO proofs).

   Models, line by line, engine/src/hnsw_backend.rs (HnswBackend::{with_persistence*, insert, delete,
   batch_delete, update_metadata, create_snapshot, compact_old_wal_segments, compact_tombstones,
   recover_with_hnsw_params_and_mode}, PersistenceState::rotate_wal_if_needed,
   normalize_in_place_if_needed) and engine/src/persistence.rs (WalWriter::{create*, append,
   append_batch}, WalReader::{open, read_all, read_all_strict}, Snapshot::{new, save, load,
   load_with_validation}, Manifest::{save, load, load_or_create}).

   Shape.  Every state-changing operation computes the in-memory result AND the ordered list of
   file-system effects the code issues (DESIGN.md §3.4); the new directory is
   `apply_effs disk effs` (= fold_left apply_eff).  `step : cfg -> state -> op -> state * outcome *
   list eff`; `st_disk (step s o) = apply_effs (st_disk s) effs` is proved in Proofs/BackendProofs.v
   (`step_disk`), so C01 may cut `effs` at any prefix.  `recover` itself creates a segment and
   rewrites the manifest (`recover_full` also returns those effects).

   Conventions / decisions (binding for the extensions C01, C03, C12, C13):
   * Documents: `doc = {d_vec : list Z (f32 bit patterns, uninterpreted); d_meta : sorted list of
     (key bytes, value bytes)}`; `store = amap doc` (Model/Amap.v, canonical sorted list, so a store
     is its own census).  The in-memory slot vectors (embeddings/internal_to_external with tombstones)
     are abstracted to `st_slots` = index.current_count = number of slots incl. tombstones; that is
     all `is_full`/`compact_tombstones` need.
   * Sizes are exact: `frame_size e = 4 + bincode(WalEntry) + 4 = 52 + 4*dim + sum(16+|k|+|v|)`,
     `WalWriter.bytes_written` starts at 4 (magic); rotation happens iff `max_wal <> 0 /\ bytes >=
     max_wal`, checked once after each append/append_batch — exactly as the code.
   * File ids: the code uses the microsecond clock (`file_id()`); the model uses `fresh_id d` =
     1 + the largest id carried by a name in the directory (fresh ids increase; only the relative
     order matters: the snapshot fallback scan sorts by it).  Names: MANIFEST, MANIFEST.tmp,
     wal_<n>.wal, snapshot_<n>.snap, snapshot_<n>.tmp.
   * Outside-world functions are FIELDS OF cfg (equivalent to Section variables; hypotheses about them
     are explicit premises of the theorems):  `c_normalize` = the Cosine/InnerProduct branch of
     normalize_in_place_if_needed on bit patterns (None = "embedding norm is zero"); `c_accepts` = the
     per-vector validation shared by HnswVectorIndex::add_vector and parallel_insert_batch (all
     components finite; norm_sq in [0.98,1.02] for Cosine/InnerProduct).  C02 assumes
     `norm_idem` (Proofs/BackendProofs.v): c_normalize v = Some w -> c_normalize w = Some w.
   * insert pre-flights the index's acceptance checks (`c_accepts`) BEFORE the WAL append (/repo commit
     ca4513e, repair of defect #1 of DESIGN.md §4): a refused vector gives `OErrRejected` and changes
     nothing.  The old branch "index.add_vector fails AFTER the append -> compensating Delete frame" still
     exists in the code and in `do_insert`; it tests the same predicate and is therefore unreachable.
   * A snapshot stores `sn_docs : list (id * doc)` — the code's two parallel lists
     (documents, metadata) are produced by one iteration over the same slots and are re-joined on
     load; validate_alignment therefore reduces to "ids unique".
   * Tmp files: `ECreate f true` (O_TRUNC) makes `FEmpty`, `EWriteFile` puts the (collapsed BufWriter)
     content, `ERename` moves it.  A just-created WAL is `FEmpty` until its 4-byte magic is appended.
     `FBad` = unparsable content (for C13 damage); tails `Torn`/`BadLen` and frames `BadCrc`/`BadDeser`
     are interpreted by `read_all` exactly as WalReader does; C02 itself only produces clean files.
   * Strict recovery's coverage check (/repo commit b87f300) is in `recover_read`: entries with
     loaded-snapshot seq < seq <= manifest.latest_snapshot_wal_seq are counted while replaying and must
     number exactly the difference (`RCoverageGap` otherwise).  On clean histories both seqs coincide
     (Proofs: `snap_ok`), so the check never fires; it matters for C13 (fallback to an older snapshot).
   * Kill model: `EFsync/EFsyncData/EFsyncDir` do not change the directory (C01 adds power loss).

   NOT modelled (stated restriction): legacy `seq_no = 0` entries and every timestamp path (an entry
   with seq 0 makes `recover` answer `RUnmodelled`), the HNSW graph, `check_disk_space`, the
   WalErrorHandler retry/rollback machinery and `wal_inconsistent` (C03 adds faults), non-empty initial
   documents of `with_persistence` (init = empty collection), Periodic(ms>0) fsync timing, Windows. *)
From Coq Require Import List NArith ZArith Bool.
From Kyro Require Import Model.Amap.
Import ListNotations.
Open Scope N_scope.

(* ------------------------------------------------------------------------------------------ *)
(* Data                                                                                        *)
(* ------------------------------------------------------------------------------------------ *)

Definition bytes := list N.
Definition vec := list Z.
Definition meta := list (bytes * bytes).

Record doc := mkDoc { d_vec : vec; d_meta : meta }.
Definition store := amap doc.

Inductive metric := Euclidean | Cosine | InnerProduct.
Inductive mode := Strict | BestEffort.
Inductive fsync_policy := FsAlways | FsData (* Periodic(0) *) | FsNever.

Inductive walop := Ins | Del | Upd.
Record entry := mkEntry { e_op : walop; e_id : N; e_vec : vec; e_meta : meta; e_seq : N }.

Inductive frame := Good (e : entry) | BadCrc | BadDeser.
Inductive tail := Clean | Torn | BadLen.

Inductive name := NManifest | NManifestTmp | NWal (n : N) | NSnap (n : N) | NSnapTmp (n : N).

Record snapshot := mkSnap {
  sn_dim : N;                     (* 0 when the snapshot has no documents *)
  sn_metric : metric;
  sn_docs : list (N * doc);
  sn_last_seq : N
}.

Record manifest := mkManifest {
  m_snapshot : option name;       (* latest_snapshot *)
  m_snapshot_seq : option N;      (* latest_snapshot_wal_seq *)
  m_segments : list name          (* wal_segments, oldest first; the last one is the active writer's *)
}.

Inductive file :=
| FEmpty                                    (* exists, zero bytes *)
| FWal (frs : list frame) (t : tail)        (* magic header + frames + what follows the last frame *)
| FSnap (s : snapshot)                      (* magic, size, payload, matching CRC *)
| FManifest (m : manifest)
| FBad.                                     (* unparsable (damage, garbage) *)

Definition dir := list (name * file).

Inductive rerr :=
| RZeroDim | RNoManifest | RBadManifest | RSnapshot | RSnapDim | RSnapMetric
| RMissingSegment | RBadSegment | RCorruptFrames | REntryDim | RNormalize | RCapacity
| RIndexReject | RCoverageGap | RUnmodelled.

Inductive result (A : Type) := Ok (a : A) | Err (e : rerr).
Arguments Ok {A} a.
Arguments Err {A} e.

Record cfg := mkCfg {
  c_metric : metric;
  c_dim : N;
  c_snapshot_interval : N;        (* 0 = automatic snapshots disabled *)
  c_max_wal : N;                  (* max_wal_size_bytes; 0 = rotation disabled *)
  c_capacity : N;                 (* max_elements *)
  c_fsync : fsync_policy;
  c_normalize : vec -> option vec;
  c_accepts : vec -> bool
}.

Definition wf_cfg (c : cfg) : bool := (0 <? c_dim c) && (0 <? c_capacity c).

(* ------------------------------------------------------------------------------------------ *)
(* Directory and file-system effects                                                           *)
(* ------------------------------------------------------------------------------------------ *)

Definition name_eqb (a b : name) : bool :=
  match a, b with
  | NManifest, NManifest => true
  | NManifestTmp, NManifestTmp => true
  | NWal x, NWal y => N.eqb x y
  | NSnap x, NSnap y => N.eqb x y
  | NSnapTmp x, NSnapTmp y => N.eqb x y
  | _, _ => false
  end.

Fixpoint dget (d : dir) (k : name) : option file :=
  match d with
  | [] => None
  | (k0, f) :: r => if name_eqb k0 k then Some f else dget r k
  end.

Fixpoint dset (d : dir) (k : name) (f : file) : dir :=
  match d with
  | [] => [(k, f)]
  | (k0, f0) :: r => if name_eqb k0 k then (k, f) :: r else (k0, f0) :: dset r k f
  end.

Fixpoint dremove (d : dir) (k : name) : dir :=
  match d with
  | [] => []
  | (k0, f0) :: r => if name_eqb k0 k then dremove r k else (k0, f0) :: dremove r k
  end.

Definition name_id (n : name) : N :=
  match n with NWal k | NSnap k | NSnapTmp k => k | _ => 0 end.

Definition max_id (d : dir) : N := fold_right (fun nf a => N.max (name_id (fst nf)) a) 0 d.
Definition fresh_id (d : dir) : N := 1 + max_id d.

Inductive blob := BHeader | BFrame (fr : frame).

Inductive eff :=
| ECreate (f : name) (trunc : bool)   (* open O_CREAT; trunc = O_TRUNC (File::create), else O_APPEND *)
| EAppend (f : name) (b : blob)       (* one write(2) of a whole header / frame *)
| ETrunc (f : name) (nframes : N)     (* set_len back to a frame boundary (C03 rollback) *)
| EFsync (f : name)
| EFsyncData (f : name)
| ERename (a b : name)
| EUnlink (f : name)
| EFsyncDir
| EWriteFile (f : name) (content : file).   (* whole content of a tmp file (buffered chunks collapsed) *)

Definition apply_eff (d : dir) (e : eff) : dir :=
  match e with
  | ECreate f trunc =>
      match dget d f with
      | Some _ => if trunc then dset d f FEmpty else d
      | None => dset d f FEmpty
      end
  | EAppend f b =>
      match dget d f, b with
      | Some FEmpty, BHeader => dset d f (FWal [] Clean)
      | Some (FWal frs Clean), BFrame fr => dset d f (FWal (frs ++ [fr]) Clean)
      | Some (FWal _ _), BFrame _ => d            (* bytes after a torn tail are never reached by the reader *)
      | Some _, _ => dset d f FBad
      | None, _ => d
      end
  | ETrunc f n =>
      match dget d f with
      | Some (FWal frs _) => dset d f (FWal (firstn (N.to_nat n) frs) Clean)
      | _ => d
      end
  | EFsync _ | EFsyncData _ | EFsyncDir => d
  | ERename a b =>
      match dget d a with
      | Some c => dset (dremove d a) b c
      | None => d
      end
  | EUnlink f => dremove d f
  | EWriteFile f c => dset d f c
  end.

Definition apply_effs (d : dir) (es : list eff) : dir := fold_left apply_eff es d.

(* WalWriter::create_with_error_handler *)
Definition new_wal_effs (f : name) : list eff := [ECreate f false; EAppend f BHeader; EFsyncData f].

(* Manifest::save *)
Definition save_manifest_effs (m : manifest) : list eff :=
  [ECreate NManifestTmp true; EWriteFile NManifestTmp (FManifest m); EFsync NManifestTmp;
   ERename NManifestTmp NManifest; EFsyncDir].

(* Snapshot::save (path snapshot_k.snap, temp snapshot_k.tmp) *)
Definition save_snapshot_effs (k : N) (sn : snapshot) : list eff :=
  [ECreate (NSnapTmp k) true; EWriteFile (NSnapTmp k) (FSnap sn); EFsync (NSnapTmp k);
   ERename (NSnapTmp k) (NSnap k); EFsyncDir].

(* WalWriter::perform_fsync *)
Definition fsync_effs (c : cfg) (f : name) : list eff :=
  match c_fsync c with FsAlways => [EFsync f] | FsData => [EFsyncData f] | FsNever => [] end.

(* Manifest::load behind `manifest_path.exists()` *)
Definition has_manifest (d : dir) : bool :=
  match dget d NManifest with Some _ => true | None => false end.

Definition load_manifest (d : dir) : option manifest :=
  match dget d NManifest with Some (FManifest m) => Some m | _ => None end.

(* ------------------------------------------------------------------------------------------ *)
(* Metadata (HashMap<String,String> in canonical form: sorted by key bytes)                    *)
(* ------------------------------------------------------------------------------------------ *)

Fixpoint bytes_cmp (a b : bytes) : comparison :=
  match a, b with
  | [], [] => Eq
  | [], _ :: _ => Lt
  | _ :: _, [] => Gt
  | x :: a', y :: b' => match N.compare x y with Eq => bytes_cmp a' b' | c => c end
  end.

Fixpoint meta_set (m : meta) (k v : bytes) : meta :=
  match m with
  | [] => [(k, v)]
  | (k0, v0) :: r =>
      match bytes_cmp k k0 with
      | Eq => (k, v) :: r
      | Lt => (k, v) :: (k0, v0) :: r
      | Gt => (k0, v0) :: meta_set r k v
      end
  end.

(* `merged = old.clone(); merged.extend(new)` *)
Definition meta_merge (old new : meta) : meta :=
  fold_left (fun m kv => meta_set m (fst kv) (snd kv)) new old.

Definition meta_canon (m : meta) : meta := meta_merge [] m.

(* ------------------------------------------------------------------------------------------ *)
(* WAL frames: sizes and the reader                                                            *)
(* ------------------------------------------------------------------------------------------ *)

Definition len {A} (l : list A) : N := N.of_nat (length l).

Definition meta_size (m : meta) : N :=
  fold_right (fun kv a => 16 + len (fst kv) + len (snd kv) + a) 0 m.

(* 4 (size) + bincode(op u32, doc_id u64, Vec<f32>, HashMap<String,String>, seq u64, ts u64) + 4 (crc) *)
Definition frame_size (e : entry) : N := 52 + 4 * len (e_vec e) + meta_size (e_meta e).

Definition frames_size (es : list entry) : N := fold_right (fun e a => frame_size e + a) 0 es.

(* WalReader::read_all over the frames of a file: (entries, corrupted_entries).
   BadCrc / BadDeser: corrupted += 1, continue.  Tail: Clean/Torn = EOF (break, nothing counted);
   BadLen (size field 0 or > 100 MiB) = corrupted += 1, break. *)
Fixpoint read_frames (frs : list frame) : list entry * N :=
  match frs with
  | [] => ([], 0)
  | Good e :: r => let '(es, c) := read_frames r in (e :: es, c)
  | _ :: r => let '(es, c) := read_frames r in (es, c + 1)
  end.

Definition read_all (frs : list frame) (t : tail) : list entry * N :=
  let '(es, c) := read_frames frs in
  (es, match t with BadLen => c + 1 | _ => c end).

(* ------------------------------------------------------------------------------------------ *)
(* In-memory state                                                                             *)
(* ------------------------------------------------------------------------------------------ *)

Record state := mkState {
  st_store : store;            (* live documents (external id -> vector bits, metadata) *)
  st_slots : N;                (* index.current_count = slots incl. tombstones *)
  st_next_seq : N;             (* PersistenceState.next_wal_seq *)
  st_since_snap : N;           (* inserts_since_snapshot *)
  st_active : name;            (* path of the WalWriter *)
  st_bytes : N;                (* WalWriter.bytes_written *)
  st_disk : dir
}.

Definition with_disk (s : state) (d : dir) : state :=
  mkState (st_store s) (st_slots s) (st_next_seq s) (st_since_snap s) (st_active s) (st_bytes s) d.
Definition with_store (s : state) (m : store) : state :=
  mkState m (st_slots s) (st_next_seq s) (st_since_snap s) (st_active s) (st_bytes s) (st_disk s).
Definition with_slots (s : state) (n : N) : state :=
  mkState (st_store s) n (st_next_seq s) (st_since_snap s) (st_active s) (st_bytes s) (st_disk s).
Definition with_since (s : state) (n : N) : state :=
  mkState (st_store s) (st_slots s) (st_next_seq s) n (st_active s) (st_bytes s) (st_disk s).

Inductive outcome :=
| OOk | OBool (b : bool) | OCount (n : N)
| OErrInvalid          (* dimension mismatch / zero norm: refused before anything is logged *)
| OErrRejected         (* pre-flight: non-finite component or normalised norm out of tolerance; nothing logged *)
| OErrFull             (* HNSW index full *)
| OErrIndex            (* index rejected the vector after the WAL append (defect #1 branch) *)
| OErrIo               (* MANIFEST missing / unreadable, snapshot could not be built *)
| OErrRecover (e : rerr).

Definition normalize_if_needed (c : cfg) (v : vec) : option vec :=
  match c_metric c with
  | Euclidean => Some v
  | Cosine | InnerProduct => c_normalize c v
  end.

(* ------------------------------------------------------------------------------------------ *)
(* Log append, rotation                                                                        *)
(* ------------------------------------------------------------------------------------------ *)

(* WalWriter::append / append_batch without faults: one write per frame, then perform_fsync.
   Sequence numbers were already assigned by the caller (fetch_add). *)
Definition append_entries (c : cfg) (s : state) (es : list entry) : state * list eff :=
  let effs := map (fun e => EAppend (st_active s) (BFrame (Good e))) es ++ fsync_effs c (st_active s) in
  (mkState (st_store s) (st_slots s) (st_next_seq s + len es) (st_since_snap s) (st_active s)
           (st_bytes s + frames_size es) (apply_effs (st_disk s) effs),
   effs).

(* PersistenceState::rotate_wal_if_needed; an error (MANIFEST missing/unparsable) is logged and
   ignored by every caller: the new file exists but the writer does not switch. *)
Definition rotate_if_needed (c : cfg) (s : state) : state * list eff :=
  if (c_max_wal c =? 0) || (st_bytes s <? c_max_wal c) then (s, [])
  else
    let f := NWal (fresh_id (st_disk s)) in
    let e1 := new_wal_effs f in
    let d1 := apply_effs (st_disk s) e1 in
    match load_manifest d1 with
    | None => (with_disk s d1, e1)
    | Some m =>
        let e2 := save_manifest_effs (mkManifest (m_snapshot m) (m_snapshot_seq m) (m_segments m ++ [f])) in
        (mkState (st_store s) (st_slots s) (st_next_seq s) (st_since_snap s) f 4 (apply_effs d1 e2),
         e1 ++ e2)
    end.

(* ------------------------------------------------------------------------------------------ *)
(* Snapshot + log compaction                                                                   *)
(* ------------------------------------------------------------------------------------------ *)

Fixpoint nodupb (l : list N) : bool :=
  match l with
  | [] => true
  | x :: r => negb (existsb (N.eqb x) r) && nodupb r
  end.

(* Snapshot::validate_and_normalize (dimension of every embedding, alignment = unique ids) *)
Definition snap_valid (sn : snapshot) : bool :=
  ((sn_dim sn =? 0) || forallb (fun kd => len (d_vec (snd kd)) =? sn_dim sn) (sn_docs sn))
  && nodupb (map fst (sn_docs sn)).

(* compact_old_wal_segments: is this entry covered by the snapshot (sequence-based rule only) *)
Definition covered (sseq : N) (e : entry) : bool :=
  (0 <? e_seq e) && (0 <? sseq) && (e_seq e <=? sseq).

(* compact_old_wal_segments over manifest.wal_segments: (segments_to_keep, segments_to_delete).
   The last listed segment is the active one and is always kept; a listed file that is missing is
   dropped from the list; unreadable or corrupted ones are kept; a segment is scheduled for deletion
   iff every entry is covered.  (/repo commit b9d4670: the decisions are all taken first; then, iff
   something is to be deleted, the PRUNED manifest is saved, and only then the files are unlinked;
   create_snapshot saves the pruned manifest once more at the end.) *)
Fixpoint compact_segments (d : dir) (sseq : N) (segs : list name) : list name * list name :=
  match segs with
  | [] => ([], [])
  | nm :: rest =>
      match rest with
      | [] => ([nm], [])
      | _ :: _ =>
          let '(k, del) := compact_segments d sseq rest in
          match dget d nm with
          | None => (k, del)
          | Some (FWal frs t) =>
              let '(es, corrupted) := read_all frs t in
              if (0 <? corrupted) || negb (forallb (covered sseq) es) then (nm :: k, del) else (k, nm :: del)
          | Some _ => (nm :: k, del)
          end
      end
  end.

Definition opt_or0 (o : option N) : N := match o with Some n => n | None => 0 end.

(* HnswBackend::create_snapshot *)
Definition create_snapshot (c : cfg) (s : state) : state * outcome * list eff :=
  let last := N.pred (st_next_seq s) in                    (* next_wal_seq.saturating_sub(1) *)
  let docs := st_store s in
  let dim := match docs with [] => 0 | (_, d) :: _ => len (d_vec d) end in
  let sn := mkSnap dim (c_metric c) docs last in
  if negb (snap_valid sn) then (s, OErrIo, []) else
  let k := fresh_id (st_disk s) in
  let e1 := save_snapshot_effs k sn in
  let d1 := apply_effs (st_disk s) e1 in
  match load_manifest d1 with
  | None => (with_disk s d1, OErrIo, e1)
  | Some m =>
      if last <? opt_or0 (m_snapshot_seq m)
      then (* a newer snapshot is already committed: remove the stale file, counter NOT reset *)
        (with_disk s (apply_effs d1 [EUnlink (NSnap k)]), OOk, e1 ++ [EUnlink (NSnap k)])
      else
        let m1 := mkManifest (Some (NSnap k)) (Some last) (m_segments m) in
        let e2 := save_manifest_effs m1 in
        let d2 := apply_effs d1 e2 in
        let '(keep, del) := compact_segments d2 last (m_segments m) in
        let m2 := mkManifest (Some (NSnap k)) (Some last) keep in
        let e3 := (match del with [] => [] | _ :: _ => save_manifest_effs m2 end) ++ map EUnlink del in
        let e4 := save_manifest_effs m2 in
        (with_since (with_disk s (apply_effs (apply_effs d2 e3) e4)) 0, OOk, e1 ++ e2 ++ e3 ++ e4)
  end.

(* `if snapshot_interval > 0 && *inserts >= snapshot_interval { create_snapshot() }`; errors ignored *)
Definition maybe_snapshot (c : cfg) (s : state) : state * list eff :=
  if (0 <? c_snapshot_interval c) && (c_snapshot_interval c <=? st_since_snap s)
  then let '(s', _, e) := create_snapshot c s in (s', e)
  else (s, []).

(* ------------------------------------------------------------------------------------------ *)
(* Write operations                                                                            *)
(* ------------------------------------------------------------------------------------------ *)

(* HnswBackend::insert *)
Definition do_insert (c : cfg) (s : state) (id : N) (v : vec) (m : meta) : state * outcome * list eff :=
  if negb (len v =? c_dim c) then (s, OErrInvalid, []) else
  match normalize_if_needed c v with
  | None => (s, OErrInvalid, [])
  | Some w =>
      (* pre-flight of the index's acceptance checks, before anything is logged *)
      if negb (c_accepts c w) then (s, OErrRejected, []) else
      (* loop: index full -> compact_tombstones once (slots := live) -> retry -> "HNSW index full" *)
      let live := size (st_store s) in
      let s0 := if (c_capacity c <=? st_slots s) && (live <? st_slots s) then with_slots s live else s in
      if c_capacity c <=? st_slots s0 then (s0, OErrFull, []) else
      if negb (has_manifest (st_disk s0)) then (s0, OErrIo, []) else
      let m' := meta_canon m in
      let '(s1, e1) := append_entries c s0 [mkEntry Ins id w m' (st_next_seq s0)] in
      let '(s2, e2) := rotate_if_needed c s1 in
      if negb (c_accepts c w) then
        (* index.add_vector failed after the append: compensating Delete, then Err *)
        let '(s3, e3) := append_entries c s2 [mkEntry Del id [] [] (st_next_seq s2)] in
        let '(s4, e4) := rotate_if_needed c s3 in
        (s4, OErrIndex, e1 ++ e2 ++ e3 ++ e4)
      else
        let s3 := mkState (set (st_store s2) id (mkDoc w m')) (st_slots s2 + 1) (st_next_seq s2)
                          (st_since_snap s2 + 1) (st_active s2) (st_bytes s2) (st_disk s2) in
        let '(s4, e4) := maybe_snapshot c s3 in
        (s4, OOk, e1 ++ e2 ++ e4)
  end.

(* HnswBackend::delete *)
Definition do_delete (c : cfg) (s : state) (id : N) : state * outcome * list eff :=
  match get (st_store s) id with
  | None => (s, OBool false, [])
  | Some _ =>
      if negb (has_manifest (st_disk s)) then (s, OErrIo, []) else
      let '(s1, e1) := append_entries c s [mkEntry Del id [] [] (st_next_seq s)] in
      let '(s2, e2) := rotate_if_needed c s1 in
      let s3 := with_since (with_store s2 (remove (st_store s2) id)) (st_since_snap s2 + 1) in
      let '(s4, e4) := maybe_snapshot c s3 in
      (s4, OBool true, e1 ++ e2 ++ e4)
  end.

Fixpoint number_dels (base : N) (ids : list N) : list entry :=
  match ids with
  | [] => []
  | id :: r => mkEntry Del id [] [] base :: number_dels (base + 1) r
  end.

(* second pass of batch_delete: an id is counted only the first time it is still live *)
Fixpoint apply_batch (m : store) (ids : list N) (count : N) : store * N :=
  match ids with
  | [] => (m, count)
  | id :: r => if mem m id then apply_batch (remove m id) r (count + 1) else apply_batch m r count
  end.

(* HnswBackend::batch_delete: one Delete frame per listed live id, duplicates included *)
Definition do_batch_delete (c : cfg) (s : state) (ids : list N) : state * outcome * list eff :=
  let live := filter (mem (st_store s)) ids in
  match live with
  | [] => (s, OCount 0, [])
  | _ :: _ =>
      if negb (has_manifest (st_disk s)) then (s, OErrIo, []) else
      let '(s1, e1) := append_entries c s (number_dels (st_next_seq s) live) in
      let '(s2, e2) := rotate_if_needed c s1 in
      let '(m', cnt) := apply_batch (st_store s2) live 0 in
      let s3 := with_since (with_store s2 m') (st_since_snap s2 + len live) in
      let '(s4, e4) := maybe_snapshot c s3 in
      (s4, OCount cnt, e1 ++ e2 ++ e4)
  end.

(* HnswBackend::update_metadata *)
Definition do_update (c : cfg) (s : state) (id : N) (m : meta) (merge : bool) : state * outcome * list eff :=
  match get (st_store s) id with
  | None => (s, OBool false, [])
  | Some d =>
      let updated := if merge then meta_merge (d_meta d) m else meta_canon m in
      if negb (has_manifest (st_disk s)) then (s, OErrIo, []) else
      let '(s1, e1) := append_entries c s [mkEntry Upd id [] updated (st_next_seq s)] in
      let '(s2, e2) := rotate_if_needed c s1 in
      let s3 := with_since (with_store s2 (set (st_store s2) id (mkDoc (d_vec d) updated)))
                           (st_since_snap s2 + 1) in
      let '(s4, e4) := maybe_snapshot c s3 in
      (s4, OBool true, e1 ++ e2 ++ e4)
  end.

(* ------------------------------------------------------------------------------------------ *)
(* Recovery                                                                                    *)
(* ------------------------------------------------------------------------------------------ *)

(* Snapshot::load *)
Definition snap_load (d : dir) (nm : name) : option snapshot :=
  match dget d nm with
  | Some (FSnap sn) => if snap_valid sn then Some sn else None
  | _ => None
  end.

Fixpoint insert_desc (x : N) (l : list N) : list N :=
  match l with
  | [] => [x]
  | y :: r => if y <=? x then x :: y :: r else y :: insert_desc x r
  end.

(* ids of the snapshot_*.snap files of the directory, newest first *)
Definition snap_candidates (d : dir) : list N :=
  fold_right (fun nf acc => match fst nf with NSnap k => insert_desc k acc | _ => acc end) [] d.

Fixpoint position (x : N) (l : list N) : option nat :=
  match l with
  | [] => None
  | y :: r => if N.eqb y x then Some 0%nat else option_map S (position x r)
  end.

Fixpoint first_loadable (d : dir) (ks : list N) : option snapshot :=
  match ks with
  | [] => None
  | k :: r => match snap_load d (NSnap k) with Some sn => Some sn | None => first_loadable d r end
  end.

(* Snapshot::load_with_validation: primary, else up to 5 older files (newest first; from the newest
   one if the primary is not in the directory) *)
Definition load_with_validation (d : dir) (nm : name) : option (snapshot * bool) :=
  match snap_load d nm with
  | Some sn => Some (sn, false)
  | None =>
      let cands := snap_candidates d in
      let skip := match nm with
                  | NSnap num => match position num cands with Some i => S i | None => 0%nat end
                  | _ => 0%nat
                  end in
      match first_loadable d (firstn 5 (skipn skip cands)) with
      | Some sn => Some (sn, true)
      | None => None
      end
  end.

Definition upd_meta (m : store) (id : N) (mt : meta) : store :=
  match get m id with
  | Some d => set m id (mkDoc (d_vec d) mt)
  | None => m
  end.

(* the effect of one replayed entry on `documents` *)
Definition apply_entry (m : store) (e : entry) : store :=
  match e_op e with
  | Ins => set m (e_id e) (mkDoc (e_vec e) (e_meta e))
  | Del => remove m (e_id e)
  | Upd => upd_meta m (e_id e) (e_meta e)
  end.

(* body of `for entry in entries` : acc = (documents, max_wal_seq, retained_gap_entries).
   `committed` = manifest.latest_snapshot_wal_seq.unwrap_or(0); an entry with
   snapshot_last_wal_seq < seq <= committed is counted before the skip logic (/repo commit b87f300). *)
Definition replay_entry (c : cfg) (sseq committed : N) (acc : store * N * N) (e : entry) : result (store * N * N) :=
  let '(m, mx, gap) := acc in
  if e_seq e =? 0 then Err RUnmodelled else
  let mx' := N.max mx (e_seq e) in
  let gap' := if (sseq <? e_seq e) && (e_seq e <=? committed) then gap + 1 else gap in
  if (0 <? sseq) && (0 <? e_seq e) && (e_seq e <=? sseq) then Ok (m, mx', gap')
  else match e_op e with
       | Ins => if len (e_vec e) =? c_dim c then Ok (apply_entry m e, mx', gap') else Err REntryDim
       | _ => Ok (apply_entry m e, mx', gap')
       end.

Fixpoint replay_entries (c : cfg) (sseq committed : N) (acc : store * N * N) (es : list entry)
  : result (store * N * N) :=
  match es with
  | [] => Ok acc
  | e :: r => match replay_entry c sseq committed acc e with
              | Ok acc' => replay_entries c sseq committed acc' r
              | Err x => Err x
              end
  end.

(* `for wal_name in &manifest.wal_segments` *)
Fixpoint replay_segments (c : cfg) (md : mode) (d : dir) (sseq committed : N) (acc : store * N * N)
  (segs : list name) : result (store * N * N) :=
  match segs with
  | [] => Ok acc
  | nm :: rest =>
      match dget d nm with
      | None => match md with
                | Strict => Err RMissingSegment
                | BestEffort => replay_segments c md d sseq committed acc rest
                end
      | Some (FWal frs t) =>
          let '(es, corrupted) := read_all frs t in
          match md, 0 <? corrupted with
          | Strict, true => Err RCorruptFrames
          | _, _ => match replay_entries c sseq committed acc es with
                    | Ok acc' => replay_segments c md d sseq committed acc' rest
                    | Err x => Err x
                    end
          end
      | Some _ => Err RBadSegment            (* WalReader::open: magic header missing/invalid *)
      end
  end.

(* Phase 1 of the rebuild: dimension check + normalize_in_place_if_needed per document (ids ascending) *)
Fixpoint rebuild_docs (c : cfg) (l : list (N * doc)) : result (list (N * doc)) :=
  match l with
  | [] => Ok []
  | (id, d) :: r =>
      if negb (len (d_vec d) =? c_dim c) then Err REntryDim else
      match normalize_if_needed c (d_vec d) with
      | None => Err RNormalize
      | Some w => match rebuild_docs c r with
                  | Ok r' => Ok ((id, mkDoc w (d_meta d)) :: r')
                  | Err x => Err x
                  end
      end
  end.

(* everything recovery READS: (documents after replay, max_wal_seq, manifest) *)
Definition recover_read (c : cfg) (md : mode) (d : dir) : result (store * N * manifest) :=
  if c_dim c =? 0 then Err RZeroDim else
  match dget d NManifest with
  | None => Err RNoManifest
  | Some (FManifest m) =>
      let snap : result (store * N) :=
        match m_snapshot m with
        | None => Ok (empty, 0)
        | Some nm =>
            match load_with_validation d nm with
            | Some (sn, _) =>
                let has_docs := negb (match sn_docs sn with [] => true | _ => false end) in
                if has_docs && (sn_dim sn =? 0) then Err RSnapDim
                else if has_docs && negb (sn_dim sn =? c_dim c) then Err RSnapDim
                else if negb (match sn_metric sn, c_metric c with
                              | Euclidean, Euclidean | Cosine, Cosine | InnerProduct, InnerProduct => true
                              | _, _ => false end) then Err RSnapMetric
                else Ok (of_list (sn_docs sn), sn_last_seq sn)
            | None => match md with Strict => Err RSnapshot | BestEffort => Ok (empty, 0) end
            end
        end in
      match snap with
      | Err x => Err x
      | Ok (docs0, sseq) =>
          let committed := opt_or0 (m_snapshot_seq m) in
          match replay_segments c md d sseq committed (docs0, sseq, 0) (m_segments m) with
          | Ok (docs, mx, gap) =>
              (* strict: the loaded state is older than the committed snapshot (fallback / none) and
                 not every entry in between is still retained *)
              match md with
              | Strict => if (sseq <? committed) && negb (gap =? committed - sseq) then Err RCoverageGap
                          else Ok (docs, mx, m)
              | BestEffort => Ok (docs, mx, m)
              end
          | Err x => Err x
          end
      end
  | Some _ => Err RBadManifest
  end.

(* HnswBackend::recover_with_hnsw_params_and_mode.  Returns the new live state (its directory already
   contains the fresh segment and the rewritten manifest) and the effects that produced it. *)
Definition recover_full (c : cfg) (md : mode) (d : dir) : result (state * list eff) :=
  match recover_read c md d with
  | Err x => Err x
  | Ok (docs, mx, m) =>
      match rebuild_docs c docs with
      | Err x => Err x
      | Ok docs' =>
          if c_capacity c <? size docs' then Err RCapacity
          else if negb (forallb (fun kd => c_accepts c (d_vec (snd kd))) docs') then Err RIndexReject
          else
            let f := NWal (fresh_id d) in
            let effs := new_wal_effs f
                        ++ save_manifest_effs (mkManifest (m_snapshot m) (m_snapshot_seq m) (m_segments m ++ [f])) in
            Ok (mkState docs' (size docs') (mx + 1) 0 f 4 (apply_effs d effs), effs)
      end
  end.

Definition recover (c : cfg) (md : mode) (d : dir) : result state :=
  match recover_full c md d with Ok (s, _) => Ok s | Err x => Err x end.

(* ------------------------------------------------------------------------------------------ *)
(* The machine                                                                                 *)
(* ------------------------------------------------------------------------------------------ *)

Inductive op :=
| OInsert (id : N) (v : vec) (m : meta)
| ODelete (id : N)
| OBatchDelete (ids : list N)
| OUpdate (id : N) (m : meta) (merge : bool)
| OSnapshot                                   (* manual create_snapshot *)
| ORestart.                                   (* drop the backend, HnswBackend::recover (Strict) *)

Definition step (c : cfg) (s : state) (o : op) : state * outcome * list eff :=
  match o with
  | OInsert id v m => do_insert c s id v m
  | ODelete id => do_delete c s id
  | OBatchDelete ids => do_batch_delete c s ids
  | OUpdate id m merge => do_update c s id m merge
  | OSnapshot => create_snapshot c s
  | ORestart =>
      match recover_full c Strict (st_disk s) with
      | Ok (s', effs) => (s', OOk, effs)
      | Err x => (s, OErrRecover x, [])
      end
  end.

(* with_persistence on an empty directory with no initial documents *)
Definition init_effs : list eff :=
  let f := NWal (fresh_id []) in
  new_wal_effs f ++ save_manifest_effs (mkManifest None None [f]).

Definition init (c : cfg) : state :=
  mkState empty 0 1 0 (NWal (fresh_id [])) 4 (apply_effs [] init_effs).

Definition step_state (c : cfg) (s : state) (o : op) : state := fst (fst (step c s o)).

Definition run (c : cfg) (ops : list op) : state := fold_left (step_state c) ops (init c).

(* Inserts whose normalised vector the index accepts.  Before /repo commit ca4513e the complement was the
   input class of defect #1 and C02 had to exclude it; since the pre-flight nothing depends on it any more
   (kept for the C03 statements). *)
Definition op_accepted (c : cfg) (o : op) : bool :=
  match o with
  | OInsert _ v _ => match normalize_if_needed c v with Some w => c_accepts c w | None => true end
  | _ => true
  end.
Definition ops_accepted (c : cfg) (ops : list op) : bool := forallb (op_accepted c) ops.

(* ------------------------------------------------------------------------------------------ *)
(* Observations compared with the implementation by the harness (cases_*.v)                   *)
(* ------------------------------------------------------------------------------------------ *)

Fixpoint list_eqb {A} (eqb : A -> A -> bool) (a b : list A) : bool :=
  match a, b with
  | [], [] => true
  | x :: a', y :: b' => eqb x y && list_eqb eqb a' b'
  | _, _ => false
  end.

Definition bytes_eqb := list_eqb N.eqb.
Definition vec_eqb := list_eqb Z.eqb.
Definition meta_eqb := list_eqb (fun a b : bytes * bytes => bytes_eqb (fst a) (fst b) && bytes_eqb (snd a) (snd b)).
Definition doc_eqb (a b : doc) : bool := vec_eqb (d_vec a) (d_vec b) && meta_eqb (d_meta a) (d_meta b).
Definition store_eqb : store -> store -> bool :=
  list_eqb (fun a b : N * doc => N.eqb (fst a) (fst b) && doc_eqb (snd a) (snd b)).

(* outcome classes as the harness sees them (anyhow errors carry no type: every Err is one class,
   except that the driver recognises the messages "index full" and "dimension mismatch"/"norm is zero") *)
Inductive oclass := KOk | KBool (b : bool) | KCount (n : N) | KInvalid | KFull | KErr.

Definition classify (o : outcome) : oclass :=
  match o with
  | OOk => KOk | OBool b => KBool b | OCount n => KCount n
  | OErrInvalid => KInvalid | OErrFull => KFull
  | OErrRejected | OErrIndex | OErrIo | OErrRecover _ => KErr
  end.

Definition oclass_eqb (a b : oclass) : bool :=
  match a, b with
  | KOk, KOk | KInvalid, KInvalid | KFull, KFull | KErr, KErr => true
  | KBool x, KBool y => Bool.eqb x y
  | KCount x, KCount y => N.eqb x y
  | _, _ => false
  end.

(* manifest shape: (latest_snapshot_wal_seq, number of listed segments) *)
Definition manifest_shape (s : state) : option (option N * N) :=
  match load_manifest (st_disk s) with
  | Some m => Some (m_snapshot_seq m, len (m_segments m))
  | None => None
  end.

Definition shape_eqb (a b : option (option N * N)) : bool :=
  match a, b with
  | None, None => true
  | Some (x, n), Some (y, k) =>
      N.eqb n k && match x, y with None, None => true | Some p, Some q => N.eqb p q | _, _ => false end
  | _, _ => false
  end.

(* one observation per operation: outcome class, and (when the driver recorded them) the census and
   the manifest shape AFTER the operation *)
Record obs := mkObs { ob_class : oclass; ob_census : option store; ob_shape : option (option (option N * N)) }.

Definition obs_ok (s : state) (o : outcome) (b : obs) : bool :=
  oclass_eqb (classify o) (ob_class b)
  && match ob_census b with Some cen => store_eqb (st_store s) cen | None => true end
  && match ob_shape b with Some sh => shape_eqb (manifest_shape s) sh | None => true end.

(* index of the first operation whose observation differs (None = the whole history agrees) *)
Fixpoint first_mismatch (c : cfg) (s : state) (ops : list op) (os : list obs) (i : N) : option N :=
  match ops, os with
  | [], [] => None
  | o :: ops', b :: os' =>
      let '(s', out, _) := step c s o in
      if obs_ok s' out b then first_mismatch c s' ops' os' (i + 1) else Some i
  | _, _ => Some i
  end.

Definition check_history (c : cfg) (ops : list op) (os : list obs) : option N :=
  first_mismatch c (init c) ops os 0.
