(* Conc09.v — interleaving model of HnswBackend's writer / snapshot / rotation / compaction protocol
   (engine/src/hnsw_backend.rs: insert, delete, update_metadata, batch_delete, create_snapshot,
   compact_old_wal_segments, compact_tombstones, PersistenceState::rotate_wal_if_needed, and the
   replay loop of recover_with_hnsw_params_and_mode).  Executable, NO proofs.

   Shape (same as Model/RateLimit.v): a schedule is a list of events; `EvCall t c` / `EvSnap t`
   start a call on an idle thread t (so the "programs" are whatever calls the schedule starts: any
   number of threads, any calls, any order), `EvStep t` lets thread t take its NEXT atomic step.
   `cstep` answers None when that step is not enabled (a lock it needs is held).  The atomic steps are
   the code's critical sections / atomic operations, in the code's order; the thread-local variables
   the code keeps across them (`seq_no`, `wal_entries`, `last_wal_seq`, `documents`, the loaded
   `manifest`, `segments_to_delete`) live in the thread's `phase`.

   Locks.  write_gate and manifest_lock are explicit (`st_gate`, `st_mlock` = owner).  snapshot_lock is
   implicit: a writer holds it shared in the phases `holds_snapR`; the exclusive sections (the capture
   of create_snapshot, compact_tombstones) are single atomic steps enabled only when `no_readers`.
   wal / index / doc_store / metadata_index / inserts_since_snapshot never add exclusion beyond the
   gate (writers) and the atomicity of the capture step; they appear only in the lock LABELS each step
   returns, which the driver compares with the sequence recorded on the real engine (C09 skeleton
   correspondence).  parking_lot's writer preference (a queued snapshot_lock.write() holds back new
   readers) only removes schedules; the model allows them all.

   Abstractions (stated restrictions): a document is a pair of tags (vector, metadata); WAL frames
   have an abstract size `c_fsize` (rotation: bytes_written >= max_wal_size_bytes, checked once after
   each append, as the code); file ids come from a counter (the code: microsecond clock — distinctness
   of the ids is an assumption, see checks/meta/C09.json); I/O errors, the disk-space check, legacy
   seq_no = 0 entries and the `add_vector fails after append` rollback branch (unreachable since the
   pre-flight, Model/Backend.v) are not modelled; update_metadata is modelled with merge = false. *)
From Coq Require Import List NArith Bool.
From Kyro Require Import Model.Amap.
Import ListNotations.
Open Scope N_scope.

(* ---------------------------------------------------------------------------------------------- *)
(* Data                                                                                            *)
(* ---------------------------------------------------------------------------------------------- *)

Definition val := (N * N)%type.                 (* (vector tag, metadata tag) *)
Definition store := amap val.

Inductive op := OPut (id v m : N) | ODel (id : N) | OMeta (id m : N).
Record entry := mkE { e_seq : N; e_op : op }.

(* the in-memory effect of one logged operation = the effect of replaying it (recover's match) *)
Definition apply_op (s : store) (o : op) : store :=
  match o with
  | OPut id v m => set s id (v, m)
  | ODel id => remove s id
  | OMeta id m => match get s id with Some (v, _) => set s id (v, m) | None => s end
  end.

Definition apply_entries (s : store) (es : list entry) : store :=
  fold_left (fun m e => apply_op m (e_op e)) es s.

Inductive call := CIns (id v m : N) | CDel (id : N) | CUpd (id m : N) | CBatch (ids : list N).

Definition is_ins (c : call) : bool := match c with CIns _ _ _ => true | _ => false end.
Definition is_batch (c : call) : bool := match c with CBatch _ => true | _ => false end.

(* the read-only pre-flight under the write gate: which WAL entries the call will log *)
Definition preflight (s : store) (c : call) : list op :=
  match c with
  | CIns id v m => [OPut id v m]
  | CDel id => if mem s id then [ODel id] else []
  | CUpd id m => if mem s id then [OMeta id m] else []
  | CBatch ids => map ODel (filter (mem s) ids)       (* duplicates kept, as the code *)
  end.

Fixpoint mk_entries (base : N) (ops : list op) : list entry :=
  match ops with
  | [] => []
  | o :: r => mkE base o :: mk_entries (base + 1) r
  end.

Record manifest := mkMan {
  m_ptr : option (N * N);         (* latest_snapshot (file id), latest_snapshot_wal_seq *)
  m_segs : list N                 (* wal_segments, oldest first *)
}.

Definition ptr_seq (m : manifest) : N := match m_ptr m with Some (_, s) => s | None => 0 end.

Record cfg := mkCfg {
  c_interval : N;                 (* snapshot_interval; 0 = no automatic snapshots *)
  c_max_wal : N;                  (* max_wal_size_bytes; 0 = no rotation *)
  c_cap : N;                      (* max_elements (slots incl. tombstones) *)
  c_fsize : op -> N;              (* frame size *)
  c_clock : N -> N                (* file_id(): the id the n-th file creation gets.  The code reads the
                                     microsecond clock, so two creations can get the SAME id; the theorems
                                     assume `forall n, c_clock c n = n` (distinct ids), C09_same_file_id_refuted
                                     shows what happens otherwise *)
}.

(* ---------------------------------------------------------------------------------------------- *)
(* Small association lists                                                                          *)
(* ---------------------------------------------------------------------------------------------- *)

Section Assoc.
  Context {V : Type}.
  Fixpoint fget (l : list (N * V)) (k : N) : option V :=
    match l with [] => None | (k0, v) :: r => if N.eqb k0 k then Some v else fget r k end.
  Fixpoint fset (l : list (N * V)) (k : N) (v : V) : list (N * V) :=
    match l with
    | [] => [(k, v)]
    | (k0, v0) :: r => if N.eqb k0 k then (k, v) :: r else (k0, v0) :: fset r k v
    end.
  Fixpoint fdel (l : list (N * V)) (k : N) : list (N * V) :=
    match l with
    | [] => []
    | (k0, v0) :: r => if N.eqb k0 k then fdel r k else (k0, v0) :: fdel r k
    end.
End Assoc.

(* ---------------------------------------------------------------------------------------------- *)
(* Threads                                                                                          *)
(* ---------------------------------------------------------------------------------------------- *)

Inductive phase :=
| Idle
(* ---- writer call c ---- *)
| WWant (c : call) (retried : bool)                (* next: snapshot_lock.read() *)
| WSnapR (c : call) (retried : bool)               (* next: write_gate.lock(); pre-flight *)
| WFull (c : call) (retried : bool) (tomb : N)     (* index full; locks dropped; next: compact_tombstones / Err *)
| WPre (c : call) (ops : list op)                  (* next: next_wal_seq.fetch_add *)
| WAlloc (c : call) (base : N) (es : list entry)   (* next: wal.write(); append *)
| WAppended (c : call) (es : list entry)           (* next: rotate_wal_if_needed: size check (+ create file) *)
| WRotFile (c : call) (es : list entry) (nf : N)   (* next: manifest_lock {load; push; save}; switch writer *)
| WLogged (c : call) (es : list entry)             (* next: insert: apply;  others: counter += n *)
| WHalf (c : call) (es : list entry) (due : bool)  (* next: insert: counter += 1;  others: apply *)
| WBoth (c : call) (due : bool)                    (* next: drop(write_gate_guard) *)
| WGateRel (c : call) (due : bool)                 (* next: drop(snapshot_guard); then create_snapshot if due *)
(* ---- create_snapshot ---- *)
| SWant                                            (* next: snapshot_lock.write() {last; copy} *)
| SCaptured (last : N) (copy : store)              (* next: Snapshot::save *)
| SFile (last : N) (copy : store) (fid : N)        (* next: manifest_lock; load; stale check *)
| SLoaded (last : N) (copy : store) (fid : N) (segs : list N)   (* next: save pointer + full list *)
| SPtr (last : N) (fid : N) (segs : list N)        (* next: compact_old_wal_segments: decide; save pruned list *)
| SCompacted (last : N) (fid : N) (keep del : list N)           (* next: unlink *)
| SUnlinked (last : N) (fid : N) (keep : list N)   (* next: final manifest.save *)
| SSaved.                                          (* next: counter := 0; return (manifest_lock dropped) *)

Definition is_idle (p : phase) : bool := match p with Idle => true | _ => false end.

Definition holds_snapR (p : phase) : bool :=
  match p with
  | WSnapR _ _ | WPre _ _ | WAlloc _ _ _ | WAppended _ _ | WRotFile _ _ _ | WLogged _ _
  | WHalf _ _ _ | WBoth _ _ | WGateRel _ _ => true
  | _ => false
  end.

Definition holds_gate (p : phase) : bool :=
  match p with
  | WPre _ _ | WAlloc _ _ _ | WAppended _ _ | WRotFile _ _ _ | WLogged _ _ | WHalf _ _ _ | WBoth _ _ => true
  | _ => false
  end.

Definition holds_mlock (p : phase) : bool :=
  match p with
  | SLoaded _ _ _ _ | SPtr _ _ _ | SCompacted _ _ _ _ | SUnlinked _ _ _ | SSaved => true
  | _ => false
  end.

(* entries appended to the WAL by this thread and not yet applied to the store *)
Definition pend_of (p : phase) : list entry :=
  match p with
  | WAppended _ es | WRotFile _ es _ | WLogged _ es => es
  | WHalf c es _ => if is_ins c then [] else es
  | _ => []
  end.

Fixpoint tget (l : list (nat * phase)) (t : nat) : phase :=
  match l with [] => Idle | (k, p) :: r => if Nat.eqb k t then p else tget r t end.
Fixpoint tset (l : list (nat * phase)) (t : nat) (p : phase) : list (nat * phase) :=
  match l with
  | [] => [(t, p)]
  | (k, p0) :: r => if Nat.eqb k t then (k, p) :: r else (k, p0) :: tset r t p
  end.

(* ---------------------------------------------------------------------------------------------- *)
(* Shared state                                                                                     *)
(* ---------------------------------------------------------------------------------------------- *)

Record state := mkSt {
  st_next : N;                              (* next_wal_seq *)
  st_store : store;                         (* doc_store (+ index), logical content *)
  st_slots : N;                             (* slots incl. tombstones *)
  st_cnt : N;                               (* inserts_since_snapshot *)
  st_active : N;                            (* file id the WalWriter appends to *)
  st_bytes : N;                             (* its bytes_written *)
  st_files : list (N * list entry);         (* wal_<id>.wal on disk *)
  st_snaps : list (N * (N * store));        (* snapshot_<id>.snap on disk: (last_wal_seq, documents) *)
  st_man : manifest;                        (* MANIFEST on disk *)
  st_fid : N;                               (* file_id() *)
  st_gate : option nat;                     (* owner of write_gate *)
  st_mlock : option nat;                    (* owner of manifest_lock *)
  st_thr : list (nat * phase)
}.

(* with_persistence on an empty directory: one segment, listed; no snapshot *)
Definition init : state :=
  mkSt 1 empty 0 0 1 4 [(1, [])] [] (mkMan None [1]) 2 None None [].

Definition no_readers (st : state) : bool :=
  forallb (fun tp => negb (holds_snapR (snd tp))) (st_thr st).

Definition all_done (st : state) : bool :=
  forallb (fun tp => is_idle (snd tp)) (st_thr st).

(* the part of the state a restart sees *)
Record disk := mkDisk { d_files : list (N * list entry); d_snaps : list (N * (N * store)); d_man : manifest }.
Definition disk_of (st : state) : disk := mkDisk (st_files st) (st_snaps st) (st_man st).

(* ---------------------------------------------------------------------------------------------- *)
(* Recovery (strict) on a directory                                                                 *)
(* ---------------------------------------------------------------------------------------------- *)

(* "already captured in snapshot": the test is literally the same in the replay loop and in
   compact_old_wal_segments (seq_no > 0 && snapshot_last_wal_seq > 0 && seq_no <= snapshot_last_wal_seq) *)
Definition covered (last : N) (e : entry) : bool :=
  (0 <? e_seq e) && (0 <? last) && (e_seq e <=? last).

Definition replay1 (last : N) (m : store) (e : entry) : store :=
  if covered last e then m else apply_op m (e_op e).
Definition replay (last : N) (m : store) (es : list entry) : store := fold_left (replay1 last) es m.

(* the listed segments, in order; a listed file that is missing is fatal in strict mode *)
Fixpoint read_segs (files : list (N * list entry)) (segs : list N) : option (list entry) :=
  match segs with
  | [] => Some []
  | f :: r => match fget files f, read_segs files r with
              | Some es, Some l => Some (es ++ l)
              | _, _ => None
              end
  end.

Definition gap_count (flast mseq : N) (es : list entry) : N :=
  N.of_nat (length (filter (fun e => (flast <? e_seq e) && (e_seq e <=? mseq)) es)).

Definition recover (d : disk) : option store :=
  let m := d_man d in
  let base := match m_ptr m with
              | None => Some (0, empty, 0)
              | Some (fid, mseq) => match fget (d_snaps d) fid with
                                    | Some (flast, docs) => Some (flast, docs, mseq)
                                    | None => None                  (* snapshot unreadable: strict refuses *)
                                    end
              end in
  match base with
  | None => None
  | Some (flast, docs, mseq) =>
      match read_segs (d_files d) (m_segs m) with
      | None => None
      | Some es =>
          (* strict coverage check: loaded snapshot older than the committed sequence *)
          if (flast <? mseq) && negb (gap_count flast mseq es =? mseq - flast) then None
          else Some (replay flast docs es)
      end
  end.

(* ---------------------------------------------------------------------------------------------- *)
(* compact_old_wal_segments: (segments_to_keep, segments_to_delete)                                 *)
(* ---------------------------------------------------------------------------------------------- *)

Fixpoint compact (files : list (N * list entry)) (last : N) (segs : list N) : list N * list N :=
  match segs with
  | [] => ([], [])
  | f :: r =>
      match r with
      | [] => ([f], [])                                   (* the last listed one is the active WAL: kept *)
      | _ :: _ =>
          let '(k, d) := compact files last r in
          match fget files f with
          | None => (k, d)                                (* "WAL segment missing; skipping": dropped from the list *)
          | Some es => if forallb (covered last) es then (k, f :: d) else (f :: k, d)
          end
      end
  end.

Definition unlink_all (files : list (N * list entry)) (del : list N) : list (N * list entry) :=
  fold_left (fun fs f => fdel fs f) del files.

(* ---------------------------------------------------------------------------------------------- *)
(* Lock labels (for the skeleton correspondence only)                                               *)
(* ---------------------------------------------------------------------------------------------- *)

Inductive lk := LSnap | LGate | LWal | LMan | LIdx | LStore | LMeta | LCnt.
Inductive lmode := MR | MW | MX.
Inductive lev := Acq (l : lk) (m : lmode) | Rel (l : lk).

Definition lk_code (l : lk) : N :=
  match l with LSnap => 1 | LGate => 2 | LWal => 3 | LMan => 4 | LIdx => 5 | LStore => 6 | LMeta => 7 | LCnt => 8 end.
(* Acq l m = 10*l + (1 read | 2 write | 3 mutex);  Rel l = 10*l *)
Definition lev_code (e : lev) : N :=
  match e with
  | Acq l MR => 10 * lk_code l + 1
  | Acq l MW => 10 * lk_code l + 2
  | Acq l MX => 10 * lk_code l + 3
  | Rel l => 10 * lk_code l
  end.

Definition rd (l : lk) : list lev := [Acq l MR; Rel l].

(* locks taken before the snapshot lock *)
Definition prologue (c : call) : list lev :=
  match c with
  | CIns _ _ _ => rd LIdx ++ rd LIdx          (* self.dimension(); distance metric / normalisation flag *)
  | _ => []
  end.

(* ---------------------------------------------------------------------------------------------- *)
(* Steps                                                                                            *)
(* ---------------------------------------------------------------------------------------------- *)

Inductive ev := EvCall (t : nat) (c : call) | EvSnap (t : nat) | EvStep (t : nat).

Definition due_now (c : cfg) (cnt : N) : bool := (0 <? c_interval c) && (c_interval c <=? cnt).

Definition sum_fsize (c : cfg) (es : list entry) : N :=
  fold_right (fun e a => c_fsize c (e_op e) + a) 0 es.

Definition fappend (files : list (N * list entry)) (f : N) (es : list entry) :=
  match fget files f with
  | Some old => fset files f (old ++ es)
  | None => files                                   (* cannot happen: the active file exists *)
  end.

(* One atomic step of thread t, currently in phase p.  Result: new shared state (st_thr untouched),
   new phase of t, lock labels.  None = not enabled. *)
Definition tstep (c : cfg) (st : state) (t : nat) (p : phase) : option (state * phase * list lev) :=
  let '(mkSt nx sto slots cnt act bytes files snaps man fid gate mlock thr) := st in
  match p with
  | Idle => None
  | WWant cl r =>
      Some (st, WSnapR cl r, (if r then [] else prologue cl) ++ [Acq LSnap MR])
  | WSnapR cl r =>
      match gate with
      | Some _ => None
      | None =>
          if is_ins cl && (c_cap c <=? slots) then
            (* index.is_full(): count tombstones, drop everything *)
            Some (st, WFull cl r (slots - size sto),
                  [Acq LGate MX; Acq LIdx MR; Acq LStore MR; Rel LStore; Rel LIdx; Rel LGate; Rel LSnap])
          else
            let pre := if is_ins cl then [Acq LIdx MR; Acq LStore MR; Rel LStore; Rel LIdx]
                       else [Acq LStore MR; Rel LStore] in
            match preflight sto cl with
            | [] => Some (st, Idle, [Acq LGate MX] ++ pre ++ [Rel LGate; Rel LSnap])   (* Ok(false) / Ok(0) *)
            | ops => Some (mkSt nx sto slots cnt act bytes files snaps man fid (Some t) mlock thr,
                           WPre cl ops, [Acq LGate MX] ++ pre)
            end
      end
  | WFull cl r tomb =>
      if negb r && (0 <? tomb) then
        (* compact_tombstones: snapshot_lock.write(), index.write(), doc_store.write() *)
        if no_readers st then
          if 0 <? slots - size sto then
            Some (mkSt nx sto (size sto) cnt act bytes files snaps man fid gate mlock thr,
                  WWant cl true,
                  [Acq LSnap MW] ++ rd LIdx ++ [Acq LIdx MW; Acq LStore MW; Acq LMeta MW;
                   Rel LStore; Rel LIdx; Rel LMeta; Rel LSnap])
          else
            (* somebody else compacted meanwhile: Ok(0), then bail "index full" *)
            Some (st, Idle,
                  [Acq LSnap MW] ++ rd LIdx ++ [Acq LIdx MW; Acq LStore MW; Rel LStore; Rel LIdx; Rel LSnap]
                  ++ rd LIdx)
        else None
      else Some (st, Idle, rd LIdx)                                   (* bail: index full *)
  | WPre cl ops =>
      Some (mkSt (nx + N.of_nat (length ops)) sto slots cnt act bytes files snaps man fid gate mlock thr,
            WAlloc cl nx (mk_entries nx ops), [])
  | WAlloc cl base es =>
      Some (mkSt nx sto slots cnt act (bytes + sum_fsize c es) (fappend files act es) snaps man fid gate mlock thr,
            WAppended cl es, [Acq LWal MW])
  | WAppended cl es =>
      if negb (c_max_wal c =? 0) && (c_max_wal c <=? bytes) then
        (* WalWriter::create(new) — the file exists but is not yet listed *)
        Some (mkSt nx sto slots cnt act bytes (fset files (c_clock c fid) []) snaps man (fid + 1) gate mlock thr,
              WRotFile cl es (c_clock c fid), [])
      else Some (st, WLogged cl es, if is_ins cl then [Rel LWal] else [])
  | WRotFile cl es nf =>
      match mlock with
      | Some _ => None
      | None =>
          Some (mkSt nx sto slots cnt nf 4 files snaps (mkMan (m_ptr man) (m_segs man ++ [nf])) fid gate mlock thr,
                WLogged cl es, [Acq LMan MX; Rel LMan] ++ (if is_ins cl then [Rel LWal] else []))
      end
  | WLogged cl es =>
      if is_ins cl then
        Some (mkSt nx (apply_entries sto es) (slots + 1) cnt act bytes files snaps man fid gate mlock thr,
              WHalf cl es false, [Acq LIdx MW; Acq LStore MW])
      else
        let cnt' := cnt + N.of_nat (length es) in
        Some (mkSt nx sto slots cnt' act bytes files snaps man fid gate mlock thr,
              WHalf cl es (due_now c cnt'), [Acq LCnt MW; Rel LCnt; Rel LWal])
  | WHalf cl es due =>
      if is_ins cl then
        let cnt' := cnt + 1 in
        Some (mkSt nx sto slots cnt' act bytes files snaps man fid gate mlock thr,
              WBoth cl (due_now c cnt'),
              [Acq LCnt MW; Rel LCnt; Acq LMeta MW; Rel LMeta; Rel LIdx; Rel LStore])
      else
        Some (mkSt nx (apply_entries sto es) slots cnt act bytes files snaps man fid gate mlock thr,
              WBoth cl due,
              [Acq LStore MW; Rel LStore] ++ (if is_batch cl then [] else [Acq LMeta MW; Rel LMeta]))
  | WBoth cl due =>
      Some (mkSt nx sto slots cnt act bytes files snaps man fid None mlock thr, WGateRel cl due, [Rel LGate])
  | WGateRel cl due =>
      Some (st, if due then SWant else Idle,
            (if is_batch cl then [Acq LMeta MW; Rel LMeta] else []) ++ [Rel LSnap])
  | SWant =>
      if no_readers st then
        Some (st, SCaptured (nx - 1) sto, [Acq LSnap MW; Acq LStore MR; Rel LStore; Rel LSnap])
      else None
  | SCaptured last copy =>
      Some (mkSt nx sto slots cnt act bytes files (fset snaps (c_clock c fid) (last, copy)) man (fid + 1) gate mlock thr,
            SFile last copy (c_clock c fid), rd LIdx)
  | SFile last copy f =>
      match mlock with
      | Some _ => None
      | None =>
          if last <? ptr_seq man then
            (* newer snapshot already committed: remove the new file, return Ok *)
            Some (mkSt nx sto slots cnt act bytes files (fdel snaps f) man fid gate mlock thr,
                  Idle, [Acq LMan MX; Rel LMan])
          else
            Some (mkSt nx sto slots cnt act bytes files snaps man fid gate (Some t) thr,
                  SLoaded last copy f (m_segs man), [Acq LMan MX])
      end
  | SLoaded last copy f segs =>
      Some (mkSt nx sto slots cnt act bytes files snaps (mkMan (Some (f, last)) segs) fid gate mlock thr,
            SPtr last f segs, [])
  | SPtr last f segs =>
      let '(keep, del) := compact files last segs in
      let man' := match del with [] => man | _ :: _ => mkMan (Some (f, last)) keep end in
      Some (mkSt nx sto slots cnt act bytes files snaps man' fid gate mlock thr,
            SCompacted last f keep del, [])
  | SCompacted last f keep del =>
      Some (mkSt nx sto slots cnt act bytes (unlink_all files del) snaps man fid gate mlock thr,
            SUnlinked last f keep, [])
  | SUnlinked last f keep =>
      Some (mkSt nx sto slots cnt act bytes files snaps (mkMan (Some (f, last)) keep) fid gate mlock thr,
            SSaved, [])
  | SSaved =>
      Some (mkSt nx sto slots 0 act bytes files snaps man fid gate None thr, Idle, [Acq LCnt MW; Rel LCnt; Rel LMan])
  end.

Definition set_thr (st : state) (t : nat) (p : phase) : state :=
  mkSt (st_next st) (st_store st) (st_slots st) (st_cnt st) (st_active st) (st_bytes st) (st_files st)
       (st_snaps st) (st_man st) (st_fid st) (st_gate st) (st_mlock st) (tset (st_thr st) t p).

Definition cstep_l (c : cfg) (st : state) (e : ev) : option (state * list lev) :=
  match e with
  | EvCall t cl => if is_idle (tget (st_thr st) t) then Some (set_thr st t (WWant cl false), []) else None
  | EvSnap t => if is_idle (tget (st_thr st) t) then Some (set_thr st t SWant, []) else None
  | EvStep t =>
      match tstep c st t (tget (st_thr st) t) with
      | Some (st1, p1, ls) => Some (set_thr st1 t p1, ls)
      | None => None
      end
  end.

Definition cstep (c : cfg) (st : state) (e : ev) : option state :=
  match cstep_l c st e with Some (s, _) => Some s | None => None end.

Fixpoint crun (c : cfg) (st : state) (sched : list ev) : option state :=
  match sched with
  | [] => Some st
  | e :: r => match cstep c st e with Some s1 => crun c s1 r | None => None end
  end.

(* ---------------------------------------------------------------------------------------------- *)
(* A call run alone to completion (skeleton correspondence): final state and lock sequence          *)
(* ---------------------------------------------------------------------------------------------- *)

Fixpoint solo_steps (c : cfg) (fuel : nat) (st : state) (acc : list lev) : option (state * list lev) :=
  match fuel with
  | O => None
  | S k => if is_idle (tget (st_thr st) 0%nat) then Some (st, acc)
           else match cstep_l c st (EvStep 0%nat) with
                | Some (s1, ls) => solo_steps c k s1 (acc ++ ls)
                | None => None
                end
  end.

Inductive scall := SC (cl : call) | SSnap.

Definition solo (c : cfg) (st : state) (x : scall) : option (state * list lev) :=
  match cstep_l c st (match x with SC cl => EvCall 0%nat cl | SSnap => EvSnap 0%nat end) with
  | Some (s1, _) => solo_steps c 64 s1 []
  | None => None
  end.

Fixpoint solo_all (c : cfg) (st : state) (xs : list scall) : option state :=
  match xs with
  | [] => Some st
  | x :: r => match solo c st x with Some (s1, _) => solo_all c s1 r | None => None end
  end.

(* lock sequence of call x issued alone after the calls `setup` (each alone), as code numbers *)
Definition solo_locks (c : cfg) (setup : list scall) (x : scall) : option (list N) :=
  match solo_all c init setup with
  | Some st => match solo c st x with Some (_, ls) => Some (map lev_code ls) | None => None end
  | None => None
  end.

Fixpoint list_N_eqb (a b : list N) : bool :=
  match a, b with
  | [], [] => true
  | x :: r, y :: s => N.eqb x y && list_N_eqb r s
  | _, _ => false
  end.
