(* Model/Server.v — executable model of the RPC layer of engine/src/bin/kyrodb_server.rs with
   authentication ENABLED (the only mode C10/C14/C15 talk about).  NO proofs in this file.

   What is modelled, following the code line by line:
     * auth interceptor: API key -> TenantContext (partial function; disabled / unknown / missing key
       => UNAUTHENTICATED for every gRPC method, 401 for GET /usage)
     * TenantIdMapper::{to_global_doc_id,is_tenant_doc_id,to_local_doc_id}
     * the engine as an abstract map  global id -> (vector, metadata)   (canonical cold-tier view:
       TieredEngine::{get_metadata,exists,insert,delete,batch_delete,update_metadata,...})
     * reserved metadata keys __tenant_id__/__tenant_idx__/__namespace__: overwritten on every write
       path, preserved by UpdateMetadata, stripped by sanitize_public_metadata
     * handlers insert, bulk_insert, bulk_load_hnsw, query, bulk_query, search, bulk_search,
       update_metadata, delete, batch_delete (ids | filter | none), flush_hot_tier, GET /usage
     * api_validation::{validate_insert_request,validate_search_request,normalize_search_request},
       adaptive_oversampling::calculate_oversampling_factor, metadata_filter::matches
       (Range filters are NOT modelled — C11 owns them)
     * per-tenant vector quota bookkeeping (tenant_vector_counts: enforce / reserve / release /
       decrement) and the usage tracker counters — hook points for C14
   Search = exact k-NN over ALL tenants' documents (global top `search_k` by exact squared L2 in Z
   on a dyadic grid; ties broken by global id), THEN the tenant / namespace / filter post-filter of
   build_search_response — this is the code's behaviour and the source of the C10 count finding.
   NOT modelled: rate limiting (C19), hot tier / HNSW slots / tombstones / query cache (Search is
   specified as if both tiers together answer exactly), timestamps, latencies, tier/path enums,
   tonic/prost decoding.  The hot tier is modelled only as the list of mirrored ids that
   FlushHotTier drains and counts (a bulk load over a mirrored id leaves the stale mirror in place).

   Vectors are lists of Z (coordinates in units of 1/8); squared distances are exact integers (units
   of 1/64); the f32 score 1/(1+sqrt d) is an uninterpreted function `score : Z -> Z` (bit pattern)
   supplied by the harness as a table; `idx_str : N -> str` is u32::to_string. *)
From Coq Require Import List NArith ZArith Bool String Ascii.
Import ListNotations.
Open Scope N_scope.

(* ---------------------------------------------------------------- strings, metadata *)
Definition str := list N.
Definition s2l (s : string) : str := map N_of_ascii (list_ascii_of_string s).

Fixpoint str_eqb (a b : str) : bool :=
  match a, b with
  | [], [] => true
  | x :: a', y :: b' => N.eqb x y && str_eqb a' b'
  | _, _ => false
  end.
Fixpoint str_ltb (a b : str) : bool :=
  match a, b with
  | _, [] => false
  | [], _ :: _ => true
  | x :: a', y :: b' => if N.ltb x y then true else if N.eqb x y then str_ltb a' b' else false
  end.

Definition meta := list (str * str).            (* kept sorted by key, keys unique *)
Fixpoint mget (m : meta) (k : str) : option str :=
  match m with
  | [] => None
  | (k', v) :: r => if str_eqb k k' then Some v else mget r k
  end.
Fixpoint mset (m : meta) (k v : str) : meta :=
  match m with
  | [] => [(k, v)]
  | (k', v') :: r =>
      if str_eqb k k' then (k, v) :: r
      else if str_ltb k k' then (k, v) :: m
      else (k', v') :: mset r k v
  end.
Definition mremove (m : meta) (k : str) : meta := filter (fun kv => negb (str_eqb k (fst kv))) m.
(* HashMap::extend: entries of `new` override *)
Definition mextend (old new : meta) : meta := fold_left (fun acc kv => mset acc (fst kv) (snd kv)) new old.
Definition mnorm (m : meta) : meta := mextend [] m.

Definition K_TID : str := s2l "__tenant_id__".
Definition K_TIDX : str := s2l "__tenant_idx__".
Definition K_NS : str := s2l "__namespace__".

Definition strip_reserved (m : meta) : meta := mremove (mremove (mremove m K_TID) K_TIDX) K_NS.
(* sanitize_public_metadata *)
Definition sanitize (m : meta) : meta := strip_reserved m.

(* ---------------------------------------------------------------- filters (metadata_filter.rs) *)
Inductive filter :=
| FNone                                   (* MetadataFilter { filter_type: None } *)
| FExact (k v : str)
| FIn (k : str) (vs : list str)
| FAnd (fs : list filter)
| FOr (fs : list filter)
| FNot (f : option filter).

Fixpoint fmatches (f : filter) (m : meta) : bool :=
  match f with
  | FNone => true
  | FExact k v => match mget m k with Some x => str_eqb x v | None => false end
  | FIn k vs => match mget m k with Some x => existsb (str_eqb x) vs | None => false end
  | FAnd fs => forallb (fun g => fmatches g m) fs
  | FOr fs => match fs with [] => false | _ => existsb (fun g => fmatches g m) fs end
  | FNot None => false
  | FNot (Some g) => negb (fmatches g m)
  end.

(* adaptive_oversampling::estimate_selectivity; None = "filter_type is None" *)
Definition clampN (x lo hi : N) : N := N.min (N.max x lo) hi.
Fixpoint sum_some (l : list (option N)) : N :=
  match l with [] => 0 | Some x :: r => x + sum_some r | None :: r => sum_some r end.
Fixpoint min_some (l : list (option N)) : option N :=
  match l with
  | [] => None
  | Some x :: r => match min_some r with Some y => Some (N.min x y) | None => Some x end
  | None :: r => min_some r
  end.
Fixpoint fest (f : filter) : option N :=
  match f with
  | FNone => None
  | FExact _ _ => Some 2
  | FIn _ vs => let c := N.of_nat (List.length vs) in
                Some (if c <=? 2 then 3 else if c <=? 5 then 5 else 8)
  | FAnd fs => Some (match fs with
                     | [] => 1
                     | _ => match min_some (map fest fs) with Some m => m | None => 2 end
                     end)
  | FOr fs => Some (match fs with
                    | [] => 1
                    | _ => clampN ((sum_some (map fest fs) / N.max (N.of_nat (List.length fs)) 1) * 2) 2 20
                    end)
  | FNot None => Some 20
  | FNot (Some g) => Some (match fest g with None => 20 | Some e => clampN (50 / e) 10 50 end)
  end.
Definition oversampling (f : filter) : N := match fest f with None => 1 | Some e => e end.

(* ---------------------------------------------------------------- TenantIdMapper *)
Definition U32_MAX : N := 4294967295.
Definition to_global_doc_id (tenant_index local : N) : option N :=
  if U32_MAX <? local then None else Some (N.lor (N.shiftl tenant_index 32) local).
Definition tenant_of (global : N) : N := N.shiftr global 32.
Definition is_tenant_doc_id (tenant_index global : N) : bool := N.eqb (tenant_of global) tenant_index.
Definition to_local_doc_id (global : N) : N := N.land global U32_MAX.

(* ---------------------------------------------------------------- engine state *)
Definition vec := list Z.
Record doc := mkDoc { d_vec : vec; d_meta : meta }.
Definition docs := list (N * doc).              (* keys unique; order = first-insertion order *)
Fixpoint dget (ds : docs) (g : N) : option doc :=
  match ds with [] => None | (g', d) :: r => if N.eqb g g' then Some d else dget r g end.
Fixpoint dset (ds : docs) (g : N) (d : doc) : docs :=
  match ds with
  | [] => [(g, d)]
  | (g', d') :: r => if N.eqb g g' then (g, d) :: r else (g', d') :: dset r g d
  end.
Definition dremove (ds : docs) (g : N) : docs := List.filter (fun p => negb (N.eqb g (fst p))) ds.
Definition dexists (ds : docs) (g : N) : bool := match dget ds g with Some _ => true | None => false end.

Record usage := mkUsage { u_query : N; u_insert : N; u_delete : N; u_vectors : N; u_bytes : N }.
Definition usage0 := mkUsage 0 0 0 0 0.
Definition nmap (A : Type) := list (N * A).
Fixpoint nget {A} (m : nmap A) (k : N) : option A :=
  match m with [] => None | (k', v) :: r => if N.eqb k k' then Some v else nget r k end.
Fixpoint nset {A} (m : nmap A) (k : N) (v : A) : nmap A :=
  match m with
  | [] => [(k, v)]
  | (k', v') :: r => if N.eqb k k' then (k, v) :: r else (k', v') :: nset r k v
  end.

Record state := mkState {
  st_docs : docs;
  st_counts : nmap N;          (* tenant_vector_counts, keyed by tenant index *)
  st_usage : nmap usage;       (* UsageTracker, lazily created *)
  st_hot : list N              (* global ids currently mirrored in the hot tier (recent Insert/BulkInsert
                                  writes not yet drained); only FlushHotTier's count reads it *)
}.
Definition init_state : state := mkState [] [] [] [].

(* ---------------------------------------------------------------- configuration / auth *)
Record keyinfo := mkKey {
  k_tenant : N;        (* tenant_index *)
  k_tid : str;         (* tenant_id string, stored under __tenant_id__ *)
  k_enabled : bool;
  k_admin : bool;
  k_maxvec : N
}.
Record config := mkCfg { c_keys : nmap keyinfo; c_dim : N }.

(* AuthManager::validate through the interceptor: a partial function key -> tenant context *)
Definition auth (cfg : config) (key : option N) : option keyinfo :=
  match key with
  | None => None
  | Some k => match nget (c_keys cfg) k with
              | Some ki => if k_enabled ki then Some ki else None
              | None => None
              end
  end.

(* ---------------------------------------------------------------- requests / responses *)
Record item := mkItem { i_id : N; i_vec : vec; i_meta : meta; i_ns : str }.
Record sreq := mkSreq {
  s_q : vec; s_k : N; s_min_score : Z;     (* min_score as f32 bits (non-negative floats only) *)
  s_ns : str; s_incl : bool; s_ef : N;
  s_filter : option filter; s_legacy : meta
}.
Inductive req :=
| RInsert (it : item)
| RBulkInsert (its : list item)
| RBulkLoad (its : list item)
| RQuery (id : N) (incl : bool) (ns : str)
| RBulkQuery (ids : list N) (incl : bool) (ns : str)
| RSearch (s : sreq)
| RBulkSearch (ss : list sreq)
| RUpdateMeta (id : N) (m : meta) (merge : bool) (ns : str)
| RDelete (id : N) (ns : str)
| RBatchDeleteIds (ids : list N) (ns : str)
| RBatchDeleteFilter (f : filter) (ns : str)
| RBatchDeleteNone (ns : str)
| RFlush (force : bool)
| RUsage (scope : option str).
Record call := mkCall { c_key : option N; c_req : req }.

Inductive code := Unauthenticated | InvalidArgument | ResourceExhausted | Internal
                | Http401 | Http403 | Http400.
Record qres := mkQres { q_found : bool; q_id : N; q_vec : vec; q_meta : meta }.
Record hit := mkHit { h_id : N; h_score : Z; h_vec : vec; h_meta : meta }.
Inductive sres := SErr (c : code) | SOk (hits : list hit) (total_found : N).
Inductive resp :=
| Err (c : code)
| OkInsert (success : bool) (inserted failed : N)
| OkBulkLoad (success : bool) (loaded failed : N)
| OkQuery (q : qres)
| OkBulkQuery (rs : list qres) (total_found total_requested : N)
| OkSearch (hits : list hit) (total_found : N)
| OkBulkSearch (rs : list sres)
| OkExisted (existed : bool)                (* UpdateMetadata / Delete *)
| OkBatchDelete (deleted : N)
| OkFlush (flushed : N)                    (* documents_flushed: hot-tier entries of ALL tenants *)
| OkUsage (rows : list (N * usage)).        (* tenant index, counters *)

(* ---------------------------------------------------------------- helpers on state *)
Definition get_count (s : state) (t : N) : N := match nget (st_counts s) t with Some c => c | None => 0 end.
Definition set_count (s : state) (t c : N) : state := mkState (st_docs s) (nset (st_counts s) t c) (st_usage s) (st_hot s).
Definition set_docs (s : state) (ds : docs) : state := mkState ds (st_counts s) (st_usage s) (st_hot s).
Definition set_hot (s : state) (h : list N) : state := mkState (st_docs s) (st_counts s) (st_usage s) h.
Definition hot_add (s : state) (g : N) : state := if existsb (N.eqb g) (st_hot s) then s else set_hot s (st_hot s ++ [g]).
Definition hot_remove (s : state) (gs : list N) : state := set_hot s (List.filter (fun g => negb (existsb (N.eqb g) gs)) (st_hot s)).
Definition upd_usage (s : state) (t : N) (f : usage -> usage) : state :=
  let u := match nget (st_usage s) t with Some u => u | None => usage0 end in
  mkState (st_docs s) (st_counts s) (nset (st_usage s) t (f u)) (st_hot s).
(* record_tenant_query_usage_batch / insert / delete: no tracker is created for a zero count *)
Definition rec_query (s : state) (t n : N) : state :=
  if n =? 0 then s else upd_usage s t (fun u => mkUsage (u_query u + n) (u_insert u) (u_delete u) (u_vectors u) (u_bytes u)).
Definition rec_insert (s : state) (t n bytes : N) : state :=
  if n =? 0 then s else upd_usage s t (fun u => mkUsage (u_query u) (u_insert u + n) (u_delete u) (u_vectors u + n) (u_bytes u + n * bytes)).
Definition rec_delete (s : state) (t n bytes : N) : state :=
  if n =? 0 then s else upd_usage s t (fun u => mkUsage (u_query u) (u_insert u) (u_delete u + n) (u_vectors u - n) (u_bytes u - n * bytes)).
(* decrement_tenant_vectors / release_reserved_tenant_vectors: saturating, only an existing entry *)
Definition dec_count (s : state) (t n : N) : state :=
  if n =? 0 then s else
  match nget (st_counts s) t with Some c => set_count s t (c - n) | None => s end.

Section Params.
Variable idx_str : N -> str.      (* u32::to_string *)
Variable score : Z -> Z.          (* f32 bits of 1/(1+sqrt(d/64)) for a squared distance d in 1/64 units *)

Definition vec_bytes (n : N) : N := n * 4.
Definition len {A} (l : list A) : N := N.of_nat (List.length l).

(* the metadata every write path stores: client keys minus reserved, plus the server's own *)
Definition stored_meta (ki : keyinfo) (m : meta) (ns : str) : meta :=
  let m1 := strip_reserved m in
  let m2 := mset (mset m1 K_TID (k_tid ki)) K_TIDX (idx_str (k_tenant ki)) in
  match ns with [] => m2 | _ => mset m2 K_NS ns end.

Definition doc_ns (m : meta) : str := match mget m K_NS with Some s => s | None => [] end.
Definition ns_ok (ns : str) (m : meta) : bool := match ns with [] => true | _ => str_eqb (doc_ns m) ns end.
Definition tenant_ok (ki : keyinfo) (m : meta) : bool :=
  match mget m K_TIDX with Some x => str_eqb x (idx_str (k_tenant ki)) | None => false end.

(* enforce_vector_quota: Ok already_exists | Err *)
Definition enforce_quota (ki : keyinfo) (s : state) (g : N) : option (bool * state) :=
  if dexists (st_docs s) g then Some (true, s)
  else let c := get_count s (k_tenant ki) in
       if k_maxvec ki <=? c then None else Some (false, set_count s (k_tenant ki) (c + 1)).

(* TieredEngine::insert as seen through the server: the only modelled failure is a dimension mismatch *)
Definition engine_insert_ok (cfg : config) (v : vec) : bool := N.eqb (len v) (c_dim cfg).

(* ---- Insert *)
Definition h_insert (cfg : config) (ki : keyinfo) (s : state) (it : item) : state * resp :=
  if i_id it <? 1 then (s, Err InvalidArgument)
  else match i_vec it with [] => (s, Err InvalidArgument) | _ =>
  match to_global_doc_id (k_tenant ki) (i_id it) with
  | None => (s, Err InvalidArgument)
  | Some g =>
    match enforce_quota ki s g with
    | None => (s, Err ResourceExhausted)
    | Some (already, s1) =>
      if engine_insert_ok cfg (i_vec it) then
        let s2 := hot_add (set_docs s1 (dset (st_docs s1) g (mkDoc (i_vec it) (stored_meta ki (i_meta it) (i_ns it))))) g in
        let s3 := if already then s2 else rec_insert s2 (k_tenant ki) 1 (vec_bytes (len (i_vec it))) in
        (s3, OkInsert true 1 0)
      else ((if already then s1 else dec_count s1 (k_tenant ki) 1), Err Internal)
    end
  end end.

(* ---- BulkInsert: one stream item *)
Definition bulk_insert_item (cfg : config) (ki : keyinfo) (acc : state * (N * N)) (it : item) : state * (N * N) :=
  let '(s, (ins, failed)) := acc in
  if i_id it <? 1 then (s, (ins, failed + 1))
  else match i_vec it with [] => (s, (ins, failed + 1)) | _ =>
  match to_global_doc_id (k_tenant ki) (i_id it) with
  | None => (s, (ins, failed + 1))
  | Some g =>
    match enforce_quota ki s g with
    | None => (s, (ins, failed + 1))
    | Some (already, s1) =>
      if engine_insert_ok cfg (i_vec it) then
        let s2 := hot_add (set_docs s1 (dset (st_docs s1) g (mkDoc (i_vec it) (stored_meta ki (i_meta it) (i_ns it))))) g in
        let s3 := if already then s2 else rec_insert s2 (k_tenant ki) 1 (vec_bytes (c_dim cfg)) in
        (s3, (ins + 1, failed))
      else ((if already then s1 else dec_count s1 (k_tenant ki) 1), (ins, failed + 1))
    end
  end end.
Definition h_bulk_insert (cfg : config) (ki : keyinfo) (s : state) (its : list item) : state * resp :=
  let '(s', (ins, failed)) := fold_left (bulk_insert_item cfg ki) its (s, (0, 0)) in
  (s', OkInsert (failed =? 0) ins failed).

(* ---- BulkLoadHnsw (one batch: streams are far below MAX_BATCH_SIZE) *)
Definition bl_validate (ki : keyinfo) (acc : list (N * doc) * N) (it : item) : list (N * doc) * N :=
  let '(ds, bad) := acc in
  if i_id it <? 1 then (ds, bad + 1)
  else match i_vec it with [] => (ds, bad + 1) | _ =>
  match to_global_doc_id (k_tenant ki) (i_id it) with
  | None => (ds, bad + 1)
  | Some g => (ds ++ [(g, mkDoc (i_vec it) (stored_meta ki (i_meta it) (i_ns it)))], bad)
  end end.
Fixpoint nodup_N (l : list N) : list N :=
  match l with [] => [] | x :: r => if existsb (N.eqb x) r then nodup_N r else x :: nodup_N r end.
Definition bl_insert (cfg : config) (acc : docs * (N * N)) (p : N * doc) : docs * (N * N) :=
  let '(ds, (loaded, failed)) := acc in
  if engine_insert_ok cfg (d_vec (snd p)) then (dset ds (fst p) (snd p), (loaded + 1, failed))
  else (ds, (loaded, failed + 1)).
Definition h_bulk_load (cfg : config) (ki : keyinfo) (s : state) (its : list item) : state * resp :=
  let '(batch, bad) := fold_left (bl_validate ki) its ([], 0) in
  match batch with
  | [] => (s, OkBulkLoad (bad =? 0) 0 bad)
  | _ =>
    let new_ids := nodup_N (List.filter (fun g => negb (dexists (st_docs s) g)) (map fst batch)) in
    let reserved := len new_ids in
    let c := get_count s (k_tenant ki) in
    (* reserve_tenant_vectors: count 0 => Ok without touching the map *)
    if negb (reserved =? 0) && (k_maxvec ki <? c + reserved) then (s, Err ResourceExhausted)
    else
      let s1 := if reserved =? 0 then s else set_count s (k_tenant ki) (c + reserved) in
      let '(ds, (loaded, failed)) := fold_left (bl_insert cfg) batch (st_docs s1, (0, 0)) in
      let s2 := set_docs s1 ds in
      let inserted_now := len (List.filter (dexists ds) new_ids) in
      let s3 := if reserved =? 0 then s2
                else rec_insert (dec_count s2 (k_tenant ki) (reserved - inserted_now)) (k_tenant ki) inserted_now (vec_bytes (c_dim cfg)) in
      (s3, OkBulkLoad (failed + bad =? 0) loaded (failed + bad))
  end.

(* ---- Query *)
Definition not_found (id : N) : qres := mkQres false id [] [].
Definition h_query (ki : keyinfo) (s : state) (id : N) (incl : bool) (ns : str) : state * resp :=
  if id =? 0 then (s, Err InvalidArgument)
  else match to_global_doc_id (k_tenant ki) id with
  | None => (s, Err InvalidArgument)
  | Some g =>
    let s' := rec_query s (k_tenant ki) 1 in
    let m := match dget (st_docs s) g with Some d => d_meta d | None => [] end in
    if negb (tenant_ok ki m) then (s', OkQuery (not_found id))
    else if negb (ns_ok ns m) then (s', OkQuery (not_found id))
    else match dget (st_docs s) g with
         | Some d => (s', OkQuery (mkQres true id (if incl then d_vec d else []) (sanitize m)))
         | None => (s', OkQuery (not_found id))
         end
  end.

(* ---- BulkQuery *)
Fixpoint map_ids (t : N) (ids : list N) : option (list N) :=
  match ids with
  | [] => Some []
  | i :: r => match to_global_doc_id t i, map_ids t r with
              | Some g, Some gs => Some (g :: gs)
              | _, _ => None
              end
  end.
Definition bq_one (ki : keyinfo) (ds : docs) (incl : bool) (ns : str) (id g : N) : qres :=
  match dget ds g with
  | None => not_found id
  | Some d =>
    if negb (ns_ok ns (d_meta d)) then not_found id
    else if negb (tenant_ok ki (d_meta d)) then not_found id
    else mkQres true id (if incl then d_vec d else []) (sanitize (d_meta d))
  end.
Fixpoint zipwith {A B C} (f : A -> B -> C) (a : list A) (b : list B) : list C :=
  match a, b with x :: a', y :: b' => f x y :: zipwith f a' b' | _, _ => [] end.
Definition h_bulk_query (ki : keyinfo) (s : state) (ids : list N) (incl : bool) (ns : str) : state * resp :=
  match map_ids (k_tenant ki) ids with
  | None => (s, Err InvalidArgument)
  | Some gs =>
    let rs := zipwith (bq_one ki (st_docs s) incl ns) ids gs in
    (rec_query s (k_tenant ki) (len ids),
     OkBulkQuery rs (len (List.filter q_found rs)) (len ids))
  end.

(* ---- Search *)
Fixpoint dist2 (a b : vec) : Z :=
  match a, b with x :: a', y :: b' => ((x - y) * (x - y) + dist2 a' b')%Z | _, _ => 0%Z end.
(* candidates ordered by (distance, global id) *)
Definition cand := (Z * N * doc)%type.
Definition cand_le (a b : cand) : bool :=
  let '(da, ga, _) := a in let '(db, gb, _) := b in
  if (da <? db)%Z then true else if (da =? db)%Z then ga <=? gb else false.
Fixpoint cinsert (c : cand) (l : list cand) : list cand :=
  match l with [] => [c] | x :: r => if cand_le c x then c :: l else x :: cinsert c r end.
Definition csort (l : list cand) : list cand := fold_right cinsert [] l.
Definition take {A} (n : N) (l : list A) : list A := firstn (N.to_nat n) l.
Definition knn (ds : docs) (q : vec) (k : N) : list cand :=
  take k (csort (map (fun p => (dist2 q (d_vec (snd p)), fst p, snd p)) ds)).

(* normalize_search_request: legacy exact-match map becomes AND of exact filters *)
Definition legacy_filter (m : meta) : option filter :=
  match mnorm m with
  | [] => None
  | [(k, v)] => Some (FExact k v)
  | l => Some (FAnd (map (fun kv => FExact (fst kv) (snd kv)) l))
  end.
Definition norm_filter (r : sreq) : option filter :=
  match s_filter r, legacy_filter (s_legacy r) with
  | None, None => None
  | Some f, None => Some f
  | None, Some f => Some f
  | Some a, Some b => Some (FAnd [a; b])
  end.
Definition MAX_KNN_K : N := 1000.
(* validate_search_request: Err | search_k *)
Definition search_plan (r : sreq) : option N :=
  match s_q r with [] => None | _ =>
  if s_k r =? 0 then None
  else if MAX_KNN_K <? s_k r then None
  else if 10000 <? s_ef r then None
  else
    let base := match norm_filter r with Some f => oversampling f | None => 1 end in
    let factor := match s_ns r with [] => base | _ => N.min (base * 4) 10 end in
    Some (N.min (s_k r * factor) 10000)
  end.
(* is this candidate served?  (the per-candidate tests of build_search_response, in order) *)
Definition served (ki : keyinfo) (r : sreq) (c : cand) : bool :=
  let '(d, g, dc) := c in
  is_tenant_doc_id (k_tenant ki) g
  && negb ((0 <? s_min_score r)%Z && (score d <? s_min_score r)%Z)
  && tenant_ok ki (d_meta dc)
  && ns_ok (s_ns r) (d_meta dc)
  && (match norm_filter r with Some f => fmatches f (d_meta dc) | None => true end)
  && (1 <=? to_local_doc_id g).
Definition mk_hit (r : sreq) (c : cand) : hit :=
  let '(d, g, dc) := c in
  mkHit (to_local_doc_id g) (score d) (if s_incl r then d_vec dc else []) (sanitize (d_meta dc)).
Definition search_core (cfg : config) (ki : keyinfo) (ds : docs) (r : sreq) : sres :=
  match search_plan r with
  | None => SErr InvalidArgument
  | Some search_k =>
    if negb (N.eqb (len (s_q r)) (c_dim cfg)) then SErr InvalidArgument
    else
      let ok := List.filter (served ki r) (knn ds (s_q r) search_k) in
      SOk (map (mk_hit r) (take (s_k r) ok)) (len ok)
  end.
Definition h_search (cfg : config) (ki : keyinfo) (s : state) (r : sreq) : state * resp :=
  match search_core cfg ki (st_docs s) r with
  | SErr c => (s, Err c)
  | SOk hits tf => (rec_query s (k_tenant ki) 1, OkSearch hits tf)
  end.
Definition is_sok (x : sres) : bool := match x with SOk _ _ => true | SErr _ => false end.
Definition h_bulk_search (cfg : config) (ki : keyinfo) (s : state) (rs : list sreq) : state * resp :=
  let outs := map (search_core cfg ki (st_docs s)) rs in
  (rec_query s (k_tenant ki) (len (List.filter is_sok outs)), OkBulkSearch outs).

(* ---- UpdateMetadata *)
Definition keep_reserved (existing : meta) (m : meta) : meta :=
  let m1 := strip_reserved m in
  let m2 := match mget existing K_TID with Some v => mset m1 K_TID v | None => m1 end in
  let m3 := match mget existing K_TIDX with Some v => mset m2 K_TIDX v | None => m2 end in
  match mget existing K_NS with Some v => mset m3 K_NS v | None => m3 end.
Definition h_update (ki : keyinfo) (s : state) (id : N) (m : meta) (merge : bool) (ns : str) : state * resp :=
  if id =? 0 then (s, Err InvalidArgument)
  else match to_global_doc_id (k_tenant ki) id with
  | None => (s, Err InvalidArgument)
  | Some g =>
    match dget (st_docs s) g with
    | None => (s, OkExisted false)
    | Some d =>
      if negb (tenant_ok ki (d_meta d)) then (s, OkExisted false)
      else if negb (ns_ok ns (d_meta d)) then (s, OkExisted false)
      else
        let m' := keep_reserved (d_meta d) m in
        let final := if merge then mextend (d_meta d) m' else m' in
        (set_docs s (dset (st_docs s) g (mkDoc (d_vec d) final)), OkExisted true)
    end
  end.

(* ---- Delete *)
Definition h_delete (cfg : config) (ki : keyinfo) (s : state) (id : N) (ns : str) : state * resp :=
  if id <? 1 then (s, Err InvalidArgument)
  else match to_global_doc_id (k_tenant ki) id with
  | None => (s, Err InvalidArgument)
  | Some g =>
    match dget (st_docs s) g with
    | None => (s, OkExisted false)
    | Some d =>
      if negb (tenant_ok ki (d_meta d)) then (s, OkExisted false)
      else if negb (ns_ok ns (d_meta d)) then (s, OkExisted false)
      else
        let s1 := hot_remove (set_docs s (dremove (st_docs s) g)) [g] in
        (rec_delete (dec_count s1 (k_tenant ki) 1) (k_tenant ki) 1 (vec_bytes (c_dim cfg)), OkExisted true)
    end
  end.

(* ---- BatchDelete.  TieredEngine::batch_delete: dedupe, count the existing ones, delete them *)
Definition engine_batch_delete (ds : docs) (gs : list N) : docs * N :=
  let u := nodup_N gs in
  (List.filter (fun p => negb (existsb (N.eqb (fst p)) u)) ds, len (List.filter (dexists ds) u)).
Definition finish_batch_delete (cfg : config) (ki : keyinfo) (s : state) (gs : list N) : state * resp :=
  let '(ds, n) := engine_batch_delete (st_docs s) gs in
  let s1 := hot_remove (set_docs s ds) gs in
  (rec_delete (dec_count s1 (k_tenant ki) n) (k_tenant ki) n (vec_bytes (c_dim cfg)), OkBatchDelete n).
Definition h_batch_delete_ids (cfg : config) (ki : keyinfo) (s : state) (ids : list N) (ns : str) : state * resp :=
  match map_ids (k_tenant ki) ids with
  | None => (s, Err InvalidArgument)
  | Some gs =>
    let keep g := match dget (st_docs s) g with
                  | Some d => tenant_ok ki (d_meta d) && ns_ok ns (d_meta d)
                  | None => false end in
    finish_batch_delete cfg ki s (List.filter keep gs)
  end.
Definition combined_filter (ki : keyinfo) (f : filter) (ns : str) : filter :=
  FAnd (FExact K_TIDX (idx_str (k_tenant ki)) ::
        match ns with [] => [f] | _ => [FExact K_NS ns; f] end).
Definition h_batch_delete_filter (cfg : config) (ki : keyinfo) (s : state) (f : filter) (ns : str) : state * resp :=
  let cf := combined_filter ki f ns in
  finish_batch_delete cfg ki s (map fst (List.filter (fun p => fmatches cf (d_meta (snd p))) (st_docs s))).

(* ---- GET /usage *)
Definition ascii_lower (c : N) : N := if (65 <=? c) && (c <=? 90) then c + 32 else c.
Definition str_eq_nocase (a b : str) : bool := str_eqb (map ascii_lower a) (map ascii_lower b).
Definition h_usage (ki : keyinfo) (s : state) (scope : option str) : state * resp :=
  let self := match nget (st_usage s) (k_tenant ki) with Some u => [(k_tenant ki, u)] | None => [] end in
  match scope with
  | None => (s, OkUsage self)
  | Some sc =>
    if str_eq_nocase sc (s2l "self") then (s, OkUsage self)
    else if str_eq_nocase sc (s2l "all") then
      (if k_admin ki then (s, OkUsage (st_usage s)) else (s, Err Http403))
    else (s, Err Http400)
  end.

(* ---------------------------------------------------------------- the server step *)
Definition handle (cfg : config) (ki : keyinfo) (s : state) (r : req) : state * resp :=
  match r with
  | RInsert it => h_insert cfg ki s it
  | RBulkInsert its => h_bulk_insert cfg ki s its
  | RBulkLoad its => h_bulk_load cfg ki s its
  | RQuery id incl ns => h_query ki s id incl ns
  | RBulkQuery ids incl ns => h_bulk_query ki s ids incl ns
  | RSearch r => h_search cfg ki s r
  | RBulkSearch rs => h_bulk_search cfg ki s rs
  | RUpdateMeta id m merge ns => h_update ki s id m merge ns
  | RDelete id ns => h_delete cfg ki s id ns
  | RBatchDeleteIds ids ns => h_batch_delete_ids cfg ki s ids ns
  | RBatchDeleteFilter f ns => h_batch_delete_filter cfg ki s f ns
  | RBatchDeleteNone _ => (s, Err InvalidArgument)
  | RFlush force =>
      (* TieredEngine::flush_hot_tier: without `force` nothing is drained below the size/age
         thresholds (never reached by the modelled histories); with it the whole mirror is drained *)
      if force then (set_hot s [], OkFlush (len (st_hot s))) else (s, OkFlush 0)
  | RUsage scope => h_usage ki s scope
  end.
Definition is_http (r : req) : bool := match r with RUsage _ => true | _ => false end.
(* GET /usage validates the scope parameter before looking at the requester *)
Definition usage_scope_bad (r : req) : bool :=
  match r with
  | RUsage (Some sc) => negb (str_eq_nocase sc (s2l "self")) && negb (str_eq_nocase sc (s2l "all"))
  | _ => false
  end.
Definition step (cfg : config) (s : state) (c : call) : state * resp :=
  match auth cfg (c_key c) with
  | None => (s, Err (if is_http (c_req c) then Http401 else Unauthenticated))
  | Some ki => handle cfg ki s (c_req c)
  end.
Fixpoint run_from (cfg : config) (s : state) (cs : list call) : state * list resp :=
  match cs with
  | [] => (s, [])
  | c :: r => let '(s1, o) := step cfg s c in
              let '(s2, os) := run_from cfg s1 r in (s2, o :: os)
  end.
Definition run (cfg : config) (cs : list call) : list resp := snd (run_from cfg init_state cs).

(* the tenant a call is authenticated as *)
Definition caller (cfg : config) (c : call) : option N :=
  match auth cfg (c_key c) with Some ki => Some (k_tenant ki) | None => None end.
End Params.

(* ---------------------------------------------------------------- concrete parameters for evaluation *)
(* u32::to_string *)
Fixpoint dec_digits (fuel : nat) (n : N) (acc : str) : str :=
  match fuel with
  | O => acc
  | S f => let acc' := (48 + n mod 10) :: acc in
           if n / 10 =? 0 then acc' else dec_digits f (n / 10) acc'
  end.
Definition dec_str (n : N) : str := dec_digits 20 n [].
(* score table: association list squared distance -> f32 bits; -1 when absent *)
Fixpoint ztab (t : list (Z * Z)) (d : Z) : Z :=
  match t with [] => (-1)%Z | (k, v) :: r => if (k =? d)%Z then v else ztab r d end.

(* ---------------------------------------------------------------- boolean equality of observations *)
Fixpoint list_eqb {A} (e : A -> A -> bool) (a b : list A) : bool :=
  match a, b with [], [] => true | x :: a', y :: b' => e x y && list_eqb e a' b' | _, _ => false end.
Definition meta_eqb : meta -> meta -> bool := list_eqb (fun a b => str_eqb (fst a) (fst b) && str_eqb (snd a) (snd b)).
Definition vec_eqb : vec -> vec -> bool := list_eqb Z.eqb.
Definition code_eqb (a b : code) : bool :=
  match a, b with
  | Unauthenticated, Unauthenticated | InvalidArgument, InvalidArgument
  | ResourceExhausted, ResourceExhausted | Internal, Internal
  | Http401, Http401 | Http403, Http403 | Http400, Http400 => true
  | _, _ => false
  end.
Definition qres_eqb (a b : qres) : bool :=
  Bool.eqb (q_found a) (q_found b) && N.eqb (q_id a) (q_id b) && vec_eqb (q_vec a) (q_vec b) && meta_eqb (q_meta a) (q_meta b).
Definition hit_eqb (a b : hit) : bool :=
  N.eqb (h_id a) (h_id b) && Z.eqb (h_score a) (h_score b) && vec_eqb (h_vec a) (h_vec b) && meta_eqb (h_meta a) (h_meta b).
Definition usage_eqb (a b : usage) : bool :=
  N.eqb (u_query a) (u_query b) && N.eqb (u_insert a) (u_insert b) && N.eqb (u_delete a) (u_delete b)
  && N.eqb (u_vectors a) (u_vectors b) && N.eqb (u_bytes a) (u_bytes b).
Definition sres_eqb (a b : sres) : bool :=
  match a, b with
  | SErr x, SErr y => code_eqb x y
  | SOk h t, SOk h' t' => list_eqb hit_eqb h h' && N.eqb t t'
  | _, _ => false
  end.
Definition resp_eqb (a b : resp) : bool :=
  match a, b with
  | Err x, Err y => code_eqb x y
  | OkInsert s i f, OkInsert s' i' f' => Bool.eqb s s' && N.eqb i i' && N.eqb f f'
  | OkBulkLoad s i f, OkBulkLoad s' i' f' => Bool.eqb s s' && N.eqb i i' && N.eqb f f'
  | OkQuery q, OkQuery q' => qres_eqb q q'
  | OkBulkQuery r t n, OkBulkQuery r' t' n' => list_eqb qres_eqb r r' && N.eqb t t' && N.eqb n n'
  | OkSearch h t, OkSearch h' t' => list_eqb hit_eqb h h' && N.eqb t t'
  | OkBulkSearch r, OkBulkSearch r' => list_eqb sres_eqb r r'
  | OkExisted b, OkExisted b' => Bool.eqb b b'
  | OkBatchDelete n, OkBatchDelete n' => N.eqb n n'
  | OkFlush n, OkFlush n' => N.eqb n n'
  | OkUsage r, OkUsage r' => list_eqb (fun a b => N.eqb (fst a) (fst b) && usage_eqb (snd a) (snd b)) r r'
  | _, _ => false
  end.

(* ---------------------------------------------------------------- acceptance of an OBSERVED search answer
   The real engine breaks distance ties in an unspecified order (hash maps, HNSW), so an observed
   Search answer is accepted iff it is one of the answers the specification allows:
     sound    — every hit is a served document of the caller with the right id, score, vector and
                public metadata; no duplicates; distances non-decreasing; at most k hits;
     complete — (only when `exact`: see harness, the regime where hot tier + HNSW are exact) every
                served document strictly inside the global top-search_k cut and strictly closer than
                the last hit is present; total_found lies between the strict and the non-strict count. *)
Section Check.
Variable idx_str : N -> str.
Variable score : Z -> Z.
Definition cand_d (c : cand) : Z := fst (fst c).
Definition cand_g (c : cand) : N := snd (fst c).
Definition all_cands (ds : docs) (q : vec) : list cand :=
  csort (map (fun p => (dist2 q (d_vec (snd p)), fst p, snd p)) ds).
Fixpoint nth_d (n : nat) (l : list cand) : option Z :=
  match n, l with
  | O, c :: _ => Some (cand_d c)
  | S n', _ :: r => nth_d n' r
  | _, [] => None
  end.
Fixpoint nondecr (l : list Z) : bool :=
  match l with a :: ((b :: _) as r) => (a <=? b)%Z && nondecr r | _ => true end.
Fixpoint nodupb (l : list N) : bool :=
  match l with [] => true | x :: r => negb (existsb (N.eqb x) r) && nodupb r end.
Definition find_cand (cs : list cand) (local : N) : option cand :=
  find (fun c => N.eqb (to_local_doc_id (cand_g c)) local) cs.
Definition search_obs_ok (cfg : config) (ki : keyinfo) (ds : docs) (r : sreq) (exact : bool)
           (obs : list hit) (obs_tf : N) : bool :=
  match search_plan r with
  | None => false
  | Some search_k =>
    let all := all_cands ds (s_q r) in
    let eligible := List.filter (served idx_str score ki r) all in
    (* distance of the search_k-th global candidate; None = everything is inside the cut *)
    let cut := if N.of_nat (List.length all) <=? search_k then None else nth_d (N.to_nat search_k - 1) all in
    let inside_strict c := match cut with None => true | Some dc => (cand_d c <? dc)%Z end in
    let inside c := match cut with None => true | Some dc => (cand_d c <=? dc)%Z end in
    let must := List.filter inside_strict eligible in
    let may := if exact then List.filter inside eligible else eligible in
    let matched := map (fun h => find_cand may (h_id h)) obs in
    let sound :=
      forallb (fun hm => match snd hm with
                         | Some c => hit_eqb (fst hm) (mk_hit score r c)
                         | None => false end) (combine obs matched)
      && nodupb (map h_id obs)
      && nondecr (map (fun m => match m with Some c => cand_d c | None => 0%Z end) matched)
      && (N.of_nat (List.length obs) <=? s_k r)
      && (N.of_nat (List.length obs) <=? obs_tf) in
    let present c := existsb (fun h => N.eqb (h_id h) (to_local_doc_id (cand_g c))) obs in
    let complete :=
      if negb exact then true
      else
        (if N.of_nat (List.length obs) <? s_k r
         then forallb present must
         else match last matched None with
              | Some cl => forallb (fun c => present c || negb (cand_d c <? cand_d cl)%Z) must
              | None => true end)
        && (N.of_nat (List.length must) <=? obs_tf) && (obs_tf <=? N.of_nat (List.length may))
        && (N.min (s_k r) (N.of_nat (List.length must)) <=? N.of_nat (List.length obs)) in
    sound && complete
  end.
End Check.

(* observation of one call, as written by the harness *)
Inductive obs :=
| ObsResp (r : resp)                                       (* compared with resp_eqb *)
| ObsSearch (exact : bool) (hits : list hit) (tf : N)      (* checked with search_obs_ok *)
| ObsBulkSearch (exact : bool) (rs : list sres).

Section Compare.
Variable idx_str : N -> str.
Variable score : Z -> Z.
Fixpoint sres_list_ok (cfg : config) (ki : keyinfo) (ds : docs) (exact : bool) (rs : list sreq) (os : list sres) : bool :=
  match rs, os with
  | [], [] => true
  | r :: rs', o :: os' =>
      (match o with
       | SErr c => sres_eqb (search_core idx_str score cfg ki ds r) (SErr c)
       | SOk h t => is_sok (search_core idx_str score cfg ki ds r) && search_obs_ok idx_str score cfg ki ds r exact h t
       end) && sres_list_ok cfg ki ds exact rs' os'
  | _, _ => false
  end.
(* does the observation agree with the model at state s?  *)
Definition obs_ok (cfg : config) (s : state) (c : call) (o : obs) : bool :=
  let model := snd (step idx_str score cfg s c) in
  match o with
  | ObsResp r => resp_eqb model r
  | ObsSearch exact hits tf =>
      match auth cfg (c_key c), c_req c, model with
      | Some ki, RSearch r, OkSearch _ _ => search_obs_ok idx_str score cfg ki (st_docs s) r exact hits tf
      | _, _, _ => false
      end
  | ObsBulkSearch exact os =>
      match auth cfg (c_key c), c_req c with
      | Some ki, RBulkSearch rs => sres_list_ok cfg ki (st_docs s) exact rs os
      | _, _ => false
      end
  end.
(* indices (from 0) of the calls whose observation disagrees with the model *)
Fixpoint check_from (cfg : config) (s : state) (i : N) (cs : list (call * obs)) : list N :=
  match cs with
  | [] => []
  | (c, o) :: r =>
      let bad := if obs_ok cfg s c o then [] else [i] in
      bad ++ check_from cfg (fst (step idx_str score cfg s c)) (i + 1) r
  end.
Definition check_script (cfg : config) (cs : list (call * obs)) : list N := check_from cfg init_state 0 cs.
End Compare.

(* ================================================================ tenant index assignment and restart
   (used by the correspondence only; the theorems are per configuration)
   TenantIdMapper::load_or_create on a fresh data dir: the tenant ids of the ENABLED keys (one entry
   per API key) are sorted, DE-DUPLICATED and numbered 0,1,2…; the map is persisted (tenants.json).
   On a later start the persisted map is loaded and `ensure_tenant` gives a tenant it has not seen
   the index `map.len()` (start-up recount loop + interceptor). *)
Definition tmap := list (str * N).
Fixpoint tm_get (m : tmap) (t : str) : option N :=
  match m with [] => None | (t', i) :: r => if str_eqb t t' then Some i else tm_get r t end.
Fixpoint sinsert (t : str) (l : list str) : list str :=
  match l with
  | [] => [t]
  | x :: r => if str_eqb t x then l else if str_ltb t x then t :: l else x :: sinsert t r
  end.
Definition sort_dedup (l : list str) : list str := fold_right sinsert [] l.
Fixpoint enumerate_from (i : N) (l : list str) : tmap :=
  match l with [] => [] | t :: r => (t, i) :: enumerate_from (i + 1) r end.
Definition tmap_create (enabled_tids : list str) : tmap := enumerate_from 0 (sort_dedup enabled_tids).
Definition tmap_ensure (m : tmap) (t : str) : tmap :=
  match tm_get m t with Some _ => m | None => m ++ [(t, N.of_nat (List.length m))] end.
Definition tmap_ensure_all (m : tmap) (tids : list str) : tmap := fold_left tmap_ensure tids m.

(* one API-key entry of the key file: key id, tenant id, enabled, admin, max_vectors *)
Record keyspec := mkSpec { ks_key : N; ks_tid : str; ks_enabled : bool; ks_admin : bool; ks_maxvec : N }.
Definition enabled_tids (specs : list keyspec) : list str :=
  map ks_tid (List.filter ks_enabled specs).
Definition mk_config (m : tmap) (specs : list keyspec) (dim : N) : config :=
  mkCfg (map (fun k => (ks_key k,
                        mkKey (match tm_get m (ks_tid k) with Some i => i | None => 4294967295 end)
                              (ks_tid k) (ks_enabled k) (ks_admin k) (ks_maxvec k))) specs) dim.

Section Restart.
Variable idx_str : N -> str.
Variable score : Z -> Z.
(* graceful stop + start on the same data dir: documents and usage survive (WAL, usage snapshot), the
   hot tier is empty, tenant_vector_counts is recounted for every enabled tenant of the new key file *)
Definition recount (ds : docs) (t : N) : N :=
  len (List.filter (fun p => match mget (d_meta (snd p)) K_TIDX with Some x => str_eqb x (idx_str t) | None => false end) ds).
Definition restart_state (cfg : config) (s : state) : state :=
  let tenants := map (fun p => k_tenant (snd p)) (List.filter (fun p => k_enabled (snd p)) (c_keys cfg)) in
  mkState (st_docs s)
          (fold_left (fun m t => nset m t (recount (st_docs s) t)) tenants [])
          (st_usage s) [].
(* phases: (configuration, index of the first call, calls with observations); a restart in between *)
Fixpoint check_phases_from (s : state) (first : bool) (ps : list (config * N * list (call * obs))) : list N :=
  match ps with
  | [] => []
  | (cfg, i0, cs) :: r =>
      let s0 := if first then s else restart_state cfg s in
      check_from idx_str score cfg s0 i0 cs
      ++ check_phases_from (fst (run_from idx_str score cfg s0 (map fst cs))) false r
  end.
Definition check_phases (ps : list (config * N * list (call * obs))) : list N := check_phases_from init_state true ps.
End Restart.
