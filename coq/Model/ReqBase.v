(* Model/ReqBase.v — vocabulary shared by gen/Validators_gen.v (regenerated from /repo by harness/p/xl15 on
   every run) and Model/Requests.v (C15).  NO proofs in this file.

   f32 components are carried as value CLASSES (the validators only ask `is_finite`; the engine's
   normalisation only distinguishes "square overflows", "square underflows to 0" and ordinary values):
     FinNZ  finite, ordinary magnitude (|x| in [2^-10, 2^10]: squares and small sums are finite, > EPSILON)
     Zero   +0.0 / -0.0
     Sub    non-zero subnormal (x*x underflows to 0)
     Huge   finite, x*x overflows to +inf (|x| > 1.85e19; the harness uses 3e38)
     NaN, PInf, NInf
   Strings of metadata / filters are interned by the harness (injectively) into N; a namespace stays a
   byte list because the validator asks `is_empty`. *)
From Coq Require Import List NArith Bool.
Import ListNotations.
Open Scope N_scope.

Inductive fclass := FinNZ | Zero | Sub | Huge | NaN | PInf | NInf.
Definition fc_is_finite (c : fclass) : bool :=
  match c with NaN | PInf | NInf => false | _ => true end.
Definition fclass_eqb (a b : fclass) : bool :=
  match a, b with
  | FinNZ, FinNZ | Zero, Zero | Sub, Sub | Huge, Huge | NaN, NaN | PInf, PInf | NInf, NInf => true
  | _, _ => false
  end.

Definition bytes := list N.

(* proto MetadataFilter: PNone is `MetadataFilter { filter_type: None }`; every other constructor is a
   FilterType variant.  PRange k bounded: `bounded = false` is RangeMatch { bound: None }. *)
Inductive pfilter :=
| PNone
| PExact (k v : N)
| PRange (k : N) (bounded : bool)
| PIn (k : N) (vs : list N)
| PAnd (fs : list pfilter)
| POr (fs : list pfilter)
| PNot (f : option pfilter).
Definition has_type (f : pfilter) : bool := match f with PNone => false | _ => true end.

(* ---- request views read by the translated validators *)
Record insert_req := mkInsertReq { ir_doc_id : N; ir_embedding : list fclass }.
Record search_req := mkSearchReq {
  sr_query_embedding : list fclass; sr_k : N; sr_ef_search : N; sr_namespace : bytes;
  sr_filter : option pfilter
}.
(* api_validation::SearchValidationPlan *)
Record plan := mkPlan { search_k : N; ef_search_override : option N }.

(* Result<T, String>: the error text is dropped, the ordinal of the refusing `return Err` is kept *)
Inductive vresult (A : Type) := VOk (a : A) | VErr (site : N).
Arguments VOk {A} a.
Arguments VErr {A} site.
Definition v_is_ok {A} (r : vresult A) : bool := match r with VOk _ => true | VErr _ => false end.

(* ---- helpers the translator emits *)
Definition len {A} (l : list A) : N := N.of_nat (List.length l).
Definition is_nil {A} (l : list A) : bool := match l with [] => true | _ => false end.
Definition USIZE_MAX : N := 18446744073709551615.
Definition sat_mul (a b : N) : N := N.min (a * b) USIZE_MAX.          (* usize::saturating_mul *)
Definition clampN (x lo hi : N) : N := if x <? lo then lo else if hi <? x then hi else x.   (* Ord::clamp, lo <= hi *)
Definition opt_default (o : option N) (d : N) : N := match o with Some x => x | None => d end.
Fixpoint list_min (l : list N) : option N :=                          (* Iterator::min *)
  match l with
  | [] => None
  | x :: r => match list_min r with Some y => Some (N.min x y) | None => Some x end
  end.
Definition list_sum (l : list N) : N := fold_right N.add 0 l.         (* Iterator::sum::<usize>, no wrap below 2^64 *)
(* `.iter().filter_map(|f| f.filter_type.as_ref()).map(g)` *)
Definition sel_map (g : pfilter -> N) (fs : list pfilter) : list N :=
  flat_map (fun f => if has_type f then [g f] else []) fs.

(* harness literals: long homogeneous runs without unary numbers *)
Definition nrepeat {A} (x : A) (n : N) : list A := N.iter n (cons x) [].
