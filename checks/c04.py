"""C04 — lookups by id return the canonical latest version whatever the caches hold (DESIGN.md §3 C04).

Also hosts the machinery shared with checks/c20.py (same driver, same model): `drive(ctx, spec)`.
"""
import json
import os
import shutil
import vlib

PRE = ("From Coq Require Import List NArith ZArith Bool Arith. "
       "From Kyro Require Import Model.TMap Model.Tiered Proofs.TieredProofs. Import ListNotations.")

THEOREMS = {"Properties.C04": ["C04_reads_canonical", "C04_refines_map", "C04_history_latest_write_wins", "C04_drain_audit_neutral",
                               "C04_api_no_orphan", "C04_api_no_stale_mirror", "C04_orphan_repair_refuted", "C04_nonvacuous"]}
PINS = {"Properties.C04": {
    "_preamble": PRE,
    "C04_reads_canonical": "forall (digest : vec -> dgst), (forall a b : vec, digest a = digest b -> a = b) -> forall (c : config) (s : state) (adm : bool) (id : N) (ids : list N), option_map fst (snd (query digest c s adm id)) = option_map fst (lookup id (cold_docs s)) /\\ snd (get_doc digest c s id) = lookup id (cold_docs s) /\\ snd (get_emb digest c s id) = option_map fst (lookup id (cold_docs s)) /\\ get_meta s id = option_map snd (lookup id (cold_docs s)) /\\ exists_ digest s id = (match lookup id (cold_docs s) with Some _ => true | None => false end) /\\ map strip (snd (bulk digest c s true ids)) = map (fun i => lookup i (cold_docs s)) ids",
    "C04_refines_map": "forall (digest : vec -> dgst) (valid : vec -> bool), (forall a b : vec, digest a = digest b -> a = b) -> forall (c : config) (s : state) (o : op), no_orphan s -> forall k : N, lookup k (cold_docs (fst (step digest valid c s o))) = lookup k (spec_step valid (cold_docs s) o)",
    "C04_history_latest_write_wins": "forall (digest : vec -> dgst) (valid : vec -> bool), (forall a b : vec, digest a = digest b -> a = b) -> forall (c : config) (docs : list (N * vec * meta)) (ops : list op) (s : state), run_guarded digest valid c (init docs) ops = Some s -> forall k : N, lookup k (cold_docs s) = lookup k (fold_left (spec_step valid) ops (cold_docs (init docs)))",
    "C04_api_no_stale_mirror": "forall (digest : vec -> dgst) (valid : vec -> bool), (forall a b : vec, digest a = digest b -> a = b) -> forall (c : config) (docs : list (N * vec * meta)) (ops : list op), forallb no_hot_poke ops = true -> let s := run digest valid c (init docs) ops in forall (id : N) (h : hent), lookup id (hot s) = Some h -> (exists r, lookup id (cold s) = Some r /\\ h_vec h = c_vec r /\\ h_tok h = (c_ver r, digest (c_vec r))) /\\ canon_state digest s id (h_vec h) (h_tok h) = CMatch",
    "C04_api_no_orphan": "forall (digest : vec -> dgst) (valid : vec -> bool), (forall a b : vec, digest a = digest b -> a = b) -> forall (c : config) (docs : list (N * vec * meta)) (ops : list op) (s : state), run_guarded digest valid c (init docs) ops = Some s -> no_orphan s",
}}

TRUSTED = [
    "named assumption digest_inj (explicit premise of every C04 theorem): coherence.rs digest_embedding (128-bit Murmur3-style digest of the f32 bit patterns) has no collision between the payloads that ever meet in one id's history; the driver asserts pairwise-distinct digests over its vector pools on every run",
    "Model/Tiered.v is hand-written from tiered_engine.rs / hot_tier.rs / vector_cache.rs / lru_index.rs / cache_strategy.rs / hnsw_backend.rs (in-memory view of the cold tier); it is tied to the code by the per-operation, full-state correspondence evaluated inside coqc on every run, whose strength is that of the history generator (distribution in coverage.histogram)",
    "cache admission (CacheStrategy::should_cache) is an input of the model: the theorems quantify over all decisions, the driver records the real strategy's decisions through a wrapper around the Arc<dyn CacheStrategy> it hands to the engine",
    "cold tier = HnswBackend without persistence (persistence is C01-C03); accepted vectors are stored bit-for-bit (Euclidean metric, or already-normalised vectors under Cosine); `valid` (dimension, finiteness, non-zero norm under Cosine) is instantiated from the pool classification and cross-checked by the direct oracle",
    "not modelled: HNSW 'index full', age-based drain (max_age = 1 h in every history), circuit breakers (no timed search is issued, none ever opens), the query-result cache (C07), u64 saturation of versions",
    "background audit: reached only through spawn_flush_task; the driver runs it on a current-thread tokio runtime with flush_interval = 1 ms and sleeps before each tick so that the audit is due — a tick is modelled as audit followed by the threshold drain",
]


def _run_driver(ctx, out, n, seed, extra=None, timeout=2400):
    os.makedirs(out, exist_ok=True)
    for f in os.listdir(out):
        p = os.path.join(out, f)
        if os.path.isfile(p):
            os.remove(p)
    args = [vlib.bin_path("c04"), "--out", out, "--n", str(n)] + (extra or [])
    rc, o = vlib.sh(args, env={"VERIF_SEED": str(seed)}, timeout=timeout)
    return rc, o


def _coq_eval(prop, out, summ):
    shards = [open(os.path.join(out, "cases_%d.v" % i)).read() for i in range(summ["shards"])]
    res = vlib.coq_eval(prop, shards)
    bad, cases_eval, ops_eval, coq_err = [], 0, 0, []
    for i, (rc, o) in enumerate(res):
        tags = vlib.parse_tagged(o)
        if rc != 0 or "bad" not in tags or "count" not in tags:
            coq_err.append({"shard": i, "rc": rc, "out": o[-1500:]})
            continue
        nums = vlib.parse_numbers(tags["bad"].split(":")[0])
        bad += [(nums[k], nums[k + 1]) for k in range(0, len(nums) - 1, 2)]
        cn = vlib.parse_numbers(tags["count"].split(":")[0])
        cases_eval += cn[0]
        ops_eval += cn[1]
    return bad, cases_eval, ops_eval, coq_err


def _disagrees(prop, case, scratch):
    """True when model and implementation still disagree on this single history."""
    os.makedirs(scratch, exist_ok=True)
    path = os.path.join(scratch, "cand.json")
    json.dump(case, open(path, "w"))
    rc, o = vlib.sh([vlib.bin_path("c04"), "--out", scratch, "--n", "0", "--replay", path], timeout=300)
    if rc != 0:
        return False
    summ = json.load(open(os.path.join(scratch, "summary.json")))
    bad, _, _, err = _coq_eval(prop + "_shrink", scratch, summ)
    return bool(bad) and not err


def shrink_disagreement(prop, case, budget=50):
    """Delta debugging on ops_raw of a history on which model and implementation disagree."""
    scratch = os.path.join(vlib.CACHE, "run", prop + "_shrink")
    ops = list(case["ops_raw"])
    chunk = max(1, len(ops) // 2)
    tries = 0
    while tries < budget:
        progress = False
        start = 0
        while start < len(ops) and tries < budget:
            cand = ops[:start] + ops[start + chunk:]
            tries += 1
            c2 = dict(case, ops_raw=cand)
            if cand and _disagrees(prop, c2, scratch):
                ops = cand
                progress = True
            else:
                start += chunk
        if chunk == 1 and not progress:
            break
        if not progress:
            chunk = max(1, chunk // 2)
    return dict(case, ops_raw=ops, ops=["(see ops_raw)"], shrunk_from=len(case["ops_raw"]))


def shrink_oracle(prop, case):
    scratch = os.path.join(vlib.CACHE, "run", prop + "_shrink")
    os.makedirs(scratch, exist_ok=True)
    path = os.path.join(scratch, "fail.json")
    json.dump(case, open(path, "w"))
    rc, o = vlib.sh([vlib.bin_path("c04"), "--out", scratch, "--shrink", path], timeout=900)
    try:
        return json.load(open(os.path.join(scratch, "shrunk.json")))
    except Exception:
        return case


def drive(ctx, spec):
    """spec: prop, targets, theorems, pins, kinds (oracle failure kinds that are violations of this
    property), nontrivial_key, rule."""
    prop = spec["prop"]
    ctx.trusted += TRUSTED
    proofs_ok = ctx.proof_phase(spec["targets"], spec["theorems"], pins=spec["pins"])

    ok, log = vlib.cargo_build(["c04"])
    ctx.log("cargo.log", log)
    if not ok:
        ctx.say("harness build failed")
        ctx.violation({"property": prop, "kind": "harness-build-failed", "log_tail": log[-3000:],
                       "unchecked": "correspondence Model/Tiered.v vs engine/src/tiered_engine.rs"}, no_input=True)
        return
    out = os.path.join(vlib.CACHE, "run", prop)
    rounds = [(360, ctx.seed)] if ctx.tier == "quick" else [(2000, ctx.seed + 7919 * k) for k in range(5)]
    extra = ["--replay", ctx.replay] if ctx.replay else None
    if ctx.replay:
        rounds = [(0, ctx.seed)]
    tot = {"cases": 0, "ops": 0, "nontrivial": 0, "nontrivial_c20": 0, "orphan_histories": 0,
           "orphan_resurrections": 0, "hot_excess_after_poke": 0, "directed": 0}
    hist, samples, oracle_fail, bad_all, coq_err_all, cases_eval, ops_eval = {}, [], [], [], [], 0, 0
    first_bad_case = None
    for (n, seed) in rounds:
        rc, o = _run_driver(ctx, out, n, seed, extra)
        ctx.log("harness.log", o)
        if rc != 0:
            ctx.violation({"property": prop, "kind": "harness-crashed", "rc": rc, "seed": seed, "log_tail": o[-3000:]}, no_input=True)
            return
        summ = json.load(open(os.path.join(out, "summary.json")))
        allc = json.load(open(os.path.join(out, "all_cases.json")))
        for k in tot:
            tot[k] += summ.get(k, 0)
        for k, v in summ["histogram"].items():
            hist[k] = hist.get(k, 0) + v
        samples = samples or summ["samples"]
        oracle_fail += summ["oracle_failures"]
        bad, ce, oe, coq_err = _coq_eval(prop, out, summ)
        cases_eval += ce
        ops_eval += oe
        coq_err_all += coq_err
        if bad and first_bad_case is None:
            cid, step = bad[0]
            first_bad_case = (allc[cid] if cid < len(allc) else None, step, seed)
        bad_all += [(cid, step, seed) for (cid, step) in bad]
    mine = [f for f in oracle_fail if f["kind"] in spec["kinds"]]
    ctx.cov.update({
        "evaluations": tot["cases"],
        "distinct_nontrivial": tot[spec["nontrivial_key"]],
        "rule": spec["rule"],
        "samples": samples[:2] or allc[:1],
        "histogram": hist,
        "operations_run": tot["ops"],
        "traces_validated_against_impl": cases_eval,
        "operations_compared_in_coq": ops_eval,
        "model_disagreements": len(bad_all),
        "oracle_failures": len(mine),
        "oracle_failures_other_property": len(oracle_fail) - len(mine),
        "directed_histories": tot["directed"],
        "orphan_histories": tot["orphan_histories"],
        "by_design_orphan_resurrections_observed": tot["orphan_resurrections"],
        "inserts_past_hard_limit_after_mirror_pokes_observed": tot["hot_excess_after_poke"],
    })
    # by-design witnesses reproduced on the real engine (model witnesses C04_orphan_repair_refuted,
    # C20_hot_bound_orphans_refuted): reported as known findings when the coordinator registered them
    for key, count in (("C04-orphan-repair", tot["orphan_resurrections"]), ("C20-hot-bound-unrepairable-orphans", tot["hot_excess_after_poke"])):
        if count and key.startswith(prop):
            f = ctx.classify_known(key)
            if f:
                ctx.known_hit(f, "%d occurrences in harness-planted (non-API) histories" % count)
    # --- decide
    if mine:
        f = mine[0]
        small = shrink_oracle(prop, f["case"])
        ctx.violation({"property": prop, "kind": "oracle:" + f["kind"], "why": f["why"], "op_index": f["op_index"],
                       "case": small, "original_case": f["case"], "replay_cmd": "./check %s --replay <this file>" % prop})
        return
    broken = []
    if not proofs_ok:
        broken.append({"kind": "proof-obligations", "failed": ctx.failed_obligations})
    if coq_err_all:
        broken.append({"kind": "cases-evaluation-error", "detail": coq_err_all[:2]})
    if bad_all:
        case, step, seed = first_bad_case
        small = shrink_disagreement(prop, case) if case else None
        broken.append({"kind": "correspondence", "disagreements": len(bad_all),
                       "first": {"case_id": bad_all[0][0], "step": step, "seed": seed},
                       "minimised_disagreeing_history": small})
    if broken and not ctx.replay:
        ctx.say("proof/correspondence broken; widening the oracle search")
        found = []
        for k in range(3):
            rc, o = _run_driver(ctx, out + "_search", 4000, ctx.seed + 104729 * (k + 1))
            try:
                fs = json.load(open(os.path.join(out + "_search", "summary.json")))["oracle_failures"]
                found = [f for f in fs if f["kind"] in spec["kinds"]]
            except Exception:
                found = []
            if found:
                break
        if found:
            f = found[0]
            small = shrink_oracle(prop, f["case"])
            ctx.violation({"property": prop, "kind": "oracle:" + f["kind"], "why": f["why"], "case": small,
                           "original_case": f["case"], "broken": broken})
        else:
            # the minimised disagreeing history is the most concrete input available
            first = next((b for b in broken if b["kind"] == "correspondence"), None)
            ctx.violation({"property": prop, "kind": "no-failing-input-found", "broken": broken,
                           "case": first["minimised_disagreeing_history"] if first else None,
                           "note": "a theorem no longer checks or model and implementation disagree, but no history violating the property's oracle was found in 12000 further seeded histories"},
                          no_input=True)
    elif broken:
        ctx.violation({"property": prop, "kind": "replay-disagrees", "broken": broken}, no_input=True)
    shutil.rmtree(out + "_search", ignore_errors=True)


def run(ctx):
    drive(ctx, {
        "prop": "C04",
        "targets": ["Properties/C04.vo"],
        "theorems": THEOREMS,
        "pins": PINS,
        "kinds": ["read-mismatch", "cold-diverged", "write-result", "unexpected-error", "harness-observation"],
        "nontrivial_key": "nontrivial",
        "rule": "seeded histories (4-40 ops, 6 ids, 10-vector pool with duplicates / -0.0 twin / tiny / huge / invalid vectors) over the public TieredEngine API: insert, delete, batch_delete, update_metadata(merge|replace), bulk_load_cold_tier, flush_hot_tier(force|threshold), background tick (audit + threshold drain), query_with_source, get_document_with_metadata, get_embedding_cache_aware, get_metadata, exists, bulk_query_with_source, plus pokes through harness-owned handles (CacheStrategy::insert_cached, HotTier::insert_with_coherence) planting stale / corrupt / orphan copies; strategies LRU, learned (untrained, trained), learned+semantic, A/B; capacities {1,2,8}; hard limit {1,2,4}; soft {1,2,3,100}; Euclidean and Cosine; 7 directed histories first. After EVERY op the result and the full state (cold, hot, both L1a caches, 4 counters) are compared with the model inside coqc, and the oracle compares every read and the whole canonical store with a shadow map of successful writes. A history is non-trivial when it is distinct and contains a read served from the cache or the mirror after a rewrite of that id, a read that scrubbed a stale copy, or an emergency drain",
    })
